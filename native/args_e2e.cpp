// C04 end to end: the message a sink receives == the configured sanitisation of fmt::format(template, args...) evaluated at the
// call site, for argument lists built from an enumerated family of argument KINDS (char, arithmetic, bool, enum-like, C string,
// char array, std::string, std::string_view, pointer, vector / array / pair / optional / tuple of those) x an enumerated family
// of VALUES that includes non-printable bytes, through the real frontend (LOG_INFO -> Codec<T> -> queue) and the real backend
// (ManualBackendWorker -> decode_and_store_arg -> DynamicFormatArgStore -> vformat -> sanitize_non_printable_chars).
// The arguments are overwritten / destroyed between the log call and the backend pass (deep copy).
// The contract units cover the codecs per type; this stand-in covers what no per-function contract sees: that the TYPE-LEVEL
// decisions (which decoded types count as "string related", which are copied into the store) compose to the property's statement.
#include "quill/Backend.h"
#include "quill/Frontend.h"
#include "quill/LogMacros.h"
#include "quill/Logger.h"
#include "quill/sinks/Sink.h"
#include "quill/std/Array.h"
#include "quill/std/Optional.h"
#include "quill/std/Pair.h"
#include "quill/std/Tuple.h"
#include "quill/std/Vector.h"
#include "quill/bundled/fmt/ranges.h"
#include "quill/bundled/fmt/std.h"
#define CRASH_TAG "C04"
#include "enum.h"
#include <cstring>
#include <memory>
#ifndef NVAL
#define NVAL 6
#endif
struct RecSink : quill::Sink
{
  std::vector<std::string> messages;
  void write_log(quill::MacroMetadata const*, uint64_t, std::string_view, std::string_view, std::string const&, std::string_view, quill::LogLevel,
                 std::string_view, std::string_view, std::vector<std::pair<std::string, std::string>> const*, std::string_view log_message, std::string_view) override
  { messages.emplace_back(log_message); }
  void flush_sink() override {}
};
// SPEC of the default sanitisation (BackendOptions::check_printable_char default: printable = ' '..'~' or '\n'): every other byte -> \xHH upper case
static std::string spec_sanitize(std::string const& s)
{
  std::string o; static char const* hex = "0123456789ABCDEF";
  for (char c : s) { if ((c >= ' ' && c <= '~') || c == '\n') o += c; else { o += '\\'; o += 'x'; o += hex[(c >> 4) & 0xF]; o += hex[c & 0xF]; } }
  return o;
}
static quill::ManualBackendWorker* backend; static std::shared_ptr<RecSink> sink; static quill::Logger* lg;
static Obl o1{"args_e2e.same_text", "C04", "", "the message the sink receives equals the sanitised text that formatting the same template and arguments at the call site gives, whatever the argument types and values (non-printable bytes in char and string arguments included)"};
static Obl o2{"args_e2e.deep_copy", "C04", "", "changing or destroying the arguments after the log call returns does not change the output"};
static long g_n = 0;
static void expect(std::string const& what, std::string const& want_raw, bool mutated)
{
  backend->poll();
  std::string want = spec_sanitize(want_raw);
  if (!want.empty() && want.back() == '\n') want.pop_back();   // C12: a statement is handed over with at most one trailing newline removed
  bool const ok = sink->messages.size() == 1 && sink->messages[0] == want;
  check(mutated ? o2 : o1, ok, what + " want=" + want + " got=" + (sink->messages.empty() ? std::string("<nothing>") : sink->messages[0]));
  sink->messages.clear(); ++g_n;
}
// the interesting byte values: printable, the boundaries of the printable range, control characters, NUL-adjacent, high bit
static char const VALS[] = {'a', '~', ' ', '\t', '\x01', '\x7f', '\x1b', (char)0x80, '\n', '{'};
int main()
{
  backend = quill::Backend::acquire_manual_backend_worker();
  quill::BackendOptions bo; bo.log_timestamp_ordering_grace_period = std::chrono::microseconds{0};
  backend->init(bo);
  sink = std::make_shared<RecSink>();
  lg = quill::Frontend::create_or_get_logger("e2e", std::static_pointer_cast<quill::Sink>(sink), quill::PatternFormatterOptions{"%(message)", "%H:%M:%S", quill::Timezone::GmtTime, false}, quill::ClockSourceType::System);
  int const nv = NVAL < (int)sizeof(VALS) ? NVAL : (int)sizeof(VALS);
  for (int i = 0; i < nv; i++)
  {
    char const c = VALS[i];
    current_case(std::string("value ") + show(std::string(1, c)));
    // --- one argument of each kind holding the byte (where the kind can hold a byte) -------------------------------------------
    { char a = c; LOG_INFO(lg, "c={}", a); std::string w = fmtquill::format("c={}", c); a = 'Z'; expect("char", w, false); }
    { std::string a(3, c); LOG_INFO(lg, "s={}", a); std::string w = fmtquill::format("s={}", std::string(3, c)); a.assign("ZZZZZZZZ"); expect("std::string", w, true); }
    { auto a = std::make_unique<std::string>(2, c); std::string_view v{*a}; LOG_INFO(lg, "v={}", v); std::string w = fmtquill::format("v={}", std::string(2, c)); a.reset(); expect("std::string_view", w, true); }
    if (c != 0) { char buf[4] = {c, c, 0, 0}; char const* p = buf; LOG_INFO(lg, "p={}", p); std::string w = fmtquill::format("p={}", std::string(2, c)); buf[0] = 'Z'; buf[1] = 0; expect("char const*", w, true); }
    { char arr[3] = {c, c, c}; LOG_INFO(lg, "a={}", arr); std::string w = fmtquill::format("a={}", std::string(3, c)); arr[0] = 'Z'; expect("char[3] without terminator", w, true); }
    // --- the byte next to arguments of other kinds: the decision must not depend on the position or on the neighbours -----------
    { char a = c; LOG_INFO(lg, "{} {} {}", 42, a, 1.5); expect("int char double", fmtquill::format("{} {} {}", 42, c, 1.5), false); }
    { char a = c; LOG_INFO(lg, "{} {}", a, true); expect("char bool", fmtquill::format("{} {}", c, true), false); }
    { char a = c; LOG_INFO(lg, "{} {}", (uint64_t)7, a); expect("uint64 char", fmtquill::format("{} {}", (uint64_t)7, c), false); }
    { char a = c; void const* q = nullptr; LOG_INFO(lg, "{} {}", q, a); expect("pointer char", fmtquill::format("{} {}", q, c), false); }
    { std::string a(1, c); LOG_INFO(lg, "{} {}", -3, a); expect("int std::string", fmtquill::format("{} {}", -3, std::string(1, c)), false); }
    { char a = c; char b = 'b'; LOG_INFO(lg, "{}{}", b, a); expect("char char", fmtquill::format("{}{}", 'b', c), false); }
    // --- containers of the kinds (their formatted text carries the bytes through fmt's range / tuple formatters) ----------------
    { std::vector<std::string> a{std::string(1, c), "x"}; LOG_INFO(lg, "{}", a); std::string w = fmtquill::format("{}", std::vector<std::string>{std::string(1, c), "x"}); a.clear(); expect("vector<string>", w, true); }
    { std::pair<int, std::string> a{1, std::string(2, c)}; LOG_INFO(lg, "{}", a); std::string w = fmtquill::format("{}", std::pair<int, std::string>{1, std::string(2, c)}); a.second = "Z"; expect("pair<int,string>", w, true); }
    { std::optional<std::string> a{std::string(1, c)}; LOG_INFO(lg, "{}", a); std::string w = fmtquill::format("{}", std::optional<std::string>{std::string(1, c)}); a.reset(); expect("optional<string>", w, true); }
    { std::tuple<int, std::string, double> a{1, std::string(1, c), 2.5}; LOG_INFO(lg, "{}", a); std::string w = fmtquill::format("{}", std::tuple<int, std::string, double>{1, std::string(1, c), 2.5}); std::get<1>(a) = "Z"; expect("tuple<int,string,double>", w, true); }
    { std::array<std::string, 2> a{std::string(1, c), "y"}; LOG_INFO(lg, "{}", a); std::string w = fmtquill::format("{}", std::array<std::string, 2>{std::string(1, c), "y"}); a[0] = "Z"; expect("array<string,2>", w, true); }
    { std::vector<char> a{c, 'k'}; LOG_INFO(lg, "{}", a); std::string w = fmtquill::format("{}", std::vector<char>{c, 'k'}); a.clear(); expect("vector<char>", w, true); }
    // --- with a format spec -----------------------------------------------------------------------------------------------------
    { char a = c; LOG_INFO(lg, "[{:>3}]", a); expect("char with width", fmtquill::format("[{:>3}]", c), false); }
    { std::string a(1, c); LOG_INFO(lg, "[{:<4}]", a); expect("string with width", fmtquill::format("[{:<4}]", std::string(1, c)), false); }
  }
  // arguments that cannot hold a non-printable byte: plain equality (every value family is small and fixed)
  current_case("arithmetic");
  { LOG_INFO(lg, "{} {} {} {}", (int8_t)-128, (uint16_t)65535, (int64_t)INT64_MIN, (uint64_t)UINT64_MAX); expect("integers", fmtquill::format("{} {} {} {}", (int8_t)-128, (uint16_t)65535, (int64_t)INT64_MIN, (uint64_t)UINT64_MAX), false); }
  { LOG_INFO(lg, "{} {} {}", 0.1f, -0.0, 1e300); expect("floating", fmtquill::format("{} {} {}", 0.1f, -0.0, 1e300), false); }
  { double const inf = std::numeric_limits<double>::infinity(); double const nan = std::numeric_limits<double>::quiet_NaN(); LOG_INFO(lg, "{} {}", inf, nan); expect("inf nan", fmtquill::format("{} {}", inf, nan), false); }
  { char const* np = nullptr; LOG_INFO(lg, "{}", np); expect("null C string (fmt itself rejects it at the call site: quill renders the empty string)", "", false); }
  { std::string e; LOG_INFO(lg, "[{}]", e); expect("empty string", "[]", false); }
  { std::string z("a\0b", 3); LOG_INFO(lg, "{}", z); std::string w = fmtquill::format("{}", std::string("a\0b", 3)); z.assign("Q"); expect("embedded NUL", w, true); }
  printf("SPACE %d byte values (printable, both ends of the printable range, control characters, high bit, newline, brace) x 20 argument lists per value + 6 fixed lists, through the real frontend + ManualBackendWorker\n", nv);
  printf("DISTINCT %ld\n", g_n);
  printf("SAMPLE int char(\\x01) double\n");
  report(o1); report(o2);
  return (o1.failed || o2.failed) ? 1 : 0;
}
