// C18: backtrace logging through the real pipeline (frontend macros, ManualBackendWorker, recording sink) against a reference
// model, for EVERY history of <= LEN actions over
//   b: LOG_BACKTRACE   i: LOG_INFO (below the flush level)   e: LOG_ERROR (at the flush level)   f: flush_backtrace()
//   2 / 3: init_backtrace(capacity 2 / 3, flush level Error)   B / E: the same b / e on a SECOND logger (own storage)
// Model: per logger the stored list keeps the most recent `capacity` backtrace statements since the last flush; a flush
// (explicit or by a statement at / above the flush level) writes them oldest first right after the trigger, then forgets
// them; re-initialising with a different capacity forgets, with the same capacity keeps.
#define CRASH_TAG "C18"
#include "quill/Backend.h"
#include "quill/Frontend.h"
#include "quill/LogMacros.h"
#include "quill/Logger.h"
#include "quill/sinks/Sink.h"
#include "enum.h"
#include <deque>
#ifndef LEN
#define LEN 6
#endif
struct RecSink : quill::Sink
{
  std::vector<std::string> messages;
  void write_log(quill::MacroMetadata const*, uint64_t, std::string_view, std::string_view, std::string const&, std::string_view, quill::LogLevel,
                 std::string_view, std::string_view, std::vector<std::pair<std::string, std::string>> const*, std::string_view log_message, std::string_view) override
  { messages.emplace_back(log_message); }
  void flush_sink() override {}
};
struct Model { uint32_t cap = 0; std::deque<std::string> stored; };
int main()
{
  quill::ManualBackendWorker* backend = quill::Backend::acquire_manual_backend_worker();
  quill::BackendOptions bo; bo.log_timestamp_ordering_grace_period = std::chrono::microseconds{0};
  backend->init(bo);
  auto sink = std::make_shared<RecSink>();
  Obl o1{"backtrace.history_equals_model", "C18", "", "what reaches the sink equals the model for the whole history: backtrace statements are not written when logged; a flush writes exactly the most recent min(capacity, stored since the last flush), once each, oldest first, right after the trigger, and forgets them"};
  long n = 0; long round = 0;
  for (std::string const prefix : {std::string(""), std::string("bbb")})      // second series: every history continues a ring that has already wrapped
  n += for_all_strings("bief23BE", prefix.empty() ? LEN : LEN - 1, [&](std::string const& h0) {
    std::string const h = prefix + h0;
    // fresh loggers per history (their backtrace storage is per logger object)
    std::string tag = std::to_string(round++);
    quill::Logger* l1 = quill::Frontend::create_or_get_logger("A" + tag, std::static_pointer_cast<quill::Sink>(sink), quill::PatternFormatterOptions{"%(message)"});
    quill::Logger* l2 = quill::Frontend::create_or_get_logger("B" + tag, std::static_pointer_cast<quill::Sink>(sink), quill::PatternFormatterOptions{"%(message)"});
    l1->init_backtrace(2, quill::LogLevel::Error); l2->init_backtrace(2, quill::LogLevel::Error);
    Model m1, m2; m1.cap = 2; m2.cap = 2; std::vector<std::string> want; int k = 0;
    current_case(h);
    auto store = [](Model& m, std::string const& s) { if (m.cap == 0) return; m.stored.push_back(s); while (m.stored.size() > m.cap) m.stored.pop_front(); };
    auto flush = [&](Model& m) { for (auto const& s : m.stored) want.push_back(s); m.stored.clear(); };
    for (char c : h)
    {
      std::string s = std::string(1, c) + std::to_string(k++);
      switch (c)
      {
      case 'b': LOG_BACKTRACE(l1, "{}", s); store(m1, s); break;
      case 'B': LOG_BACKTRACE(l2, "{}", s); store(m2, s); break;
      case 'i': LOG_INFO(l1, "{}", s); want.push_back(s); break;
      case 'e': LOG_ERROR(l1, "{}", s); want.push_back(s); flush(m1); break;
      case 'E': LOG_ERROR(l2, "{}", s); want.push_back(s); flush(m2); break;
      case 'f': l1->flush_backtrace(); flush(m1); break;
      case '2': l1->init_backtrace(2, quill::LogLevel::Error); if (m1.cap != 2) { m1.cap = 2; m1.stored.clear(); } break;
      case '3': l1->init_backtrace(3, quill::LogLevel::Error); if (m1.cap != 3) { m1.cap = 3; m1.stored.clear(); } break;
      }
    }
    for (int p = 0; p < 4; ++p) backend->poll();
    while (true) { size_t before = sink->messages.size(); backend->poll(); if (sink->messages.size() == before) break; }
    std::string got, exp; for (auto const& s : sink->messages) got += s + " "; for (auto const& s : want) exp += s + " ";
    check(o1, sink->messages == want, h + " got [" + got + "] want [" + exp + "]");
    sink->messages.clear();
    quill::Frontend::remove_logger(l1); quill::Frontend::remove_logger(l2);
    backend->poll(); backend->poll();
  });
  printf("SPACE every history of <= %d actions (and every history of one action less after three backtrace statements that wrap the ring) over {backtrace, info, error (flush level), flush_backtrace, init(2), init(3), backtrace / error on a second logger}, two fresh loggers per history, through the real frontend + ManualBackendWorker\n", LEN);
  printf("DISTINCT %ld\n", n);
  printf("SAMPLE b b b e 3 b b b b f\n");
  report(o1);
  fflush(stdout); _exit(o1.failed ? 1 : 0);   // skip the teardown of several hundred thousand removed loggers (minutes)
}
