// C09: a blocking queue through the real pipeline: one real frontend thread logs on command into a BoundedBlocking queue of
// 1 KiB (second run -DSERIES_UNBOUNDED: UnboundedBlocking, 1 KiB growing to at most 2 KiB); the main thread runs backend passes
// only while the producer is blocked.  For every history of <= LEN statements over five sizes (1-, 40-, 300-byte arguments, one
// that fills the queue but for 3 bytes, and - unbounded only - one that needs the 2 KiB buffer):
// every log call returns after a bounded number of backend passes (it is never left waiting on an empty queue with an idle
// backend), and all statements are delivered exactly once, complete and in order.
#define CRASH_TAG "C09"
#define CASE_TIMEOUT_S 300
#include "quill/Backend.h"
#include "quill/Frontend.h"
#include "quill/LogMacros.h"
#include "quill/Logger.h"
#include "quill/sinks/Sink.h"
#include "enum.h"
#include <atomic>
#include <condition_variable>
#include <mutex>
#include <thread>
#ifndef LEN
#define LEN 6
#endif
struct RecSink : quill::Sink
{
  std::vector<std::string> messages;
  void write_log(quill::MacroMetadata const*, uint64_t, std::string_view, std::string_view, std::string const&, std::string_view, quill::LogLevel,
                 std::string_view, std::string_view, std::vector<std::pair<std::string, std::string>> const*, std::string_view log_message, std::string_view) override
  { messages.emplace_back(log_message); }
  void flush_sink() override {}
};
#ifdef SERIES_UNBOUNDED
struct Opts { static constexpr quill::QueueType queue_type = quill::QueueType::UnboundedBlocking; static constexpr size_t initial_queue_capacity = 1024; static constexpr uint32_t blocking_queue_retry_interval_ns = 800;
              static constexpr size_t unbounded_queue_max_capacity = 2048; static constexpr quill::HugePagesPolicy huge_pages_policy = quill::HugePagesPolicy::Never; };
static char const* const ALPHABET = "tsmlx";
#else
struct Opts { static constexpr quill::QueueType queue_type = quill::QueueType::BoundedBlocking; static constexpr size_t initial_queue_capacity = 1024; static constexpr uint32_t blocking_queue_retry_interval_ns = 800;
              static constexpr size_t unbounded_queue_max_capacity = 2048; static constexpr quill::HugePagesPolicy huge_pages_policy = quill::HugePagesPolicy::Never; };
static char const* const ALPHABET = "tsml";
#endif
using FrontendT = quill::FrontendImpl<Opts>; using LoggerT = quill::LoggerImpl<Opts>;
struct Worker
{
  std::mutex m; std::condition_variable cv; bool has = false, quit = false; std::atomic<bool> busy{false}; std::string text; LoggerT* lg = nullptr; std::thread th;
  void start(LoggerT* l) { lg = l; th = std::thread([this]() { std::unique_lock<std::mutex> lk(m); while (true) { cv.wait(lk, [this]() { return has || quit; }); if (quit) return; has = false; std::string t = text; lk.unlock(); LOG_INFO(lg, "{}", t); busy.store(false); lk.lock(); } }); }
  void begin(std::string const& t) { { std::lock_guard<std::mutex> lk(m); text = t; has = true; busy.store(true); } cv.notify_all(); }
  void stop() { { std::lock_guard<std::mutex> lk(m); quit = true; } cv.notify_all(); th.join(); }
};
int main()
{
  quill::ManualBackendWorker* backend = quill::Backend::acquire_manual_backend_worker();
  quill::BackendOptions bo; bo.log_timestamp_ordering_grace_period = std::chrono::microseconds{0};
  bo.error_notifier = [](std::string const&) {};   // "Experienced N blocking occurrences" is expected here
  backend->init(bo);
  auto sink = std::make_shared<RecSink>();
  LoggerT* lg = FrontendT::create_or_get_logger("blk", std::static_pointer_cast<quill::Sink>(sink), quill::PatternFormatterOptions{"%(message)"});
  Worker w; w.start(lg);
  Obl o1{"blocking.returns_after_finitely_many_passes", "C09", "", "a blocking log call whose record fits the queue's (maximum) capacity returns after a bounded number of backend passes: it is never left waiting while its queue is empty and the backend is idle"};
  Obl o2{"blocking.delivered_once_in_order", "C03", "", "every statement is delivered exactly once, complete and in order"};
  std::string const T(""), S(40, 's'), M(300, 'm'), Lg(984, 'l'), X(1900, 'x');
  long n = for_all_strings(ALPHABET, LEN, [&](std::string const& h) {
    current_case(h);
    std::vector<std::string> want; int k = 0; bool bounded_ok = true; std::string worst;
    for (char c : h)
    {
      std::string const& body = c == 't' ? T : (c == 's' ? S : (c == 'm' ? M : (c == 'l' ? Lg : X)));
      std::string text = std::to_string(k++ % 10) + body; want.push_back(text);
      w.begin(text);
      // let the producer try on its own first; run backend passes only while it is blocked
      // (the criterion is wall time with the backend polling all the while, not a number of passes: on a loaded machine the
      //  producer thread may not be scheduled for many passes; a healthy call needs microseconds, a stuck one never returns)
      long passes = 0; auto const start = std::chrono::steady_clock::now(); auto t0 = start;
      while (w.busy.load())
      {
        auto const now = std::chrono::steady_clock::now();
        if (now - t0 > std::chrono::microseconds{500}) { backend->poll_one(); ++passes; t0 = now; }
        if (now - start > std::chrono::seconds{20}) { bounded_ok = false; worst = "statement #" + std::to_string(k - 1) + " (" + std::string(1, c) + ") still blocked after 20 s and " + std::to_string(passes) + " backend passes"; break; }
      }
      if (!bounded_ok) break;
    }
    if (!bounded_ok)
    {
      check(o1, false, h + ": " + worst);
      // un-wedge: keep polling so that the producer eventually gets out (if it can) before the next history
      for (int i = 0; i < 2000 && w.busy.load(); ++i) { backend->poll_one(); std::this_thread::sleep_for(std::chrono::milliseconds{1}); }
      if (w.busy.load()) { report(o1); fflush(stdout); _exit(1); }
    }
    else check(o1, true, "");
    backend->poll(); backend->poll_one();
    if (bounded_ok) check(o2, sink->messages == want, h + " delivered " + std::to_string(sink->messages.size()) + " of " + std::to_string(want.size()));
    sink->messages.clear();
  });
  w.stop();
  printf("SPACE every history of <= %d statements over %zu sizes, one real producer thread logging on command into a blocking queue (1 KiB%s), backend passes only while the producer is blocked\n", LEN, strlen(ALPHABET), strlen(ALPHABET) == 5 ? ", growing to 2 KiB" : "");
  printf("DISTINCT %ld\n", n);
  printf("SAMPLE tl\n");
  report(o1); report(o2);
  fflush(stdout); _exit((o1.failed || o2.failed) ? 1 : 0);
}
