// C04: the codecs of include/quill/std (containers, optional, pair, tuple, chrono, filesystem::path) and the string arms,
// driven directly: for every value of an enumerated family,  compute_encoded_size == bytes written by encode == bytes
// consumed by decode_and_store_arg, the size cache is consumed exactly, and formatting the DECODED argument store gives the
// text that formatting the argument at the call site gives.  The buffer is poisoned and the source argument destroyed before
// decoding (the record must not alias the argument).
#include "quill/bundled/fmt/format.h"
#include "quill/bundled/fmt/ranges.h"
#include "quill/bundled/fmt/std.h"
#include "quill/bundled/fmt/chrono.h"
#include "quill/core/Codec.h"
#include "quill/core/DynamicFormatArgStore.h"
#include "quill/std/Array.h"
#include "quill/std/Chrono.h"
#include "quill/std/Deque.h"
#include "quill/std/FilesystemPath.h"
#include "quill/std/ForwardList.h"
#include "quill/std/List.h"
#include "quill/std/Map.h"
#include "quill/std/Optional.h"
#include "quill/std/Pair.h"
#include "quill/std/Set.h"
#include "quill/std/Tuple.h"
#include "quill/std/Vector.h"
#define CRASH_TAG "C04"
#include "enum.h"
#include <cstring>
#include <memory>
#ifndef MAXN
#define MAXN 4
#endif
using namespace quill;
static Obl o1{"codec_std.sizes_agree", "C04", "", "bytes reserved by compute_encoded_size == bytes written by encode == bytes consumed by decode, and the encode pass consumes exactly the cached lengths"};
static Obl o2{"codec_std.same_text", "C04", "", "formatting the decoded argument gives the text that formatting the argument at the call site gives (the argument is destroyed before decoding)"};
static long g_n = 0;
// one round trip of a heap-allocated argument (so that it can be destroyed before decoding)
template <typename T>
static void round_trip(char const* what, std::unique_ptr<T> arg, char const* fmt = "{}")
{
  ++g_n;
  std::string const want = fmtquill::format(fmtquill::runtime(fmt), *arg);
  current_case(std::string(what) + " " + show(want));
  detail::SizeCacheVector cache; cache.clear();
  size_t const size = Codec<T>::compute_encoded_size(cache, *arg);
  std::vector<std::byte> buf(size + 64, std::byte{0xAA});
  std::byte* w = buf.data(); uint32_t idx = 0;
  Codec<T>::encode(w, cache, idx, *arg);
  size_t const written = (size_t)(w - buf.data());
  bool guard = true; for (size_t i = size; i < buf.size(); ++i) guard = guard && buf[i] == std::byte{0xAA};
  arg.reset();                                   // the argument is gone before the backend looks at the record
  DynamicFormatArgStore store; std::byte* r = buf.data();
  Codec<T>::decode_and_store_arg(r, &store);
  size_t const consumed = (size_t)(r - buf.data());
  std::string got;
  try { got = fmtquill::vformat(fmt, fmtquill::basic_format_args<fmtquill::format_context>{store.data(), store.size()}); } catch (std::exception const& e) { got = std::string("EXC ") + e.what(); }
  std::string in = std::string(what) + " " + want;
  check(o1, written == size && consumed == size && idx == cache.size() && guard, in + " reserved=" + std::to_string(size) + " written=" + std::to_string(written) + " consumed=" + std::to_string(consumed));
  check(o2, got == want, in + " got=" + got);
}
template <typename T, typename... A> static std::unique_ptr<T> mk(A&&... a) { return std::make_unique<T>(std::forward<A>(a)...); }
int main()
{
  std::vector<std::string> S = {"", "a", "hello world", std::string("em\0bedded", 9), std::string(300, 'x'), "{}", "caf\xC3\xA9"};
  // scalars and strings (primary template arms)
  for (auto const& s : S) { round_trip("std::string", mk<std::string>(s)); }
  for (long long v : {0ll, -1ll, 42ll, (long long)INT64_MIN, (long long)INT64_MAX}) { round_trip("int64", mk<long long>(v)); round_trip("double", mk<double>((double)v / 3)); round_trip("int64 hex", mk<long long>(v), "{:x}"); }
  // containers of every size 0..MAXN, arithmetic and string elements, nested
  for (int n = 0; n <= MAXN; ++n)
  {
    std::vector<int> vi; std::vector<std::string> vs; std::deque<std::string> ds; std::list<double> ld; std::forward_list<std::string> fs; std::set<std::string> ss; std::map<std::string, int> msi; std::map<int, std::string> mis;
    std::vector<std::vector<std::string>> vvs; std::vector<std::optional<std::string>> vos; std::vector<std::pair<std::string, int>> vps;
    for (int i = 0; i < n; ++i)
    {
      vi.push_back(i * 1000 - 7); vs.push_back(S[i % S.size()]); ds.push_back(S[(i + 2) % S.size()]); ld.push_back(i / 4.0); fs.push_front(S[(i + 1) % S.size()]); ss.insert(S[i % S.size()] + std::to_string(i));
      msi[S[i % S.size()] + std::to_string(i)] = i; mis[i] = S[(i + 3) % S.size()]; vvs.push_back(std::vector<std::string>(S.begin(), S.begin() + (i % 3)));
      vos.push_back(i % 2 ? std::optional<std::string>{S[i % S.size()]} : std::nullopt); vps.push_back({S[i % S.size()], i});
    }
    { static char const* lits[5] = {"", "a", "hello", "{}", "0123456789"}; std::vector<char const*> vc; for (int i = 0; i < n; ++i) vc.push_back(lits[i % 5]); round_trip("vector<char const*>", mk<std::vector<char const*>>(vc)); }
    { std::set<int, std::greater<int>> sg; std::multiset<int, std::greater<int>> msg; std::map<int, std::string, std::greater<int>> mg;       // user-chosen ordering: the backend must print the same order
      for (int i = 0; i < n; ++i) { sg.insert(100 + i); msg.insert(100 + i / 2); mg[100 + i] = S[i % S.size()]; }
      round_trip("set<int,greater>", mk<std::set<int, std::greater<int>>>(sg)); round_trip("multiset<int,greater>", mk<std::multiset<int, std::greater<int>>>(msg));
      round_trip("map<int,string,greater>", mk<std::map<int, std::string, std::greater<int>>>(mg)); }
    round_trip("vector<int>", mk<std::vector<int>>(vi)); round_trip("vector<string>", mk<std::vector<std::string>>(vs)); round_trip("deque<string>", mk<std::deque<std::string>>(ds));
    round_trip("list<double>", mk<std::list<double>>(ld)); round_trip("forward_list<string>", mk<std::forward_list<std::string>>(fs)); round_trip("set<string>", mk<std::set<std::string>>(ss));
    round_trip("map<string,int>", mk<std::map<std::string, int>>(msi)); round_trip("map<int,string>", mk<std::map<int, std::string>>(mis));
    round_trip("vector<vector<string>>", mk<std::vector<std::vector<std::string>>>(vvs)); round_trip("vector<optional<string>>", mk<std::vector<std::optional<std::string>>>(vos));
    round_trip("vector<pair<string,int>>", mk<std::vector<std::pair<std::string, int>>>(vps));
  }
  for (auto const& a : S) for (auto const& b : S)
  {
    round_trip("pair<string,string>", mk<std::pair<std::string, std::string>>(a, b)); round_trip("array<string,2>", mk<std::array<std::string, 2>>(std::array<std::string, 2>{a, b}));
    round_trip("tuple<string,int,string>", mk<std::tuple<std::string, int, std::string>>(a, 7, b)); round_trip("optional<string>", mk<std::optional<std::string>>(a));
    round_trip("tuple<optional<string>,vector<string>>", mk<std::tuple<std::optional<std::string>, std::vector<std::string>>>(std::optional<std::string>{a}, std::vector<std::string>{a, b, a}));
  }
  round_trip("optional<string> empty", mk<std::optional<std::string>>()); round_trip("optional<int> empty", mk<std::optional<int>>()); round_trip("optional<int>", mk<std::optional<int>>(5));
  round_trip("array<int,3>", mk<std::array<int, 3>>(std::array<int, 3>{1, -2, 3})); round_trip("tuple<>", mk<std::tuple<>>());
  for (long long c : {0ll, 1ll, -5ll, 1686614399123456789ll})
  {
    round_trip("chrono::nanoseconds", mk<std::chrono::nanoseconds>(c)); round_trip("chrono::seconds", mk<std::chrono::seconds>(c % 100000)); round_trip("chrono::milliseconds", mk<std::chrono::milliseconds>(c % 1000000));
    round_trip("system_clock::time_point", mk<std::chrono::system_clock::time_point>(std::chrono::system_clock::time_point{std::chrono::nanoseconds{c < 0 ? 0 : c}}));
  }
  for (char const* p : {"", "/", "/a/b/c.txt", "rel/dir/", "with space/x", "caf\xC3\xA9"}) round_trip("filesystem::path", mk<std::filesystem::path>(p));
  printf("SPACE scalars, strings (empty, embedded NUL, 300 chars, UTF-8, braces), containers of every size 0..%d (vector, deque, list, forward_list, set, map; arithmetic, string, nested, optional and pair elements), pair/array/tuple/optional over 7x7 strings, chrono durations and time points, filesystem paths\n", MAXN);
  printf("DISTINCT %ld\n", g_n);
  printf("SAMPLE vector<optional<string>> [none, optional(\"a\")]\n");
  report(o1); report(o2);
  return (o1.failed || o2.failed) ? 1 : 0;
}
