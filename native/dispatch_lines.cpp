// C12: BackendWorker::_dispatch_transit_event_to_sinks / _process_multi_line_message driven through the real pipeline
// (ManualBackendWorker on this thread, recording sink): every message of length <= LEN over { 'a', 'b', '\n' } x
// { add_metadata_to_multi_line_logs off, on, on + named argument }.
#include "quill/Backend.h"
#include "quill/Frontend.h"
#include "quill/LogMacros.h"
#include "quill/Logger.h"
#include "quill/sinks/Sink.h"
#include "enum.h"
#ifndef LEN
#define LEN 6
#endif
struct RecSink : quill::Sink
{
  std::vector<std::string> statements;
  void write_log(quill::MacroMetadata const*, uint64_t, std::string_view, std::string_view, std::string const&, std::string_view, quill::LogLevel,
                 std::string_view, std::string_view, std::vector<std::pair<std::string, std::string>> const*, std::string_view, std::string_view log_statement) override
  { statements.emplace_back(log_statement); }
  void flush_sink() override {}
};
static std::vector<std::string> spec_whole(std::string const& pre, std::string const& m)
{
  std::string t = m; if (!t.empty() && t.back() == '\n') t.pop_back();      // at most ONE trailing newline removed
  return {pre + t + "|END\n"};
}
static std::vector<std::string> spec_lines(std::string const& pre, std::string const& m)
{
  std::vector<std::string> out; std::string cur;
  for (char c : m) { if (c == '\n') { out.push_back(pre + cur + "|END\n"); cur.clear(); } else cur += c; }
  if (m.empty() || m.back() != '\n') out.push_back(pre + cur + "|END\n");   // a final newline does not open another line
  return out;
}
int main()
{
  quill::ManualBackendWorker* backend = quill::Backend::acquire_manual_backend_worker();
  quill::BackendOptions bo; bo.log_timestamp_ordering_grace_period = std::chrono::microseconds{0};
  backend->init(bo);
  auto s_off = std::make_shared<RecSink>(); auto s_on = std::make_shared<RecSink>();
  // every per-statement value that _write_log_statement hands to the formatter appears in the pattern (an argument mix-up shows)
  char const* pat = "<%(logger)>[%(log_level_short_code)][%(log_level)][%(thread_id)][%(thread_name)][%(process_id)][%(caller_function)] %(message)|END";
  std::string const mid = std::string("[INFO][") + std::to_string(quill::detail::get_thread_id()) + "][" + quill::detail::get_thread_name() + "][" + std::to_string(quill::detail::get_process_id()) + "][operator()] ";
  quill::Logger* off = quill::Frontend::create_or_get_logger("off", std::static_pointer_cast<quill::Sink>(s_off),
    quill::PatternFormatterOptions{pat, "%H:%M:%S", quill::Timezone::GmtTime, false}, quill::ClockSourceType::System);
  quill::Logger* on = quill::Frontend::create_or_get_logger("on", std::static_pointer_cast<quill::Sink>(s_on),
    quill::PatternFormatterOptions{pat, "%H:%M:%S", quill::Timezone::GmtTime, true}, quill::ClockSourceType::System);
  Obl o1{"dispatch.whole_statement", "C12", "", "add_metadata_to_multi_line_logs off: exactly one statement = pattern around the whole message with at most one trailing newline removed"};
  Obl o2{"dispatch.one_line_per_message_line", "C12", "", "add_metadata_to_multi_line_logs on: one complete pattern line per message line, in order (a final newline opens no extra line; an empty message is one empty line)"};
  Obl o4{"dispatch.named_args_attribute_per_statement", "C12", "", "%(named_args) is substituted by THIS statement's key / value pairs: empty for a statement without named arguments, whatever was logged before (seed C12-Q5)"};
  auto s_na = std::make_shared<RecSink>();
  quill::Logger* na = quill::Frontend::create_or_get_logger("na", std::static_pointer_cast<quill::Sink>(s_na),
    quill::PatternFormatterOptions{"%(message) [%(named_args)]|END", "%H:%M:%S", quill::Timezone::GmtTime, false}, quill::ClockSourceType::System);
  Obl o3{"dispatch.named_args_whole", "C12", "", "add_metadata_to_multi_line_logs on but the statement has named args: one whole statement as with the option off"};
  long n = for_all_strings("ab\n", LEN, [&](std::string const& m) {
    LOG_INFO(off, "{}", m); backend->poll();
    check(o1, s_off->statements == spec_whole("<off>[I]" + mid, m), m); s_off->statements.clear();
    LOG_INFO(on, "{}", m); backend->poll();
    check(o2, s_on->statements == spec_lines("<on>[I]" + mid, m), m); s_on->statements.clear();
    if (m.find('\n') == std::string::npos)
    {
      LOG_INFO(na, "{x}", m); LOG_INFO(na, "{}", m); backend->poll();
      check(o4, s_na->statements.size() == 2 && s_na->statements[0] == m + " [x: " + m + "]|END\n" && s_na->statements[1] == m + " []|END\n", m + (s_na->statements.size() == 2 ? " second line: " + s_na->statements[1] : " (wrong number of statements)")); s_na->statements.clear();
    }
    LOG_INFO(on, "{x}", m); backend->poll();
    check(o3, s_on->statements == spec_whole("<on>[I]" + mid, m), m); s_on->statements.clear();
  });
  printf("SPACE every message of length <= %d over {a, b, \\n} x {option off, option on, option on with a named argument}, through the real frontend + ManualBackendWorker\n", LEN);
  printf("DISTINCT %ld\n", 3 * n);
  printf("SAMPLE a\\x0A\\x0A\n");
  report(o1); report(o2); report(o3); report(o4);
  return (o1.failed || o2.failed || o3.failed || o4.failed) ? 1 : 0;
}
