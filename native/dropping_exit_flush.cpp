// C08: discard counts of a thread that has EXITED are still reported when its context is reclaimed by a flush event before the
// backend had an idle pass.  Real frontend threads (joined before the backend runs: no concurrency with the backend), the
// backend driven by ManualBackendWorker::poll_one on the main thread while another thread waits in flush_log().
// For K = 1 .. KMAX statements logged by the exiting thread into a 1 KiB BoundedDropping queue (the first ~28 fit, the rest are refused).
#define CRASH_TAG "C08"
#include "quill/Backend.h"
#include "quill/Frontend.h"
#include "quill/LogMacros.h"
#include "quill/Logger.h"
#include "quill/sinks/Sink.h"
#include "enum.h"
#include <atomic>
#include <thread>
#ifndef KMAX
#define KMAX 60
#endif
struct Opts { static constexpr quill::QueueType queue_type = quill::QueueType::BoundedDropping; static constexpr size_t initial_queue_capacity = 1024; static constexpr uint32_t blocking_queue_retry_interval_ns = 800;
              static constexpr size_t unbounded_queue_max_capacity = 2048; static constexpr quill::HugePagesPolicy huge_pages_policy = quill::HugePagesPolicy::Never; };
using FE = quill::FrontendImpl<Opts>; using LG = quill::LoggerImpl<Opts>;
struct Rec : quill::Sink { size_t n = 0; void write_log(quill::MacroMetadata const*, uint64_t, std::string_view, std::string_view, std::string const&, std::string_view, quill::LogLevel, std::string_view, std::string_view, std::vector<std::pair<std::string, std::string>> const*, std::string_view, std::string_view) override { ++n; } void flush_sink() override {} };
static long g_reported = 0;
int main()
{
  auto* backend = quill::Backend::acquire_manual_backend_worker();
  quill::BackendOptions bo; bo.log_timestamp_ordering_grace_period = std::chrono::microseconds{0};
  bo.error_notifier = [](std::string const& m) { auto p = m.find("Dropped "); if (p != std::string::npos) g_reported += atol(m.c_str() + p + 8); };
  backend->init(bo);
  auto sink = std::make_shared<Rec>();
  LG* lg = FE::create_or_get_logger("xf", std::static_pointer_cast<quill::Sink>(sink), quill::PatternFormatterOptions{"%(message)"});
  Obl o1{"dropping.exited_thread_drops_reported_across_flush", "C08", "", "the discard counts reported through the error notifier add up to the discarded statements also when the discarding thread has exited and a flush request reclaims its context before the backend was idle"};
  Obl o2{"dropping.exited_thread_delivered", "C08", "", "the statements the exited thread's calls accepted are delivered, once each"};
  long cases = 0;
  for (int K = 1; K <= KMAX; K += (K < 36 ? 5 : 12))
  {
    current_case("exiting thread logs " + std::to_string(K) + " statements");
    g_reported = 0; sink->n = 0; long accepted = 0, refused = 0;
    std::thread t([&] { for (int i = 0; i < K; ++i) { static constexpr quill::MacroMetadata md{"f.cpp:1", "fn", "{}", nullptr, quill::LogLevel::Info, quill::MacroMetadata::Event::Log};
                        if (lg->template log_statement<false, false>(quill::LogLevel::None, &md, i)) ++accepted; else ++refused; } });
    t.join();                                   // exited: context invalid, drops not reported yet
    std::atomic<bool> flushed{false};
    std::thread f([&] { lg->flush_log(); flushed = true; });
    std::this_thread::sleep_for(std::chrono::milliseconds(50));    // the flush request is queued before the backend looks
    while (!flushed) backend->poll_one();
    f.join();
    for (int i = 0; i < 6; ++i) backend->poll_one();               // idle passes report whatever is left to report
    ++cases;
    std::string in = "K=" + std::to_string(K) + " accepted=" + std::to_string(accepted) + " refused=" + std::to_string(refused) + " reported=" + std::to_string(g_reported) + " delivered=" + std::to_string(sink->n);
    check(o1, g_reported == refused, in);
    check(o2, (long)sink->n == accepted, in);
  }
  printf("SPACE an exiting thread logging K statements (K from 1 to %d in steps) into a 1 KiB BoundedDropping queue, then flush_log() from another thread, the backend polled manually; thread scheduling by the OS (the threads are sequenced by join / flags)\n", KMAX);
  printf("DISTINCT %ld\n", cases);
  printf("SAMPLE K=46\n");
  report(o1); report(o2);
  return (o1.failed || o2.failed) ? 1 : 0;
}
