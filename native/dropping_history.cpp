// C08: a dropping queue through the real pipeline (LoggerImpl::log_statement called as the macros call it, ManualBackendWorker,
// recording sink, error notifier), for every history of <= LEN actions over
//   t: 1-byte argument   s: 40-byte   m: 300-byte   l: 985-byte argument (record of 1021 bytes: the whole 1 KiB queue but for 3 bytes)   h: 3000-byte (can never fit)   p: backend poll
// for a BoundedDropping queue of 1 KiB and an UnboundedDropping queue (1 KiB initial, 2 KiB maximum).  Model-free bookkeeping:
// a call returned true  <=> its statement is delivered (complete, once, in order); the drop counts reported through the error
// notifier add up to the number of calls that returned false (bounded queue).
#define CRASH_TAG "C08"
#include "quill/Backend.h"
#include "quill/Frontend.h"
#include "quill/LogMacros.h"
#include "quill/Logger.h"
#include "quill/sinks/Sink.h"
#include "enum.h"
#ifndef LEN
#define LEN 7
#endif
struct RecSink : quill::Sink
{
  std::vector<std::string> messages;
  void write_log(quill::MacroMetadata const*, uint64_t, std::string_view, std::string_view, std::string const&, std::string_view, quill::LogLevel,
                 std::string_view, std::string_view, std::vector<std::pair<std::string, std::string>> const*, std::string_view log_message, std::string_view) override
  { messages.emplace_back(log_message); }
  void flush_sink() override {}
};
struct BoundedOpts { static constexpr quill::QueueType queue_type = quill::QueueType::BoundedDropping; static constexpr size_t initial_queue_capacity = 1024; static constexpr uint32_t blocking_queue_retry_interval_ns = 800;
                     static constexpr size_t unbounded_queue_max_capacity = 2048; static constexpr quill::HugePagesPolicy huge_pages_policy = quill::HugePagesPolicy::Never; };
struct UnboundedOpts { static constexpr quill::QueueType queue_type = quill::QueueType::UnboundedDropping; static constexpr size_t initial_queue_capacity = 1024; static constexpr uint32_t blocking_queue_retry_interval_ns = 800;
                       static constexpr size_t unbounded_queue_max_capacity = 2048; static constexpr quill::HugePagesPolicy huge_pages_policy = quill::HugePagesPolicy::Never; };
static long g_reported = 0;
template <typename Opts>
static long run_series(char const* name, quill::ManualBackendWorker* backend, std::shared_ptr<RecSink> sink, Obl& o1, Obl& o2, Obl& o3, bool bounded)
{
  using FrontendT = quill::FrontendImpl<Opts>; using LoggerT = quill::LoggerImpl<Opts>;
  LoggerT* lg = FrontendT::create_or_get_logger(std::string("drop_") + name, std::static_pointer_cast<quill::Sink>(sink), quill::PatternFormatterOptions{"%(message)"});
  std::string const T(""), S(40, 's'), M(300, 'm'), Lg(984, 'l'), H(3000, 'h');   // t: about 5 % of the queue is never reached by one record; l: almost the whole queue
  return for_all_strings("tsmlhp", LEN, [&](std::string const& h) {
    current_case(std::string(name) + ":" + h);
    std::vector<std::string> want; long refused = 0; int k = 0; g_reported = 0; bool drained = true;   // every history starts on a drained queue
    for (char c : h)
    {
      if (c == 'p') { backend->poll(); drained = true; continue; }
      std::string const& body = c == 't' ? T : (c == 's' ? S : (c == 'm' ? M : (c == 'l' ? Lg : H)));
      std::string text = std::to_string(k++ % 10) + body;
      static constexpr quill::MacroMetadata md{"f.cpp:1", "fn", "{}", nullptr, quill::LogLevel::Info, quill::MacroMetadata::Event::Log};
      bool ok = false;
      // an unbounded queue rejects a record larger than its maximum capacity with an error (property C02): discarded, like `false`
#ifdef SERIES_CSTR
      // the same history with C-string arguments: their lengths travel from the size pass to the encode pass through the per-thread
      // size cache, also across a refused statement (seed C08-B2: a cache reset moved behind the encode pass, which a refused statement never reaches)
      char const* const text_c = text.c_str();
      try { ok = lg->template log_statement<false, false>(quill::LogLevel::None, &md, text_c); } catch (quill::QuillError const&) { ok = false; }
#else
      try { ok = lg->template log_statement<false, false>(quill::LogLevel::None, &md, text); } catch (quill::QuillError const&) { ok = false; }
#endif
      if (ok) want.push_back(text); else ++refused;
      if (drained && c != 'h') check(o3, ok, std::string(name) + ":" + h + " action #" + std::to_string(k - 1));
      drained = false;
    }
    while (true) { size_t before = sink->messages.size(); backend->poll(); backend->poll(); if (sink->messages.size() == before) break; }
    backend->poll_one(); backend->poll_one();   // idle passes report the failure counter (poll() returns at once when everything is empty)
    check(o1, sink->messages == want, std::string(name) + ":" + h + " delivered " + std::to_string(sink->messages.size()) + " accepted " + std::to_string(want.size()));
    if (bounded) check(o2, g_reported == refused, std::string(name) + ":" + h + " reported " + std::to_string(g_reported) + " refused " + std::to_string(refused));
    sink->messages.clear();
  });
}
int main()
{
  quill::ManualBackendWorker* backend = quill::Backend::acquire_manual_backend_worker();
  quill::BackendOptions bo; bo.log_timestamp_ordering_grace_period = std::chrono::microseconds{0};
  bo.error_notifier = [](std::string const& m) { auto p = m.find("Dropped "); if (p != std::string::npos) g_reported += atol(m.c_str() + p + 8); };
  backend->init(bo);
  auto sink = std::make_shared<RecSink>();
  Obl o1{"dropping.true_iff_delivered", "C08", "", "the statements that reach the sink are exactly those whose log call returned true: complete, once each, in order (delivered + discarded = attempted)"};
  Obl o3{"dropping.fitting_statement_on_empty_queue_accepted", "C09", "", "a dropping queue never rejects a statement that fits its capacity when the queue is empty and the backend has consumed everything"};
  Obl o2{"dropping.reported_equals_discarded", "C08", "", "bounded dropping queue: the drop counts reported through the error notifier add up to the number of log calls that returned false"};
  // one thread has ONE thread context (one queue type): the two queue types are two runs of this program (-DSERIES_UNBOUNDED)
#ifdef SERIES_UNBOUNDED
  long n = run_series<UnboundedOpts>("unbounded", backend, sink, o1, o2, o3, false);
#else
  long n = run_series<BoundedOpts>("bounded", backend, sink, o1, o2, o3, true);
#endif
  printf("SPACE every history of <= %d actions over {1-, 40-, 300-, 985-, 3000-byte statement, backend poll} for a BoundedDropping queue (1 KiB) and an UnboundedDropping queue (1 KiB .. 2 KiB), log_statement called as the macros call it\n", LEN);
  printf("DISTINCT %ld\n", n);
  printf("SAMPLE bounded:mmmhspm\n");
  report(o1); report(o3);
#ifndef SERIES_UNBOUNDED
  report(o2);
#endif
  return (o1.failed || o2.failed || o3.failed) ? 1 : 0;
}
