// Shared helpers for the exhaustive native stand-ins (form (b) of DESIGN §2.5).
// Protocol on stdout (parsed by vlib/native.py):
//   SPACE <description of the enumerated input space>
//   DISTINCT <number of distinct inputs enumerated>
//   SAMPLE <an input>                                  (a few)
//   OBL <name> <SUCCESS|FAILURE> <evaluations> <property tag|-> <known id|-> | <clause text> | <first failing input or ->
#pragma once
#include <cstdio>
#include <functional>
#include <string>
#include <vector>
#include <csignal>
#include <unistd.h>
// A crash of the real code on an enumerated (valid) input is a failed obligation, not an undecided run: the harness names the
// case it is about to run with current_case(); the handler reports it in the OBL protocol and exits 1.
#ifndef CRASH_TAG
#define CRASH_TAG "-"
#endif
static std::string g_current_case;
#ifndef CASE_TIMEOUT_S
#define CASE_TIMEOUT_S 60
#endif
// every announced case re-arms a watchdog: a case that does not finish (the real code hangs, e.g. a record that is re-read for
// ever) is a failed obligation too, reported like a crash
static inline void current_case(std::string const& s) { g_current_case = s; alarm(CASE_TIMEOUT_S); }
static void on_case_timeout(int)
{
  char b[2048]; int n = snprintf(b, sizeof b, "\nOBL native.hang FAILURE 1 %s - | every enumerated case finishes (the real code does not hang) | no result after %d s on %s\n", CRASH_TAG, CASE_TIMEOUT_S, g_current_case.c_str());
  if (n > 0) { ssize_t w = write(1, b, (size_t)(n < (int)sizeof b ? n : (int)sizeof b - 1)); (void)w; }
  _exit(1);
}
static void on_crash_signal(int sig)
{
  char b[2048]; int n = snprintf(b, sizeof b, "\nOBL native.crash FAILURE 1 %s - | the real code runs to completion on every enumerated input (no signal) | signal %d on %s\n", CRASH_TAG, sig, g_current_case.c_str());
  if (n > 0) { ssize_t w = write(1, b, (size_t)(n < (int)sizeof b ? n : (int)sizeof b - 1)); (void)w; }
  _exit(1);
}
static int install_crash_handler() { signal(SIGALRM, on_case_timeout); signal(SIGSEGV, on_crash_signal); signal(SIGBUS, on_crash_signal); signal(SIGABRT, on_crash_signal); signal(SIGFPE, on_crash_signal); return 0; }
static int g_crash_handler_installed = install_crash_handler();
struct Obl { std::string name, tag, known, clause; long evals = 0; bool failed = false; std::string first; };
static inline std::string show(std::string const& s)
{
  std::string o;
  for (unsigned char c : s) { if (c >= 32 && c < 127 && c != '|' && c != '\\') o += (char)c; else { char b[8]; snprintf(b, sizeof b, "\\x%02X", c); o += b; } }
  return o;
}
static inline void check(Obl& o, bool ok, std::string const& input) { o.evals++; if (!ok && !o.failed) { o.failed = true; o.first = show(input); } }
static inline void report(Obl const& o)
{
  alarm(0);   // the enumeration is over: the watchdog guards cases, not the teardown of the process
  printf("OBL %s %s %ld %s %s | %s | %s\n", o.name.c_str(), o.failed ? "FAILURE" : "SUCCESS", o.evals, o.tag.empty() ? "-" : o.tag.c_str(),
         o.known.empty() ? "-" : o.known.c_str(), o.clause.c_str(), o.failed ? o.first.c_str() : "-");
}
// every string of length <= L over alphabet A
static inline long for_all_strings(std::string const& A, int L, std::function<void(std::string const&)> f)
{
  long n = 0; std::vector<int> idx; int AK = (int)A.size();
  for (int len = 0; len <= L; len++)
  {
    idx.assign(len, 0);
    while (true)
    {
      std::string t(len, ' '); for (int i = 0; i < len; i++) t[i] = A[idx[i]];
      f(t); n++;
      int p = len - 1; while (p >= 0 && ++idx[p] == AK) { idx[p] = 0; p--; }
      if (p < 0) break;
    }
  }
  return n;
}
