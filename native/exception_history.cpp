// C10: statements that cannot be formatted and sinks that throw, through the real pipeline (frontend macros, ManualBackendWorker,
// two recording sinks A then B on one logger, error notifier), for every history of <= LEN statements over
//   n: ordinary   f: user formatter throws std::runtime_error   F: user formatter throws an int   a: sink A throws on it   b: sink B throws on it
// Checked against the property: every other statement reaches both sinks exactly once and in order; a statement that cannot be
// formatted is written with an explanatory text instead of its message (or skipped); when a sink throws at most that one
// statement is missing from that sink and the sinks after it; every failure is reported; the backend keeps running.
#define CRASH_TAG "C10"
#include "quill/Backend.h"
#include "quill/Frontend.h"
#include "quill/LogMacros.h"
#include "quill/Logger.h"
#include "quill/DeferredFormatCodec.h"
#include "quill/sinks/Sink.h"
#include "enum.h"
#ifndef LEN
#define LEN 6
#endif
struct Bomb { int id; int mode; Bomb() : id(0), mode(0) {} Bomb(int i, int m) : id(i), mode(m) {} Bomb(Bomb const& o) : id(o.id), mode(o.mode) {} };   // not trivially copyable: copied into the queue
template <> struct fmtquill::formatter<Bomb>
{
  constexpr auto parse(format_parse_context& ctx) { return ctx.begin(); }
  auto format(Bomb const& b, format_context& ctx) const
  {
    if (b.mode == 1) throw std::runtime_error("formatter failed");
    if (b.mode == 2) throw 42;
    return fmtquill::format_to(ctx.out(), "#{}", b.id);
  }
};
template <> struct quill::Codec<Bomb> : quill::DeferredFormatCodec<Bomb> {};
struct ThrowingSink : quill::Sink
{
  std::string trigger; std::vector<std::string> messages;
  void write_log(quill::MacroMetadata const*, uint64_t, std::string_view, std::string_view, std::string const&, std::string_view, quill::LogLevel,
                 std::string_view, std::string_view, std::vector<std::pair<std::string, std::string>> const*, std::string_view log_message, std::string_view) override
  {
    if (!trigger.empty() && log_message.find(trigger) != std::string_view::npos) throw std::runtime_error("sink failed");
    messages.emplace_back(log_message);
  }
  void flush_sink() override {}
};
static long g_notified = 0;
int main()
{
  quill::ManualBackendWorker* backend = quill::Backend::acquire_manual_backend_worker();
  quill::BackendOptions bo; bo.log_timestamp_ordering_grace_period = std::chrono::microseconds{0};
  bo.error_notifier = [](std::string const&) { ++g_notified; };
  backend->init(bo);
  auto A = std::make_shared<ThrowingSink>(); auto B = std::make_shared<ThrowingSink>(); A->trigger = "@A"; B->trigger = "@B";
  quill::Logger* lg = quill::Frontend::create_or_get_logger("exc", {std::static_pointer_cast<quill::Sink>(A), std::static_pointer_cast<quill::Sink>(B)}, quill::PatternFormatterOptions{"%(message)"});
  Obl o1{"exceptions.others_delivered_once_in_order", "C10", "", "every statement that neither fails to format nor hits a throwing sink reaches both sinks exactly once, in order; a failing one is missing at most from the throwing sink and the sinks after it, or carries an explanatory text instead of its message"};
  Obl o2{"exceptions.every_failure_reported", "C10", "", "every formatting failure and every throwing write is reported through the error notifier (exactly once each)"};
  long n = for_all_strings("nfFab", LEN, [&](std::string const& h) {
    current_case(h); g_notified = 0; int k = 0; long failures = 0;
    std::vector<std::string> ids;
    for (char c : h)
    {
      std::string id = "s" + std::to_string(k++) + ";"; ids.push_back(id);
      switch (c)
      {
      case 'n': LOG_INFO(lg, "{} {}", id, Bomb{k, 0}); break;
      case 'f': LOG_INFO(lg, "{} {}", id, Bomb{k, 1}); ++failures; break;
      case 'F': LOG_INFO(lg, "{} {}", id, Bomb{k, 2}); ++failures; break;
      case 'a': LOG_INFO(lg, "{} @A {}", id, Bomb{k, 0}); ++failures; break;
      case 'b': LOG_INFO(lg, "{} @B {}", id, Bomb{k, 0}); ++failures; break;
      }
    }
    backend->poll(); backend->poll_one();
    // expectations per sink: ordered subsequence of ids; which ids MUST / MAY / MUST NOT appear
    auto verify = [&](ThrowingSink& s, char self, bool after_a) {
      size_t pos = 0;
      for (size_t i = 0; i < h.size(); ++i)
      {
        char c = h[i];
        if (c == 'f' || c == 'F') { if (pos < s.messages.size() && s.messages[pos].rfind("[Could not format", 0) == 0) ++pos; continue; }   // explanatory text in place of the message, or skipped
        bool present = pos < s.messages.size() && s.messages[pos].find(ids[i]) != std::string::npos;
        bool must = (c == 'n') || (c == 'a' && self == 'B' && false) || (c == 'b' && self == 'A');
        bool must_not = (c == self + ('a' - 'A'));                      // the sink that throws on it never records it
        bool may = (c == 'f' || c == 'F') || (c == 'a' && self == 'B' && after_a);   // error text or skipped; a sink after the throwing one may miss it
        if (present)
        {
          if (must_not) return false;
          if (c == 'n' && s.messages[pos] != ids[i] + " #" + std::to_string((int)i + 1)) return false;          // complete and unchanged
          if ((c == 'f' || c == 'F') && s.messages[pos].find("#") != std::string::npos) return false;           // not its message: an explanatory text
          ++pos;
        }
        else if (must && !may) return false;
      }
      return pos == s.messages.size();                                                                          // nothing extra, nothing twice, order kept
    };
    bool ok = verify(*A, 'A', false) && verify(*B, 'B', true);
    std::string got = "A["; for (auto const& m : A->messages) got += m.substr(0, 12) + "|"; got += "] B["; for (auto const& m : B->messages) got += m.substr(0, 12) + "|"; got += "]";
    check(o1, ok, h + " " + got);
    check(o2, g_notified == failures, h + " notified " + std::to_string(g_notified) + " failures " + std::to_string(failures));
    A->messages.clear(); B->messages.clear();
  });
  printf("SPACE every history of <= %d statements over {ordinary, formatter throws std::exception, formatter throws int, sink A throws, sink B throws}, two sinks on one logger, through the real frontend + ManualBackendWorker\n", LEN);
  printf("DISTINCT %ld\n", n);
  printf("SAMPLE nFanb\n");
  report(o1); report(o2);
  return (o1.failed || o2.failed) ? 1 : 0;
}
