// C07: the end of a process with the real backend thread, each case in a forked child whose log file and wait status the
// parent inspects: for every K in 0..KMAX statements logged by the main thread (and every case also with a second thread that
// logged 3 statements and exited before), the process ends by
//   stop: Backend::stop()   ret: return from main (atexit handler)   start-stop-start: a second start/stop cycle that logs again
//   SIGTERM / SIGINT / SIGSEGV / SIGABRT / SIGFPE / SIGILL raised on the logging thread with the built-in signal handler
// Checked: every statement logged before is in the file, in thread order; for signals the handler's notice follows them and
// the wait status is the original signal (exit 0 for SIGINT / SIGTERM).
#include "quill/Backend.h"
#include "quill/Frontend.h"
#include "quill/LogMacros.h"
#include "quill/Logger.h"
#include "quill/sinks/FileSink.h"
#include "enum.h"
#include <filesystem>
#include <fstream>
#include <sstream>
#include <sys/wait.h>
#include <thread>
#ifndef KMAX
#define KMAX 6
#endif
namespace fs = std::filesystem;
static std::string slurp(fs::path const& p) { std::ifstream f(p, std::ios::binary); std::stringstream ss; ss << f.rdbuf(); return ss.str(); }
static quill::Logger* make_logger(std::string const& file)
{
  auto sink = quill::Frontend::create_or_get_sink<quill::FileSink>(file, []() { quill::FileSinkConfig c; c.set_open_mode('a'); return c; }());
  return quill::Frontend::create_or_get_logger("root", std::move(sink), quill::PatternFormatterOptions{"%(message)"});
}
static void other_thread(quill::Logger* lg) { std::thread t([lg]() { for (int i = 0; i < 3; ++i) LOG_INFO(lg, "T{}", i); }); t.join(); }
// child body: returns only for the "ret" path
static int child(std::string const& mode, int k, bool with_thread, std::string const& file, int cfg)
{
  alarm(120);
  int sig = 0;
  if (mode == "SIGTERM") sig = SIGTERM; else if (mode == "SIGINT") sig = SIGINT; else if (mode == "SIGSEGV") sig = SIGSEGV; else if (mode == "SIGABRT") sig = SIGABRT; else if (mode == "SIGFPE") sig = SIGFPE; else if (mode == "SIGILL") sig = SIGILL;
  quill::BackendOptions bo; bo.sleep_duration = std::chrono::microseconds{(k % 2) ? 0 : 300};   // backend busy-polling or sleeping
  if (cfg == 1) bo.wait_for_queues_to_empty_before_exit = false;                                  // the signal handler must flush on its own
  if (cfg == 2) bo.log_timestamp_ordering_grace_period = std::chrono::microseconds{200000};       // statements younger than the grace period at the stop
  quill::SignalHandlerOptions so; so.timeout_seconds = 100;   // generous: the check may run on a loaded machine
  if (sig) quill::Backend::start<quill::FrontendOptions>(bo, so); else quill::Backend::start(bo);
  quill::Logger* lg = make_logger(file);
  if (with_thread) other_thread(lg);
  for (int i = 0; i < k; ++i) LOG_INFO(lg, "M{}", i);
  if (sig) { if (k == 0 && !with_thread) LOG_INFO(lg, "M-first"); raise(sig); _exit(99); }   // the handler needs a thread that has logged before
  if (mode == "stop") { quill::Backend::stop(); _exit(0); }
  if (mode == "start-stop-start") { quill::Backend::stop(); quill::Backend::start(bo); LOG_INFO(lg, "AGAIN"); quill::Backend::stop(); _exit(0); }
  return 0;   // "ret": the atexit handler stops the backend
}
int main()
{
  char const* t = getenv("TMPDIR"); std::string base = std::string(t && *t ? t : "/var/tmp") + "/quillverif_exit_XXXXXX";
  if (!mkdtemp(base.data())) { perror("mkdtemp"); return 2; }
  Obl o1{"exit.nothing_lost", "C07", "", "every statement whose log call completed before the stop / exit / signal is in the file when the process has ended, in thread order (statements of a thread that already exited included)"};
  Obl o2{"exit.signal_notice_and_status", "C07", "", "for a handled signal the handler's notice follows the statements and the process dies from the original signal (exits 0 for SIGINT / SIGTERM)"};
  Obl o3{"exit.restart", "C07", "", "after a stop the backend can be started again and statements logged then are written too"};
  std::vector<std::string> modes = {"stop", "ret", "start-stop-start", "SIGTERM", "SIGINT", "SIGSEGV", "SIGABRT", "SIGFPE", "SIGILL"};
  long n = 0;
  for (auto const& mode : modes) for (int cfg = 0; cfg < 3; ++cfg) for (int with_thread = 0; with_thread < 2; ++with_thread) for (int k = 0; k <= KMAX; ++k)
  {
    if (cfg == 1 && mode.rfind("SIG", 0) != 0) continue;   // without wait_for_queues_to_empty_before_exit the property only speaks about the signal handler
    ++n; std::string file = base + "/out.log"; fs::remove(file);
    std::string in = mode + " k=" + std::to_string(k) + (with_thread ? " +thread" : "") + (cfg == 1 ? " nowait" : cfg == 2 ? " grace200ms" : "");
    fflush(stdout);
    pid_t pid = fork();
    if (pid == 0) { int rc = child(mode, k, with_thread != 0, file, cfg); exit(rc); }
    int status = 0; waitpid(pid, &status, 0);
    std::string got = slurp(file);
    std::string want; if (with_thread) want += "T0\nT1\nT2\n"; for (int i = 0; i < k; ++i) want += "M" + std::to_string(i) + "\n";
    bool const is_sig = mode.rfind("SIG", 0) == 0;
    if (is_sig && k == 0 && !with_thread) want += "M-first\n";
    if (mode == "start-stop-start") { check(o3, got == want + "AGAIN\n", in + " got [" + show(got) + "]"); continue; }
    if (!is_sig) { check(o1, got == want && WIFEXITED(status) && WEXITSTATUS(status) == 0, in + " status " + std::to_string(status) + " got [" + show(got) + "]"); continue; }
    check(o1, got.rfind(want, 0) == 0, in + " got [" + show(got) + "]");
    int sig = mode == "SIGTERM" ? SIGTERM : mode == "SIGINT" ? SIGINT : mode == "SIGSEGV" ? SIGSEGV : mode == "SIGABRT" ? SIGABRT : mode == "SIGFPE" ? SIGFPE : SIGILL;
    bool status_ok = (sig == SIGTERM || sig == SIGINT) ? (WIFEXITED(status) && WEXITSTATUS(status) == 0) : (WIFSIGNALED(status) && WTERMSIG(status) == sig);
    bool notice = got.size() > want.size() && got.find("Received signal", want.size()) != std::string::npos;
    check(o2, status_ok && notice, in + " status " + std::to_string(status) + " tail [" + show(got.substr(std::min(got.size(), want.size()))) + "]");
  }
  fs::remove_all(base);
  printf("SPACE 9 ways to end the process x {main thread only, plus a thread that logged and exited} x {default, wait_for_queues_to_empty_before_exit off (signals), grace period 200 ms} x K = 0..%d statements, backend sleeping or busy-polling, each in a forked child with the real backend thread\n", KMAX);
  printf("DISTINCT %ld\n", n);
  printf("SAMPLE SIGSEGV k=3 +thread\n");
  report(o1); report(o2); report(o3);
  return (o1.failed || o2.failed || o3.failed) ? 1 : 0;
}
