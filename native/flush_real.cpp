// C06: flush_log() with the REAL backend thread: when it returns, everything logged before by the calling thread - through
// any logger, also one that was removed meanwhile, through sinks with a before_write hook, shared sinks - is in the files.
// Cases: K = 0..KMAX statements x 5 logger / sink arrangements x backend sleeping between passes or busy-polling.
#define CRASH_TAG "C06"
#include "quill/Backend.h"
#include "quill/Frontend.h"
#include "quill/LogMacros.h"
#include "quill/Logger.h"
#include "quill/sinks/FileSink.h"
#include "enum.h"
#include <filesystem>
#include <fstream>
#include <sstream>
#include <sys/wait.h>
#ifndef KMAX
#define KMAX 5
#endif
namespace fs = std::filesystem;
static std::string slurp(fs::path const& p) { std::ifstream f(p, std::ios::binary); std::stringstream ss; ss << f.rdbuf(); return ss.str(); }
static std::shared_ptr<quill::Sink> file_sink(std::string const& f, bool hook)
{
  quill::FileEventNotifier n; if (hook) n.before_write = [](std::string_view s) { return std::string(s); };
  return quill::Frontend::create_or_get_sink<quill::FileSink>(f, []() { quill::FileSinkConfig c; c.set_open_mode('w'); return c; }(), n);
}
// runs in a forked child (a fresh backend per case); prints nothing, exit code 0 = as expected, 1 = mismatch (details in a result file)
static int child(int arrangement, int k, bool sleepy, std::string const& dir)
{
  alarm(120);
  quill::BackendOptions bo; bo.sleep_duration = sleepy ? std::chrono::microseconds{150000} : std::chrono::microseconds{0};
  bo.sink_min_flush_interval = std::chrono::milliseconds{60000};      // nothing is flushed by the periodic path during the case
  quill::Backend::start(bo);
  std::string fa = dir + "/a.log", fb = dir + "/b.log";
  std::shared_ptr<quill::Sink> keep_a = file_sink(fa, arrangement == 3);   // the user keeps the sink of A: destroying the logger does not close (and thereby flush) the file
  quill::Logger* A = quill::Frontend::create_or_get_logger("A", keep_a, quill::PatternFormatterOptions{"%(message)"});
  quill::Logger* B = arrangement == 2 ? quill::Frontend::create_or_get_logger("B", file_sink(fa, false), quill::PatternFormatterOptions{"%(message)"})      // shared sink
                                      : quill::Frontend::create_or_get_logger("B", file_sink(fb, arrangement == 3), quill::PatternFormatterOptions{"%(message)"});
  std::string wa, wb;
  for (int i = 0; i < k; ++i)
  {
    if (arrangement == 0 || (i % 2) == 0) { LOG_INFO(A, "A{}", i); wa += "A" + std::to_string(i) + "\n"; }
    else { LOG_INFO(B, "B{}", i); (arrangement == 2 ? wa : wb) += "B" + std::to_string(i) + "\n"; }
  }
  if (arrangement == 4) quill::Frontend::remove_logger(A);              // A is removed after its statements were logged; the flush goes through B
  (arrangement == 0 ? A : B)->flush_log();
  std::string ga = slurp(fa), gb = arrangement == 2 ? std::string() : slurp(fb);
  bool ok = ga == wa && gb == wb;
  if (!ok) { std::ofstream r(dir + "/result.txt"); r << "a.log [" << show(ga) << "] want [" << show(wa) << "] b.log [" << show(gb) << "] want [" << show(wb) << "]"; }
  _exit(ok ? 0 : 1);
}
int main()
{
  char const* t = getenv("TMPDIR"); std::string base = std::string(t && *t ? t : "/var/tmp") + "/quillverif_flush_XXXXXX";
  if (!mkdtemp(base.data())) { perror("mkdtemp"); return 2; }
  Obl o1{"flush.everything_in_the_files_on_return", "C06", "", "when flush_log() returns every statement the calling thread logged before is in its file - read at that very moment - whichever logger it went through"};
  char const* names[5] = {"one logger", "two loggers, two files", "two loggers sharing a sink", "sinks with a before_write hook", "first logger removed before the flush"};
  long n = 0;
  for (int arr = 0; arr < 5; ++arr) for (int sleepy = 0; sleepy < 2; ++sleepy) for (int k = 0; k <= KMAX; ++k)
  {
    ++n; std::string dir = base + "/d"; fs::remove_all(dir); fs::create_directories(dir);
    fflush(stdout);
    pid_t pid = fork();
    if (pid == 0) child(arr, k, sleepy != 0, dir);
    int status = 0; waitpid(pid, &status, 0);
    std::string in = std::string(names[arr]) + (sleepy ? ", backend asleep" : ", backend polling") + ", k=" + std::to_string(k);
    check(o1, WIFEXITED(status) && WEXITSTATUS(status) == 0, in + " status " + std::to_string(status) + " " + (fs::exists(dir + "/result.txt") ? slurp(dir + "/result.txt") : std::string()));
  }
  fs::remove_all(base);
  printf("SPACE 5 logger / sink arrangements x {backend sleeping 150 ms between passes, backend polling} x K = 0..%d statements, the real backend thread in a forked child per case, periodic flushing disabled\n", KMAX);
  printf("DISTINCT %ld\n", n);
  printf("SAMPLE first logger removed before the flush, backend asleep, k=3\n");
  report(o1);
  return o1.failed ? 1 : 0;
}
