// C16: levels and filters through the real pipeline (LOG macros static and dynamic, ManualBackendWorker): one logger with three
// sinks - A with a level filter, B with a user filter (rejects messages containing 'x') added at run time, C with an override
// pattern and its own level filter - for every logger level x sink-A level x sink-C level x every sequence of <= LEN
// statements over {Debug, Info, Warning, Error} x {static macro, LOG_DYNAMIC} x {with x, without}, the logger level being
// changed between the statements of a sequence.
// Checked: a statement reaches a sink  <=>  its level passes the logger's level at the time of the call AND the sink's level
// filter AND the sink's filters; each sink gets its own formatting (logger pattern vs override pattern) and the right level.
#define CRASH_TAG "C16"
#include "quill/Backend.h"
#include "quill/Frontend.h"
#include "quill/LogMacros.h"
#include "quill/Logger.h"
#include "quill/filters/Filter.h"
#include "quill/sinks/Sink.h"
#include "enum.h"
#include <thread>
#ifndef LEN
#define LEN 2
#endif
struct RecSink : quill::Sink
{
  using quill::Sink::Sink;
  std::vector<std::string> statements; std::vector<quill::LogLevel> levels;
  void write_log(quill::MacroMetadata const*, uint64_t, std::string_view, std::string_view, std::string const&, std::string_view, quill::LogLevel lvl,
                 std::string_view, std::string_view, std::vector<std::pair<std::string, std::string>> const*, std::string_view, std::string_view log_statement) override
  { statements.emplace_back(log_statement); levels.push_back(lvl); }
  void flush_sink() override {}
};
struct NoX : quill::Filter
{
  NoX() : quill::Filter("nox") {}
  bool filter(quill::MacroMetadata const*, uint64_t, std::string_view, std::string_view, std::string_view, quill::LogLevel, std::string_view log_message, std::string_view) noexcept override
  { return log_message.find('x') == std::string_view::npos; }
};
static quill::LogLevel const LV[4] = {quill::LogLevel::Debug, quill::LogLevel::Info, quill::LogLevel::Warning, quill::LogLevel::Error};
static char const* LN[4] = {"DEBUG", "INFO", "WARNING", "ERROR"};
int main()
{
  quill::ManualBackendWorker* backend = quill::Backend::acquire_manual_backend_worker();
  quill::BackendOptions bo; bo.log_timestamp_ordering_grace_period = std::chrono::microseconds{0};
  bo.transit_event_buffer_initial_capacity = 1;   // the backend buffer grows while statements of a sequence are pending: a moved event must keep its (dynamic) level - seed C16-P4
  backend->init(bo);
  auto A = std::make_shared<RecSink>(); auto B = std::make_shared<RecSink>();
  auto C = std::make_shared<RecSink>(quill::PatternFormatterOptions{"OVR %(log_level) %(message)"});
  B->add_filter(std::make_unique<NoX>());
  quill::Logger* lg = quill::Frontend::create_or_get_logger("lf", {std::static_pointer_cast<quill::Sink>(A), std::static_pointer_cast<quill::Sink>(C), std::static_pointer_cast<quill::Sink>(B)},   /* the override sink sits BETWEEN two sinks that use the logger pattern */
                                                            quill::PatternFormatterOptions{"LOG %(log_level) %(message)"});
  Obl o1{"levels.reaches_sink_iff_passes", "C16", "", "a statement reaches a sink exactly when its level passes the logger's level at the time of the call, the sink's level filter and the sink's filters - independently per sink, in order"};
  Obl o2{"levels.own_formatting_and_level", "C16", "", "each sink receives the statement formatted with its own pattern (override pattern if it has one) and is told the statement's effective level (static or dynamic)"};
  // statement kinds: 16 = level(4) x dynamic(2) x withx(2)
  std::string A16 = "abcdefghijklmnop";
  long n = 0;
  for (int ll = 0; ll < 4; ++ll) for (int al = 0; al < 3; ++al) for (int cl = 0; cl < 3; ++cl)
  {
    quill::LogLevel const a_level = al == 0 ? quill::LogLevel::TraceL3 : (al == 1 ? quill::LogLevel::Info : quill::LogLevel::Error);
    quill::LogLevel const c_level = cl == 0 ? quill::LogLevel::TraceL3 : (cl == 1 ? quill::LogLevel::Warning : quill::LogLevel::Critical);
    A->set_log_level_filter(a_level); C->set_log_level_filter(c_level);
    n += for_all_strings(A16, LEN, [&](std::string const& seq) {
      if (seq.empty()) return;
      current_case("logger=" + std::string(LN[ll]) + " A=" + std::to_string(al) + " C=" + std::to_string(cl) + " seq=" + seq);
      std::vector<std::string> wa, wb, wc; std::vector<quill::LogLevel> la, lb, lc;
      // every sequence is logged by a thread of its own: a new thread has a new backend buffer (initial capacity 1), so the buffer GROWS while the
      // first statement of the sequence is pending - a moved event must keep every field, its dynamic level included (seed C16-P4)
      std::thread logging_thread([&] {
      for (size_t i = 0; i < seq.size(); ++i)
      {
        int kind = seq[i] - 'a'; int lvl = kind & 3; bool dyn = (kind >> 2) & 1; bool withx = (kind >> 3) & 1;
        // the logger level changes between the statements of a sequence: configured level first, then one step stricter (wrapping)
        quill::LogLevel const logger_level = LV[(ll + (int)i) & 3];
        lg->set_log_level(logger_level);
        std::string msg = std::string(withx ? "x" : "m") + std::to_string(i);
        if (dyn) { LOG_DYNAMIC(lg, LV[lvl], "{}", msg); }
        else switch (lvl) { case 0: LOG_DEBUG(lg, "{}", msg); break; case 1: LOG_INFO(lg, "{}", msg); break; case 2: LOG_WARNING(lg, "{}", msg); break; default: LOG_ERROR(lg, "{}", msg); break; }
        if (LV[lvl] >= logger_level)
        {
          std::string body = std::string(LN[lvl]) + " " + msg + "\n";
          if (LV[lvl] >= a_level) { wa.push_back("LOG " + body); la.push_back(LV[lvl]); }
          if (!withx) { wb.push_back("LOG " + body); lb.push_back(LV[lvl]); }
          if (LV[lvl] >= c_level) { wc.push_back("OVR " + body); lc.push_back(LV[lvl]); }
        }
      }
      });
      logging_thread.join();
      backend->poll(); backend->poll_one();   // the idle pass reclaims the exited thread's context
      std::string in = g_current_case;
      bool same_sets = A->statements.size() == wa.size() && B->statements.size() == wb.size() && C->statements.size() == wc.size();
      check(o1, same_sets, in + " A " + std::to_string(A->statements.size()) + "/" + std::to_string(wa.size()) + " B " + std::to_string(B->statements.size()) + "/" + std::to_string(wb.size()) + " C " + std::to_string(C->statements.size()) + "/" + std::to_string(wc.size()));
      if (same_sets) check(o2, A->statements == wa && B->statements == wb && C->statements == wc && A->levels == la && B->levels == lb && C->levels == lc, in + (C->statements.empty() ? "" : " C[0]=" + C->statements[0]));
      A->statements.clear(); B->statements.clear(); C->statements.clear(); A->levels.clear(); B->levels.clear(); C->levels.clear();
    });
  }
  printf("SPACE 4 logger levels x 3 level filters of sink A x 3 of sink C (override pattern) x every sequence of 1..%d statements over 16 kinds (4 levels x static / LOG_DYNAMIC x accepted / rejected by the user filter of sink B), logger level changed between the statements\n", LEN);
  printf("DISTINCT %ld\n", n);
  printf("SAMPLE logger=INFO A=1 C=2 seq=fk\n");
  report(o1); report(o2);
  return (o1.failed || o2.failed) ? 1 : 0;
}
