// C12 / C19: MacroMetadata scans (constexpr functions, callable at run time) — exhaustive over short strings.
#include "quill/core/MacroMetadata.h"
#include "enum.h"
#ifndef LEN
#define LEN 9
#endif
using KV = std::vector<std::pair<std::string, std::string>>;
static bool spec(std::string const& t, KV& keys)
{
  size_t i = 0, n = t.size();
  while (i < n)
  {
    char c = t[i];
    if (c == '{')
    {
      if (i + 1 < n && t[i + 1] == '{') { i += 2; continue; }
      size_t j = i + 1; while (j < n && t[j] != '}' && t[j] != '{') j++;
      if (j >= n || t[j] != '}') return false;
      size_t col = t.find(':', i + 1); if (col == std::string::npos || col > j) col = j;
      keys.emplace_back(t.substr(i + 1, col - (i + 1)), t.substr(col, j - col)); i = j + 1;
    }
    else if (c == '}') { if (i + 1 < n && t[i + 1] == '}') { i += 2; continue; } return false; }
    else i++;
  }
  return true;
}
int main()
{
  Obl a1{"metadata.file_name", "C12", "", "file_name() = text after the last '/' up to the last ':'"};
  Obl a2{"metadata.full_path_and_line", "C12", "", "full_path() = text before the last ':', line() = text after it"};
  Obl a3{"metadata.short_source_location", "C12", "", "short_source_location() = text after the last '/'"};
  Obl b1{"metadata.named_args_detected", "C19", "", "a template whose placeholders are all named ({name} / {name:spec}, name starting with a letter) is detected as having named args (the converse, and templates mixing positional and named placeholders, are not demanded by the property)"};
  long n1 = 0, n2 = 0;
  for_all_strings("/:.a1", LEN, [&](std::string const& s) {
    if (s.find(':') == std::string::npos) return;      // the macro always produces file:line
    n1++;
    quill::MacroMetadata m{s.c_str(), "f", "x", nullptr, quill::LogLevel::Info, quill::MacroMetadata::Event::Log};
    size_t colon = s.rfind(':'); size_t slash = s.rfind('/'); size_t fstart = (slash == std::string::npos) ? 0 : slash + 1;
    if (fstart <= colon) check(a1, std::string(m.file_name()) == s.substr(fstart, colon - fstart), s);
    check(a2, std::string(m.full_path()) == s.substr(0, colon) && std::string(m.line()) == s.substr(colon + 1), s);
    check(a3, std::string(m.short_source_location()) == s.substr(fstart), s);
  });
  for_all_strings("{}:aZ0 ", LEN, [&](std::string const& t) {
    KV keys; if (!spec(t, keys)) return;
    n2++;
    bool want = !keys.empty(); for (auto& k : keys) if (!(!k.first.empty() && ((k.first[0] >= 'a' && k.first[0] <= 'z') || (k.first[0] >= 'A' && k.first[0] <= 'Z')))) want = false;   /* every placeholder is a named one */
    if (want) check(b1, quill::MacroMetadata::_contains_named_args(t), t);
  });
  printf("SPACE source locations: every string of length <= %d over / : . a 1 containing ':'; templates: every valid fmt template of length <= %d over { } : a Z 0 space\n", LEN, LEN);
  printf("DISTINCT %ld\n", n1 + n2);
  printf("SAMPLE a/a1.a:11\n");
  report(a1); report(a2); report(a3); report(b1);
  return (a1.failed || a2.failed || a3.failed || b1.failed) ? 1 : 0;
}
