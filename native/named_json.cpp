// C19: named placeholders through the real pipeline (LOG macros, ManualBackendWorker) into a recording sink (text message and
// structured pairs) and a real JsonFileSink, for a list of templates (literal text, escaped braces, names with and without
// specs, LOGJ_ generated templates) x every value tuple from a small set x two orders in which the templates are first seen
// (the parsed template is cached per format string) x two passes (first use, cached use).
#define CRASH_TAG "C19"
#include "quill/Backend.h"
#include "quill/Frontend.h"
#include "quill/LogMacros.h"
#include "quill/Logger.h"
#include "quill/sinks/JsonSink.h"
#include "quill/sinks/Sink.h"
#include "enum.h"
#include <filesystem>
#include <fstream>
#include <sstream>
namespace fs = std::filesystem;
struct RecSink : quill::Sink
{
  std::vector<std::string> messages; std::vector<std::vector<std::pair<std::string, std::string>>> pairs;
  void write_log(quill::MacroMetadata const*, uint64_t, std::string_view, std::string_view, std::string const&, std::string_view, quill::LogLevel,
                 std::string_view, std::string_view, std::vector<std::pair<std::string, std::string>> const* named_args, std::string_view log_message, std::string_view) override
  { messages.emplace_back(log_message); pairs.push_back(named_args ? *named_args : std::vector<std::pair<std::string, std::string>>{}); }
  void flush_sink() override {}
};
struct Expect { std::string message; std::string tmpl; std::vector<std::pair<std::string, std::string>> kv; };
// template list: (index, template, positional equivalent, names/specs, argument expressions over a (int), b (double), c (string))
#define TEMPLATES(X) \
  X(0, "plain {a}", "plain {}", ({{"a", "{}"}}), a) \
  X(1, "{a} and {b:.2f}", "{} and {:.2f}", ({{"a", "{}"}, {"b", "{:.2f}"}}), a, b) \
  X(2, "{{literal}} {c} end", "{{literal}} {} end", ({{"c", "{}"}}), c) \
  X(3, "{c:>6}|{a:04}|{b}", "{:>6}|{:04}|{}", ({{"c", "{:>6}"}, {"a", "{:04}"}, {"b", "{}"}}), c, a, b) \
  X(4, "{{{a}}}", "{{{}}}", ({{"a", "{}"}}), a) \
  X(5, "x={first_name} y={second.name}", "x={} y={}", ({{"first_name", "{}"}, {"second.name", "{}"}}), c, a) \
  X(6, "line one {a}\nline two {c}", "line one {}\nline two {}", ({{"a", "{}"}, {"c", "{}"}}), a, c) \
  X(7, "{a}{b}{c}", "{}{}{}", ({{"a", "{}"}, {"b", "{}"}, {"c", "{}"}}), a, b, c)
int main()
{
  char const* t = getenv("TMPDIR"); std::string base = std::string(t && *t ? t : "/var/tmp") + "/quillverif_json_XXXXXX";
  if (!mkdtemp(base.data())) { perror("mkdtemp"); return 2; }
  quill::ManualBackendWorker* backend = quill::Backend::acquire_manual_backend_worker();
  quill::BackendOptions bo; bo.log_timestamp_ordering_grace_period = std::chrono::microseconds{0};
  backend->init(bo);
  auto rec = std::make_shared<RecSink>();
  fs::path jf = fs::path(base) / "out.json";
  auto json = quill::Frontend::create_or_get_sink<quill::JsonFileSink>(jf.string(), []() { quill::FileSinkConfig c; c.set_open_mode('w'); return c; }());
  quill::Logger* lg = quill::Frontend::create_or_get_logger("nj", {std::static_pointer_cast<quill::Sink>(rec), json}, quill::PatternFormatterOptions{"%(message)"});
  Obl o1{"named.text_equals_positional", "C19", "", "the text message equals positional formatting of the arguments (names removed, specs kept)"};
  Obl o2{"named.pairs_in_order", "C19", "", "the structured list has one key/value pair per argument, in order, keyed by the placeholder name, each value formatted with its own spec"};
  Obl o3{"named.json_line", "C19", "", "the JSON sink writes exactly one single-line object per statement: the fixed fields, the original template as message (newlines replaced by spaces) and the pairs in order"};
  std::vector<int> as = {0, -7, 123456}; std::vector<double> bs = {0.0, 3.14159, -2.5}; std::vector<std::string> cs = {"", "hello", "with space"};
  long n = 0; std::vector<Expect> expects;
  auto emit = [&](int k, int a, double b, std::string const& c) {
    ++n;
    switch (k)
    {
#define X(IDX, TMPL, POS, KV, ...) \
      case IDX: { LOG_INFO(lg, TMPL, __VA_ARGS__); Expect e; e.tmpl = TMPL; e.message = fmtquill::format(POS, __VA_ARGS__); \
                  std::vector<std::pair<std::string, std::string>> specs KV; size_t i_ = 0; auto add = [&](auto const& v) { e.kv.push_back({specs[i_].first, fmtquill::format(fmtquill::runtime(specs[i_].second), v)}); ++i_; }; \
                  (void)add; [&](auto const&... vs) { (add(vs), ...); }(__VA_ARGS__); expects.push_back(e); break; }
      TEMPLATES(X)
#undef X
    }
  };
  for (int order = 0; order < 2; ++order) for (int pass = 0; pass < 2; ++pass) for (int a : as) for (double b : bs) for (std::string const& c : cs)
    for (int k0 = 0; k0 < 8; ++k0) emit(order == 0 ? k0 : 7 - k0, a, b, c);   // the second order sees the templates in reverse for the first time... (same cache keys: also cached use)
  // every ordered PAIR of templates back to back: whatever the backend keeps from one statement (parsed template, generated value
  // format string, buffers) must not leak into the next one - e.g. two templates with the same number of arguments but different specs
  for (int i = 0; i < 8; ++i) for (int j = 0; j < 8; ++j) { emit(i, -7, 3.14159, "hello"); emit(j, 123456, -2.5, "with space"); }
  current_case("poll");
  backend->poll(); backend->poll_one();
  json->flush_sink();
  std::vector<std::string> lines; { std::ifstream f(jf); std::string l; while (std::getline(f, l)) lines.push_back(l); }
  check(o3, lines.size() == expects.size(), "json lines " + std::to_string(lines.size()) + " statements " + std::to_string(expects.size()));
  for (size_t i = 0; i < expects.size(); ++i)
  {
    Expect const& e = expects[i]; std::string in = "statement #" + std::to_string(i) + " template [" + e.tmpl + "]";
    check(o1, i < rec->messages.size() && rec->messages[i] == e.message, in + " got [" + (i < rec->messages.size() ? rec->messages[i] : "-") + "] want [" + e.message + "]");
    check(o2, i < rec->pairs.size() && rec->pairs[i] == e.kv, in);
    if (i < lines.size())
    {
      std::string tm = e.tmpl; for (auto& ch : tm) if (ch == '\n') ch = ' ';
      std::string tail = "\"logger\":\"nj\",\"log_level\":\"INFO\",\"message\":\"" + tm + "\""; for (auto const& kv : e.kv) tail += ",\"" + kv.first + "\":\"" + kv.second + "\""; tail += "}";
      std::string const& l = lines[i];
      bool ok = l.rfind("{\"timestamp\":\"", 0) == 0 && l.size() >= tail.size() && l.compare(l.size() - tail.size(), tail.size(), tail) == 0 && l.find("\"file_name\":\"named_json.cpp\",\"line\":\"") != std::string::npos && l.find("\"thread_id\":\"") != std::string::npos;
      check(o3, ok, in + " line [" + l + "]");
    }
  }
  fs::remove_all(base);
  printf("SPACE 8 templates (literal text, escaped braces, specs, dotted names, newline, adjacent fields) x 27 value tuples x 2 orders x 2 passes + every ordered pair of templates back to back (the first pass of the first order sees every template for the first time, all later uses hit the per-format-string cache), text and pairs from a recording sink, lines from a real JsonFileSink\n");
  printf("DISTINCT %ld\n", n);
  printf("SAMPLE {{{a}}} a=-7\n");
  report(o1); report(o2); report(o3);
  return (o1.failed || o2.failed || o3.failed) ? 1 : 0;
}
