// C19: BackendWorker::_process_named_args_format_message against a scanner written from fmt's grammar
// ({{ and }} escapes outside fields; field = { name [:spec] }, spec without braces) — exhaustive over short templates.
#include "quill/backend/BackendWorker.h"
#include "enum.h"
#ifndef LEN
#define LEN 8
#endif
using KV = std::vector<std::pair<std::string, std::string>>;
static bool spec(std::string const& t, std::string& out, KV& keys)
{
  size_t i = 0, n = t.size();
  while (i < n)
  {
    char c = t[i];
    if (c == '{')
    {
      if (i + 1 < n && t[i + 1] == '{') { out += "{{"; i += 2; continue; }
      size_t j = i + 1; while (j < n && t[j] != '}' && t[j] != '{') j++;
      if (j >= n || t[j] != '}') return false;
      size_t col = t.find(':', i + 1); if (col == std::string::npos || col > j) col = j;
      keys.emplace_back(t.substr(i + 1, col - (i + 1)), t.substr(col, j - col)); out += "{" + t.substr(col, j - col) + "}"; i = j + 1;
    }
    else if (c == '}') { if (i + 1 < n && t[i + 1] == '}') { out += "}}"; i += 2; continue; } return false; }
    else { out += c; i++; }
  }
  return true;
}
int main()
{
  Obl o1{"named_template.matches_grammar", "C19", "", "template with every field's name removed == fmt-grammar scanner; keys = (name, :spec) in order (no field directly followed by an escaped }})"};
  Obl o2{"named_template.field_then_escaped_brace", "C19", "", "same, for templates where a field is directly followed by an escaped }}"};
  long valid = 0; std::string sample;
  long n = for_all_strings("{}:ax0 ", LEN, [&](std::string const& t) {
    std::string so; KV sk; if (!spec(t, so, sk)) return;     // precondition: a valid fmt template
    valid++; if (valid == 2222) sample = t;
    auto r = quill::detail::BackendWorker::_process_named_args_format_message(t);
    bool ok = (r.first == so && r.second == sk);
    if (t.find("}}}") != std::string::npos) check(o2, ok, t + " -> " + r.first); else check(o1, ok, t + " -> " + r.first);
  });
  printf("SPACE every string of length <= %d over { } : a x 0 space that is a valid fmt template (%ld of %ld strings)\n", LEN, valid, n);
  printf("DISTINCT %ld\n", valid);
  printf("SAMPLE %s\n", show(sample).c_str());
  report(o1); report(o2);
  return (o1.failed || o2.failed) ? 1 : 0;
}
