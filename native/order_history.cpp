// C05 / C03: global timestamp order through the real pipeline with THREE real frontend threads that log on command (so the
// interleaving of log calls and backend passes is chosen by the enumeration, not by the scheduler), a user clock that hands out
// chosen timestamps, and ManualBackendWorker passes at chosen points.  For every history of <= LEN actions over
//   a / b / c: thread A / B / C logs one statement, its timestamp being the next value of a per-history timestamp script
//   p: one backend pass (poll_one)    P: backend drains everything (poll)
// and every timestamp script from a small set (increasing, decreasing, equal, zig-zag).
// Checked against the property with the statements' own timestamps: whatever the backend writes is the smallest timestamp among
// everything enqueued and unwritten at that moment; thread order per thread; nothing lost or duplicated over the whole history.
#define CRASH_TAG "C05"
#include "quill/Backend.h"
#include "quill/Frontend.h"
#include "quill/LogMacros.h"
#include "quill/Logger.h"
#include "quill/UserClockSource.h"
#include "quill/sinks/Sink.h"
#include "enum.h"
#include <condition_variable>
#include <mutex>
#include <set>
#include <thread>
#ifndef LEN
#define LEN 6
#endif
struct ScriptClock : quill::UserClockSource { mutable uint64_t next = 0; uint64_t now() const override { return next; } };
struct RecSink : quill::Sink
{
  std::vector<std::pair<uint64_t, std::string>> out;
  void write_log(quill::MacroMetadata const*, uint64_t ts, std::string_view, std::string_view, std::string const&, std::string_view, quill::LogLevel,
                 std::string_view, std::string_view, std::vector<std::pair<std::string, std::string>> const*, std::string_view log_message, std::string_view) override
  { out.emplace_back(ts, std::string(log_message)); }
  void flush_sink() override {}
};
// a frontend thread that logs exactly when told to
struct Worker
{
  std::mutex m; std::condition_variable cv; int pending = 0; bool quit = false; int done = 0; std::string text; quill::Logger* lg = nullptr; std::thread th;
  void start(quill::Logger* l) { lg = l; th = std::thread([this]() { std::unique_lock<std::mutex> lk(m); while (true) { cv.wait(lk, [this]() { return pending > 0 || quit; }); if (quit) return; LOG_INFO(lg, "{}", text); --pending; ++done; cv.notify_all(); } }); }
  void log(std::string const& t) { std::unique_lock<std::mutex> lk(m); text = t; int want = done + 1; ++pending; cv.notify_all(); cv.wait(lk, [&]() { return done == want; }); }
  void stop() { { std::lock_guard<std::mutex> lk(m); quit = true; } cv.notify_all(); th.join(); }
};
int main()
{
  quill::ManualBackendWorker* backend = quill::Backend::acquire_manual_backend_worker();
  quill::BackendOptions bo; bo.log_timestamp_ordering_grace_period = std::chrono::microseconds{0};
#ifdef SMALL_LIMITS
  bo.transit_events_soft_limit = 2; bo.transit_events_hard_limit = 2;   // the read loop stops after two events per thread and the batch arm of the pass is taken
#endif
  backend->init(bo);
  auto sink = std::make_shared<RecSink>(); ScriptClock clock;
  quill::Logger* lg = quill::Frontend::create_or_get_logger("ord", std::static_pointer_cast<quill::Sink>(sink), quill::PatternFormatterOptions{"%(message)"}, quill::ClockSourceType::User, &clock);
  Worker w[3]; for (auto& x : w) x.start(lg);
  Obl o1{"order.smallest_timestamp_first", "C05", "", "every statement the backend writes has the smallest timestamp among all statements enqueued and not yet written at that moment, across all threads (statements enqueued in time are never overtaken by newer ones)"};
  Obl o2{"order.thread_order_and_exactly_once", "C03", "", "over the whole history every statement is written exactly once and each thread's statements keep their order"};
  std::vector<std::vector<uint64_t>> scripts = {{10, 20, 30, 40, 50, 60, 70, 80}, {80, 70, 60, 50, 40, 30, 20, 10}, {50, 50, 50, 50, 50, 50, 50, 50}, {30, 10, 40, 20, 60, 50, 80, 70}, {10, 90, 20, 80, 30, 70, 40, 60}};
  long n = 0;
  for (size_t si = 0; si < scripts.size(); ++si)
  {
    n += for_all_strings("abcpP", LEN, [&](std::string const& h) {
      current_case("script " + std::to_string(si) + " history " + h);
      std::vector<std::string> logged[3]; uint64_t last_ts[3] = {0, 0, 0}; size_t k = 0; size_t seen = 0; bool order_ok = true;
      std::multiset<uint64_t> pending;      // timestamps of the statements enqueued and not yet written
      auto account = [&]() {
        // every statement written by the pass(es) just made had the smallest timestamp of everything enqueued and unwritten at that moment
        for (; seen < sink->out.size(); ++seen)
        {
          uint64_t ts = sink->out[seen].first;
          if (pending.empty() || ts != *pending.begin()) order_ok = false;
          auto it = pending.find(ts); if (it != pending.end()) pending.erase(it); else order_ok = false;
        }
      };
      for (char c : h)
      {
        if (c == 'p') { backend->poll_one(); account(); continue; }
        if (c == 'P') { backend->poll(); account(); continue; }
        int t = c - 'a'; last_ts[t] = std::max(last_ts[t], scripts[si][k % scripts[si].size()]); clock.next = last_ts[t];   /* a thread's own clock never goes backwards (premise of the property) */
        std::string text = std::string(1, c) + std::to_string(k); ++k;
        w[t].log(text); logged[t].push_back(text); pending.insert(last_ts[t]);
      }
      backend->poll(); account();
      if (!pending.empty()) order_ok = false;
      std::string shown; for (auto const& e : sink->out) shown += e.second + "@" + std::to_string(e.first) + " ";
      check(o1, order_ok, g_current_case + " wrote " + shown);
      bool once = true; for (int t = 0; t < 3; ++t) { size_t pos = 0; for (auto const& e : sink->out) if (e.second[0] == (char)('a' + t)) { if (pos >= logged[t].size() || logged[t][pos] != e.second) once = false; ++pos; } if (pos != logged[t].size()) once = false; }
      check(o2, once, g_current_case + " wrote " + shown);
      sink->out.clear();
    });
  }
  for (auto& x : w) x.stop();
  printf("SPACE 5 timestamp scripts x every history of <= %d actions over {thread A, B, C logs; one backend pass; full drain}, three real frontend threads logging on command, user clock, ManualBackendWorker\n", LEN);
  printf("DISTINCT %ld\n", n);
  printf("SAMPLE script 3 history abcPabP\n");
  report(o1); report(o2);
  return (o1.failed || o2.failed) ? 1 : 0;
}
