// C12: PatternFormatter constructor / _generate_fmt_format_string — exhaustive over token sequences (<= K tokens):
// the 16 attributes (each at most once), three attributes with a format spec, literal tokens, and malformed tokens.
#include "quill/backend/PatternFormatter.h"
#include "enum.h"
#ifndef K
#define K 3
#endif
using namespace quill;
static const char* ATTR[] = {"time", "file_name", "caller_function", "log_level", "log_level_short_code", "line_number", "logger", "full_path", "thread_id", "thread_name",
                             "process_id", "source_location", "short_source_location", "message", "tags", "named_args"};
struct Tok { std::string text; int attr; std::string spec; int kind; };   // kind 0 attribute, 1 literal, 2 brace literal, 3 malformed
int main()
{
  std::vector<Tok> toks;
  for (int a = 0; a < 16; a++) toks.push_back({std::string("%(") + ATTR[a] + ")", a, "", 0});
  toks.push_back({"%(logger:<8)", 6, ":<8", 0}); toks.push_back({"%(log_level:>3)", 3, ":>3", 0}); toks.push_back({"%(message:^5)", 13, ":^5", 0});
  for (const char* lit : {"x", " ", "%", "(", ")", "["}) toks.push_back({lit, -1, "", 1});
  toks.push_back({"{", -1, "", 2}); toks.push_back({"}", -1, "", 2});
  toks.push_back({"%(bogus)", -1, "", 3}); toks.push_back({"%(time", -1, "", 3});
  Obl o1{"pattern.substitution", "C12", "", "fmt format string == pattern with each %(attr[:spec]) replaced by {[:spec]} plus newline; slot order = order of occurrence; used-set exact (no brace literals)"};
  Obl o2{"pattern.literal_braces", "C12", "pattern-literal-brace", "literal { and } of the pattern reach the output as text (escaped for fmt)"};
  Obl o4{"pattern.output_equals_substitution", "C12", "", "PatternFormatter::format returns the pattern with every %(attribute[:spec]) replaced by the statement's value for that attribute (formatted with its spec) plus a final newline - formatted twice with the same object"};
  static char const* VAL[16] = {"T", "f.cpp", "fn", "INFO", "I", "42", "lg", "/a/b/f.cpp", "tid", "tn", "pid", "/a/b/f.cpp:42", "f.cpp:42", "msg", "tg", ""};
  static constexpr MacroMetadata md{"/a/b/f.cpp:42", "fn", "fmt", "tg", LogLevel::Info, MacroMetadata::Event::Log};
  Obl o3{"pattern.rejects_malformed", "C12", "", "an unknown attribute or an unterminated %( is rejected with an error when the formatter is created"};
  int T = (int)toks.size(); long total = 0; std::vector<int> idx; std::string sample;
  for (int len = 0; len <= K; len++)
  {
    idx.assign(len, 0);
    while (true)
    {
      {
        std::string pat; bool braces = false;
        for (int i = 0; i < len; i++) { auto& t = toks[idx[i]]; pat += t.text; if (t.kind == 2) braces = true; }
        // independent specification: scan the final pattern text
        std::string exp, want_out, want_out2; bool want_ok = true; size_t order[16]; for (int a = 0; a < 16; a++) order[a] = 15; int ord = 0; unsigned set = 0; bool malformed = false, dup = false;
        for (size_t q = 0; q < pat.size();)
        {
          if (pat[q] == '%' && q + 1 < pat.size() && pat[q + 1] == '(')
          {
            size_t close = pat.find(')', q + 2); if (close == std::string::npos) { malformed = true; break; }
            std::string inner = pat.substr(q + 2, close - (q + 2)); size_t col = inner.find(':');
            std::string name = inner.substr(0, col), sp = (col == std::string::npos) ? "" : inner.substr(col);
            int a = -1; for (int k = 0; k < 16; k++) if (name == ATTR[k]) a = k;
            if (a < 0) { malformed = true; break; }
            if ((set >> a) & 1) dup = true;
            exp += "{" + sp + "}"; order[a] = ord++; set |= 1u << a; q = close + 1;
            try { want_out += fmtquill::format(fmtquill::runtime("{" + sp + "}"), std::string_view{VAL[a]}); want_out2 += fmtquill::format(fmtquill::runtime("{" + sp + "}"), std::string_view{a == 15 ? "k1: v1, k2: v2" : (a == 14 ? "" : VAL[a])}); } catch (std::exception&) { want_ok = false; }
          }
          else { char c = pat[q]; if (c == '{' || c == '}') { exp += c; exp += c; } else exp += c; want_out += c; want_out2 += c; q++; }
        }
        exp += "\n";
        if (!dup)
        {
          total++; if (total == 4321) sample = pat;
          bool threw = false, ok = true; std::string got;
          try
          {
            PatternFormatterOptions o; o.format_pattern = pat; o.timestamp_pattern = "T"; PatternFormatter f{o}; got = f._fmt_format;
            ok = (f._fmt_format == exp);
            for (int a = 0; a < 16 && ok; a++) { if (((set >> a) & 1) != (unsigned)f._is_set_in_pattern[a]) ok = false; if (((set >> a) & 1) && f._order_index[a] != order[a]) ok = false; }
            if (!malformed && !braces && want_ok)
            {
              // reference output: the final pattern text with each attribute replaced by its value formatted with its spec (built by the scanner above)
              std::string want = want_out + "\n";
              static std::vector<std::pair<std::string, std::string>> const na = {{"k1", "v1"}, {"k2", "v2"}};
              static constexpr MacroMetadata md_notags{"/a/b/f.cpp:42", "fn", "fmt", nullptr, LogLevel::Info, MacroMetadata::Event::Log};
              for (int round = 0; round < 3; ++round)
              {
                // rounds 0 and 1: no named args, tags "tg"; round 2: two named args, no tags - with the SAME formatter object (buffers are reused)
                std::string out{round < 2 ? f.format(1686614390ull * 1000000000ull, "tid", "tn", "pid", "lg", "INFO", "I", md, nullptr, "msg")
                                          : f.format(1686614390ull * 1000000000ull, "tid", "tn", "pid", "lg", "INFO", "I", md_notags, &na, "msg")};
                check(o4, len == 0 ? out.empty() : out == (round < 2 ? want : want_out2 + "\n"), pat + " -> " + out);
              }
            }
          }
          catch (std::exception&) { threw = true; }
          if (malformed) check(o3, threw, pat);
          else if (braces) check(o2, !threw && ok, pat + " -> " + got);
          else check(o1, !threw && ok, pat + " -> " + (threw ? "threw" : got));
        }
      }
      int p = len - 1; while (p >= 0 && ++idx[p] == T) { idx[p] = 0; p--; }
      if (p < 0) break;
    }
  }
  printf("SPACE every sequence of <= %d tokens out of %d (16 attributes each at most once, 3 with a spec, literals x space %% ( ) [ { }, malformed %%(bogus) and unterminated %%(time)\n", K, T);
  printf("DISTINCT %ld\n", total);
  printf("SAMPLE %s\n", show(sample).c_str());
  report(o1); report(o2); report(o3); report(o4);
  return (o1.failed || o2.failed || o3.failed || o4.failed) ? 1 : 0;
}
