// C17: removing and re-creating loggers with the REAL backend thread (forked child per case): remove_logger_blocking returns
// only after everything logged through the logger is in its file and the sink (not referenced otherwise) is gone; a logger of
// the same name can then be created with another sink; a sink shared with another logger keeps working.
// Cases: K = 0..KMAX statements x CYCLES remove / re-create cycles x {own sink, sink shared with a second logger}.
#define CRASH_TAG "C17"
#include "quill/Backend.h"
#include "quill/Frontend.h"
#include "quill/LogMacros.h"
#include "quill/Logger.h"
#include "quill/sinks/FileSink.h"
#include "enum.h"
#include <filesystem>
#include <fstream>
#include <sstream>
#include <sys/wait.h>
#ifndef KMAX
#define KMAX 4
#endif
#ifndef CYCLES
#define CYCLES 3
#endif
namespace fs = std::filesystem;
static std::string slurp(fs::path const& p) { std::ifstream f(p, std::ios::binary); std::stringstream ss; ss << f.rdbuf(); return ss.str(); }
static std::shared_ptr<quill::Sink> file_sink(std::string const& f) { return quill::Frontend::create_or_get_sink<quill::FileSink>(f, []() { quill::FileSinkConfig c; c.set_open_mode('w'); return c; }()); }
static int child(int k, bool shared, bool sleepy, std::string const& dir)
{
  alarm(120);
  quill::BackendOptions bo; bo.sleep_duration = sleepy ? std::chrono::microseconds{50000} : std::chrono::microseconds{0}; bo.sink_min_flush_interval = std::chrono::milliseconds{60000};
  quill::Backend::start(bo);
  std::string problems; std::string shared_file = dir + "/shared.log", want_shared;
  quill::Logger* other = shared ? quill::Frontend::create_or_get_logger("other", file_sink(shared_file), quill::PatternFormatterOptions{"%(message)"}) : nullptr;
  for (int c = 0; c < CYCLES; ++c)
  {
    std::string f = shared ? shared_file : dir + "/own" + std::to_string(c) + ".log";      // own sink: a DIFFERENT file in every cycle, same logger name
    quill::Logger* lg = quill::Frontend::create_or_get_logger("cycled", file_sink(f), quill::PatternFormatterOptions{"%(message)"});
    std::string want;
    for (int i = 0; i < k; ++i) { LOG_INFO(lg, "c{}s{}", c, i); want += "c" + std::to_string(c) + "s" + std::to_string(i) + "\n"; }
    quill::Frontend::remove_logger_blocking(lg);
    if (quill::Frontend::get_logger("cycled") != nullptr) problems += " cycle " + std::to_string(c) + ": the logger is still there after remove_logger_blocking;";
    if (!shared)
    {
      // removal has completed: the sink nobody else references is destroyed, its file closed, so everything is on disk now
      std::string got = slurp(f); if (got != want) problems += " cycle " + std::to_string(c) + ": file [" + show(got) + "] want [" + show(want) + "];";
    }
    else
    {
      want_shared += want;
      LOG_INFO(other, "o{}", c); want_shared += "o" + std::to_string(c) + "\n";           // the shared sink keeps working through the other logger
      other->flush_log();
      std::string got = slurp(shared_file); if (got != want_shared) problems += " cycle " + std::to_string(c) + ": shared file [" + show(got) + "] want [" + show(want_shared) + "];";
    }
  }
  if (!problems.empty()) { std::ofstream r(dir + "/result.txt"); r << problems; }
  _exit(problems.empty() ? 0 : 1);
}
int main()
{
  char const* t = getenv("TMPDIR"); std::string base = std::string(t && *t ? t : "/var/tmp") + "/quillverif_rm_XXXXXX";
  if (!mkdtemp(base.data())) { perror("mkdtemp"); return 2; }
  Obl o1{"remove.blocking_removal_completes_and_name_is_reusable", "C17", "", "remove_logger_blocking returns only after every statement logged through the logger is in its file and the logger is gone; a logger of the same name can then be created with a different sink; a sink shared with another logger keeps working"};
  long n = 0;
  for (int shared = 0; shared < 2; ++shared) for (int sleepy = 0; sleepy < 2; ++sleepy) for (int k = 0; k <= KMAX; ++k)
  {
    ++n; std::string dir = base + "/d"; fs::remove_all(dir); fs::create_directories(dir);
    fflush(stdout);
    pid_t pid = fork();
    if (pid == 0) child(k, shared != 0, sleepy != 0, dir);
    int status = 0; waitpid(pid, &status, 0);
    std::string in = std::string(shared ? "shared sink" : "own sink") + (sleepy ? ", backend sleeping" : ", backend polling") + ", k=" + std::to_string(k);
    check(o1, WIFEXITED(status) && WEXITSTATUS(status) == 0, in + " status " + std::to_string(status) + (fs::exists(dir + "/result.txt") ? slurp(dir + "/result.txt") : std::string()));
  }
  fs::remove_all(base);
  printf("SPACE {own sink (a new file per cycle), sink shared with a second logger} x {backend sleeping, polling} x K = 0..%d statements x %d remove / re-create cycles of one logger name, the real backend thread in a forked child per case\n", KMAX, CYCLES);
  printf("DISTINCT %ld\n", n);
  printf("SAMPLE own sink, backend sleeping, k=2\n");
  report(o1);
  return o1.failed ? 1 : 0;
}
