// C14: the real RotatingFileSink with size rotation across RESTARTS and naming schemes, on real files: a first run (open mode
// 'w') and a second run (open mode 'a', same directory, same day) over every pair of statement-size sequences of <= LEN
// statements each from {290, 700} bytes (limit 600), naming scheme in {Index, Date, DateAndTime}, max_backup_files in
// {unlimited, 2} x overwrite in {true, false}, with unrelated files present in the directory - among them the files of another sink whose name starts with this sink's stem.
// Checked against the property: the files, oldest first as the naming scheme orders them (larger index or earlier date is
// older, r.log is the newest), hold whole statements in order; with unlimited backups nothing of either run is lost (the
// second run continues the sequence instead of clobbering it); unrelated files are untouched.
#define CRASH_TAG "C14"
#include "quill/sinks/RotatingFileSink.h"
#include "enum.h"
#include <algorithm>
#include <filesystem>
#include <fstream>
#include <sstream>
#ifndef LEN
#define LEN 3
#endif
namespace fs = std::filesystem;
static std::string slurp(fs::path const& p) { std::ifstream f(p, std::ios::binary); std::stringstream ss; ss << f.rdbuf(); return ss.str(); }
struct Key { std::string dt; long idx; bool current; fs::path p; };
int main()
{
  char const* t = getenv("TMPDIR"); std::string base = std::string(t && *t ? t : "/var/tmp") + "/quillverif_rotr_XXXXXX";
  if (!mkdtemp(base.data())) { perror("mkdtemp"); return 2; }
  size_t const sizes[2] = {290, 700}; size_t const LIMIT = 600;
  Obl o1{"restart.whole_in_order", "C14", "", "after a run in mode 'w' and a restart in mode 'a', the files - oldest first as the naming scheme orders them - hold whole statements in the order they were written"};
  Obl o1k{"restart.whole_in_order_dateandtime_limited", "C14", "dateandtime-restart-backup-count", "same, for the DateAndTime naming scheme with a finite max_backup_files (files of the previous run must count towards the limit and be the first to go)"};
  Obl o2{"restart.nothing_clobbered", "C14", "", "with unlimited backups every statement of both runs is still there: restarting in append mode continues the existing sequence instead of clobbering it"};
  Obl o4{"restart.size_bound_across_restart", "C14", "", "no file exceeds rotation_max_file_size unless a single statement alone does - also the file a restart in append mode continues (its existing bytes count)"};
  Obl o3{"restart.unrelated_files_untouched", "C14", "", "files that are not part of the rotation sequence are neither removed nor modified"};
  using NS = quill::RotatingFileSinkConfig::RotationNamingScheme;
  NS const schemes[3] = {NS::Index, NS::Date, NS::DateAndTime}; char const* sname[3] = {"Index", "Date", "DateAndTime"};
  uint32_t const backups[2] = {0xffffffffu, 2}; long n = 0, pairs = 0;
  std::vector<std::pair<std::string, std::string>> unrelated = {{"other.1.log", "other one\n"}, {"r.log.bak", "backup\n"}, {"rr.1.log", "rr\n"}, {"notes.txt", "notes\n"},
                                                              {"r.debug.log", "another sink\n"}, {"r.debug.1.log", "another sink, rotated\n"}, {"r.notes.log", "user file\n"}, {"r.2x.log", "user file\n"}};
  for (int si = 0; si < 3; ++si) for (uint32_t mb : backups) for (int ow = 0; ow < 2; ++ow)
  {
    n += for_all_strings("ab", LEN, [&](std::string const& run1) {
      for_all_strings("ab", LEN, [&](std::string const& run2) {
        if (run1.empty() || run2.empty()) return;
        ++pairs;
        fs::path dir = fs::path(base) / "d"; fs::remove_all(dir); fs::create_directories(dir);
        for (auto const& u : unrelated) { std::ofstream f(dir / u.first, std::ios::binary); f << u.second; }
        std::vector<std::string> stmts; std::string all; int64_t ts = 1686567600; // 2023-06-12 11:00:00 UTC
        std::string in = std::string(sname[si]) + " backups=" + std::to_string(mb) + " overwrite=" + std::to_string(ow) + " run1=" + run1 + " run2=" + run2;
        current_case(in);
        for (int run = 0; run < 2; ++run)
        {
          quill::RotatingFileSinkConfig cfg; cfg.set_open_mode(run == 0 ? 'w' : 'a'); cfg.set_rotation_max_file_size(LIMIT); cfg.set_max_backup_files(mb); cfg.set_overwrite_rolled_files(ow != 0);
          cfg.set_rotation_naming_scheme(schemes[si]); cfg.set_timezone(quill::Timezone::GmtTime);
          ts += 10;
          quill::RotatingFileSink sink(dir / "r.log", cfg, quill::FileEventNotifier{}, std::chrono::system_clock::time_point{std::chrono::seconds{ts}});
          std::string const& seq = run == 0 ? run1 : run2;
          for (size_t k = 0; k < seq.size(); ++k)
          {
            std::string s = "<" + std::to_string(run) + ":" + std::to_string(k) + ">"; s.resize(sizes[seq[k] - 'a'] - 1, (char)('A' + k + 8 * run)); s += '\n';
            stmts.push_back(s); all += s; ts += 2;
            sink.write_log(nullptr, (uint64_t)ts * 1000000000ull, "", "", std::string{}, "", quill::LogLevel::Info, "", "", nullptr, "", s);
          }
          sink.flush_sink();
        }
        // classify the directory
        std::vector<Key> files; bool unrelated_ok = true;
        for (auto const& u : unrelated) if (!fs::exists(dir / u.first) || slurp(dir / u.first) != u.second) unrelated_ok = false;
        for (auto const& e : fs::directory_iterator(dir))
        {
          std::string name = e.path().filename().string(); bool isu = false; for (auto const& u : unrelated) isu = isu || name == u.first; if (isu) continue;
          Key k{"", 0, false, e.path()};
          if (name == "r.log") { k.current = true; }
          else if (name.rfind("r.", 0) == 0 && name.size() > 6 && name.substr(name.size() - 4) == ".log")
          {
            std::string mid = name.substr(2, name.size() - 6);           // "<idx>" | "<date>" | "<date>.<idx>" | "<date>_<time>[.<idx>]"
            size_t dot = mid.find('.');
            std::string a = dot == std::string::npos ? mid : mid.substr(0, dot), b = dot == std::string::npos ? "" : mid.substr(dot + 1);
            if (a.size() >= 8) { k.dt = a; k.idx = b.empty() ? 0 : atol(b.c_str()); } else { k.idx = atol(a.c_str()); }
          }
          else { unrelated_ok = false; continue; }   // a file the sink invented outside its naming scheme
          files.push_back(k);
        }
        // oldest first: earlier date-time first; within one date-time the larger index is older; r.log is the newest
        std::sort(files.begin(), files.end(), [](Key const& x, Key const& y) { if (x.current != y.current) return !x.current; if (x.dt != y.dt) return x.dt < y.dt; return x.idx > y.idx; });
        std::string cat; std::vector<std::string> contents; for (auto const& f : files) { contents.push_back(slurp(f.p)); cat += contents.back(); }
        // cat must be a suffix of `all` that starts at a statement boundary, every file holding whole statements
        bool suffix = cat.size() <= all.size() && all.compare(all.size() - cat.size(), cat.size(), cat) == 0 && !cat.empty();
        size_t first = stmts.size(); { size_t off = all.size(); for (size_t k = stmts.size();; --k) { if (off == all.size() - cat.size()) { first = k; break; } if (k == 0) break; off -= stmts[k - 1].size(); } }
        if (first == stmts.size()) suffix = false;
        bool whole = true; size_t ps = first;
        for (size_t i = 0; i < contents.size() && suffix; ++i) { size_t off = 0; while (off < contents[i].size() && ps < stmts.size() && contents[i].compare(off, stmts[ps].size(), stmts[ps]) == 0) { off += stmts[ps].size(); ++ps; } if (off != contents[i].size()) whole = false; }
        std::string listing; for (auto const& f : files) listing += f.p.filename().string() + "(" + std::to_string(fs::file_size(f.p)) + ") ";
        check((si == 2 && mb != 0xffffffffu) ? o1k : o1, suffix && whole, in + " files: " + listing);
        if (mb == 0xffffffffu) check(o2, suffix && first == 0, in + " files: " + listing);
        check(o3, unrelated_ok, in);
        // size bound, where no rotation can have been refused (unlimited backups or overwriting allowed): the file of the previous run counts too
        if (mb == 0xffffffffu || ow != 0)
        {
          bool within = true;
          for (auto const& c : contents) { size_t nl = 0; for (char ch : c) nl += ch == '\n'; if (c.size() > LIMIT && nl != 1) within = false; }
          check(o4, within, in + " files: " + listing);
        }
      });
    });
  }
  fs::remove_all(base);
  printf("SPACE {Index, Date, DateAndTime} x max_backup_files in {unlimited, 2} x overwrite in {true, false} x every pair (run in mode 'w', restart in mode 'a') of sequences of 1..%d statements from {290, 700} bytes, limit 600, 8 unrelated files present (among them the files of a sink named r.debug.log), on real files\n", LEN);
  (void)n; printf("DISTINCT %ld\n", pairs);
  printf("SAMPLE Date backups=2 overwrite=1 run1=ab run2=ba\n");
  report(o1); report(o1k); report(o2); report(o3); report(o4);
  return (o1.failed || o1k.failed || o2.failed || o3.failed || o4.failed) ? 1 : 0;
}
