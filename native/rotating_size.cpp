// C14: the real RotatingFileSink (RotatingSink<FileSink>) with size rotation, driven directly through write_log on real
// files in a scratch directory: every sequence of <= LEN statements with sizes from {150, 290, 700} bytes x limit 600 bytes x
// max_backup_files in {1, 2, unlimited} x overwrite_rolled_files in {true, false}.  Checked against the property, not
// against the implementation: the files, oldest first, hold whole statements in order; nothing is lost unless the oldest
// file had to be overwritten; no file exceeds the limit unless a single statement alone does or rotation had to stop;
// at most max_backup_files + 1 files.
#include "quill/sinks/RotatingFileSink.h"
#include "enum.h"
#include <algorithm>
#include <filesystem>
#include <fstream>
#include <sstream>
#ifndef LEN
#define LEN 5
#endif
namespace fs = std::filesystem;
static std::string slurp(fs::path const& p) { std::ifstream f(p, std::ios::binary); std::stringstream ss; ss << f.rdbuf(); return ss.str(); }
int main()
{
  char const* t = getenv("TMPDIR"); std::string base = std::string(t && *t ? t : "/var/tmp") + "/quillverif_rot_XXXXXX";
  if (!mkdtemp(base.data())) { perror("mkdtemp"); return 2; }
  size_t const sizes[3] = {150, 290, 700}; size_t const LIMIT = 600;
  Obl o1{"size_rotation.whole_in_order", "C14", "", "the files, oldest first, hold whole statements in the order they were written"};
  Obl o2{"size_rotation.nothing_lost", "C14", "", "nothing is lost unless the backup limit forced the oldest file to be overwritten (then only a prefix of whole files is gone)"};
  Obl o3{"size_rotation.within_limit", "C14", "", "no file exceeds rotation_max_file_size unless it holds a single statement or rotation had to stop (no overwrite, backup limit reached)"};
  Obl o4{"size_rotation.file_count", "C14", "", "at most max_backup_files + 1 files exist"};
  long n = 0; uint32_t const backups[3] = {1, 2, 0xffffffffu};
  // two ways to name the log file: "d/r.log" and - a directory with a dot in its name, a file without an extension - "v1.2/app"
  // (the rotated names are derived from the file name's stem and extension: "r.1.log" / "app.1", always inside the same directory)
  struct Naming { char const* dir; char const* file; char const* stem; char const* ext; };
  Naming const namings[2] = {{"d", "r.log", "r", ".log"}, {"v1.2", "app", "app", ""}};
  for (Naming const& nm : namings) for (uint32_t mb : backups) for (int ow = 0; ow < 2; ++ow)
  {
    std::string const stem_dot = std::string(nm.stem) + ".", ext = nm.ext, current = nm.file;
    n += for_all_strings("abc", LEN, [&](std::string const& seq) {
      fs::remove_all(fs::path(base) / "d"); fs::remove_all(fs::path(base) / "v1.2");
      fs::path dir = fs::path(base) / nm.dir; fs::create_directories(dir);
      std::vector<std::string> stmts; std::string all;
      {
        quill::RotatingFileSinkConfig cfg; cfg.set_open_mode('w'); cfg.set_rotation_max_file_size(LIMIT); cfg.set_max_backup_files(mb); cfg.set_overwrite_rolled_files(ow != 0);
        quill::RotatingFileSink sink(dir / current, cfg);
        uint64_t ts = 1700000000ull * 1000000000ull;
        for (size_t k = 0; k < seq.size(); ++k)
        {
          std::string s = "<" + std::to_string(k) + ">"; s.resize(sizes[seq[k] - 'a'] - 1, (char)('A' + k)); s += '\n';
          stmts.push_back(s); all += s;
          sink.write_log(nullptr, ts += 1000, "", "", std::string{}, "", quill::LogLevel::Info, "", "", nullptr, "", s);
        }
        sink.flush_sink();
      }
      // collect files: r.log = index 0 (newest), r.N.log = older with larger N
      std::vector<std::pair<long, fs::path>> files;
      for (auto const& e : fs::directory_iterator(dir))
      {
        std::string name = e.path().filename().string(); long idx = -1;
        if (name == current) idx = 0;
        else if (name.rfind(stem_dot, 0) == 0 && name.size() > stem_dot.size() + ext.size() && name.substr(name.size() - ext.size()) == ext) idx = atol(name.substr(stem_dot.size(), name.size() - stem_dot.size() - ext.size()).c_str());
        files.push_back({idx, e.path()});
      }
      // nothing of the sequence may be created outside the directory of the log file (e.g. next to a directory whose name has a dot)
      size_t outside = 0; for (auto const& e : fs::directory_iterator(base)) if (e.path().filename() != nm.dir) ++outside;
      std::sort(files.begin(), files.end(), [](auto const& a, auto const& b) { return a.first > b.first; });
      std::string in = std::string(nm.dir) + "/" + nm.file + " backups=" + std::to_string(mb) + " overwrite=" + std::to_string(ow) + " sizes=" + seq;
      std::string cat; bool sizes_ok = true; size_t pos_stmt = 0; bool whole = true;
      std::vector<std::string> contents; for (auto const& f : files) { contents.push_back(slurp(f.second)); cat += contents.back(); }
      // cat must be a suffix of `all` starting at a statement boundary
      size_t first = stmts.size(); { size_t off = all.size(); for (size_t k = stmts.size(); ; --k) { if (off == all.size() - cat.size()) { first = k; break; } if (k == 0) break; off -= stmts[k - 1].size(); } }
      bool suffix = first <= stmts.size() && cat.size() <= all.size() && all.compare(all.size() - cat.size(), cat.size(), cat) == 0 && (first < stmts.size() || cat.empty());
      if (cat.empty() && !all.empty()) suffix = false;
      // every file holds whole statements
      pos_stmt = first;
      for (size_t i = 0; i < contents.size() && suffix; ++i)
      {
        size_t off = 0, cnt = 0; while (off < contents[i].size() && pos_stmt < stmts.size() && contents[i].compare(off, stmts[pos_stmt].size(), stmts[pos_stmt]) == 0) { off += stmts[pos_stmt].size(); ++pos_stmt; ++cnt; }
        if (off != contents[i].size()) whole = false;
        bool newest = (i + 1 == contents.size());
        bool stopped = (ow == 0 && mb != 0xffffffffu && files.size() == (size_t)mb + 1 && newest);
        if (contents[i].size() > LIMIT && cnt != 1 && !stopped) sizes_ok = false;
      }
      check(o1, suffix && whole && outside == 0, in + (outside ? " (files created outside the log directory)" : ""));
      bool may_lose = (ow != 0 && mb != 0xffffffffu);
      check(o2, suffix && (may_lose || first == 0), in);
      if (suffix && whole) check(o3, sizes_ok, in);
      if (mb != 0xffffffffu) check(o4, files.size() <= (size_t)mb + 1, in + " files=" + std::to_string(files.size()));
    });
  }
  fs::remove_all(base);
  printf("SPACE {d/r.log, v1.2/app (dotted directory, no extension)} x every sequence of <= %d statements with sizes from {150, 290, 700} bytes, limit 600, max_backup_files in {1, 2, unlimited} x overwrite in {true, false}, on real files\n", LEN);
  printf("DISTINCT %ld\n", n);
  printf("SAMPLE backups=1 overwrite=1 sizes=abcab\n");
  report(o1); report(o2); report(o3); report(o4);
  return (o1.failed || o2.failed || o3.failed || o4.failed) ? 1 : 0;
}
