// C15: the real RotatingFileSink with time rotation (GMT) on real files: for every start instant from a set, every rotation
// schedule from a set and every increasing sequence of <= LEN statement instants chosen from a grid around the rotation
// points, two statements share a file exactly when no scheduled rotation point lies between them.
#include "quill/sinks/RotatingFileSink.h"
#include "enum.h"
#include <algorithm>
#include <filesystem>
#include <fstream>
#include <sstream>
#ifndef LEN
#define LEN 4
#endif
namespace fs = std::filesystem;
static std::string slurp(fs::path const& p) { std::ifstream f(p, std::ios::binary); std::stringstream ss; ss << f.rdbuf(); return ss.str(); }
struct Sched { char const* name; char freq; uint32_t interval; char const* daily; int64_t period_s; };
int main()
{
  char const* t = getenv("TMPDIR"); std::string base = std::string(t && *t ? t : "/var/tmp") + "/quillverif_rott_XXXXXX";
  if (!mkdtemp(base.data())) { perror("mkdtemp"); return 2; }
  int64_t const DAY0 = 1686528000; // 2023-06-12 00:00:00 UTC
  int64_t const starts[4] = {DAY0, DAY0 + 10 * 3600 + 59 * 60 + 30, DAY0 + 23 * 3600 + 59 * 60 + 59, DAY0 + 2 * 3600};
  Sched const scheds[4] = {{"minutely/1", 'M', 1, nullptr, 60}, {"minutely/7", 'M', 7, nullptr, 420}, {"hourly/1", 'H', 1, nullptr, 3600}, {"daily 02:00", 0, 0, "02:00", 86400}};
  Obl o1{"time_rotation.separated_at_points", "C15", "", "two statements share a file exactly when no scheduled rotation point (first point after the start, then every period) lies between them"};
  Obl o2{"time_rotation.whole_in_order", "C15", "", "the files, oldest first, hold the statements whole and in order"};
  long n = 0;
  for (int64_t S : starts) for (Sched const& sc : scheds)
  {
    // first point strictly after S, then every period
    int64_t P0;
    if (sc.freq == 'M') P0 = (S / 60 + 1) * 60; else if (sc.freq == 'H') P0 = (S / 3600 + 1) * 3600; else { P0 = (S / 86400) * 86400 + 2 * 3600; if (P0 <= S) P0 += 86400; }
    // grid of candidate instants: just before / at / after the first few points, and far later (many periods skipped)
    std::vector<int64_t> grid = {S + 1, P0 - 1, P0, P0 + 1, P0 + sc.period_s - 1, P0 + sc.period_s, P0 + 2 * sc.period_s + 5, P0 + 11 * sc.period_s + 3};
    std::sort(grid.begin(), grid.end()); grid.erase(std::unique(grid.begin(), grid.end()), grid.end());
    std::string A; for (size_t i = 0; i < grid.size(); ++i) A += (char)('a' + i);
    n += for_all_strings(A, LEN, [&](std::string const& pick) {
      for (size_t i = 1; i < pick.size(); ++i) if (pick[i] <= pick[i - 1]) return;   // strictly increasing instants only
      if (pick.empty()) return;
      fs::path dir = fs::path(base) / "d"; fs::remove_all(dir); fs::create_directories(dir);
      std::vector<std::string> stmts; std::vector<int64_t> at;
      {
        quill::RotatingFileSinkConfig cfg; cfg.set_open_mode('w'); cfg.set_timezone(quill::Timezone::GmtTime);
        if (sc.daily) cfg.set_rotation_time_daily(sc.daily); else cfg.set_rotation_frequency_and_interval(sc.freq, sc.interval);
        quill::RotatingFileSink sink(dir / "r.log", cfg, quill::FileEventNotifier{}, std::chrono::system_clock::time_point{std::chrono::seconds{S}});
        for (size_t k = 0; k < pick.size(); ++k)
        {
          int64_t ts = grid[pick[k] - 'a']; at.push_back(ts);
          std::string s = "<" + std::to_string(k) + ">\n"; stmts.push_back(s);
          sink.write_log(nullptr, (uint64_t)ts * 1000000000ull, "", "", std::string{}, "", quill::LogLevel::Info, "", "", nullptr, "", s);
        }
        sink.flush_sink();
      }
      std::vector<std::pair<long, fs::path>> files;
      for (auto const& e : fs::directory_iterator(dir))
      {
        std::string name = e.path().filename().string(); long idx = -1;
        if (name == "r.log") idx = 0; else if (name.rfind("r.", 0) == 0 && name.size() > 6) idx = atol(name.substr(2, name.size() - 6).c_str());
        files.push_back({idx, e.path()});
      }
      std::sort(files.begin(), files.end(), [](auto const& a, auto const& b) { return a.first > b.first; });
      // expected grouping: a new file starts at statement k iff a point lies in (at[k-1], at[k]] (for k = 0: in (S, at[0]])
      auto point_between = [&](int64_t lo, int64_t hi) { if (hi < P0) return false; int64_t k = (hi - P0) / sc.period_s; int64_t p = P0 + k * sc.period_s; return p > lo; };
      std::vector<std::string> expect; std::string cur;
      for (size_t k = 0; k < stmts.size(); ++k)
      {
        bool split = point_between(k == 0 ? S : at[k - 1], at[k]);
        if (split && !cur.empty()) { expect.push_back(cur); cur.clear(); }
        cur += stmts[k];
      }
      expect.push_back(cur);
      std::vector<std::string> got; std::string cat, all; for (auto const& f : files) { std::string c = slurp(f.second); if (!c.empty()) got.push_back(c); cat += c; } for (auto const& s : stmts) all += s;
      std::string in = std::string(sc.name) + " start=" + std::to_string(S - DAY0) + "s instants(rel. first point)="; for (auto x : at) in += std::to_string(x - P0) + ",";
      check(o2, cat == all, in);
      check(o1, got == expect, in + " files=" + std::to_string(got.size()) + " expected=" + std::to_string(expect.size()));
    });
  }
  fs::remove_all(base);
  printf("SPACE 4 start instants x {minutely/1, minutely/7, hourly/1, daily 02:00} (GMT) x every increasing sequence of <= %d statement instants from an 8-point grid around the rotation points (incl. 11 periods later), on real files\n", LEN);
  printf("DISTINCT %ld\n", n);
  printf("SAMPLE daily 02:00 start=39570s instants=-1,0,86400\n");
  report(o1); report(o2);
  return (o1.failed || o2.failed) ? 1 : 0;
}
