// C15: the real RotatingFileSink with time rotation (GMT) on real files: for every start instant from a set, every rotation
// schedule from a set and every increasing sequence of <= LEN statement instants chosen from a grid around the rotation
// points, two statements share a file exactly when no scheduled rotation point lies between them.
#include "quill/sinks/RotatingFileSink.h"
#include "enum.h"
#include <ctime>
#include <algorithm>
#include <filesystem>
#include <fstream>
#include <sstream>
#ifndef LEN
#define LEN 4
#endif
namespace fs = std::filesystem;
static std::string slurp(fs::path const& p) { std::ifstream f(p, std::ios::binary); std::stringstream ss; ss << f.rdbuf(); return ss.str(); }
struct Sched { char const* name; char freq; uint32_t interval; char const* daily; int64_t period_s; };
int main()
{
  char const* t = getenv("TMPDIR"); std::string base = std::string(t && *t ? t : "/var/tmp") + "/quillverif_rott_XXXXXX";
  if (!mkdtemp(base.data())) { perror("mkdtemp"); return 2; }
  int64_t const DAY0 = 1686528000; // 2023-06-12 00:00:00 UTC
  int64_t const starts[4] = {DAY0, DAY0 + 10 * 3600 + 59 * 60 + 30, DAY0 + 23 * 3600 + 59 * 60 + 59, DAY0 + 2 * 3600};
  Sched const scheds[4] = {{"minutely/1", 'M', 1, nullptr, 60}, {"minutely/7", 'M', 7, nullptr, 420}, {"hourly/1", 'H', 1, nullptr, 3600}, {"daily 02:00", 0, 0, "02:00", 86400}};
  Obl o1{"time_rotation.separated_at_points", "C15", "", "two statements share a file exactly when no scheduled rotation point (first point after the start, then every period) lies between them"};
  Obl o2{"time_rotation.whole_in_order", "C15", "", "the files, oldest first, hold the statements whole and in order"};
  Obl o4{"time_rotation.named_after_open_moment", "C15", "", "naming scheme DateAndTime: each rotated file is named r.<YYYYMMDD_HHMMSS>.log after the moment it was opened (the start instant for the first file, the statement that caused the rotation for the others)"};
  long n = 0;
  for (int naming = 0; naming < 2; ++naming) for (int64_t S : starts) for (Sched const& sc : scheds)
  {
    // first point strictly after S, then every period
    int64_t P0;
    if (sc.freq == 'M') P0 = (S / 60 + 1) * 60; else if (sc.freq == 'H') P0 = (S / 3600 + 1) * 3600; else { P0 = (S / 86400) * 86400 + 2 * 3600; if (P0 <= S) P0 += 86400; }
    // grid of candidate instants: just before / at / after the first few points, and far later (many periods skipped)
    std::vector<int64_t> grid = {S + 1, P0 - 1, P0, P0 + 1, P0 + sc.period_s - 1, P0 + sc.period_s, P0 + 2 * sc.period_s + 5, P0 + 11 * sc.period_s + 3};
    std::sort(grid.begin(), grid.end()); grid.erase(std::unique(grid.begin(), grid.end()), grid.end());
    std::string A; for (size_t i = 0; i < grid.size(); ++i) A += (char)('a' + i);
    n += for_all_strings(A, LEN, [&](std::string const& pick) {
      for (size_t i = 1; i < pick.size(); ++i) if (pick[i] <= pick[i - 1]) return;   // strictly increasing instants only
      if (pick.empty()) return;
      fs::path dir = fs::path(base) / "d"; fs::remove_all(dir); fs::create_directories(dir);
      std::vector<std::string> stmts; std::vector<int64_t> at;
      {
        quill::RotatingFileSinkConfig cfg; cfg.set_open_mode('w'); cfg.set_timezone(quill::Timezone::GmtTime);
        if (naming == 1) cfg.set_rotation_naming_scheme(quill::RotatingFileSinkConfig::RotationNamingScheme::DateAndTime);
        if (sc.daily) cfg.set_rotation_time_daily(sc.daily); else cfg.set_rotation_frequency_and_interval(sc.freq, sc.interval);
        quill::RotatingFileSink sink(dir / "r.log", cfg, quill::FileEventNotifier{}, std::chrono::system_clock::time_point{std::chrono::seconds{S}});
        for (size_t k = 0; k < pick.size(); ++k)
        {
          int64_t ts = grid[pick[k] - 'a']; at.push_back(ts);
          std::string s = "<" + std::to_string(k) + ">\n"; stmts.push_back(s);
          sink.write_log(nullptr, (uint64_t)ts * 1000000000ull, "", "", std::string{}, "", quill::LogLevel::Info, "", "", nullptr, "", s);
        }
        sink.flush_sink();
      }
      std::vector<std::pair<long, fs::path>> files;
      for (auto const& e : fs::directory_iterator(dir))
      {
        std::string name = e.path().filename().string(); long idx = -1;
        if (name == "r.log") idx = 0; else if (name.rfind("r.", 0) == 0 && name.size() > 6) idx = atol(name.substr(2, name.size() - 6).c_str());
        files.push_back({idx, e.path()});
      }
      if (naming == 0) std::sort(files.begin(), files.end(), [](auto const& a, auto const& b) { return a.first > b.first; });
      else std::sort(files.begin(), files.end(), [](auto const& a, auto const& b) { bool ca = a.second.filename() == "r.log", cb = b.second.filename() == "r.log"; if (ca != cb) return cb; return a.second.filename().string() < b.second.filename().string(); });
      // expected grouping: a new file starts at statement k iff a point lies in (at[k-1], at[k]] (for k = 0: in (S, at[0]])
      auto point_between = [&](int64_t lo, int64_t hi) { if (hi < P0) return false; int64_t k = (hi - P0) / sc.period_s; int64_t p = P0 + k * sc.period_s; return p > lo; };
      std::vector<std::string> expect; std::string cur;
      for (size_t k = 0; k < stmts.size(); ++k)
      {
        bool split = point_between(k == 0 ? S : at[k - 1], at[k]);
        if (split && !cur.empty()) { expect.push_back(cur); cur.clear(); }
        cur += stmts[k];
      }
      expect.push_back(cur);
      std::vector<std::string> got; std::string cat, all; for (auto const& f : files) { std::string c = slurp(f.second); if (!c.empty()) got.push_back(c); cat += c; } for (auto const& s : stmts) all += s;
      std::string in = std::string(sc.name) + " start=" + std::to_string(S - DAY0) + "s instants(rel. first point)="; for (auto x : at) in += std::to_string(x - P0) + ",";
      if (naming == 1) in = "DateAndTime " + in;
      check(o2, cat == all, in);
      check(o1, got == expect, in + " files=" + std::to_string(got.size()) + " expected=" + std::to_string(expect.size()));
      if (naming == 1)
      {
        // open moments: S for the first file, then the instant of the first statement of every later group; the last group is r.log
        std::vector<int64_t> opened = {S}; for (size_t k = 0; k < stmts.size(); ++k) if (point_between(k == 0 ? S : at[k - 1], at[k]) && k > 0) opened.push_back(at[k]);
        // (a rotation point that passes while the file is still empty does not rotate: the file keeps the moment it was opened, S)
        std::vector<std::string> want_names; for (size_t i = 0; i + 1 < opened.size(); ++i) { time_t tt = (time_t)opened[i]; tm g{}; gmtime_r(&tt, &g); char b[64]; strftime(b, sizeof b, "r.%Y%m%d_%H%M%S.log", &g); want_names.push_back(b); }
        std::vector<std::string> got_names; std::string listing; for (auto const& f : files) { std::string nm = f.second.filename().string(); listing += nm + " "; if (nm != "r.log" && fs::file_size(f.second) > 0) got_names.push_back(nm); }
        check(o4, got_names == want_names, in + " files: " + listing);
      }
    });
  }
  // ---- local time across daylight saving switches: daily at HH:MM in the sink's (= the process') time zone
  Obl o3{"time_rotation.daily_local_time_across_dst", "C15", "", "daily at HH:MM in local time: the rotation points are HH:MM of every calendar day, also on and after the days on which daylight saving starts or ends (23 / 25 hour days, Lord Howe: 30 minutes)"};
  struct Dst { char const* tz; int y, m, d; };   // the day BEFORE the switch
  Dst const switches[5] = {{"America/New_York", 2023, 11, 4}, {"America/New_York", 2023, 3, 11}, {"Europe/Berlin", 2023, 10, 28}, {"Europe/Berlin", 2023, 3, 25}, {"Australia/Lord_Howe", 2023, 4, 1}};
  for (Dst const& sw : switches) for (char const* hhmm : {"00:30", "03:00", "12:00", "23:15"})
  {
    setenv("TZ", sw.tz, 1); tzset();
    int const H = atoi(hhmm), M = atoi(hhmm + 3);
    auto point = [&](int day_offset) { tm t{}; t.tm_year = sw.y - 1900; t.tm_mon = sw.m - 1; t.tm_mday = sw.d + day_offset; t.tm_hour = H; t.tm_min = M; t.tm_isdst = -1; return (int64_t)mktime(&t); };
    std::vector<int64_t> P; for (int d = 0; d < 4; ++d) P.push_back(point(d));
    int64_t const S = P[0] - 6 * 3600;                       // the sink is opened six hours before the first point
    std::vector<int64_t> at; for (int64_t p : P) { at.push_back(p - 1500); at.push_back(p + 1500); }
    fs::path dir = fs::path(base) / "d"; fs::remove_all(dir); fs::create_directories(dir);
    std::vector<std::string> stmts;
    {
      quill::RotatingFileSinkConfig cfg; cfg.set_open_mode('w'); cfg.set_timezone(quill::Timezone::LocalTime); cfg.set_rotation_time_daily(hhmm);
      quill::RotatingFileSink sink(dir / "r.log", cfg, quill::FileEventNotifier{}, std::chrono::system_clock::time_point{std::chrono::seconds{S}});
      for (size_t k = 0; k < at.size(); ++k) { std::string st = "<" + std::to_string(k) + ">\n"; stmts.push_back(st); sink.write_log(nullptr, (uint64_t)at[k] * 1000000000ull, "", "", std::string{}, "", quill::LogLevel::Info, "", "", nullptr, "", st); }
      sink.flush_sink();
    }
    std::vector<std::pair<long, fs::path>> files;
    for (auto const& e : fs::directory_iterator(dir)) { std::string name = e.path().filename().string(); long idx = name == "r.log" ? 0 : atol(name.substr(2, name.size() - 6).c_str()); files.push_back({idx, e.path()}); }
    std::sort(files.begin(), files.end(), [](auto const& a, auto const& b) { return a.first > b.first; });
    std::vector<std::string> got; for (auto const& f : files) { std::string c = slurp(f.second); if (!c.empty()) got.push_back(c); }
    // expected: <0> | <1><2> | <3><4> | <5><6> | <7>   (a new file at every HH:MM)
    std::vector<std::string> expect = {stmts[0], stmts[1] + stmts[2], stmts[3] + stmts[4], stmts[5] + stmts[6], stmts[7]};
    ++n;
    std::string shown; for (auto const& g : got) { for (char c : g) shown += c == '\n' ? ' ' : c; shown += "| "; }
    check(o3, got == expect, std::string(sw.tz) + " switch after " + std::to_string(sw.y) + "-" + std::to_string(sw.m) + "-" + std::to_string(sw.d) + " daily " + hhmm + " files: " + shown);
  }
  setenv("TZ", "UTC", 1); tzset();
  fs::remove_all(base);
  printf("SPACE {Index, DateAndTime naming} x 4 start instants x {minutely/1, minutely/7, hourly/1, daily 02:00} (GMT) x every increasing sequence of <= %d statement instants from an 8-point grid around the rotation points (incl. 11 periods later); plus daily rotation in LOCAL time at 4 times of day across 5 daylight saving switches in 3 zones; on real files\n", LEN);
  printf("DISTINCT %ld\n", n);
  printf("SAMPLE daily 02:00 start=39570s instants=-1,0,86400\n");
  report(o1); report(o2); report(o3); report(o4);
  return (o1.failed || o2.failed || o3.failed || o4.failed) ? 1 : 0;
}
