// C12: BackendWorker::_apply_runtime_metadata through the real pipeline (ManualBackendWorker, recording sink): statements
// logged with runtime-supplied file / line / function must render file name, full path, line, function, level and message
// exactly as a statement with the same compile-time metadata would - for every combination of a set of files, lines,
// functions and every message of length <= LEN over { 'a', ':', ' ', '/' }, each logged twice (metadata created, then reused).
#include "quill/Backend.h"
#include "quill/Frontend.h"
#include "quill/LogMacros.h"
#include "quill/Logger.h"
#include "quill/sinks/Sink.h"
#include "enum.h"
#ifndef LEN
#define LEN 3
#endif
struct RecSink : quill::Sink
{
  std::vector<std::string> statements;
  void write_log(quill::MacroMetadata const*, uint64_t, std::string_view, std::string_view, std::string const&, std::string_view, quill::LogLevel,
                 std::string_view, std::string_view, std::vector<std::pair<std::string, std::string>> const*, std::string_view, std::string_view log_statement) override
  { statements.emplace_back(log_statement); }
  void flush_sink() override {}
};
static std::string base_name(std::string const& p) { auto k = p.find_last_of('/'); return k == std::string::npos ? p : p.substr(k + 1); }
int main()
{
  quill::ManualBackendWorker* backend = quill::Backend::acquire_manual_backend_worker();
  quill::BackendOptions bo; bo.log_timestamp_ordering_grace_period = std::chrono::microseconds{0};
  backend->init(bo);
  auto sink = std::make_shared<RecSink>();
  quill::Logger* lg = quill::Frontend::create_or_get_logger("rt", std::static_pointer_cast<quill::Sink>(sink),
    quill::PatternFormatterOptions{"%(file_name)|%(full_path)|%(line_number)|%(caller_function)|%(log_level)|%(source_location)|%(message)", "%H:%M:%S", quill::Timezone::GmtTime, false},
    quill::ClockSourceType::System);
  std::vector<std::string> files = {"f.cpp", "/a/b/f.cpp", "dir/g.h", "x"};
  std::vector<uint32_t> lines = {0u, 7u, 123456u, 4294967295u};
  std::vector<std::string> funcs = {"g", "ns::h", "operator()", "f"};
  Obl o1{"runtime_md.equals_spec", "C12", "", "a statement with runtime-supplied metadata renders file name, full path, line, function, level, source location and message exactly as given (first use: metadata created; second use: metadata reused)"};
  Obl o2{"runtime_md.one_statement", "C12", "", "exactly one statement reaches the sink per log call"};
  long n = 0;
  for (auto const& f : files) for (uint32_t ln : lines) for (auto const& fn : funcs)
  {
    n += for_all_strings("a: /", LEN, [&](std::string const& m) {
      for (int round = 0; round < 2; ++round)
      {
        quill::LogLevel lvl = round ? quill::LogLevel::Warning : quill::LogLevel::Info;
        LOG_RUNTIME_METADATA(lg, lvl, f.c_str(), ln, fn.c_str(), "<{}>", m);
        backend->poll();
        std::string loc = f + ":" + std::to_string(ln);
        std::string exp = base_name(f) + "|" + f + "|" + std::to_string(ln) + "|" + fn + "|" + (round ? "WARNING" : "INFO") + "|" + loc + "|<" + m + ">\n";
        std::string in = f + " " + std::to_string(ln) + " " + fn + " [" + m + "]";
        check(o2, sink->statements.size() == 1, in);
        check(o1, sink->statements.size() == 1 && sink->statements[0] == exp, in + " got " + (sink->statements.empty() ? std::string("-") : sink->statements[0]));
        sink->statements.clear();
      }
    });
  }
  printf("SPACE 4 files x 4 lines x 4 functions x every message of length <= %d over {a, :, space, /} x {first use, reuse with another level}, through the real frontend + ManualBackendWorker\n", LEN);
  printf("DISTINCT %ld\n", 2 * n);
  printf("SAMPLE /a/b/f.cpp 7 ns::h [a:]\n");
  report(o1); report(o2);
  return (o1.failed || o2.failed) ? 1 : 0;
}
