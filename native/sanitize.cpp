// C04: BackendWorker::sanitize_non_printable_chars — exhaustive over every string of length <= L over
// { 'a', ' ', '\n', 0x01, 0x7f, 0x80, 0xff } and three predicates (default, "letters only", "everything printable").
#include "quill/backend/BackendWorker.h"
#include "enum.h"
#ifndef LEN
#define LEN 6
#endif
static std::string spec(std::string const& in, std::function<bool(char)> const& ok)
{
  static char const hex[] = "0123456789ABCDEF"; std::string o;
  for (char c : in) { if (ok(c)) o += c; else { o += '\\'; o += 'x'; o += hex[(c >> 4) & 0xF]; o += hex[c & 0xF]; } }
  return o;
}
int main()
{
  std::string A = std::string("a \n") + '\x01' + '\x7f' + '\x80' + '\xff';
  std::vector<std::pair<std::string, std::function<bool(char)>>> preds = {
    {"default", quill::BackendOptions{}.check_printable_char},
    {"letters", [](char c) { return c >= 'a' && c <= 'z'; }},
    {"all", [](char) { return true; }}};
  Obl o1{"sanitize.equals_spec", "C04", "", "output == input with every byte rejected by the predicate replaced by \\xHH (upper case), others unchanged"};
  Obl o2{"sanitize.idempotent_on_clean", "C04", "", "a message without rejected bytes is left untouched"};
  long n = 0;
  for (auto& pr : preds)
  {
    quill::BackendOptions bo; bo.check_printable_char = pr.second;
    n += for_all_strings(A, LEN, [&](std::string const& s) {
      std::string m = s; quill::detail::BackendWorker::sanitize_non_printable_chars(m, bo);
      check(o1, m == spec(s, pr.second), pr.first + ":" + s);
      bool clean = true; for (char c : s) clean = clean && pr.second(c);
      if (clean) check(o2, m == s, pr.first + ":" + s);
    });
  }
  printf("SPACE every string of length <= %d over {a, space, \\n, 0x01, 0x7f, 0x80, 0xff} x 3 predicates (default, letters only, everything)\n", LEN);
  printf("DISTINCT %ld\n", n);
  printf("SAMPLE default:a\\x01\\x0A\n");
  report(o1); report(o2);
  return (o1.failed || o2.failed) ? 1 : 0;
}
