// C17: the sink registry (SinkManager) through every history of <= LEN actions over
//   A B C D : create_or_get_sink("a".."d") and keep the returned pointer     a b c d : drop the user's pointer     k : cleanup_unused_sinks()
// against a model: looking a sink up by name finds exactly the live sink of that name (the same object the creation returned, create_or_get is
// idempotent while it lives), a name whose sink is gone is not found, and the registry never hands out a second object for a live name.
#define CRASH_TAG "C17"
#include "quill/core/SinkManager.h"
#include "quill/sinks/Sink.h"
#include "enum.h"
#include <map>
#include <memory>
#ifndef LEN
#define LEN 6
#endif
struct NullSink : quill::Sink
{
  void write_log(quill::MacroMetadata const*, uint64_t, std::string_view, std::string_view, std::string const&, std::string_view, quill::LogLevel, std::string_view, std::string_view,
                 std::vector<std::pair<std::string, std::string>> const*, std::string_view, std::string_view) override {}
  void flush_sink() override {}
};
int main()
{
  auto& sm = quill::detail::SinkManager::instance();
  Obl o1{"sinks.lookup_finds_the_live_sink", "C17", "", "looking a sink up by name returns exactly the live sink registered under that name (creating or looking up sinks by name is idempotent), whatever was created, released and cleaned up before"};
  Obl o2{"sinks.gone_sink_not_found", "C17", "", "a name whose sink is gone is not found, and re-creating it gives a new, working entry"};
  char const* names[4] = {"a", "b", "c", "d"};
  long n = for_all_strings("ABCDabcdk", LEN, [&](std::string const& h) {
    current_case(h);
    std::map<int, std::shared_ptr<quill::Sink>> held;
    // start from an empty registry
    sm.cleanup_unused_sinks();
    bool ok1 = true, ok2 = true; std::string where;
    for (size_t step = 0; step < h.size(); ++step)
    {
      char c = h[step];
      if (c == 'k') sm.cleanup_unused_sinks();
      else if (c >= 'A' && c <= 'D') { int i = c - 'A'; auto p = sm.create_or_get_sink<NullSink>(names[i]); if (held.count(i) && held[i] != p) { ok1 = false; where = "create_or_get returned a second object for live " + std::string(names[i]); } held[i] = p; }
      else { held.erase(c - 'a'); }
      for (int i = 0; i < 4 && ok1 && ok2; ++i)
      {
        std::shared_ptr<quill::Sink> got; bool thrown = false;
        try { got = sm.get_sink(names[i]); } catch (quill::QuillError const&) { thrown = true; }
        if (held.count(i)) { if (thrown || got != held[i]) { ok1 = false; where = std::string("live sink ") + names[i] + " not found after step " + std::to_string(step); } }
        else { if (!thrown) { ok2 = false; where = std::string("gone sink ") + names[i] + " still found after step " + std::to_string(step); } }
      }
    }
    check(o1, ok1, h + " " + where); check(o2, ok2, h + " " + where);
    held.clear();
  });
  printf("SPACE every history of <= %d actions over {create/get a..d, release a..d, clean up} on the real SinkManager, every name looked up after every action\n", LEN);
  printf("DISTINCT %ld\n", n);
  printf("SAMPLE ABCbkBd\n");
  report(o1); report(o2);
  return (o1.failed || o2.failed) ? 1 : 0;
}
