// C03 / C20: several real frontend threads with the REAL backend thread (forked child per case): every statement of every thread
// is written exactly once and in its thread's order, also when the threads have exited before the backend read them, and the
// contexts of exited threads are reclaimed afterwards.  Queue types: the default unbounded blocking queue (small initial
// capacity: it grows while in use) and, in a second run of the program (-DSERIES_BOUNDED), a small bounded blocking queue.
#define CRASH_TAG "C03"
#include "quill/Backend.h"
#include "quill/Frontend.h"
#include "quill/LogMacros.h"
#include "quill/Logger.h"
#include "quill/sinks/FileSink.h"
#include "enum.h"
#include <filesystem>
#include <fstream>
#include <sstream>
#include <sys/wait.h>
#include <thread>
#ifndef NMAX
#define NMAX 400
#endif
namespace fs = std::filesystem;
#ifdef SERIES_BOUNDED
struct Opts { static constexpr quill::QueueType queue_type = quill::QueueType::BoundedBlocking; static constexpr size_t initial_queue_capacity = 1024; static constexpr uint32_t blocking_queue_retry_interval_ns = 800;
              static constexpr size_t unbounded_queue_max_capacity = 4096; static constexpr quill::HugePagesPolicy huge_pages_policy = quill::HugePagesPolicy::Never; };
#else
struct Opts { static constexpr quill::QueueType queue_type = quill::QueueType::UnboundedBlocking; static constexpr size_t initial_queue_capacity = 256; static constexpr uint32_t blocking_queue_retry_interval_ns = 800;
              static constexpr size_t unbounded_queue_max_capacity = 1u << 20; static constexpr quill::HugePagesPolicy huge_pages_policy = quill::HugePagesPolicy::Never; };
#endif
using FrontendT = quill::FrontendImpl<Opts>; using LoggerT = quill::LoggerImpl<Opts>;
static int child(int threads, int n, bool sleepy, std::string const& dir)
{
  alarm(150);
  quill::BackendOptions bo; bo.sleep_duration = sleepy ? std::chrono::microseconds{20000} : std::chrono::microseconds{0};
  quill::Backend::start(bo);
  std::string f = dir + "/out.log";
  auto sink = FrontendT::template create_or_get_sink<quill::FileSink>(f, []() { quill::FileSinkConfig c; c.set_open_mode('w'); return c; }());
  LoggerT* lg = FrontendT::create_or_get_logger("mt", std::move(sink), quill::PatternFormatterOptions{"%(message)"});
  std::vector<std::thread> ts;
  for (int t = 0; t < threads; ++t) ts.emplace_back([=]() { for (int i = 0; i < n; ++i) LOG_INFO(lg, "t{}:{} {}", t, i, std::string((size_t)(i % 7) * 11, 'p')); });
  for (auto& t : ts) t.join();          // the threads are gone, perhaps before the backend has read anything from them
  LOG_INFO(lg, "main:0");
  lg->flush_log();
  std::string problems;
  { std::ifstream in(f); std::string l; std::vector<int> next((size_t)threads, 0); bool main_seen = false;
    while (std::getline(in, l))
    {
      if (l == "main:0") { main_seen = true; continue; }
      int t = -1, i = -1; if (sscanf(l.c_str(), "t%d:%d", &t, &i) != 2 || t < 0 || t >= threads) { problems += " unexpected line [" + show(l) + "];"; continue; }
      if (i != next[(size_t)t]) problems += " thread " + std::to_string(t) + ": statement " + std::to_string(i) + " where " + std::to_string(next[(size_t)t]) + " was due;";
      next[(size_t)t] = i + 1;
      std::string want = "t" + std::to_string(t) + ":" + std::to_string(i) + " " + std::string((size_t)(i % 7) * 11, 'p'); if (l != want) problems += " corrupted line [" + show(l) + "];";
    }
    for (int t = 0; t < threads; ++t) if (next[(size_t)t] != n) problems += " thread " + std::to_string(t) + ": " + std::to_string(next[(size_t)t]) + " of " + std::to_string(n) + " statements;";
    if (!main_seen) problems += " the main thread's statement is missing;"; }
  // C20: the contexts of the exited threads are reclaimed once they are drained (only the main thread's context stays)
  size_t ctx = 99;
  for (int spin = 0; spin < 6000; ++spin) { { quill::detail::LockGuard const lock{quill::detail::ThreadContextManager::instance()._spinlock}; ctx = quill::detail::ThreadContextManager::instance()._thread_contexts.size(); } if (ctx == 1) break; std::this_thread::sleep_for(std::chrono::milliseconds{5}); }
  if (ctx != 1) problems += " " + std::to_string(ctx) + " thread contexts registered 30 s after all threads exited and everything was flushed (expected 1);";
  if (!problems.empty()) { std::ofstream r(dir + "/result.txt"); r << problems.substr(0, 1500); }
  _exit(problems.empty() ? 0 : 1);
}
int main()
{
  char const* t = getenv("TMPDIR"); std::string base = std::string(t && *t ? t : "/var/tmp") + "/quillverif_mt_XXXXXX";
  if (!mkdtemp(base.data())) { perror("mkdtemp"); return 2; }
  Obl o1{"threads.once_each_in_thread_order_then_reclaimed", "C03", "", "every statement of every thread is written exactly once, uncorrupted and in its thread's order - also when the thread exited before it was read - and the contexts of exited threads are reclaimed afterwards"};
  long n = 0;
  for (int threads : {1, 2, 4, 8}) for (int sleepy = 0; sleepy < 2; ++sleepy) for (int cnt : {0, 1, 7, NMAX})
  {
    ++n; std::string dir = base + "/d"; fs::remove_all(dir); fs::create_directories(dir);
    fflush(stdout);
    pid_t pid = fork();
    if (pid == 0) child(threads, cnt, sleepy != 0, dir);
    int status = 0; waitpid(pid, &status, 0);
    std::string in = std::to_string(threads) + " threads x " + std::to_string(cnt) + " statements" + (sleepy ? ", backend sleeping" : ", backend polling");
    std::ifstream r(dir + "/result.txt"); std::stringstream ss; ss << r.rdbuf();
    check(o1, WIFEXITED(status) && WEXITSTATUS(status) == 0, in + " status " + std::to_string(status) + ss.str());
  }
  fs::remove_all(base);
  printf("SPACE {1, 2, 4, 8} threads x {0, 1, 7, %d} statements each x {backend sleeping, polling}, threads joined before the flush, the real backend thread in a forked child per case\n", NMAX);
  printf("DISTINCT %ld\n", n);
  printf("SAMPLE 4 threads x 7 statements, backend sleeping\n");
  report(o1);
  return o1.failed ? 1 : 0;
}
