// C13: the real TimestampFormatter (StringFromTime caches included) against strftime of the same instant plus the exact
// fractional digits.  Fixed patterns + every pattern of <= TOK tokens from a token set (plain, flagged / modified, composite
// and escaped conversions, the fractional specifiers, literal text) x {GMT, local time} x 5 process time zones (TZ) x every
// sequence (any order: increasing, repeated, going backwards) of <= LEN instants from a grid around UTC midnight / noon,
// the local midnights of the zones and two DST switches - all formatted by ONE formatter object per sequence, so that a
// stale cache field shows.
#include "quill/backend/TimestampFormatter.h"
#include "enum.h"
#include <ctime>
#ifndef LEN
#define LEN 2
#endif
#ifndef TOK
#define TOK 2
#endif
static bool has_epoch_conv(std::string const& pat)
{
  for (size_t i = 0; i + 1 < pat.size(); ++i) { if (pat[i] == '%') { if (pat[i + 1] == 's') return true; ++i; } }
  return false;
}
static std::string expect(std::string const& pat, int64_t ns, bool gmt)
{
  time_t secs = (time_t)(ns / 1000000000); long frac = (long)(ns % 1000000000);
  std::string p; char b[16];
  for (size_t i = 0; i < pat.size();)
  {
    if (pat.compare(i, 2, "%%") == 0) { p += "%%"; i += 2; }
    else if (pat.compare(i, 4, "%Qms") == 0) { snprintf(b, sizeof b, "%03ld", frac / 1000000); p += b; i += 4; }
    else if (pat.compare(i, 4, "%Qus") == 0) { snprintf(b, sizeof b, "%06ld", frac / 1000); p += b; i += 4; }
    else if (pat.compare(i, 4, "%Qns") == 0) { snprintf(b, sizeof b, "%09ld", frac); p += b; i += 4; }
    // %s: the instant's epoch seconds (glibc's %s re-reads the broken-down time as LOCAL time, which is not the instant for a gmtime tm)
    else if (pat.compare(i, 2, "%s") == 0) { p += std::to_string((long long)secs); i += 2; }
    else { p += pat[i]; ++i; }
  }
  tm t; if (gmt) gmtime_r(&secs, &t); else localtime_r(&secs, &t);
  char out[1024]; size_t k = strftime(out, sizeof out, p.c_str(), &t); return std::string(out, k);
}
int main()
{
  std::vector<std::string> pats = {"%H:%M:%S", "%Y-%m-%d %H:%M:%S", "%I:%M:%S %p", "%T", "%r", "%R", "%D %T", "%s", "%k|%l", "%H:%M:%S.%Qms", "%Qus %H", "%M:%S.%Qns %p",
                                   "%a %d %b %Y %I %p", "%j %H%M%S %y", "%-H:%M:%S", "%h %e %-I%p", "%c", "%F %T%z", "100%%S %H", "%Y%m%dT%H%M%S.%Qus%Z", "%H:%M:%S (fmt %%T)", "%%R=%H:%M", "[%%r] %I:%M:%S %p"};
  std::vector<std::string> toks = {"%H", "%M", "%S", "%I", "%p", "%-H", "%_M", "%5S", "%OS", "%EX", "%c", "%%", "%Qms", "x", "%d", "%k", "%l", "%T", "T", "r"};   // "T" / "r": literal letters, so that an escaped %%T / %%r (literal text "%T") is a pattern - seed C13-F3
  for_all_strings(std::string("abcdefghijklmnopqrstuvwx").substr(0, toks.size()), TOK, [&](std::string const& pick) {
    if (pick.empty()) return;
    std::string p; int q = 0; for (char c : pick) { p += toks[c - 'a']; if (toks[c - 'a'] == "%Qms") ++q; }
    if (q <= 1) pats.push_back(p);        // two fractional specifiers are rejected by the constructor (unit TF.ctor)
  });
  int64_t const D = 1686528000; // 2023-06-12 00:00:00 UTC
  std::vector<int64_t> bnd = {D + 86400, D + 43200, D + 18 * 3600 + 1800 /* Kolkata midnight */, D + 4 * 3600 /* New York midnight */, D + 13 * 3600 + 1800 /* Lord Howe midnight */,
                              D + 16 * 3600 /* New York noon */, 1678604400 /* New York DST start */, 1680361200 /* Lord Howe DST end (30 min) */};
  std::vector<int64_t> grid; for (int64_t b : bnd) { grid.push_back(b - 1); grid.push_back(b); grid.push_back(b + 7); }
  std::vector<int64_t> fr = {0, 7000000, 999999999, 123456789};
  char const* zones[5] = {"UTC", "America/New_York", "Asia/Kolkata", "Australia/Lord_Howe", "Europe/Berlin"};
  Obl o1{"timestamp.equals_strftime", "C13", "", "the rendered time equals strftime of the instant with %Qms/%Qus/%Qns replaced by the exact zero-padded fraction, whatever was formatted before by the same object"};
  Obl o2{"timestamp.epoch_seconds_gmt", "C13", "epoch-seconds-gmt-nonutc", "same, for patterns with %s in GMT mode while the process time zone is not UTC (%s must be the instant's epoch seconds on every path)"};
  long n = 0; std::string A; for (size_t i = 0; i < grid.size(); ++i) A += (char)('a' + i);
  for (char const* z : zones)
  {
    setenv("TZ", z, 1); tzset();
    for (int gmt = 0; gmt < 2; ++gmt) for (auto const& pat : pats)
    {
      bool const k_case = gmt && std::string(z) != "UTC" && has_epoch_conv(pat);
      n += for_all_strings(A, LEN, [&](std::string const& pick) {
        if (pick.empty()) return;
        quill::detail::TimestampFormatter tf{pat, gmt ? quill::Timezone::GmtTime : quill::Timezone::LocalTime};
        for (size_t k = 0; k < pick.size(); ++k)
        {
          int64_t ns = grid[pick[k] - 'a'] * 1000000000ll + fr[(k + pick[k]) % fr.size()];
          std::string got{tf.format_timestamp(std::chrono::nanoseconds{ns})};
          std::string want = expect(pat, ns, gmt != 0);
          if (got != want)
          {
            std::string in = std::string("TZ=") + z + (gmt ? " gmt " : " local ") + "[" + pat + "] instants="; for (size_t j = 0; j <= k; ++j) in += std::to_string(grid[pick[j] - 'a']) + ",";
            check(k_case ? o2 : o1, false, in + " got=" + got + " want=" + want);
          }
          else check(k_case ? o2 : o1, true, "");
        }
      });
    }
  }
  printf("SPACE (23 fixed patterns + every pattern of <= %d tokens from 20) x {GMT, local} x 5 process time zones x every sequence (any order) of <= %d instants from a 24-point grid (UTC midnight/noon, local midnights, two DST switches), one formatter object per sequence\n", TOK, LEN);
  printf("DISTINCT %ld\n", n);
  printf("SAMPLE TZ=Asia/Kolkata local [%%-H:%%M:%%S] instants=1686594599,1686594607\n");
  report(o1); report(o2);
  return (o1.failed || o2.failed) ? 1 : 0;
}
