/* Array-free container shim (DESIGN §2.2): the size plus ONE arbitrary tracked physical slot g_p.  A read at
   i == g_p returns the tracked cell, a read elsewhere returns an unconstrained cell, writes elsewhere are
   absorbed.  g_p is an unconstrained harness input, so a postcondition about "the tracked slot" holds for
   every slot and for every size.  Indexing asserts i < size.  TRUSTED: that std::vector behaves like this. */
#define DEFINE_VEC(V, T) \
typedef struct V { size_t n; size_t g_p; T tracked; T scratch; } V; \
T nondet_##V##_elem(void); \
static inline size_t V##_size(V* v) { return v->n; } \
static inline bool V##_empty(V* v) { return v->n == 0; } \
static inline T* V##_at(V* v, size_t i) { __CPROVER_assert(i < v->n, "container index within size"); if (i == v->g_p) return &v->tracked; v->scratch = nondet_##V##_elem(); return &v->scratch; } \
static inline void V##_push(V* v, T e) { if (v->n == v->g_p) v->tracked = e; v->n++; } \
static inline void V##_clear(V* v) { v->n = 0; } \
static inline void V##_reserve(V* v, size_t c) { (void)v; (void)c; }
