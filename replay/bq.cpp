// Native replay for the BoundedSPSCQueue units: installs the counterexample pre-state in the REAL class
// (-fno-access-control), calls the real method and evaluates the sequentially observable part of the unit's
// postcondition.  (Memory-order weakenings have no single-threaded witness: those stay no-failing-input-found.)
// args: op=<method> cap= batch= AW= W= RC= AR= R= WC= [n=]
#include "quill/core/BoundedSPSCQueue.h"
#include <cstdio>
#include <cstdlib>
#include <cstring>
#include <map>
#include <string>

using namespace quill::detail;
using Q = BoundedSPSCQueueImpl<size_t>;
static std::map<std::string, unsigned long long> A;
static std::string OP;
#define D(a, b) ((size_t)((a) - (b)))

int main(int argc, char** argv)
{
  for (int i = 1; i < argc; ++i)
  {
    char* eq = strchr(argv[i], '=');
    if (!eq) continue;
    std::string k(argv[i], eq - argv[i]);
    if (k == "op") OP = eq + 1; else A[k] = strtoull(eq + 1, nullptr, 10);
  }
  size_t cap = A["cap"];
  if (cap == 0 || cap > (1u << 24) || (cap & (cap - 1))) { printf("REPLAY: pre-state not materialisable (capacity %zu)\n", cap); return 0; }
  Q q(cap);
  const_cast<size_t&>(q._bytes_per_batch) = A["batch"];
  q._atomic_writer_pos.store(A["AW"]); q._writer_pos = A["W"]; q._reader_pos_cache = A["RC"];
  q._atomic_reader_pos.store(A["AR"]); q._reader_pos = A["R"]; q._writer_pos_cache = A["WC"];
  size_t n = A["n"];
  size_t W = q._writer_pos, R = q._reader_pos, AR = q._atomic_reader_pos.load(), AW = q._atomic_writer_pos.load(), WC = q._writer_pos_cache;
  printf("pre-state: capacity=%zu mask=%zu batch=%zu AW=%zu W=%zu RC=%zu AR=%zu R=%zu WC=%zu n=%zu\n", q._capacity, q._mask,
         q._bytes_per_batch, AW, W, q._reader_pos_cache, AR, R, WC, n);
  int bad = 0;
#define VIOL(msg) do { printf("REPLAY: VIOLATED %s\n", msg); bad = 1; } while (0)
  if (OP == "prepare_write")
  {
    std::byte* p = q.prepare_write(n);
    printf("prepare_write(%zu) -> %s\n", n, p ? "granted" : "nullptr");
    if (p)
    {
      if (!(n <= cap && D(W + n, AR) <= cap)) VIOL("granted although the record does not fit in the space the consumer has released");
      if (p != q._storage + (W & q._mask)) VIOL("granted address is not the writer position's address");
      if ((W & q._mask) + n > 2 * cap) VIOL("granted record leaves the buffer");
    }
    else if (n <= cap && R == W && AR == R && AW == W)
      VIOL("drained queue with published reader position rejects a reservation that fits the capacity");
    if (q._writer_pos != W || q._atomic_writer_pos.load() != AW) VIOL("reserving changed writer positions");
  }
  else if (OP == "finish_write")
  {
    q.finish_write(n);
    if (q._writer_pos != W + n) VIOL("finish_write did not advance the writer by n");
    if (q._atomic_writer_pos.load() != AW) VIOL("finish_write made the record visible before commit");
  }
  else if (OP == "commit_write")
  {
    q.commit_write();
    if (q._atomic_writer_pos.load() != W) VIOL("commit_write did not publish the finished position");
  }
  else if (OP == "finish_and_commit_write")
  {
    q.finish_and_commit_write(n);
    if (q._writer_pos != W + n || q._atomic_writer_pos.load() != W + n) VIOL("finish_and_commit_write did not publish exactly the record");
  }
  else if (OP == "empty" || OP == "prepare_read")
  {
    bool e; std::byte* p = nullptr;
    if (OP == "empty") e = q.empty(); else { p = q.prepare_read(); e = (p == nullptr); }
    printf("%s -> %s\n", OP.c_str(), e ? "empty" : "data");
    if (e != (q._writer_pos_cache == R)) VIOL("emptiness answer disagrees with the consumer's view");
    if (D(q._writer_pos_cache, R) > D(AW, R)) VIOL("consumer is shown bytes that were never committed");
    if (p && p != q._storage + (R & q._mask)) VIOL("read address is not the reader position's address");
    if (q._reader_pos != R || q._atomic_reader_pos.load() != AR) VIOL("reading released something");
  }
  else if (OP == "finish_read")
  {
    q.finish_read(n);
    if (q._reader_pos != R + n) VIOL("finish_read did not advance the reader by n");
    if (q._atomic_reader_pos.load() != AR) VIOL("finish_read released bytes before commit_read");
  }
  else if (OP == "commit_read")
  {
    q.commit_read();
    size_t AR2 = q._atomic_reader_pos.load();
    printf("commit_read: published reader position %zu -> %zu (consumed up to %zu)\n", AR, AR2, R);
    if (AR2 != AR && AR2 != R) VIOL("commit_read published something other than the consumed position");
    if (R == WC && AR2 != R)
    {
      VIOL("consumer has drained everything it saw but leaves consumed bytes unpublished");
      size_t fit = cap;   // consequence: on the (now empty) queue a reservation of the full capacity is rejected for ever
      q._writer_pos = R; q._atomic_writer_pos.store(R); q._reader_pos_cache = AR2;
      printf("  consequence: queue empty (R == W == %zu), prepare_write(%zu) -> %s\n", R, fit, q.prepare_write(fit) ? "granted" : "nullptr (stall / spurious drop)");
    }
  }
  else if (OP == "capacity")
  {
    if (q.capacity() != cap) VIOL("capacity() does not report the capacity");
  }
  if (!bad) printf("REPLAY: holds\n");
  return bad;
}
