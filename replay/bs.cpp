// Native replay for the BacktraceStorage units: installs the counterexample pre-state in the REAL class
// (-fno-access-control), calls the real method and evaluates the unit's postcondition natively.
// args: op=store|process|set_capacity cap=<n> index=<n> n=<n> [arg=<n>]
// exit 1 + "REPLAY: VIOLATED <clause>" if the real code violates the contract, 0 + "REPLAY: holds" otherwise.
#include "quill/backend/BacktraceStorage.h"
#include <cstdio>
#include <cstdlib>
#include <cstring>
#include <map>
#include <string>
#include <vector>

using namespace quill::detail;

static std::map<std::string, unsigned long long> A;
static std::string OP;

static bool ri(BacktraceStorage& b)
{
  size_t n = b._stored_events.size();
  if (n > b._capacity) return false;
  if (n < b._capacity) return b._index == 0;
  return b._capacity == 0 ? b._index == 0 : b._index < b._capacity;
}

static std::vector<uint64_t> view(BacktraceStorage& b)
{
  std::vector<uint64_t> s;
  size_t n = b._stored_events.size();
  if (n < b._capacity || b._index >= n)
  {
    for (size_t i = 0; i < n; ++i) s.push_back(b._stored_events[i].transit_event.timestamp);
    return s;
  }
  for (size_t i = b._index; i < n; ++i) s.push_back(b._stored_events[i].transit_event.timestamp);
  for (size_t i = 0; i < b._index; ++i) s.push_back(b._stored_events[i].transit_event.timestamp);
  return s;
}

static void show(char const* what, std::vector<uint64_t> const& v)
{
  printf("  %s = [", what);
  for (auto x : v) printf(" %llu", (unsigned long long)x);
  printf(" ]\n");
}

int main(int argc, char** argv)
{
  for (int i = 1; i < argc; ++i)
  {
    char* eq = strchr(argv[i], '=');
    if (!eq) continue;
    std::string k(argv[i], eq - argv[i]);
    if (k == "op") OP = eq + 1; else A[k] = strtoull(eq + 1, nullptr, 10);
  }
  unsigned long long cap = A["cap"], index = A["index"], n = A["n"];
  if (n > 100000 || cap > 0xffffffffull) { printf("REPLAY: pre-state too large to materialise (n=%llu)\n", n); return 0; }
  BacktraceStorage bs;
  bs._capacity = (uint32_t)cap;
  bs._index = (uint32_t)index;
  for (unsigned long long i = 0; i < n; ++i)
  {
    TransitEvent te; te.timestamp = 1000 + i;   // the physical slot number is the content id
    bs._stored_events.emplace_back(std::string{"tid"}, std::string{"tn"}, std::move(te));
  }
  printf("pre-state: _capacity=%llu _index=%llu size=%llu RI=%d\n", cap, index, n, (int)ri(bs));
  std::vector<uint64_t> S = view(bs);
  show("view before", S);
  int bad = 0;
  if (OP == "store")
  {
    TransitEvent te; te.timestamp = 7;
    if (cap == 0) printf("  (capacity 0: the real store() indexes an empty vector)\n");
    bs.store(std::move(te), "tid", "tn");
    std::vector<uint64_t> want = S; want.push_back(7);
    while (want.size() > cap) want.erase(want.begin());
    std::vector<uint64_t> got = view(bs);
    show("view after ", got); show("expected   ", want);
    if (!ri(bs)) { printf("REPLAY: VIOLATED representation invariant after store\n"); bad = 1; }
    if (got != want) { printf("REPLAY: VIOLATED view after store is not the most recent min(capacity, stored) statements in order\n"); bad = 1; }
  }
  else if (OP == "process")
  {
    std::vector<uint64_t> out;
    bs.process([&](TransitEvent const& te, std::string_view, std::string_view) { out.push_back(te.timestamp); });
    show("replayed   ", out);
    if (out != S) { printf("REPLAY: VIOLATED replay is not the view, oldest first, once each\n"); bad = 1; }
    if (bs._stored_events.size() != 0) { printf("REPLAY: VIOLATED replayed statements are not forgotten\n"); bad = 1; }
    if (!ri(bs))
    {
      printf("REPLAY: VIOLATED representation invariant after process: size=0 but _index=%u\n", bs._index);
      bad = 1;
      // user-visible consequence through the public API: the next cycle replays in the wrong order / reads out of bounds
      if (cap >= 2 && bs._index != 0)
      {
        for (uint64_t k = 0; k < cap; ++k) { TransitEvent te; te.timestamp = 500 + k; bs.store(std::move(te), "tid", "tn"); }
        std::vector<uint64_t> out2, want2;
        for (uint64_t k = 0; k < cap; ++k) want2.push_back(500 + k);
        bs.process([&](TransitEvent const& te, std::string_view, std::string_view) { out2.push_back(te.timestamp); });
        show("next cycle replayed", out2); show("next cycle expected", want2);
      }
    }
  }
  else if (OP == "set_capacity")
  {
    unsigned long long c = A["arg"];
    bs.set_capacity((uint32_t)c);
    if (!ri(bs)) { printf("REPLAY: VIOLATED representation invariant after set_capacity\n"); bad = 1; }
    if (bs._capacity != c) { printf("REPLAY: VIOLATED capacity not set\n"); bad = 1; }
    if (c != cap && (bs._stored_events.size() != 0 || bs._index != 0)) { printf("REPLAY: VIOLATED re-initialisation does not forget everything\n"); bad = 1; }
  }
  if (!bad) printf("REPLAY: holds\n");
  return bad;
}
