// C08 probe: drops of an exited thread must still be reported when a flush event reclaims its context before any idle pass
#include "quill/Backend.h"
#include "quill/Frontend.h"
#include "quill/LogMacros.h"
#include "quill/Logger.h"
#include "quill/sinks/Sink.h"
#include <atomic>
#include <thread>
#include <cstdio>
struct Opts { static constexpr quill::QueueType queue_type = quill::QueueType::BoundedDropping; static constexpr size_t initial_queue_capacity = 1024; static constexpr uint32_t blocking_queue_retry_interval_ns = 800;
              static constexpr size_t unbounded_queue_max_capacity = 2048; static constexpr quill::HugePagesPolicy huge_pages_policy = quill::HugePagesPolicy::Never; };
using FE = quill::FrontendImpl<Opts>; using LG = quill::LoggerImpl<Opts>;
struct Rec : quill::Sink { size_t n = 0; void write_log(quill::MacroMetadata const*, uint64_t, std::string_view, std::string_view, std::string const&, std::string_view, quill::LogLevel, std::string_view, std::string_view, std::vector<std::pair<std::string, std::string>> const*, std::string_view, std::string_view) override { ++n; } void flush_sink() override {} };
static long g_reported = 0;
int main()
{
  auto* backend = quill::Backend::acquire_manual_backend_worker();
  quill::BackendOptions bo; bo.error_notifier = [](std::string const& m) { auto p = m.find("Dropped "); if (p != std::string::npos) g_reported += atol(m.c_str() + p + 8); };
  backend->init(bo);
  auto sink = std::make_shared<Rec>();
  LG* lg = FE::create_or_get_logger("p", std::static_pointer_cast<quill::Sink>(sink), quill::PatternFormatterOptions{"%(message)"});
  long accepted = 0, refused = 0;
  std::thread t([&] { for (int i = 0; i < 200; ++i) { static constexpr quill::MacroMetadata md{"f.cpp:1", "fn", "{}", nullptr, quill::LogLevel::Info, quill::MacroMetadata::Event::Log};
                      if (lg->template log_statement<false, false>(quill::LogLevel::None, &md, i)) ++accepted; else ++refused; } });
  t.join();                                    // the thread has exited: its context is invalid, its drops are not reported yet
  std::atomic<bool> flushed{false};
  std::thread f([&] { lg->flush_log(); flushed = true; });
  std::this_thread::sleep_for(std::chrono::milliseconds(200));     // the flush request is in F's queue before the backend looks
  while (!flushed) backend->poll_one();
  f.join();
  for (int i = 0; i < 10; ++i) backend->poll_one();               // idle passes: report whatever is left to report
  printf("accepted %ld refused %ld delivered %zu reported %ld\n", accepted, refused, sink->n, g_reported);
  if (g_reported != refused) { printf("VIOLATED: %ld discarded statements were never reported through the error notifier\n", refused - g_reported); return 1; }
  printf("holds\n"); return 0;
}
