// Native replay for DFAS.push_back[char]: the REAL store after push_back of a char.
#include "quill/core/DynamicFormatArgStore.h"
#include <cstdio>
int main()
{
  quill::DynamicFormatArgStore s; char c = '\x01'; s.push_back(c);
  printf("after push_back<char>: has_string_related_type() = %d\n", (int)s.has_string_related_type());
  if (!s.has_string_related_type()) { printf("REPLAY: VIOLATED a char argument (which may hold a non-printable byte) does not mark the statement for sanitisation\n"); return 1; }
  printf("REPLAY: holds\n");
  return 0;
}
