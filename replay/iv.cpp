// Native replay for the InlinedVector units: builds the counterexample pre-state in the REAL class
// (InlinedVector<uint32_t, 12> = SizeCacheVector) by pushing `size` distinct values, performs the operation and
// evaluates the unit's postcondition natively.
// args: op=push_back size=<n> cap=<n> k=<ghost index> [value=<n>]
// exit 1 + "REPLAY: VIOLATED <clause>" if the real code violates the contract, 0 + "REPLAY: holds" otherwise.
#include "quill/core/InlinedVector.h"
#include <cstdio>
#include <cstdlib>
#include <cstring>
#include <map>
#include <string>
using namespace quill::detail;
int main(int argc, char** argv)
{
  std::map<std::string, unsigned long long> A; std::string op;
  for (int i = 1; i < argc; ++i)
  {
    char* eq = strchr(argv[i], '='); if (!eq) continue;
    std::string k(argv[i], eq - argv[i]);
    if (k == "op") op = eq + 1; else A[k] = strtoull(eq + 1, nullptr, 10);
  }
  unsigned long long size = A["size"], cap = A["cap"], k = A["k"]; uint32_t value = (uint32_t)A["value"];
  if (size > 1000000) { printf("REPLAY: pre-state too large to materialise (size=%llu)\n", size); return 0; }
  InlinedVector<uint32_t, 12> v;
  // reach the pre-state through the real push_back, checking every step (a violation on the way is a violation too)
  for (unsigned long long i = 0; i < size; ++i)
  {
    v.push_back((uint32_t)(1000 + i));
    for (unsigned long long j = 0; j <= i; ++j)
      if (v[j] != (uint32_t)(1000 + j)) { printf("REPLAY: VIOLATED after push_back #%llu element %llu is %u, expected %llu (earlier cached lengths keep their value and index)\n", i, j, v[j], 1000 + j); return 1; }
  }
  if (cap && v.capacity() != cap) printf("  note: real capacity at size %llu is %zu, counterexample had %llu\n", size, v.capacity(), cap);
  size_t cap0 = v.capacity();
  uint32_t r = v.push_back(value);
  if (r != value || v.size() != size + 1 || v[size] != value) { printf("REPLAY: VIOLATED the new length is appended at the next index and returned (size %zu, last %u, returned %u)\n", v.size(), v[size], r); return 1; }
  for (unsigned long long j = 0; j < size; ++j)
    if (v[j] != (uint32_t)(1000 + j)) { printf("REPLAY: VIOLATED element %llu is %u after the push, was %llu (growing/appending keeps every cached length at its index; ghost index of the counterexample: %llu)\n", j, v[j], 1000 + j, k); return 1; }
  if (size < cap0 && v.capacity() != cap0) { printf("REPLAY: VIOLATED capacity changed below the limit\n"); return 1; }
  if (size == cap0 && v.capacity() != 2 * cap0) { printf("REPLAY: VIOLATED a full vector doubles its capacity (%zu -> %zu)\n", cap0, v.capacity()); return 1; }
  printf("REPLAY: holds (size %llu -> %zu, capacity %zu -> %zu)\n", size, v.size(), cap0, v.capacity());
  return 0;
}
