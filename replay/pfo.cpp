// Native replay for PFO.equals: two REAL PatternFormatterOptions built from the counterexample's field ids.
// args: a_fp= a_tp= a_tz= a_ml= b_fp= b_tp= b_tz= b_ml=
#include "quill/core/PatternFormatterOptions.h"
#include <cstdio>
#include <cstdlib>
#include <cstring>
#include <map>
#include <string>
int main(int argc, char** argv)
{
  std::map<std::string, unsigned long long> a;
  for (int i = 1; i < argc; ++i) { char* eq = strchr(argv[i], '='); if (eq) a[std::string(argv[i], eq - argv[i])] = strtoull(eq + 1, nullptr, 10); }
  auto mk = [&](char const* p) {
    return quill::PatternFormatterOptions{"pattern#" + std::to_string(a[std::string(p) + "_fp"]), "time#" + std::to_string(a[std::string(p) + "_tp"]),
                                          (a[std::string(p) + "_tz"] & 1) ? quill::Timezone::GmtTime : quill::Timezone::LocalTime, (a[std::string(p) + "_ml"] & 1) != 0};
  };
  quill::PatternFormatterOptions x = mk("a"), y = mk("b");
  bool const all_equal = x.format_pattern == y.format_pattern && x.timestamp_pattern == y.timestamp_pattern && x.timestamp_timezone == y.timestamp_timezone && x.add_metadata_to_multi_line_logs == y.add_metadata_to_multi_line_logs;
  bool const got = (x == y);
  printf("operator== says %d, the four fields are %s\n", (int)got, all_equal ? "all equal" : "not all equal");
  if (got && !all_equal) { printf("REPLAY: VIOLATED two option sets compare equal although a field differs (their loggers would share one formatter)\n"); return 1; }
  printf("REPLAY: holds\n");
  return 0;
}
