// Native replay for the pure leaf functions: the REAL function on the counterexample input, the unit's postcondition evaluated natively.
// built with -DOP_<op>; args: t=<timestamp> | n=<number>
#include "quill/backend/StringFromTime.h"
#include "quill/core/MathUtilities.h"
#include <cstdio>
#include <cstdlib>
#include <cstring>
#include <map>
#include <string>
int main(int argc, char** argv)
{
  std::map<std::string, unsigned long long> a;
  for (int i = 1; i < argc; ++i) { char* eq = strchr(argv[i], '='); if (eq) a[std::string(argv[i], eq - argv[i])] = strtoull(eq + 1, nullptr, 10); }
#if defined(OP_quarter)
  time_t const t = (time_t)a["t"]; time_t const r = quill::detail::StringFromTime::_next_quarter_hour_timestamp(t);
  printf("_next_quarter_hour_timestamp(%lld) = %lld\n", (long long)t, (long long)r);
  if (!(r > t && r - t <= 900 && r % 900 == 0)) { printf("REPLAY: VIOLATED not the next multiple of 900 s strictly after the instant\n"); return 1; }
#elif defined(OP_noon_midnight)
  time_t const t = (time_t)a["t"]; time_t const r = quill::detail::StringFromTime::_next_noon_or_midnight_timestamp(t);
  time_t const day = t - t % 86400; time_t const want = day + ((t - day) < 43200 ? 43200 : 86400);
  printf("_next_noon_or_midnight_timestamp(%lld) = %lld, expected %lld\n", (long long)t, (long long)r, (long long)want);
  if (r != want) { printf("REPLAY: VIOLATED not the next 12:00:00 / 00:00:00 UTC strictly after the instant\n"); return 1; }
#elif defined(OP_npow2)
  size_t const n = (size_t)a["n"]; size_t const r = quill::detail::next_power_of_two<size_t>(n);
  bool const pow2 = r != 0 && (r & (r - 1)) == 0; size_t const top = (size_t)1 << 63;
  printf("next_power_of_two(%zu) = %zu\n", n, r);
  if (!pow2 || (n <= top && !(r >= n && (r == 1 || r / 2 < n))) || (n > top && r != top)) { printf("REPLAY: VIOLATED not the smallest power of two not below n (saturating at 2^63)\n"); return 1; }
#else
#error "unknown op"
#endif
  printf("REPLAY: holds\n");
  return 0;
}
