// Native replay for the ThreadContextManager counter units: drives the REAL singleton through its public methods.
// args: op=add_invalid|has_invalid count=<n>
#include "quill/core/ThreadContextManager.h"
#include <cstdio>
#include <cstdlib>
#include <cstring>
#include <string>
int main(int argc, char** argv)
{
  unsigned long long count = 0; std::string op;
  for (int i = 1; i < argc; ++i)
  {
    if (!strncmp(argv[i], "count=", 6)) count = strtoull(argv[i] + 6, nullptr, 10);
    if (!strncmp(argv[i], "op=", 3)) op = argv[i] + 3;
  }
  auto& m = quill::detail::ThreadContextManager::instance();
  if (count > (1ull << 23)) { printf("REPLAY: count too large to materialise\n"); return 0; }
  for (unsigned long long i = 0; i < count; ++i) m.add_invalid_thread_context();   // `count` threads have exited
  if (op == "add_invalid") { m.add_invalid_thread_context(); ++count; }
  bool has = m.has_invalid_thread_context();
  printf("%llu exited threads announced; has_invalid_thread_context() = %d\n", count, (int)has);
  if (has != (count != 0)) { printf("REPLAY: VIOLATED exited contexts await reclamation but the backend is told there are none\n"); return 1; }
  printf("REPLAY: holds\n");
  return 0;
}
