// Native replay for the TransitEventBuffer units: the REAL buffer, its private positions set to the counterexample's pre-state
// (-fno-access-control), logical element k marked with timestamp 1000 + k; the sequence view is checked for EVERY k.
// built with -DOP_<op>; args: cap= rpos= wpos= shrink= init=
#include "quill/backend/TransitEventBuffer.h"
#include <cstdio>
#include <cstdlib>
#include <cstring>
#include <map>
#include <string>
using quill::detail::TransitEventBuffer; using quill::detail::TransitEvent;
int main(int argc, char** argv)
{
  std::map<std::string, unsigned long long> a;
  for (int i = 1; i < argc; ++i) { char* eq = strchr(argv[i], '='); if (eq) a[std::string(argv[i], eq - argv[i])] = strtoull(eq + 1, nullptr, 10); }
  size_t const cap = (size_t)a["cap"], init = a.count("init") ? (size_t)a["init"] : cap; size_t const rpos = (size_t)a["rpos"], wpos = (size_t)a["wpos"];
  if (cap == 0 || (cap & (cap - 1)) || cap > (1u << 16) || init == 0 || (init & (init - 1)) || init > cap) { printf("REPLAY: pre-state cannot be materialised (capacity %zu, initial %zu)\n", cap, init); return 0; }
  TransitEventBuffer b{init};
  if (cap != init) { b._storage = std::make_unique<TransitEvent[]>(cap); b._capacity = cap; b._mask = cap - 1; }
  b._reader_pos = rpos; b._writer_pos = wpos; b._shrink_requested = a["shrink"] != 0;
  size_t const n = wpos - rpos; if (n > cap) { printf("REPLAY: pre-state violates the representation invariant\n"); return 0; }
  for (size_t k = 0; k < n; ++k) b._storage[(rpos + k) & (cap - 1)].timestamp = 1000 + k;
  auto id_at = [&](size_t k) { return b._storage[(b._reader_pos + k) & b._mask].timestamp; };
  bool ok = true; char const* what = "";
#if defined(OP_expand)
  b._expand();
  ok = b._capacity == 2 * cap && b.size() == n; what = "growing doubles the capacity and keeps the number of events";
  for (size_t k = 0; k < n && ok; ++k) if (id_at(k) != 1000 + k) { ok = false; what = "growing keeps every event at its logical position"; }
#elif defined(OP_back)
  TransitEvent* e = b.back();
  ok = b.size() == n && b.size() < b._capacity; what = "back() leaves room for one more event and keeps the number of events";
  for (size_t k = 0; k < n && ok; ++k) if (id_at(k) != 1000 + k || e == &b._storage[(b._reader_pos + k) & b._mask]) { ok = false; what = "back() never hands out a slot that holds a buffered event; buffered events keep content and position"; }
#elif defined(OP_push_back)
  b.push_back();
  ok = b.size() == n + 1 && b._reader_pos == rpos; what = "push_back commits exactly one event, older events keep their positions";
#elif defined(OP_pop_front)
  b.pop_front();
  ok = b.size() == n - 1; what = "pop_front removes exactly one event";
  for (size_t k = 0; k + 1 < n && ok; ++k) if (id_at(k) != 1000 + k + 1) { ok = false; what = "pop_front removes the oldest: every other event moves down by one position"; }
#elif defined(OP_front)
  TransitEvent* e = b.front();
  ok = (e == nullptr) == (n == 0) && (n == 0 || e->timestamp == 1000); what = "front() is null exactly when empty, else the oldest event";
#elif defined(OP_try_shrink)
  bool const req = b._shrink_requested; b.try_shrink();
  ok = b.size() == n; what = "shrinking never changes the number of buffered events";
  if (ok && n > 0) { ok = b._capacity == cap; for (size_t k = 0; k < n && ok; ++k) ok = id_at(k) == 1000 + k; what = "a non-empty buffer is left alone"; }
  if (ok && n == 0 && req) { ok = b._capacity == init && !b._shrink_requested; what = "a requested shrink of an empty buffer takes effect"; }
  if (ok && !req) { ok = b._capacity == cap; what = "no shrink without a request"; }
#else
#error "unknown op"
#endif
  printf("capacity %zu -> %zu, %zu -> %zu events\n", cap, (size_t)b._capacity, n, (size_t)b.size());
  if (!ok) { printf("REPLAY: VIOLATED %s\n", what); return 1; }
  printf("REPLAY: holds\n");
  return 0;
}
