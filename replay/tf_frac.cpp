// Native replay for TF.write_frac: the REAL TimestampFormatter renders an instant whose fraction is the counterexample value.
// args: v=<fraction value> w=<3|6|9>
#include "quill/backend/TimestampFormatter.h"
#include <cstdio>
#include <cstdlib>
#include <cstring>
#include <string>
int main(int argc, char** argv)
{
  unsigned long long v = 0; unsigned w = 3;
  for (int i = 1; i < argc; ++i) { if (!strncmp(argv[i], "v=", 2)) v = strtoull(argv[i] + 2, nullptr, 10); if (!strncmp(argv[i], "w=", 2)) w = (unsigned)atoi(argv[i] + 2); }
  char const* spec = w == 3 ? "%Qms" : (w == 6 ? "%Qus" : "%Qns");
  unsigned long long const unit_ns = w == 3 ? 1000000ull : (w == 6 ? 1000ull : 1ull);
  quill::detail::TimestampFormatter tf{std::string("%H:%M:%S.") + spec, quill::Timezone::GmtTime};
  unsigned long long const ns = 1686528000ull * 1000000000ull + v * unit_ns;         // 2023-06-12 00:00:00 UTC + the fraction
  std::string const got{tf.format_timestamp(std::chrono::nanoseconds{(long long)ns})};
  char want[64]; snprintf(want, sizeof want, "00:00:00.%0*llu", (int)w, v);
  printf("fraction %llu in width %u: rendered \"%s\", expected \"%s\"\n", v, w, got.c_str(), want);
  if (got != want) { printf("REPLAY: VIOLATED the fractional field is not the zero-padded value\n"); return 1; }
  printf("REPLAY: holds\n");
  return 0;
}
