// Native replay for UnboundedSPSCQueue producer-side units: builds the REAL queue with the counterexample's current
// capacity and maximum, on an empty queue, and calls prepare_write(n) through the public API.
// args: op=prepare_write cap=<current capacity> max=<max capacity> n=<record size>
#include "quill/core/UnboundedSPSCQueue.h"
#include <cstdio>
#include <cstdlib>
#include <cstring>
#include <map>
#include <string>
using namespace quill::detail;
int main(int argc, char** argv)
{
  std::map<std::string, unsigned long long> A; std::string op;
  for (int i = 1; i < argc; ++i) { char* eq = strchr(argv[i], '='); if (!eq) continue; std::string k(argv[i], eq - argv[i]); if (k == "op") op = eq + 1; else A[k] = strtoull(eq + 1, nullptr, 10); }
  size_t cap = A["cap"], mx = A["max"], n = A["n"];
  if (cap == 0 || cap > (1u << 26) || mx > (1ull << 28) || n > (1ull << 29)) { printf("REPLAY: sizes too large to materialise\n"); return 0; }
  UnboundedSPSCQueue q(cap, mx);
  printf("empty unbounded queue: capacity=%zu max=%zu; prepare_write(%zu)\n", q.producer_capacity(), mx, n);
  bool threw = false; std::byte* p = nullptr;
  try { p = q.prepare_write(n); } catch (std::exception const& e) { threw = true; }
  printf("  -> %s, producer capacity now %zu\n", threw ? "error" : (p ? "granted" : "nullptr"), q.producer_capacity());
  int bad = 0;
  if (q.producer_capacity() > mx && q.producer_capacity() != cap) { printf("REPLAY: VIOLATED allocated beyond the configured maximum capacity\n"); bad = 1; }
  if (n > mx && n > cap && !threw) { printf("REPLAY: VIOLATED record larger than the maximum was not rejected with an error\n"); bad = 1; }
  if (n <= mx && cap <= mx && !p) { printf("REPLAY: VIOLATED record that fits the maximum capacity is refused on an empty queue (caller would block/drop for ever)\n"); bad = 1; }
  if (p && n > q.producer_capacity()) { printf("REPLAY: VIOLATED granted record larger than the buffer\n"); bad = 1; }
  if (!bad) printf("REPLAY: holds\n");
  return bad;
}
