#!/bin/bash
# tools/confirm_seed.sh <seed-dir with patch.diff demo.cpp> [more seed dirs...]
# Confirms in a scratch worktree: demo passes clean / fails patched; library test suite (182 stable tests) passes with the patch.
WT=${WT:-/tmp/wt_confirm}
git -C /repo worktree remove --force $WT 2>/dev/null
git -C /repo worktree add -q --detach $WT HEAD || exit 2
cmake -G Ninja -S $WT -B $WT/_b -DCMAKE_BUILD_TYPE=RelWithDebInfo -DQUILL_BUILD_TESTS=ON -DQUILL_ENABLE_EXTENSIVE_TESTS=ON > /dev/null
for d in "$@"; do
  out=$d/confirm.txt; : > $out
  git -C $WT checkout -q -- . 
  FL=$(grep -o '"demo_flags"[^,]*' $d/meta.json 2>/dev/null | sed 's/.*: *"//; s/"$//')
  EXTRA="-fno-access-control"
  grep -q "fsanitize=thread" $d/meta.json 2>/dev/null && EXTRA="$EXTRA -fsanitize=thread -g"
  ( cd $d && g++ -std=c++17 -O1 $EXTRA -I$WT/include demo.cpp -o /tmp/demo_clean_$$ -lpthread 2>>$out && (timeout 300 /tmp/demo_clean_$$ >/tmp/demo_clean_$$.out 2>&1; echo "demo clean rc=$?" >> $out) )
  git -C $WT apply $d/patch.diff || { echo "patch does not apply" >> $out; continue; }
  ( cd $d && g++ -std=c++17 -O1 $EXTRA -I$WT/include demo.cpp -o /tmp/demo_patched_$$ -lpthread 2>>$out && (timeout 300 /tmp/demo_patched_$$ >/tmp/demo_patched_$$.out 2>&1; echo "demo patched rc=$?" >> $out) )
  cmake --build $WT/_b -j${J:-8} > $d/confirm_build.log 2>&1; echo "build rc=$?" >> $out
  ctest --test-dir $WT/_b -j6 --timeout 900 -E unbounded_unlimited_queue > $d/confirm_ctest.log 2>&1; echo "ctest rc=$?" >> $out
  grep -E "tests passed|tests failed" $d/confirm_ctest.log >> $out
  git -C $WT checkout -q -- .
  echo "== $d"; cat $out
done
git -C /repo worktree remove --force $WT
rm -f /tmp/demo_clean_$$ /tmp/demo_patched_$$
