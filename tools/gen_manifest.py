#!/usr/bin/env python3
"""Regenerates /verif/MANIFEST.json from the table below and from the units that exist (./check --list).
A property is claimed only if units serve it; everything else goes to not_applicable with its reason."""
import json, os, sys, subprocess
HERE = os.path.dirname(os.path.dirname(os.path.abspath(__file__)))
sys.path.insert(0, HERE)

CLAIMS = {

    'C07': ('proof',
            'Only the parts a contract can decide: BackendWorker::_exit (loop contract, partial correctness): the final flush is preceded, with nothing read or processed in between, by an emptiness check of every queue and buffer that returned true when wait_for_queues_to_empty_before_exit is set; reclaim after the flush. BackendWorker::stop: notify then join exactly once. BackendManager::stop_backend_thread: fresh once_flag after the stop (restartable). detail::on_signal: ghost event order on a frontend thread - notice -> (critical notice) -> flush_log(0) -> signal(SIG_DFL) -> raise(original signal), and notice -> flush -> exit(0) for SIGINT/SIGTERM; on the backend thread exit/re-raise only; watchdog alarm armed first.',
            'NOT decided here and listed as assumptions: atexit ordering and static destruction, signal masks and async-signal-safety, what another process reads from the file, wait status, that pause()/exit()/raise() do not return, liveness of the exit loop. "Every completed statement is written" additionally relies on C01-C03/C05/C06.',
            'CBMC code contracts with ghost protocol state / event clock on control skeletons', '§3 C07'),
    'C13': ('proof',
            'quill\'s own arithmetic and cache handling by contract on the real code: StringFromTime::format_timestamp (cache invariant; timestamps going backwards fall back to strftime and leave the cache untouched; the H/M/S, 12-hour, %k/%l and %s values handed to the digit writer are those of the second-of-day of the requested instant; the cache then describes that instant), _next_quarter_hour_timestamp (next multiple of 900 s strictly after, bounded timestamp width), TimestampFormatter::format_timestamp (part 1, zero padding of width 3/6/9, fraction = ns/10^6, ns/10^3, ns with fraction < 10^width, part 2 for the same second).',
            'TRUSTED: libc strftime/localtime_r/gmtime_r/timegm and tz data, with the stated AXIOM (constant zone offset and no local midnight within one UTC quarter hour (local) / half day (GMT)) carried by ghost anchor variables; fmt digit formatting; 64-bit division by 10^9 (DIV_1E9 stub). Not covered: pattern splitting (_split_timestamp_format_once, %r/%R/%T replacement), the constructor\'s rejection of two fractional specifiers / %X, _next_noon_or_midnight_timestamp (calendar arithmetic), DST tables.',
            'CBMC code contracts on control skeletons with ghost anchor for the tz axiom', '§3 C13'),
    'C17': ('proof',
            'LoggerManager::cleanup_invalidated_loggers (loop contract, erase-aware tracked element): a logger is erased only if the user removed it AND the queues were found empty immediately before; valid loggers untouched; a kept invalid logger re-arms the flag. Frontend::remove_logger_blocking: request enqueued (retried until accepted) BEFORE the logger is invalidated; returns only after observing the very flag it sent. BackendWorker::_cleanup_invalidated_loggers: unused sinks destroyed before any blocked remover is released, flag only for erased loggers. SinkManager::cleanup_unused_sinks erases exactly the expired entries. Spinlock lock/unlock: mutual exclusion with acquire/release.',
            'Not covered: shared_ptr/weak_ptr lifetime, create_or_get lookups (sorted vector), file closing, CsvWriter. Registries are abstracted to {tracked, representative}. "Statements logged before removal are written" relies on C03 (the request is queued behind them).',
            'CBMC code contracts, loop contracts, ghost protocol state', '§3 C17'),

    'C04': ('proof',
            'Round-trip lemmas over the REAL lowered bodies of Codec<Arg>::compute_encoded_size / encode / decode_arg (if-constexpr arms selected by g++ itself against the real header) at uint32_t, double, bool, an enum, void const*: bytes reserved == written == consumed and the decoded value equals the argument, for every value (loop-free: complete). C string, char[8] and std::string arms: same lemma as BOUNDED stand-ins (length <= 16, every content, nullptr / unterminated array / embedded NUL included). InlinedVector (size cache) push_back below inline capacity / operator[] / clear by contract; LoggerImpl::_encode_header layout; log_statement proves the developers\' own NDEBUG-disabled size assertions for all instantiations; _populate_formatted_log_message clears the reused buffer. sanitize_non_printable_chars: exhaustive native enumeration (bounded).',
            'fmt is trusted (both sides call the same fmt with the same format string). Not covered: container/optional/pair/tuple/chrono/path codecs in include/quill/std, DeferredFormatCodec/DirectFormatCodec, StringRef, the variadic pack expansion (argument evaluation order), InlinedVector growth beyond 12 entries. Bounded units are reported separately and not counted as discharged proof obligations.',
            'CBMC contracts/round-trip lemmas on extracted real code; bounded stand-ins (unwinding with assertions, native exhaustive enumeration)', '§3 C04'),
    'C12': ('other',
            'Mostly BOUNDED stand-ins, stated as such: (b) exhaustive native enumeration of the real PatternFormatter constructor over all token sequences of <= 3 tokens (attributes each once, specs, literals, malformed) against the specification substitution; (b) MacroMetadata file_name/full_path/line/short_source_location over all source-location strings of length <= 8 over 5 symbols. By contract (unbounded): _process_multi_line_message emits contiguous, ordered, newline-free lines covering the message with at most one trailing newline dropped (loop contract).',
            'Not covered: PatternFormatter::format attribute fill, _apply_runtime_metadata, the single-line arm of _dispatch_transit_event_to_sinks, fmt itself. Known finding pattern-literal-brace (literal { } in a pattern reach fmt unescaped) is reported as KNOWN-FINDING. Bounded results are complete only for their stated finite space.',
            'exhaustive native enumeration of the real functions (bounded) + one CBMC loop-contract unit', '§3 C12'),
    'C14': ('proof',
            'Arithmetic and decision logic of size rotation by contract on the real RotatingSink code: write_log writes each statement whole exactly once after the rotation decisions and accounts its size; _size_rotation attempts a rotation exactly when appending would exceed the limit, after which the statement fits unless it alone exceeds the limit or the rotation was refused.',
            'Not covered: _rotate_files (file renaming chain, backup count, deletion), _clean_and_recover_files (restart/append), naming schemes, libc/std::filesystem. _rotate_files is assumed by the contract "rotated (size 0) or refused (unchanged)".',
            'CBMC code contracts on extracted real code', '§3 C14'),
    'C15': ('proof',
            '_time_rotation by contract: rotate before the write iff timestamp >= scheduled point; next point > timestamp and <= timestamp + period; Daily: the next point is the previous one plus a whole number of days (schedule anchored, from the property statement - the pinned tree failed this and was repaired). _calculate_rotation_tp: period = interval minutes / hours / 24 h. write_log: rotation before the write.',
            'Bounds stated in the evidence: gap between statement and scheduled point < 8 periods and interval <= 16 (quick) / 64 (thorough) because of 64-bit division by a symbolic period; _calculate_initial_rotation_tp (gmtime/timegm/mktime calendar arithmetic), local time zones and DST, file naming are not covered.',
            'CBMC code contracts on extracted real code (std::chrono as 64-bit integers)', '§3 C15'),
    'C19': ('other',
            'BOUNDED stand-ins: exhaustive native enumeration of the real _process_named_args_format_message against a scanner written from fmt\'s grammar over every valid template of length <= 8 over 7 symbols, and of MacroMetadata::_contains_named_args (all-named templates are detected).',
            'Not covered: _populate_formatted_named_args / _format_and_split_arguments (pair count/order), JsonSink, the template cache. Known finding named-field-then-escaped-brace is reported as KNOWN-FINDING. Observation (not claimed): _contains_named_args skips one character after each placeholder, so "{}{a}" is not detected and "{}{{a" is.',
            'exhaustive native enumeration of the real functions (bounded)', '§3 C19'),

    'C03': ('proof',
            'The per-thread pipeline is decomposed into stages, each with a contract proved on the real (lowered) code for all states: queue read loop (_read_and_decode_frontend_queue, both instantiations, loop contract: a record is consumed iff decoded, pushed once), decode/admit (_populate_transit_event_from_frontend_queue skeleton), TransitEventBuffer (every method against a sequence view, growth preserves order), selection and processing (_process_lowest_timestamp_transit_event: exactly one pop of the selected buffer after the dispatch on every path incl. exceptions; false only if all buffers empty), per-sink write (_write_log_statement: once per accepting sink), reclaim predicate (only drained contexts of exited threads), registry removal.',
            'Composition of the stage contracts into "once each, in thread order" is a paper argument over shared ghost counters (no lemma unit yet); liveness (every statement is eventually processed) is not claimed; registration hand-off race (new_thread_context_flag) not covered; queues/buffers are abstracted in the BackendWorker skeletons by the views their own units prove; context/sink lists are abstracted to {tracked, representative}.',
            'CBMC code contracts on control skeletons + leaf data structures, loop contracts, ghost counters, exception lowering', '§3 C03'),
    'C05': ('proof',
            'The three ordering mechanisms as postconditions of the real code: admission (a statement is pushed only if its timestamp <= the pass limit unless user clock / ordering disabled; otherwise left in the queue untouched), min-timestamp selection (processed event <= every other buffer front, loop contract with ghost index), batch loops of _poll and _exit (a processing step only immediately after a negative pending check) and the pending check itself (false only if no thread has an empty buffer with a non-empty queue); the timestamp is read once, before the first enqueue attempt, and is the one encoded (log_statement).',
            'The global invariant "last written timestamp <= everything still buffered or admitted" is composed on paper from these contracts plus the property\'s own grace-period assumption and monotone per-thread clocks; TSC conversion, system clock and OS scheduling are assumptions; ts_now is read once per pass (not covered by a unit).',
            'CBMC code contracts on control skeletons, loop contracts with ghost index', '§3 C05'),
    'C06': ('proof',
            'Mechanism contracts on the real code: flush_log enqueues the request until accepted (never dropped) and returns only after observing the very flag it sent; the Flush arm of _process_transit_event flushes the active sinks before handing the flag back; _process_lowest_timestamp_transit_event stores the flag after the event was processed and popped; _flush_and_run_active_sinks flushes every collected sink exactly once with a zero interval even when a sink throws; the collecting lambda puts every sink of every valid logger in the set once.',
            '"Earlier statements were written" follows from FIFO per thread (C01-C03) and min-timestamp order (C05): composed on paper. Known finding flush-skips-removed-logger (sinks of removed-but-registered loggers are not flushed) is reported as KNOWN-FINDING. Sink internals (fflush/fsync) are not covered.',
            'CBMC code contracts with ghost event clock (ordering of calls), loop contracts', '§3 C06'),
    'C08': ('proof',
            'LoggerImpl::log_statement control skeleton with queue type, dynamic level and immediate flush symbolic (one proof for all instantiations): returns false iff a dropping queue refused the single reservation and then nothing was committed; true => exactly one commit of exactly the reserved size; failure counter incremented iff first reservation failed and the event is an ordinary Log; the source\'s own NDEBUG-disabled size assertions are obligations. get_and_reset_failure_counter under producer interference between its two accesses (no drop lost or double counted); _check_failure_counter reports exactly the value taken, only for bounded queues; flush/init_backtrace/flush_backtrace retry until accepted.',
            'Delivered-intact-in-order is C01/C02. The argument pack is three stubs (size pass, encode pass, decoder) whose consistency is C04. Sequentially consistent semantics for the failure counter. remove_logger_blocking retry not covered unless unit FE.remove_blocking exists.',
            'CBMC code contracts, symbolic template parameters, rely steps in atomic stubs, loop contracts', '§3 C08'),
    'C10': ('proof',
            'Exceptions are lowered to a ghost flag with EXC_STD / EXC_OTHER; a handler absent in the source is absent in the lowering. Proved on the real code: _populate_formatted_log_message contains ANY exception type, writes the error text and notifies once; _process_lowest_timestamp_transit_event ends with no pending exception, one pop regardless, notifier iff thrown; _flush_and_run_active_sinks attempts every sink; the backtrace replay callback contains sink exceptions per statement; _process_transit_event reports a backtrace statement without storage as a std error; read loop: a record whose decoding throws is not consumed.',
            'User code (formatters, sinks, notifier) is an arbitrary function that may throw either class; the notifier itself is assumed not to throw. ManualBackendWorker::poll_one and _populate_formatted_named_args share the text pattern and are not separate units.',
            'CBMC code contracts with mechanical try/catch -> ghost-flag lowering', '§2.4, §3 C10'),
    'C16': ('proof',
            'should_log_statement (both forms) == (level >= logger level) over the whole enum; Sink::apply_all_filters <=> level >= sink level and every filter accepts, new filters picked up first (loop contract); _write_log_statement: each sink independently written once iff its own filters accept, with the override formatter iff the sink has override options, and told the effective level; TransitEvent::log_level and the decode tail: static statements never inherit a dynamic level from a reused slot, dynamic statements carry exactly the encoded level.',
            'The log macros (arguments not evaluated when the level check fails) are not covered by a unit (macro bodies vanish in preprocessing; planned as MAC.call). Filters are arbitrary predicates (ghost answer).',
            'CBMC code contracts, loop contracts, {tracked, representative} list abstraction', '§3 C16'),

    'C01': ('proof',
            'Thread-modular contracts on every method of the real BoundedSPSCQueueImpl<size_t> (constructor included): a global invariant proved inductive over both threads\' methods from arbitrary invariant states with symbolic wrapping 64-bit positions, every capacity and every batch threshold; atomic loads/stores are contract-only stubs carrying ghost release/acquire views, so a load returns ANY value the C++11 rules allow and safety (grant only inside released space, consumer only shown committed bytes) is stated against the happens-before frontier, not against x86 behaviour. Address-function lemma (no two unreleased records share a byte, contiguous, inside the 2*capacity buffer) over full 64-bit domains.',
            'Assumed: exactly one producer and one consumer; construction happens-before both; C++11 release-sequence rules as encoded in the view stubs; the reduction argument (one foreign access per method => atomic action) is checked syntactically; paper lemma from INV + grants + address lemma + size accounting (C04) to stream equality. Pointer obligations of prepare_write/prepare_read need capacity <= 2^40 (CBMC object size); arithmetic obligations are unbounded.',
            'CBMC code contracts (goto-instrument --dfcc) on extracted real code, rely/guarantee with ghost release/acquire views, SAT (cadical)', '§2.3, §3 C01'),
    'C02': ('proof',
            'Contracts on the real UnboundedSPSCQueue::_handle_full_queue, shrink, prepare_write, _read_next_queue, prepare_read, empty and the forwarding methods, with the bounded-queue methods replaced by their C01 contracts (opaque form; a refinement lemma per method proves the opaque contract from the full one). Nodes are heap objects: publishing the next buffer puts the old one in the frees set, so any later producer access is a pointer-check failure; the consumer may free a buffer only under a drain assertion that needs the acquire load of next and the re-check. Growth cap, error above max, one allocation per switch are postconditions for all sizes (loop contract on the doubling loop).',
            'Assumed: Node constructor = proved BoundedSPSCQueue constructor postcondition; record size <= 2^62, max capacity <= 2^61; release/acquire on Node::next as encoded in the stubs; destructor loop not covered; configuration precondition next_power_of_two(initial) <= max.',
            'CBMC code contracts with heap objects (is_fresh / frees / was_freed), ghost publication state, loop contracts, SAT (cadical)', '§3 C02'),
    'C09': ('proof',
            'Safety form of the liveness statement, proved over the REAL lowered bodies: (1) a backend pass (any number of reads, commit_read iff something was read) keeps "no unpublished reader lag unless unread data is known" (inductive lemma BQ.lem_idle, loop contract); (2) drained queue + idle consumer + nothing uncommitted => prepare_write(n <= capacity) succeeds once the producer reloads (BQ.lem_quiescent); helper clauses on commit_read / prepare_write; unbounded queue: a record up to the (power-of-two) maximum is granted on an empty queue, growing if needed.',
            'Partial correctness only: "after finitely many polls" is argued from the quiescence obligation, the retry loop itself is not proved to terminate. Assumed: the producer eventually reads the latest published reader position (cache-coherence liveness); shape of a backend pass (proved separately for the real read loop where unit BW.read_decode exists). Known finding nonpow2max (non-power-of-two maximum capacity) is reported as KNOWN-FINDING.',
            'CBMC code contracts, inductive lemma over real function bodies (loop contract), SAT (cadical)', '§3 C09'),
    'C20': ('proof',
            'Contracts on the real ThreadContextManager::add_invalid_thread_context / has_invalid_thread_context / remove_shared_invalidated_thread_context and ScopedThreadContext destructor against a ghost mathematical count of exited-unreclaimed contexts (any value up to 2^22): the counter field is modelled at the width the source declares, so has_invalid <=> count != 0 fails for a narrow counter; removal erases exactly the given context once (loop contract over the registry shim) and un-counts it once; shrink takes effect (UnboundedSPSCQueue::shrink, producer_capacity) and empty() never reports a queue empty whose producer moved on.',
            'Assumed: sequentially consistent interleavings for valid/counter flags (DESIGN §2.3 last paragraph: the relaxed valid flag is an observation, not a claim); std::vector registry as tracked-slot shim; at most 2^22 threads; the backend-side cleanup predicate and shrink request are covered by BW.* units where present.',
            'CBMC code contracts with ghost counter at declared field width, loop contracts, SAT (cadical)', '§3 C20'),
    # id: (level category, level text, level_note, technique, design_ref)
    'C18': ('proof',
            'Function contracts on the real BacktraceStorage::store / process / set_capacity (cut from the preprocessed header and lowered to C on every run) against the abstract sequence view "most recent min(capacity, stored) statements, oldest first"; CBMC (DFCC) discharges every obligation for every capacity, index and size, with a loop contract on the replay loop, so the proof is unbounded in capacity and history (any reachable or unreachable pre-state satisfying the representation invariant).',
            'Trusted: std::vector behaves like the tracked-slot shim (prelude/vec.h); strings and TransitEvent payloads are opaque ids; the lowering of DESIGN §2.1. The call sites in BackendWorker (store on Backtrace level, process after the trigger) are covered by the BW.process_event unit when present.',
            'CBMC code contracts (goto-instrument --dfcc) on extracted real code, loop contracts, SAT (cadical)', '§3 C18'),
}

NOT_BUILT = 'within reach of contract-based verification per DESIGN.md §3, units not built yet in this session'
NA = {
    'C11': 'quantifies over programs/argument-type combinations on a variadic-template path through libstdc++ and fmt; no CBMC contract on a C lowering can observe allocations or formatting inside library templates (DESIGN.md §6)',
}


def main():
    props = [json.loads(l) for l in open(os.path.join(HERE, 'properties.jsonl'))]
    from importlib import import_module
    import glob
    served = set()
    for p in sorted(glob.glob(os.path.join(HERE, 'units', '*.py'))):
        n = os.path.basename(p)[:-3]
        if n.startswith('_'):
            continue
        for u in getattr(import_module('units.' + n), 'UNITS', []):
            served |= set(u['props'])
    checks = []
    na = []
    for p in props:
        pid = p['id']
        if pid in CLAIMS and pid in served:
            cat, text, note, tech, ref = CLAIMS[pid]
            checks.append(dict(property_id=pid, quick_cmd='./check %s quick' % pid, thorough_cmd='./check %s thorough' % pid,
                               evidence_file='/verif/evidence/%s.json' % pid, replay_cmd_template='./check --replay {path}',
                               engine='cbmc-contracts', level_claimed=dict(category=cat, text=text, design_ref=ref), level_note=note, technique=tech))
        else:
            na.append(dict(property_id=pid, reason=NA.get(pid, NOT_BUILT)))
    hooks_commits = []
    m = dict(version=1,
             setup_cmd='./tools/setup.sh',
             hooks=dict(guard='QUILL_VERIF', enable='none needed: contracts live in /verif/units (sidecar), the checks read /repo/include as it is; no source hook exists', baseline_off_cmd='cmake --build /repo/_build -j16 && ctest --test-dir /repo/_build -j8 --timeout 900', source_commits=hooks_commits, add_only=True),
             engines=[dict(name='cbmc-contracts', path='/verif/check', serves_properties=[c['property_id'] for c in checks],
                           kind_free_text='contract-based deductive verification: g++ -E of the real headers -> mechanical C lowering -> CBMC 6.11 code contracts (goto-instrument --dfcc, loop contracts) discharged by SAT (cadical); bounded stand-ins (cbmc --unwind with unwinding assertions, or exhaustive native enumeration of the real function) are labelled bounded')],
             checks=checks,
             notes='Exit codes of every check: 0 held, 1 VIOLATION line(s), 2 undecided (extraction/lowering break, solver timeout, vacuity guard) - never reported as a violation. Known findings: /verif/known_findings.json.',
             not_applicable=na)
    json.dump(m, open(os.path.join(HERE, 'MANIFEST.json'), 'w'), indent=1)
    print('claimed:', [c['property_id'] for c in checks])


if __name__ == '__main__':
    main()
