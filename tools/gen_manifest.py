#!/usr/bin/env python3
"""Regenerates /verif/MANIFEST.json from the table below and from the units that exist (./check --list).
A property is claimed only if units serve it; everything else goes to not_applicable with its reason."""
import json, os, sys, subprocess
HERE = os.path.dirname(os.path.dirname(os.path.abspath(__file__)))
sys.path.insert(0, HERE)

CLAIMS = {
    # id: (level category, level text, level_note, technique, design_ref)
    'C18': ('proof',
            'Function contracts on the real BacktraceStorage::store / process / set_capacity (cut from the preprocessed header and lowered to C on every run) against the abstract sequence view "most recent min(capacity, stored) statements, oldest first"; CBMC (DFCC) discharges every obligation for every capacity, index and size, with a loop contract on the replay loop, so the proof is unbounded in capacity and history (any reachable or unreachable pre-state satisfying the representation invariant).',
            'Trusted: std::vector behaves like the tracked-slot shim (prelude/vec.h); strings and TransitEvent payloads are opaque ids; the lowering of DESIGN §2.1. The call sites in BackendWorker (store on Backtrace level, process after the trigger) are covered by the BW.process_event unit when present.',
            'CBMC code contracts (goto-instrument --dfcc) on extracted real code, loop contracts, SAT (cadical)', '§3 C18'),
}

NOT_BUILT = 'within reach of contract-based verification per DESIGN.md §3, units not built yet in this session'
NA = {
    'C11': 'quantifies over programs/argument-type combinations on a variadic-template path through libstdc++ and fmt; no CBMC contract on a C lowering can observe allocations or formatting inside library templates (DESIGN.md §6)',
}


def main():
    props = [json.loads(l) for l in open(os.path.join(HERE, 'properties.jsonl'))]
    from importlib import import_module
    import glob
    served = set()
    for p in sorted(glob.glob(os.path.join(HERE, 'units', '*.py'))):
        n = os.path.basename(p)[:-3]
        if n.startswith('_'):
            continue
        for u in getattr(import_module('units.' + n), 'UNITS', []):
            served |= set(u['props'])
    checks = []
    na = []
    for p in props:
        pid = p['id']
        if pid in CLAIMS and pid in served:
            cat, text, note, tech, ref = CLAIMS[pid]
            checks.append(dict(property_id=pid, quick_cmd='./check %s quick' % pid, thorough_cmd='./check %s thorough' % pid,
                               evidence_file='/verif/evidence/%s.json' % pid, replay_cmd_template='./check --replay {path}',
                               engine='cbmc-contracts', level_claimed=dict(category=cat, text=text, design_ref=ref), level_note=note, technique=tech))
        else:
            na.append(dict(property_id=pid, reason=NA.get(pid, NOT_BUILT)))
    hooks_commits = []
    m = dict(version=1,
             setup_cmd='./tools/setup.sh',
             hooks=dict(guard='QUILL_VERIF', enable='none needed: contracts live in /verif/units (sidecar), the checks read /repo/include as it is; no source hook exists', baseline_off_cmd='cmake --build /repo/_build -j16 && ctest --test-dir /repo/_build -j8 --timeout 900', source_commits=hooks_commits, add_only=True),
             engines=[dict(name='cbmc-contracts', path='/verif/check', serves_properties=[c['property_id'] for c in checks],
                           kind_free_text='contract-based deductive verification: g++ -E of the real headers -> mechanical C lowering -> CBMC 6.11 code contracts (goto-instrument --dfcc, loop contracts) discharged by SAT (cadical); bounded stand-ins (cbmc --unwind with unwinding assertions, or exhaustive native enumeration of the real function) are labelled bounded')],
             checks=checks,
             notes='Exit codes of every check: 0 held, 1 VIOLATION line(s), 2 undecided (extraction/lowering break, solver timeout, vacuity guard) - never reported as a violation. Known findings: /verif/known_findings.json.',
             not_applicable=na)
    json.dump(m, open(os.path.join(HERE, 'MANIFEST.json'), 'w'), indent=1)
    print('claimed:', [c['property_id'] for c in checks])


if __name__ == '__main__':
    main()
