#!/usr/bin/env python3
"""Regenerates /verif/MANIFEST.json from the table below and from the units that exist (./check --list).
A property is claimed only if units serve it; everything else goes to not_applicable with its reason."""
import json, os, sys, subprocess
HERE = os.path.dirname(os.path.dirname(os.path.abspath(__file__)))
sys.path.insert(0, HERE)

CLAIMS = {

    'C01': ('proof',
            'Thread-modular contracts on every method of the real BoundedSPSCQueueImpl<size_t> (constructor included): a global invariant proved inductive over both threads\' methods from arbitrary invariant states with symbolic wrapping 64-bit positions, every capacity and every batch threshold; atomic loads/stores are contract-only stubs carrying ghost release/acquire views, so a load returns ANY value the C++11 rules allow and safety (grant only inside released space, consumer only shown committed bytes) is stated against the happens-before frontier, not against x86 behaviour. Address-function lemma (no two unreleased records share a byte, contiguous, inside the 2*capacity buffer) over full 64-bit domains.',
            'Assumed: exactly one producer and one consumer; construction happens-before both; C++11 release-sequence rules as encoded in the view stubs; the reduction argument (one foreign access per method => atomic action) is checked syntactically; paper lemma from INV + grants + address lemma + size accounting (C04) to stream equality. Pointer obligations of prepare_write/prepare_read need capacity <= 2^40 (CBMC object size); arithmetic obligations are unbounded.',
            'CBMC code contracts (goto-instrument --dfcc) on extracted real code, rely/guarantee with ghost release/acquire views, SAT (cadical)', '§2.3, §3 C01'),
    'C02': ('proof',
            'Contracts on the real UnboundedSPSCQueue::_handle_full_queue, shrink, prepare_write, _read_next_queue, prepare_read, empty and the forwarding methods, with the bounded-queue methods replaced by their C01 contracts (opaque form; a refinement lemma per method proves the opaque contract from the full one). Nodes are heap objects: publishing the next buffer puts the old one in the frees set, so any later producer access is a pointer-check failure; the consumer may free a buffer only under a drain assertion that needs the acquire load of next and the re-check. Growth cap, error above max, one allocation per switch are postconditions for all sizes (loop contract on the doubling loop).',
            'Assumed: Node constructor = proved BoundedSPSCQueue constructor postcondition; record size <= 2^62, max capacity <= 2^61; release/acquire on Node::next as encoded in the stubs; destructor loop not covered; configuration precondition next_power_of_two(initial) <= max.',
            'CBMC code contracts with heap objects (is_fresh / frees / was_freed), ghost publication state, loop contracts, SAT (cadical)', '§3 C02'),
    'C09': ('proof',
            'Safety form of the liveness statement, proved over the REAL lowered bodies: (1) a backend pass (any number of reads, commit_read iff something was read) keeps "no unpublished reader lag unless unread data is known" (inductive lemma BQ.lem_idle, loop contract); (2) drained queue + idle consumer + nothing uncommitted => prepare_write(n <= capacity) succeeds once the producer reloads (BQ.lem_quiescent); helper clauses on commit_read / prepare_write; unbounded queue: a record up to the (power-of-two) maximum is granted on an empty queue, growing if needed.',
            'Partial correctness only: "after finitely many polls" is argued from the quiescence obligation, the retry loop itself is not proved to terminate. Assumed: the producer eventually reads the latest published reader position (cache-coherence liveness); shape of a backend pass (proved separately for the real read loop where unit BW.read_decode exists). Known finding nonpow2max (non-power-of-two maximum capacity) is reported as KNOWN-FINDING.',
            'CBMC code contracts, inductive lemma over real function bodies (loop contract), SAT (cadical)', '§3 C09'),
    'C20': ('proof',
            'Contracts on the real ThreadContextManager::add_invalid_thread_context / has_invalid_thread_context / remove_shared_invalidated_thread_context and ScopedThreadContext destructor against a ghost mathematical count of exited-unreclaimed contexts (any value up to 2^22): the counter field is modelled at the width the source declares, so has_invalid <=> count != 0 fails for a narrow counter; removal erases exactly the given context once (loop contract over the registry shim) and un-counts it once; shrink takes effect (UnboundedSPSCQueue::shrink, producer_capacity) and empty() never reports a queue empty whose producer moved on.',
            'Assumed: sequentially consistent interleavings for valid/counter flags (DESIGN §2.3 last paragraph: the relaxed valid flag is an observation, not a claim); std::vector registry as tracked-slot shim; at most 2^22 threads; the backend-side cleanup predicate and shrink request are covered by BW.* units where present.',
            'CBMC code contracts with ghost counter at declared field width, loop contracts, SAT (cadical)', '§3 C20'),
    # id: (level category, level text, level_note, technique, design_ref)
    'C18': ('proof',
            'Function contracts on the real BacktraceStorage::store / process / set_capacity (cut from the preprocessed header and lowered to C on every run) against the abstract sequence view "most recent min(capacity, stored) statements, oldest first"; CBMC (DFCC) discharges every obligation for every capacity, index and size, with a loop contract on the replay loop, so the proof is unbounded in capacity and history (any reachable or unreachable pre-state satisfying the representation invariant).',
            'Trusted: std::vector behaves like the tracked-slot shim (prelude/vec.h); strings and TransitEvent payloads are opaque ids; the lowering of DESIGN §2.1. The call sites in BackendWorker (store on Backtrace level, process after the trigger) are covered by the BW.process_event unit when present.',
            'CBMC code contracts (goto-instrument --dfcc) on extracted real code, loop contracts, SAT (cadical)', '§3 C18'),
}

NOT_BUILT = 'within reach of contract-based verification per DESIGN.md §3, units not built yet in this session'
NA = {
    'C11': 'quantifies over programs/argument-type combinations on a variadic-template path through libstdc++ and fmt; no CBMC contract on a C lowering can observe allocations or formatting inside library templates (DESIGN.md §6)',
}


def main():
    props = [json.loads(l) for l in open(os.path.join(HERE, 'properties.jsonl'))]
    from importlib import import_module
    import glob
    served = set()
    for p in sorted(glob.glob(os.path.join(HERE, 'units', '*.py'))):
        n = os.path.basename(p)[:-3]
        if n.startswith('_'):
            continue
        for u in getattr(import_module('units.' + n), 'UNITS', []):
            served |= set(u['props'])
    checks = []
    na = []
    for p in props:
        pid = p['id']
        if pid in CLAIMS and pid in served:
            cat, text, note, tech, ref = CLAIMS[pid]
            checks.append(dict(property_id=pid, quick_cmd='./check %s quick' % pid, thorough_cmd='./check %s thorough' % pid,
                               evidence_file='/verif/evidence/%s.json' % pid, replay_cmd_template='./check --replay {path}',
                               engine='cbmc-contracts', level_claimed=dict(category=cat, text=text, design_ref=ref), level_note=note, technique=tech))
        else:
            na.append(dict(property_id=pid, reason=NA.get(pid, NOT_BUILT)))
    hooks_commits = []
    m = dict(version=1,
             setup_cmd='./tools/setup.sh',
             hooks=dict(guard='QUILL_VERIF', enable='none needed: contracts live in /verif/units (sidecar), the checks read /repo/include as it is; no source hook exists', baseline_off_cmd='cmake --build /repo/_build -j16 && ctest --test-dir /repo/_build -j8 --timeout 900', source_commits=hooks_commits, add_only=True),
             engines=[dict(name='cbmc-contracts', path='/verif/check', serves_properties=[c['property_id'] for c in checks],
                           kind_free_text='contract-based deductive verification: g++ -E of the real headers -> mechanical C lowering -> CBMC 6.11 code contracts (goto-instrument --dfcc, loop contracts) discharged by SAT (cadical); bounded stand-ins (cbmc --unwind with unwinding assertions, or exhaustive native enumeration of the real function) are labelled bounded')],
             checks=checks,
             notes='Exit codes of every check: 0 held, 1 VIOLATION line(s), 2 undecided (extraction/lowering break, solver timeout, vacuity guard) - never reported as a violation. Known findings: /verif/known_findings.json.',
             not_applicable=na)
    json.dump(m, open(os.path.join(HERE, 'MANIFEST.json'), 'w'), indent=1)
    print('claimed:', [c['property_id'] for c in checks])


if __name__ == '__main__':
    main()
