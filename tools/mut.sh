#!/bin/bash
# tools/mut.sh <file-under-include> <sed-expr> <check args...> : apply a sed mutation to a scratch copy of /repo/include and run ./check against it
set -e
M=/var/tmp/mutrepo_$$; mkdir -p $M; cp -r /repo/include $M/
f=$1; e=$2; shift 2
perl -0777 -i -pe "$e" $M/include/$f
if diff -q /repo/include/$f $M/include/$f >/dev/null; then echo "MUTATION DID NOT APPLY"; rm -rf $M; exit 3; fi
VERIF_REPO=$M VERIF_NO_EVIDENCE=1 VERIF_REPLAY_DIR=/var/tmp/mutreplays /verif/check "$@" 2>&1 | grep -vE "^\s*$" | head -${MUT_LINES:-12}
rm -rf $M
