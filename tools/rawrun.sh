#!/bin/bash
# tools/rawrun.sh <unit.c> <enforced fn> [--loops] callee... : run the DFCC pipeline on a hand-edited unit.c (debugging aid)
f=$1; fn=$2; shift 2; L=""; [ "$1" = "--loops" ] && { L="--apply-loop-contracts"; shift; }
goto-cc -I /verif/prelude --function HARNESS $f -o ${f}_a.gb 2>&1 | tail -3
called=$(goto-instrument --call-graph ${f}_a.gb 2>/dev/null | grep -oE -- "-> \S+$" | sed 's/-> //' | sort -u)
R=""; for c in "$@"; do echo "$called" | grep -qx "$c" && R="$R --replace-call-with-contract $c"; done
goto-instrument --dfcc HARNESS --enforce-contract $fn $R $L ${f}_a.gb ${f}_b.gb > ${f}.instr.log 2>&1 || { tail -5 ${f}.instr.log; exit 2; }
(ulimit -v ${MEMKB:-8000000}; /usr/bin/time -f "$f %es %MKB" timeout ${TO:-120} cbmc --bounds-check --pointer-check --sat-solver cadical --object-bits 12 ${f}_b.gb 2>&1 | grep -E "FAILURE|^\*\*|VERIFICATION|Out of mem|KB$" | tail -${LINES_:-6})
rm -f ${f}_a.gb ${f}_b.gb
