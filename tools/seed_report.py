#!/usr/bin/env python3
"""Runs the property check of every seeded change against a scratch copy with the change applied and records the outcome in
seeded/<id>/meta.json (key verif_detection) and in seeded/SUMMARY.md.  Usage: tools/seed_report.py [ids...]"""
import os, sys, json, subprocess, re, glob, shutil, tempfile
HERE = os.path.dirname(os.path.dirname(os.path.abspath(__file__)))
ids = [] if sys.argv[1:] == ['--summary-only'] else sys.argv[1:] or sorted(os.path.basename(d) for d in glob.glob(os.path.join(HERE, 'seeded', '*')) if os.path.isdir(d))
rows = []
for sid in ids:
    d = os.path.join(HERE, 'seeded', sid)
    meta = json.load(open(os.path.join(d, 'meta.json')))
    prop = meta.get('property') or sid.split('-')[0]
    import re as _re
    prop = (_re.match(r'C\d+', prop) or _re.match(r'C\d+', sid)).group(0)
    m = tempfile.mkdtemp(prefix='seedrepo_', dir='/var/tmp')
    shutil.copytree('/repo/include', os.path.join(m, 'include'))
    r = subprocess.run(['patch', '-s', '-p1', '-i', os.path.join(d, 'patch.diff')], cwd=m, capture_output=True, text=True)
    if r.returncode != 0:
        det = dict(applied=False, note='patch does not apply to the current tree: ' + (r.stdout + r.stderr)[-300:])
    else:
        env = dict(os.environ, VERIF_REPO=m, VERIF_NO_EVIDENCE='1', VERIF_REPLAY_DIR='/var/tmp/seedreplays')
        r = subprocess.run([os.path.join(HERE, 'check'), prop, 'quick'], capture_output=True, text=True, env=env, cwd=HERE)
        lines = r.stdout.split('\n')
        vio = [l for l in lines if l.startswith('VIOLATION')]
        units = sorted(set(re.findall(r'^\s+unit (\S+) \[', r.stdout, re.M)))
        clauses = [re.sub(r'^.*? — ', '', l).strip()[:160] for l in lines if l.startswith('  unit ') and ' — ' in l][:4]
        und = [l[:200] for l in lines if l.startswith('UNDECIDED')]
        det = dict(applied=True, check='./check %s quick' % prop, exit_code=r.returncode,
                   outcome=('detected' if r.returncode == 1 else ('undecided (exit 2): not reported as a violation' if r.returncode == 2 else 'NOT detected')),
                   violation_lines=len(vio), native_replay_confirmed=sum(1 for l in vio if 'no-failing-input-found' not in l),
                   failing_units=units, failing_clauses=clauses, undecided=und)
    shutil.rmtree(m, ignore_errors=True)
    conf = ''
    try:
        conf = open(os.path.join(d, 'confirm.txt')).read()
    except OSError:
        pass
    meta['breaks_property'] = prop
    meta['verif_detection'] = det
    if conf:
        meta['confirmed_by_me'] = dict(how='tools/confirm_seed.sh in a scratch worktree: demo compiled against the clean and the patched tree, then the library test suite (ctest, 182 tests, excluding unbounded_unlimited_queue which needs 32 GiB) with the patch applied', result=conf.strip().split('\n'))
    json.dump(meta, open(os.path.join(d, 'meta.json'), 'w'), indent=1)
    rows.append((sid, prop, det.get('outcome', det.get('note', '')), ', '.join(det.get('failing_units', [])), (det.get('failing_clauses') or [''])[0]))
    print(sid, prop, det.get('outcome', det.get('note')), det.get('failing_units'))
# the summary lists EVERY seed: the ones not re-run in this invocation keep the outcome recorded in their meta.json
done = {r[0] for r in rows}
for sid in sorted(os.path.basename(d) for d in glob.glob(os.path.join(HERE, 'seeded', '*')) if os.path.isdir(d)):
    if sid in done:
        continue
    try:
        meta = json.load(open(os.path.join(HERE, 'seeded', sid, 'meta.json')))
    except OSError:
        continue
    det = meta.get('verif_detection') or {}
    rows.append((sid, meta.get('breaks_property', sid.split('-')[0]), det.get('outcome', det.get('note', 'not run yet')), ', '.join(det.get('failing_units', [])), (det.get('failing_clauses') or [''])[0]))
rows.sort()
with open(os.path.join(HERE, 'seeded', 'SUMMARY.md'), 'w') as fh:
    fh.write('| seed | property | outcome of the property\'s quick check | failing units | first failing clause |\n|---|---|---|---|---|\n')
    for r in rows:
        fh.write('| %s | %s | %s | %s | %s |\n' % r)
