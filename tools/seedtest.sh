#!/bin/bash
# tools/seedtest.sh <patch.diff> <check args...> : apply a seeded patch to a scratch copy of /repo/include and run ./check against it
M=/var/tmp/seedrepo_$$; mkdir -p $M; cp -r /repo/include $M/
( cd $M && patch -s -p1 < "$1" ) || { echo "PATCH DID NOT APPLY"; rm -rf $M; exit 3; }
shift
VERIF_REPO=$M VERIF_NO_EVIDENCE=1 VERIF_REPLAY_DIR=/var/tmp/seedreplays /verif/check "$@" 2>&1 | grep -vE "^\s*$" | cut -c1-400 | head -${MUT_LINES:-14}
rc=${PIPESTATUS[0]}
rm -rf $M
exit $rc
