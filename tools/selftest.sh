#!/bin/bash
# tools/selftest.sh : regression test of the machinery itself - a fixed list of small mutations of /repo/include (applied to a
# scratch copy, never to /repo) each of which must make the named unit report at least one FAILURE; and the unchanged tree must
# give none for the same units.  Exit 0 if every mutation is detected.
cd /verif
fail=0
run() { # file, perl-expr, unit
  out=$(MUT_LINES=400 tools/mut.sh "$1" "$2" --unit "$3" 2>&1)
  if echo "$out" | grep -q "MUTATION DID NOT APPLY"; then echo "STALE   $3 : mutation no longer applies ($1)"; fail=1
  elif echo "$out" | grep -qE "^\s+FAILURE "; then echo "caught  $3"
  else echo "MISSED  $3 : $2"; fail=1; fi
}
run quill/core/BoundedSPSCQueue.h 's/_atomic_writer_pos\.store\(_writer_pos, std::memory_order_release\)/_atomic_writer_pos.store(_writer_pos, std::memory_order_relaxed)/' BQ.commit_write
run quill/backend/BacktraceStorage.h 's/_stored_events\.clear\(\);\s*_index = 0;\s*\}\s*\/\*\*\*\/\s*void set_capacity/_stored_events.clear(); } \/***\/ void set_capacity/' BS.process
run quill/sinks/StreamSink.h 's/_write_occurred = true;//' SS.write_log
run quill/sinks/FileSink.h 's/\(now - _last_fsync_timestamp\) < _config\.minimum_fsync_interval\(\)/(now - _last_fsync_timestamp) <= _config.minimum_fsync_interval()/' FS.fsync_file
run quill/sinks/RotatingSink.h 's/date\.tm_mday \+= 1;/date.tm_mday += 2;/' RS.initial_tp
run quill/backend/StringFromTime.h 's/time_info\.tm_hour < 12/time_info.tm_hour <= 12/' SFT.noon_midnight
run quill/std/Optional.h 's/size_t total_size\{sizeof\(bool\)\};/size_t total_size{0};/' 'CD.roundtrip[std::optional<uint32_t>]'
run quill/DeferredFormatCodec.h 's/return sizeof\(T\) \+ alignof\(T\) - 1;/return sizeof(T) + alignof(T) \/ 2;/' 'CD.deferred[copy-construct]'
run quill/core/LoggerManager.h 's/(return \(search_it != std::end\(_loggers\)) && search_it->get\(\)->get_logger_name\(\) == target\)/$1)/' LM.find
run quill/core/ThreadContextManager.h 's/UnboundedSPSCQueue\{initial_queue_capacity, unbounded_queue_max_capacity, huge_pages_policy\}/UnboundedSPSCQueue{unbounded_queue_max_capacity, initial_queue_capacity, huge_pages_policy}/' TC.ctor
run quill/backend/BackendWorker.h 's/all_empty &= thread_context->_transit_event_buffer->empty\(\);//' BW.queues_empty
run quill/backend/BackendWorker.h 's/if \(queues_and_events_empty\)\s*\{\s*_cleanup_invalidated_thread_contexts\(\);/_cleanup_invalidated_thread_contexts(); if (queues_and_events_empty) {/' BW.poll
run quill/backend/BackendWorker.h 's/pos_third_delim - pos_second_delim - delimiter\.size\(\)/pos_third_delim - pos_second_delim/' BW.runtime_md
run quill/LogMacros.h 's/next_log_at \+= n_occurrences;/next_log_at = call_count + n_occurrences + 1;/' MAC.LOGGER_CALL_LIMIT_EVERY_N
run quill/core/UnboundedSPSCQueue.h 's/Node const\* current_node = _consumer;/Node const* current_node = _consumer->next;/' UQ.dtor
run quill/backend/TimestampFormatter.h 's/&_formatted_date\[_formatted_date\.size\(\) - extracted_ms_string\.size\(\)\]/&_formatted_date[_formatted_date.size() - extracted_ms_string.size() - 1]/' TF.write_frac
run quill/core/DynamicFormatArgStore.h 's/\(mapped_type == fmtquill::detail::type::custom_type\) \|\|\s*\(mapped_type == fmtquill::detail::type::char_type\)/(mapped_type == fmtquill::detail::type::custom_type)/' 'DFAS.push_back[char]'
run quill/backend/BackendWorker.h 's/formatted_view\.find\(delimiter, pos_second_delim \+ delimiter\.size\(\)\)/formatted_view.find(delimiter, pos_first_delim + delimiter.size())/' BW.apply_runtime_md
run quill/backend/ManualBackendWorker.h 's/QUILL_CATCH_ALL\(\)\s*\{\s*_backend_worker->_options\.error_notifier\(std::string\{"Caught unhandled exception\."\}\);\s*\}//' MBW.poll_one
run quill/StringRef.h 's/return sizeof\(size_t\) \+ sizeof\(uintptr_t\);/return sizeof(size_t) + sizeof(uint32_t);/' 'CD.roundtrip[utility::StringRef]'
run quill/sinks/Sink.h 's/_new_filter\.store\(true, std::memory_order_relaxed\);/_new_filter.store(false, std::memory_order_relaxed);/' SK.add_filter
run quill/Frontend.h 's/(get_spsc_queue<TFrontendOptions::queue_type>\(\)\s*)\.producer_capacity\(\)/$1.capacity()/' FE.queue_capacity
run quill/backend/SignalHandler.h 's/if \(catchable_signal == SIGALRM\)\s*\{\s*QUILL_THROW\(QuillError\{"SIGALRM can not be part of catchable_signals\."\}\);\s*\}//' SIG.init_handler
run quill/backend/BackendWorker.h 's/for \(size_t i = arg_names\.size\(\); i < static_cast<size_t>\(_format_args_store\.size\(\)\); \+\+i\)/for (size_t i = arg_names.size() + 1; i < static_cast<size_t>(_format_args_store.size()); ++i)/' BW.named_keys
run quill/backend/BackendWorker.h 's/std::memcpy\(&logger_removal_flag_tmp, read_pos, sizeof\(uintptr_t\)\);\s*read_pos \+= sizeof\(uintptr_t\);\s*std::string_view const logger_name = Codec<std::string>::decode_arg\(read_pos\);/std::string_view const logger_name = Codec<std::string>::decode_arg(read_pos); std::memcpy(&logger_removal_flag_tmp, read_pos, sizeof(uintptr_t)); read_pos += sizeof(uintptr_t);/' BW.control_arms
run quill/backend/BackendWorker.h 's/_thread_context_manager\.remove_shared_invalidated_thread_context\(\*found_invalid_and_empty_thread_context\);//' BW.cleanup_tc
run quill/core/PatternFormatterOptions.h 's/timestamp_pattern == other\.timestamp_pattern &&//' PFO.equals
exit $fail
