#!/bin/sh
# Offline setup: nothing is downloaded or built ahead of time. Every check regenerates its stub headers and
# lowered units from /repo's working tree into a scratch directory. This only verifies the tool chain is present.
set -e
for t in cbmc goto-cc goto-instrument g++ python3; do command -v $t >/dev/null || { echo "missing $t"; exit 1; }; done
cbmc --version
mkdir -p /verif/evidence /verif/replays
