"""C01 / C09 — core/BoundedSPSCQueue.h (BoundedSPSCQueueImpl<size_t>): thread-modular contracts with release/acquire
ghost views (DESIGN §2.3, §3 C01).  Every method is one atomic action (at most one access to a location the other
thread writes); foreign accesses are contract-only stubs = "rely step of the other thread, then the access"."""

H = 'quill/core/BoundedSPSCQueue.h'

STRUCT = dict(c='BQ', header=H, cls='BoundedSPSCQueueImpl',
              typemap={'HugePagesPolicy': 'HugePagesPolicy'},
              ghost='integer_type g_prod_hb, g_cons_hb, g_pub_AR, g_pub_AW, g_cons_lb; bool g_prod_gone;')

PRELUDE = r'''
#ifndef INTEGER_T
#define INTEGER_T size_t
#endif
typedef INTEGER_T integer_type;      /* BoundedSPSCQueue = BoundedSPSCQueueImpl<size_t> (the alias the library uses); BQ.ctor has a variant at uint16_t (the narrow instantiations the test suite exercises) */
typedef int HugePagesPolicy;
@STRUCT:BQ@
#define MAXCAP (((size_t)1) << 40)     /* CBMC object-size limit; only for the two pointer-returning methods */
#define D(a, b) ((integer_type)((a) - (b)))
#define POW2(x) ((x) != 0 && (((x) & ((x) - 1)) == 0))
#define B(q) ((q)->g_prod_hb)
/* ghost views:  g_prod_hb  = reader position whose release happens-before the producer (acquire frontier)
                 g_cons_hb  = writer position whose release happens-before the consumer
                 g_pub_AR/AW = last value stored with (at least) release order to the atomic position
                 g_cons_lb  = read-read coherence lower bound of the consumer's next load of the writer position
                 g_prod_gone = the producer has left this queue for good (unbounded queue: published a next node) */
#define INV(q) ( POW2((q)->_capacity) && (q)->_mask == (q)->_capacity - 1 && \
  (q)->_reader_pos_cache == (q)->g_prod_hb && (q)->_writer_pos_cache == (q)->g_cons_hb && \
  (q)->g_pub_AR == (q)->_atomic_reader_pos && (q)->g_pub_AW == (q)->_atomic_writer_pos && \
  D((q)->_atomic_reader_pos, B(q)) <= D((q)->_reader_pos, B(q)) && \
  D((q)->_reader_pos, B(q)) <= D((q)->_writer_pos_cache, B(q)) && \
  D((q)->_writer_pos_cache, B(q)) <= D((q)->g_cons_lb, B(q)) && \
  D((q)->g_cons_lb, B(q)) <= D((q)->_atomic_writer_pos, B(q)) && \
  D((q)->_atomic_writer_pos, B(q)) <= D((q)->_writer_pos, B(q)) && \
  D((q)->_writer_pos, B(q)) <= (q)->_capacity && \
  ((q)->g_prod_gone ==> (q)->_atomic_writer_pos == (q)->_writer_pos) )
#define FRESHQ(q) (__CPROVER_is_fresh(q, sizeof(BQ)))
#define CONS_FIELDS(q) (q)->_atomic_reader_pos, (q)->_reader_pos, (q)->_writer_pos_cache, (q)->g_cons_hb, (q)->g_pub_AR, (q)->g_cons_lb
#define PROD_FIELDS(q) (q)->_atomic_writer_pos, (q)->_writer_pos, (q)->_reader_pos_cache, (q)->g_prod_hb, (q)->g_pub_AW

/* ---- atomic accesses: contract-only stubs ---------------------------------------------------------------- */
/* producer loads the reader position: rely step of the consumer (it only advances and keeps INV; that is what the
   consumer units prove), then the load: any value between what the producer already knows and the latest store. */
integer_type load_AR_prod(BQ* q, int mo)
__CPROVER_requires(FRESHQ(q) && INV(q))
__CPROVER_assigns(q->g_prod_hb, CONS_FIELDS(q))
__CPROVER_ensures(D(q->_atomic_reader_pos, OLD(q->g_prod_hb)) >= D(OLD(q->_atomic_reader_pos), OLD(q->g_prod_hb)))
__CPROVER_ensures(D(q->_reader_pos, OLD(q->g_prod_hb)) >= D(OLD(q->_reader_pos), OLD(q->g_prod_hb)))
__CPROVER_ensures(D(q->_writer_pos_cache, OLD(q->g_prod_hb)) >= D(OLD(q->_writer_pos_cache), OLD(q->g_prod_hb)))
__CPROVER_ensures(D(q->g_cons_lb, OLD(q->g_prod_hb)) >= D(OLD(q->g_cons_lb), OLD(q->g_prod_hb)))
__CPROVER_ensures(q->g_pub_AR == q->_atomic_reader_pos && q->g_cons_hb == q->_writer_pos_cache)
__CPROVER_ensures(D(q->_atomic_reader_pos, OLD(q->g_prod_hb)) <= D(q->_reader_pos, OLD(q->g_prod_hb)) && D(q->_reader_pos, OLD(q->g_prod_hb)) <= D(q->_writer_pos_cache, OLD(q->g_prod_hb)) && D(q->_writer_pos_cache, OLD(q->g_prod_hb)) <= D(q->g_cons_lb, OLD(q->g_prod_hb)) && D(q->g_cons_lb, OLD(q->g_prod_hb)) <= D(q->_atomic_writer_pos, OLD(q->g_prod_hb)))
#ifdef QUIESCENT
/* C09: the consumer is idle and has published everything it consumed; the reload returns the latest value */
__CPROVER_ensures(q->_atomic_reader_pos == OLD(q->_atomic_reader_pos) && q->_reader_pos == OLD(q->_reader_pos) && RET == q->_atomic_reader_pos)
#endif
__CPROVER_ensures(D(RET, OLD(q->g_prod_hb)) <= D(q->_atomic_reader_pos, OLD(q->g_prod_hb)))
__CPROVER_ensures(IS_ACQ(mo) ==> q->g_prod_hb == (D(RET, OLD(q->g_prod_hb)) <= D(q->g_pub_AR, OLD(q->g_prod_hb)) ? RET : q->g_pub_AR))
__CPROVER_ensures(!IS_ACQ(mo) ==> q->g_prod_hb == OLD(q->g_prod_hb));
/* consumer loads the writer position */
integer_type load_AW_cons(BQ* q, int mo)
__CPROVER_requires(FRESHQ(q) && INV(q))
__CPROVER_assigns(q->g_cons_hb, q->g_cons_lb, PROD_FIELDS(q))
__CPROVER_ensures(D(q->_atomic_writer_pos, q->_reader_pos) >= D(OLD(q->_atomic_writer_pos), q->_reader_pos))
__CPROVER_ensures(D(q->_writer_pos, q->_reader_pos) >= D(OLD(q->_writer_pos), q->_reader_pos))
__CPROVER_ensures(q->g_prod_gone ==> (q->_atomic_writer_pos == OLD(q->_atomic_writer_pos) && q->_writer_pos == OLD(q->_writer_pos)))
__CPROVER_ensures(q->g_pub_AW == q->_atomic_writer_pos && q->_reader_pos_cache == q->g_prod_hb)
__CPROVER_ensures(D(q->_atomic_reader_pos, q->g_prod_hb) <= D(q->_reader_pos, q->g_prod_hb) && D(q->_reader_pos, q->g_prod_hb) <= D(q->_writer_pos_cache, q->g_prod_hb) && D(q->_writer_pos_cache, q->g_prod_hb) <= D(OLD(q->g_cons_lb), q->g_prod_hb) && D(OLD(q->g_cons_lb), q->g_prod_hb) <= D(q->_atomic_writer_pos, q->g_prod_hb) && D(q->_atomic_writer_pos, q->g_prod_hb) <= D(q->_writer_pos, q->g_prod_hb) && D(q->_writer_pos, q->g_prod_hb) <= q->_capacity)
__CPROVER_ensures(q->g_prod_gone ==> q->_atomic_writer_pos == q->_writer_pos)
/* the load: between the coherence lower bound and the latest store */
__CPROVER_ensures(D(OLD(q->g_cons_lb), q->g_prod_hb) <= D(RET, q->g_prod_hb) && D(RET, q->g_prod_hb) <= D(q->_atomic_writer_pos, q->g_prod_hb))
__CPROVER_ensures(q->g_cons_lb == RET)
__CPROVER_ensures(IS_ACQ(mo) ==> q->g_cons_hb == (D(RET, q->g_prod_hb) <= D(q->g_pub_AW, q->g_prod_hb) ? RET : q->g_pub_AW))
__CPROVER_ensures(!IS_ACQ(mo) ==> q->g_cons_hb == OLD(q->g_cons_hb));
/* a thread reads its own atomic: exact */
integer_type load_AR_own(BQ* q, int mo) __CPROVER_requires(FRESHQ(q)) __CPROVER_assigns() __CPROVER_ensures(RET == q->_atomic_reader_pos);
void store_AR_cons(BQ* q, integer_type v, int mo)
__CPROVER_requires(FRESHQ(q)) __CPROVER_assigns(q->_atomic_reader_pos, q->g_pub_AR)
__CPROVER_ensures(q->_atomic_reader_pos == v) __CPROVER_ensures(IS_REL(mo) ? q->g_pub_AR == v : q->g_pub_AR == OLD(q->g_pub_AR));
void store_AW_prod(BQ* q, integer_type v, int mo)
__CPROVER_requires(FRESHQ(q)) __CPROVER_assigns(q->_atomic_writer_pos, q->g_pub_AW)
__CPROVER_ensures(q->_atomic_writer_pos == v) __CPROVER_ensures(IS_REL(mo) ? q->g_pub_AW == v : q->g_pub_AW == OLD(q->g_pub_AW));
#ifdef ROLE_PRODUCER
#define ATOMIC_LOAD__atomic_reader_pos(s, mo) load_AR_prod(s, mo)
#define ATOMIC_STORE__atomic_writer_pos(s, v, mo) store_AW_prod(s, v, mo)
#endif
#ifdef ROLE_CONSUMER
#define ATOMIC_LOAD__atomic_reader_pos(s, mo) load_AR_own(s, mo)
#define ATOMIC_LOAD__atomic_writer_pos(s, mo) load_AW_cons(s, mo)
#define ATOMIC_STORE__atomic_reader_pos(s, v, mo) store_AR_cons(s, v, mo)
#endif
'''

SIBS = ['prepare_write', 'finish_write', 'commit_write', 'finish_and_commit_write', 'prepare_read', 'finish_read', 'commit_read', 'empty', 'capacity']

SIG = {
    'prepare_write': 'unsigned char* BQ_prepare_write(BQ* self, integer_type n)',
    'finish_write': 'void BQ_finish_write(BQ* self, integer_type n)',
    'commit_write': 'void BQ_commit_write(BQ* self)',
    'finish_and_commit_write': 'void BQ_finish_and_commit_write(BQ* self, integer_type n)',
    'empty': 'bool BQ_empty(BQ* self)',
    'prepare_read': 'unsigned char* BQ_prepare_read(BQ* self)',
    'finish_read': 'void BQ_finish_read(BQ* self, integer_type n)',
    'commit_read': 'void BQ_commit_read(BQ* self)',
    'capacity': 'integer_type BQ_capacity(BQ* self)',
}
PARAMS = {'prepare_write': ['n'], 'finish_write': ['n'], 'finish_and_commit_write': ['n'], 'finish_read': ['n']}
ROLE = {'prepare_write': 'P', 'finish_write': 'P', 'commit_write': 'P', 'finish_and_commit_write': 'P', 'empty': 'C',
        'prepare_read': 'C', 'finish_read': 'C', 'commit_read': 'C', 'capacity': 'C'}

FRIENDLY = '''#ifdef REPLAY_FRIENDLY
__CPROVER_requires(self->_capacity <= 1024 && self->_bytes_per_batch == self->_capacity / 20 && D(self->_writer_pos, self->g_prod_hb) <= self->_capacity && self->_atomic_writer_pos == self->_writer_pos)
#endif
'''

CONTRACT = {
    'prepare_write': r'''
__CPROVER_requires(FRESHQ(self) && INV(self) && !self->g_prod_gone && self->_capacity <= MAXCAP && __CPROVER_is_fresh(self->_storage, 2 * self->_capacity))
''' + FRIENDLY + r'''__CPROVER_assigns(self->_reader_pos_cache, self->g_prod_hb, CONS_FIELDS(self))
__CPROVER_ensures(INV(self)) /*@ C01 "producer step keeps the queue invariant (cache equals acquire frontier, positions ordered within one capacity)" */
__CPROVER_ensures(RET != NULL ==> (n <= self->_capacity && D(self->_writer_pos + n, self->g_prod_hb) <= self->_capacity && D(self->_writer_pos, self->g_prod_hb) <= self->_capacity - n)) /*@ C01 "a reservation is granted only inside space whose release happens-before the producer, never more than the capacity" */
__CPROVER_ensures(RET != NULL ==> (RET == self->_storage + (self->_writer_pos & self->_mask) && (self->_writer_pos & self->_mask) + n <= 2 * self->_capacity && (self->_writer_pos & self->_mask) < self->_capacity && __CPROVER_w_ok(RET, n))) /*@ C01 "the granted record is contiguous and inside the buffer, at the address of the writer position" */
__CPROVER_ensures(self->_writer_pos == OLD(self->_writer_pos) && self->_atomic_writer_pos == OLD(self->_atomic_writer_pos)) /*@ C01 "nothing becomes visible by reserving" */
__CPROVER_ensures((n <= self->_capacity && self->_writer_pos == OLD(self->_reader_pos_cache)) ==> RET != NULL) /*@ C09 "a queue the producer already knows to be empty grants every reservation up to the capacity (dropping queue: no spurious drop; fresh buffer after growth)" */
#ifdef QUIESCENT
__CPROVER_ensures((n <= self->_capacity && OLD(self->_reader_pos) == self->_writer_pos && OLD(self->_atomic_reader_pos) == OLD(self->_reader_pos)) ==> RET != NULL) /*@ C09 "drained queue whose consumer published its position: every reservation up to the capacity succeeds" */
#endif
''',
    'finish_write': r'''
__CPROVER_requires(FRESHQ(self) && INV(self) && !self->g_prod_gone && n <= self->_capacity - D(self->_writer_pos, self->g_prod_hb))
__CPROVER_assigns(self->_writer_pos)
__CPROVER_ensures(INV(self)) /*@ C01 "finish_write keeps the queue invariant" */
__CPROVER_ensures(self->_writer_pos == OLD(self->_writer_pos) + n) /*@ C01 "finish_write advances the writer by exactly the reserved size" */
__CPROVER_ensures(self->_atomic_writer_pos == OLD(self->_atomic_writer_pos) && self->g_pub_AW == OLD(self->g_pub_AW)) /*@ C01 "a finished record is not visible before its commit" */
''',
    'commit_write': r'''
__CPROVER_requires(FRESHQ(self) && INV(self) && !self->g_prod_gone)
__CPROVER_assigns(self->_atomic_writer_pos, self->g_pub_AW)
__CPROVER_ensures(INV(self)) /*@ C01 "commit_write keeps the queue invariant (the position is published with release)" */
__CPROVER_ensures(self->_atomic_writer_pos == self->_writer_pos) /*@ C01 "commit publishes exactly the finished position" */
''',
    'finish_and_commit_write': r'''
__CPROVER_requires(FRESHQ(self) && INV(self) && !self->g_prod_gone && n <= self->_capacity - D(self->_writer_pos, self->g_prod_hb))
__CPROVER_assigns(self->_writer_pos, self->_atomic_writer_pos, self->g_pub_AW)
__CPROVER_ensures(INV(self)) /*@ C01 "finish_and_commit_write keeps the queue invariant" */
__CPROVER_ensures(self->_writer_pos == OLD(self->_writer_pos) + n && self->_atomic_writer_pos == self->_writer_pos) /*@ C01 "finish then commit: the record of n bytes is published, nothing else" */
''',
    'empty': r'''
__CPROVER_requires(FRESHQ(self) && INV(self))
__CPROVER_assigns(self->_writer_pos_cache, self->g_cons_hb, self->g_cons_lb, PROD_FIELDS(self))
__CPROVER_ensures(INV(self)) /*@ C01 "consumer step keeps the queue invariant (cache equals acquire frontier)" */
__CPROVER_ensures(RET == (self->_writer_pos_cache == self->_reader_pos)) /*@ C01,C07,C17 "empty() is true exactly when the consumer sees no unread byte (what the exit drain and the logger clean-up ask before they stop / destroy)" */
__CPROVER_ensures(D(self->_writer_pos_cache, self->_reader_pos) <= D(self->g_cons_hb, self->_reader_pos)) /*@ C01 "the consumer is never shown bytes above its acquire frontier (not visible before commit)" */
__CPROVER_ensures(D(self->g_cons_lb, self->_reader_pos) >= D(OLD(self->g_cons_lb), self->_reader_pos)) /*@ C01 "the coherence bound only grows" */
__CPROVER_ensures(D(self->_writer_pos_cache, self->_reader_pos) >= D(OLD(self->_writer_pos_cache), self->_reader_pos) && D(self->_writer_pos_cache, self->_reader_pos) <= self->_capacity) /*@ C03 "the bytes visible to the consumer never shrink by looking again and never exceed the capacity (empty)" */
__CPROVER_ensures(RET ==> self->_reader_pos == OLD(self->g_cons_lb)) /*@ C02 "empty is exact with respect to the coherence lower bound (re-check after a queue switch)" */
__CPROVER_ensures(self->g_prod_gone ==> (self->_atomic_writer_pos == OLD(self->_atomic_writer_pos) && self->_writer_pos == OLD(self->_writer_pos))) /*@ C02 "a producer that left does not come back" */
''',
    'prepare_read': r'''
__CPROVER_requires(FRESHQ(self) && INV(self) && self->_capacity <= MAXCAP && __CPROVER_is_fresh(self->_storage, 2 * self->_capacity))
__CPROVER_assigns(self->_writer_pos_cache, self->g_cons_hb, self->g_cons_lb, PROD_FIELDS(self))
__CPROVER_ensures(INV(self)) /*@ C01 "prepare_read keeps the queue invariant" */
__CPROVER_ensures((RET == NULL) == (self->_writer_pos_cache == self->_reader_pos)) /*@ C01 "prepare_read returns null exactly when the consumer sees no unread byte" */
__CPROVER_ensures(RET != NULL ==> (RET == self->_storage + (self->_reader_pos & self->_mask) && D(self->_writer_pos_cache, self->_reader_pos) <= D(self->g_cons_hb, self->_reader_pos) && __CPROVER_r_ok(RET, D(self->_writer_pos_cache, self->_reader_pos)))) /*@ C01 "the bytes handed out start at the reader position, are committed (below the acquire frontier) and readable in one piece" */
__CPROVER_ensures(self->_reader_pos == OLD(self->_reader_pos) && self->_atomic_reader_pos == OLD(self->_atomic_reader_pos)) /*@ C01 "reading does not release anything" */
__CPROVER_ensures(RET == NULL ==> self->_reader_pos == OLD(self->g_cons_lb)) /*@ C02 "null is exact with respect to the coherence lower bound" */
__CPROVER_ensures(D(self->g_cons_lb, self->_reader_pos) >= D(OLD(self->g_cons_lb), self->_reader_pos)) /*@ C02 "the coherence bound only grows (prepare_read)" */
__CPROVER_ensures(D(self->_writer_pos_cache, self->_reader_pos) >= D(OLD(self->_writer_pos_cache), self->_reader_pos) && D(self->_writer_pos_cache, self->_reader_pos) <= self->_capacity) /*@ C03 "the bytes visible to the consumer never shrink by looking again and never exceed the capacity" */
__CPROVER_ensures(self->g_prod_gone ==> (self->_atomic_writer_pos == OLD(self->_atomic_writer_pos) && self->_writer_pos == OLD(self->_writer_pos))) /*@ C02 "a producer that left does not come back (prepare_read)" */
''',
    'finish_read': r'''
__CPROVER_requires(FRESHQ(self) && INV(self) && n <= D(self->_writer_pos_cache, self->_reader_pos))
__CPROVER_assigns(self->_reader_pos)
__CPROVER_ensures(INV(self)) /*@ C01 "finish_read keeps the queue invariant" */
__CPROVER_ensures(self->_reader_pos == OLD(self->_reader_pos) + n) /*@ C01 "finish_read advances the reader by exactly the consumed size" */
__CPROVER_ensures(self->_atomic_reader_pos == OLD(self->_atomic_reader_pos)) /*@ C01 "consumed bytes are not released before commit_read" */
''',
    'commit_read': r'''
__CPROVER_requires(FRESHQ(self) && INV(self))
''' + FRIENDLY.replace(' && self->_atomic_writer_pos == self->_writer_pos', '') + r'''__CPROVER_assigns(self->_atomic_reader_pos, self->g_pub_AR)
__CPROVER_ensures(INV(self)) /*@ C01 "commit_read keeps the queue invariant (a published reader position is published with release and never beyond what was consumed)" */
__CPROVER_ensures(self->_atomic_reader_pos == self->_reader_pos || self->_atomic_reader_pos == OLD(self->_atomic_reader_pos)) /*@ C01 "commit_read publishes the consumed position or nothing" */
__CPROVER_ensures(self->_reader_pos == self->_writer_pos_cache ==> self->_atomic_reader_pos == self->_reader_pos) /*@ C09 "a consumer that has drained everything it saw publishes its position (no unpublished lag on an empty queue)" */
''',
    'capacity': r'''
__CPROVER_requires(FRESHQ(self))
__CPROVER_assigns()
__CPROVER_ensures(RET == self->_capacity) /*@ C01 "capacity() reports the buffer capacity" */
''',
}

CALLEES = {'prepare_write': ['load_AR_prod'], 'commit_write': ['store_AW_prod'], 'finish_and_commit_write': ['BQ_finish_write', 'BQ_commit_write'],
           'empty': ['load_AW_cons'], 'prepare_read': ['BQ_empty'], 'commit_read': ['load_AR_own', 'store_AR_cons']}

DROPPED = ['code under QUILL_X86ARCH (cache-line flush/prefetch; off in the pinned build)', 'alignas of the position members', 'attributes/noexcept',
           'the payload bytes themselves (accessed by the callers between prepare_* and finish_*)']
TRUSTED = ['C++11 atomics modelled by the release/acquire view stubs of DESIGN §2.3 (single-writer monotone counters, read-read coherence)',
           'exactly one producer and one consumer thread call the respective methods; construction happens-before both',
           'paper lemma: INV + grants + mapping lemmas + C04 size accounting => the k-th record read is the k-th record written']
SNAP = [('cap', 'self->_capacity'), ('mask', 'self->_mask'), ('batch', 'self->_bytes_per_batch'), ('AW', 'self->_atomic_writer_pos'), ('W', 'self->_writer_pos'),
        ('RC', 'self->_reader_pos_cache'), ('AR', 'self->_atomic_reader_pos'), ('R', 'self->_reader_pos'), ('WC', 'self->_writer_pos_cache')]


def decl(m):
    """contract-only declaration of method m (for callers that replace it by its contract)"""
    return SIG[m] + CONTRACT[m] + ';\n'


def method_unit(m, props, variants=None, extra_desc=''):
    role = 'ROLE_PRODUCER' if ROLE[m] == 'P' else 'ROLE_CONSUMER'
    callees = CALLEES.get(m, []) + [c for c in ['load_AR_prod', 'store_AW_prod', 'load_AW_cons', 'load_AR_own', 'store_AR_cons'] if c not in CALLEES.get(m, [])]
    decls = ''.join(decl(c[3:]) for c in callees if c.startswith('BQ_'))
    harg = ''.join(', %s' % p for p in PARAMS.get(m, []))
    hdecl = ''.join(' integer_type %s;' % p for p in PARAMS.get(m, []))
    return dict(
        name='BQ.' + m, primary='C01', props=set(props), kind='L',
        desc='BoundedSPSCQueueImpl<size_t>::%s %s' % (m, extra_desc),
        structs=[STRUCT], prelude='#define %s\n' % role + PRELUDE + decls, enforce='BQ_' + m, replace=callees,
        funcs=[dict(src=dict(header=H, cls='BoundedSPSCQueueImpl', name=m), struct='BQ', src_params=PARAMS.get(m, []),
                    cfun='BQ_' + m, sig=SIG[m], cls_c='BQ', siblings=SIBS, contract=CONTRACT[m])],
        harness='  BQ* q;%s BQ_%s(q%s);' % (hdecl, m, harg),
        variants=variants or [dict(name='main')],
        dropped=DROPPED, trusted=TRUSTED, min_obligations=10,
        snapshot=SNAP + [('n', p) for p in PARAMS.get(m, [])],
        replay=dict(template='bq.cpp', op=m, friendly='REPLAY_FRIENDLY'),
        foreign_accesses=1,
    )



# ------------------------------------------------------------------------------------------------ constructor
CTOR_PRELUDE = PRELUDE + r"""
#define TOPPOW ((integer_type)(((integer_type)1) << (8 * sizeof(integer_type) - 1)))   /* the largest power of two of the counter type */
#define ATOMIC_STORE__atomic_writer_pos(s, v, mo) ((s)->_atomic_writer_pos = (v))
#define ATOMIC_STORE__atomic_reader_pos(s, v, mo) ((s)->_atomic_reader_pos = (v))
/* next_power_of_two: replaced by the contract proved in unit MU.npow2 */
integer_type next_power_of_two(integer_type n)
__CPROVER_assigns()
__CPROVER_ensures(POW2(RET))
__CPROVER_ensures(n <= TOPPOW ==> (RET >= n && (RET == 1 || RET / 2 < n)))
__CPROVER_ensures(n > TOPPOW ==> RET == TOPPOW);
/* TRUSTED: _alloc_aligned returns a fresh block of the requested size or throws (mmap) */
void* _alloc_aligned(size_t size, size_t alignment, HugePagesPolicy p)
__CPROVER_assigns(g_exc)
__CPROVER_ensures(g_exc == OLD(g_exc) || g_exc == EXC_STD)
__CPROVER_ensures(g_exc == OLD(g_exc) ==> __CPROVER_is_fresh(RET, size));
void MEMSET0(void* p, int v, size_t n) __CPROVER_requires(__CPROVER_w_ok(p, n)) __CPROVER_assigns();
#define memset(p, v, n) MEMSET0(p, v, n)
#define QUILL_CACHE_LINE_ALIGNED 128u   /* value irrelevant: only passed to the allocation stub */
"""

ctor = dict(
    name='BQ.ctor', primary='C01', props={'C01'}, kind='L',
    desc='BoundedSPSCQueueImpl<size_t> constructor (mem-initialiser list + default member initialisers + body): establishes the invariant with all positions 0',
    structs=[STRUCT], prelude=CTOR_PRELUDE, enforce='BQ_ctor', replace=['next_power_of_two', '_alloc_aligned', 'MEMSET0'],
    funcs=[dict(src=dict(header=H, cls='BoundedSPSCQueueImpl', name='BoundedSPSCQueueImpl', part='ctor'), struct='BQ',
                src_params=['capacity', 'huge_pages_policy', 'reader_store_percent'],
                cfun='BQ_ctor', sig='void BQ_ctor(BQ* self, integer_type capacity, HugePagesPolicy huge_pages_policy, integer_type reader_store_percent)',
                cls_c='BQ', siblings=[], exceptions=True, auto_helpers=dict(typemap={'integer_type': 'integer_type'}),
                contract=r"""
__CPROVER_requires(__CPROVER_is_fresh(self, sizeof(*self)) && g_exc == EXC_NONE && capacity <= (((size_t)1) << 39) && capacity <= TOPPOW)
__CPROVER_assigns(__CPROVER_object_whole(self), g_exc)
__CPROVER_ensures(g_exc == EXC_NONE ==> (POW2(self->_capacity) && self->_capacity >= capacity && self->_mask == self->_capacity - 1)) /*@ C01 "constructed capacity is a power of two not below the request, mask = capacity - 1" */
__CPROVER_ensures(g_exc == EXC_NONE ==> (self->_atomic_writer_pos == 0 && self->_writer_pos == 0 && self->_reader_pos_cache == 0 && self->_atomic_reader_pos == 0 && self->_reader_pos == 0 && self->_writer_pos_cache == 0)) /*@ C01 "all six positions start at 0 (the invariant holds initially with every ghost view 0)" */
__CPROVER_ensures(g_exc == EXC_NONE ==> __CPROVER_w_ok(self->_storage, 2 * self->_capacity)) /*@ C01 "the buffer has twice the capacity (room for a record that starts just below the capacity)" */
""")],
    harness='  BQ* q; integer_type c, p; HugePagesPolicy h; BQ_ctor(q, c, h, p);',
    variants=[dict(name='main'), dict(name='uint16_t', defs=['INTEGER_T=uint16_t'], what='BoundedSPSCQueueImpl<uint16_t>: every capacity up to the largest power of two of the counter type (seed C01-F1: a helper returning the doubled size in the counter type wraps to 0 there)')],
    dropped=DROPPED + ['_bytes_per_batch is computed in double arithmetic; the invariant does not depend on its value'],
    trusted=['_alloc_aligned (mmap) returns a fresh block of the requested size or throws', 'memset writes only the given range'],
    min_obligations=10,
)

# ------------------------------------------------------------------------------------------------ next_power_of_two
MH = 'quill/core/MathUtilities.h'
npow2 = dict(
    name='MU.npow2', primary='C01', props={'C01', 'C02'}, kind='L',
    desc='next_power_of_two<size_t> (with is_power_of_two and max_power_of_two<size_t> inlined): width-bounded loop, complete unwinding (64 iterations)',
    structs=[], prelude='typedef size_t T;\n#define LIMIT_MAX_T SIZE_MAX\n#define POW2(x) ((x) != 0 && (((x) & ((x) - 1)) == 0))\n',
    enforce='next_power_of_two', replace=[],
    funcs=[dict(src=dict(header=MH, cls=None, name='is_power_of_two'), src_params=['number'], cfun='is_power_of_two', sig='bool is_power_of_two(uint64_t number)'),
           dict(src=dict(header=MH, cls=None, name='max_power_of_two'), src_params=[], cfun='max_power_of_two', sig='T max_power_of_two(void)'),
           dict(src=dict(header=MH, cls=None, name='next_power_of_two'), src_params=['n'], cfun='next_power_of_two', sig='T next_power_of_two(T n)',
                pre_rules=[(r'constexpr\s+T\s+max_power_of_2\s*=\s*max_power_of_two<T>\(\)', 'T max_power_of_2 = max_power_of_two()', 1)],
                contract=r"""
__CPROVER_assigns()
__CPROVER_ensures(POW2(RET)) /*@ C01 "next_power_of_two returns a power of two" */
__CPROVER_ensures(n <= (((size_t)1) << 63) ==> (RET >= n && (RET == 1 || RET / 2 < n))) /*@ C01 "the smallest power of two not below n" */
__CPROVER_ensures(n > (((size_t)1) << 63) ==> RET == (((size_t)1) << 63)) /*@ C01 "saturates at the largest power of two" */
""")],
    harness='  T n; next_power_of_two(n);', snapshot=[('n', 'n')], replay=dict(template='pure.cpp', op='npow2'),
    cbmc=['--unwind', '66', '--unwinding-assertions'],
    dropped=['template instantiated at size_t (the type both queues use)', 'assert (NDEBUG)'], trusted=[], min_obligations=3,
    width_bounded='loop bounded by the operand width (<= 64 iterations): --unwind 66 with unwinding assertions is complete',
)

# ------------------------------------------------------------------------------------------------ lemmas
LEM_PRELUDE = r"""
typedef size_t integer_type;
#define D(a, b) ((integer_type)((a) - (b)))
#define POW2(x) ((x) != 0 && (((x) & ((x) - 1)) == 0))
"""
lem_alias = dict(
    name='BQ.lem_alias', primary='C01', props={'C01'}, kind='M',
    desc='address-function lemma over full 64-bit domains: two records inside one capacity window above the producer frontier never share a physical byte and stay inside the 2*capacity buffer',
    structs=[], prelude=LEM_PRELUDE, enforce='lem_alias', replace=[],
    funcs=[dict(cfun='lem_alias', text=r"""
void lem_alias(integer_type cap, integer_type hb, integer_type x, integer_type nx, integer_type y, integer_type ny, integer_type i, integer_type j)
__CPROVER_requires(POW2(cap) && cap <= (((size_t)1) << 62))
/* record X = [x, x+nx) lies before record Y = [y, y+ny), both inside the window [hb, hb+cap] that the grant postcondition of prepare_write guarantees */
__CPROVER_requires(D(x, hb) <= cap && nx <= cap && D(y, hb) <= cap && ny <= cap && D(x, hb) + nx <= D(y, hb) && D(y, hb) + ny <= cap && i < nx && j < ny)
__CPROVER_assigns()
__CPROVER_ensures(((x & (cap - 1)) + i) != ((y & (cap - 1)) + j)) /*@ C01 "no byte of a granted record aliases a byte of another unreleased record (the producer never overwrites unreleased bytes; records are not torn)" */
__CPROVER_ensures(((x & (cap - 1)) + i) < 2 * cap && ((y & (cap - 1)) + j) < 2 * cap) /*@ C01 "every byte of a record lies inside the 2*capacity buffer" */
{
}
""")],
    harness='  integer_type cap, hb, x, nx, y, ny, i, j; lem_alias(cap, hb, x, nx, y, ny, i, j);',
    dropped=[], trusted=[], min_obligations=2,
)

ALL_BODIES = ['finish_read', 'commit_read', 'empty', 'prepare_read']


def body_func(m, rules=None):
    return dict(src=dict(header=H, cls='BoundedSPSCQueueImpl', name=m), struct='BQ', src_params=PARAMS.get(m, []),
                cfun='BQ_' + m, sig=SIG[m], cls_c='BQ', siblings=SIBS, rules=rules or [])


IDLE = '(self->_atomic_reader_pos == self->_reader_pos || self->_writer_pos_cache != self->_reader_pos)'
lem_idle = dict(
    name='BQ.lem_idle', primary='C09', props={'C09'}, kind='M',
    desc='over the REAL lowered bodies of prepare_read/empty/finish_read/commit_read: one backend pass (read any number of records, commit_read iff something was read) keeps "no unpublished lag unless unread data is known"; hence a drained queue has its reader position published',
    structs=[STRUCT], prelude='#define ROLE_CONSUMER\n' + PRELUDE + '#define IDLE(self) ' + IDLE + '\nbool nondet_bool(void); integer_type nondet_size(void);\n',
    enforce='lem_idle', replace=['load_AW_cons', 'load_AR_own', 'store_AR_cons'], loopcontracts=True,
    funcs=[body_func(m) for m in ALL_BODIES] + [dict(cfun='lem_idle', text=r"""
void lem_idle(BQ* self)
__CPROVER_requires(FRESHQ(self) && INV(self) && self->_capacity <= MAXCAP && __CPROVER_is_fresh(self->_storage, 2 * self->_capacity))
__CPROVER_requires(IDLE(self))
__CPROVER_assigns(CONS_FIELDS(self), PROD_FIELDS(self))
__CPROVER_ensures(INV(self))
__CPROVER_ensures(IDLE(self)) /*@ C09 "a backend pass leaves no unpublished reader lag unless it knows of unread data (inductive over passes)" */
__CPROVER_ensures((self->_writer_pos_cache == self->_reader_pos) ==> self->_atomic_reader_pos == self->_reader_pos) /*@ C09 "drained queue as seen by the consumer: reader position is published" */
{
  bool any = false;
  /* the shape of BackendWorker::_read_and_decode_frontend_queue: read records until the queue looks empty or a limit stops the pass */
  while (nondet_bool())
  __CPROVER_assigns(any, CONS_FIELDS(self), PROD_FIELDS(self))
  __CPROVER_loop_invariant(INV(self) && (any || IDLE(self)))
  {
    unsigned char* r = BQ_prepare_read(self);
    if (r == NULL) break;
    integer_type k = nondet_size();
    __CPROVER_assume(k > 0 && k <= D(self->_writer_pos_cache, self->_reader_pos));   /* a record is never larger than what is visible (C04 size accounting) */
    BQ_finish_read(self, k);
    any = true;
  }
  if (any) { BQ_commit_read(self); }
}
""")],
    harness='  BQ* q; lem_idle(q);',
    dropped=DROPPED, trusted=TRUSTED + ['shape of a backend pass (commit_read iff something was read) - proved for the real read loop by unit BW.read_decode (C03/C09 clause)'],
    assumes=['__CPROVER_assume in lemma BQ.lem_idle: the size passed to finish_read is positive and at most the visible bytes (finish_read precondition, discharged at the real call site by BW.read_decode)'],
    min_obligations=10, allow_assume=True,
)

lem_quiescent = dict(
    name='BQ.lem_quiescent', primary='C09', props={'C09'}, kind='M',
    desc='over the REAL lowered bodies: drained queue + idle consumer + nothing uncommitted => a reservation of any size up to the capacity succeeds once the producer reloads',
    structs=[STRUCT], prelude='#define ROLE_CONSUMER\n#define QUIESCENT\n' + PRELUDE + '#define IDLE(self) ' + IDLE + '\n#define ATOMIC_LOAD_P__atomic_reader_pos(s, mo) load_AR_prod(s, mo)\n',
    enforce='lem_quiescent', replace=['load_AW_cons', 'load_AR_own', 'store_AR_cons', 'load_AR_prod'],
    funcs=[body_func('empty'), body_func('prepare_read'),
           body_func('prepare_write', rules=[(r'ATOMIC_LOAD__atomic_reader_pos', 'ATOMIC_LOAD_P__atomic_reader_pos', 1)]),
           dict(cfun='lem_quiescent', text=r"""
unsigned char* lem_quiescent(BQ* self, integer_type n)
__CPROVER_requires(FRESHQ(self) && INV(self) && !self->g_prod_gone && self->_capacity <= MAXCAP && __CPROVER_is_fresh(self->_storage, 2 * self->_capacity))
__CPROVER_requires(IDLE(self) && n <= self->_capacity)
__CPROVER_assigns(CONS_FIELDS(self), PROD_FIELDS(self))
__CPROVER_ensures(RET != NULL) /*@ C09 "drained queue, idle backend: a statement that fits the capacity is granted (no stall, no spurious drop on an empty queue)" */
{
  static unsigned char dummy;
  unsigned char* r = BQ_prepare_read(self);                    /* the backend's last look at the queue */
  if (r != NULL) return &dummy;                                 /* not drained: nothing claimed */
  if (self->_atomic_writer_pos != self->_writer_pos) return &dummy;   /* the producer still has something uncommitted: not quiescent */
  if (self->_reader_pos != self->_writer_pos) return &dummy;          /* the look returned a stale (coherence-legal) value and the queue is not really drained yet */
  return BQ_prepare_write(self, n);                             /* the producer's (re)try; its reload returns the latest published value */
}
""")],
    harness='  BQ* q; integer_type n; lem_quiescent(q, n);',
    dropped=DROPPED, trusted=TRUSTED + ['QUIESCENT load stub: with the consumer idle the producer eventually reads the latest published reader position (liveness of cache coherence)'],
    min_obligations=10,
)

UNITS = [
    method_unit('prepare_write', {'C01', 'C09'}, variants=[dict(name='main'), dict(name='quiescent', defs=['QUIESCENT'])]),
    method_unit('finish_write', {'C01'}),
    method_unit('commit_write', {'C01'}),
    method_unit('finish_and_commit_write', {'C01', 'C08'}),
    method_unit('empty', {'C01', 'C02', 'C07', 'C17'}),
    method_unit('prepare_read', {'C01', 'C02'}),
    method_unit('finish_read', {'C01'}),
    method_unit('commit_read', {'C01', 'C09'}),
    method_unit('capacity', {'C01'}),
    ctor, npow2, lem_alias, lem_idle, lem_quiescent,
]

# the bounded queue's method units underlie "once each, in thread order" (C03) and "delivered intact" (C08) as a whole
for u_ in UNITS:
    if u_['name'] in ('BQ.prepare_write', 'BQ.finish_write', 'BQ.commit_write', 'BQ.finish_and_commit_write', 'BQ.prepare_read', 'BQ.finish_read', 'BQ.commit_read', 'BQ.empty'):
        u_['underlies'] = {'C03', 'C08', 'C06', 'C07'}   # C06 / C07: a statement lost or duplicated in the queue is missing at the flush / at the stop
