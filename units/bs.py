"""C18 — backend/BacktraceStorage.h : store / process / set_capacity against the abstract sequence view."""

H = 'quill/backend/BacktraceStorage.h'

PRELUDE = r'''
#include "vec.h"
/* element of the ring: the two thread strings and the event are opaque ids (their contents are dropped) */
typedef struct STE { uint64_t thread_id; uint64_t thread_name; uint64_t transit_event; } STE;
DEFINE_VEC(Vec, STE)
static inline void Vec_emplace3(Vec* v, uint64_t tid, uint64_t tname, uint64_t ev) { STE e = { tid, tname, ev }; Vec_push(v, e); }
@STRUCT:BS@
#define N(s) ((s)->_stored_events.n)
#define GP(s) ((s)->_stored_events.g_p)
#define TR(s) ((s)->_stored_events.tracked)
/* representation invariant */
#define RI(s) (N(s) <= (s)->_capacity && (N(s) < (s)->_capacity ? (s)->_index == 0 : ((s)->_capacity == 0 ? (s)->_index == 0 : (s)->_index < (s)->_capacity)))
/* abstract view S = v[_index..n) ++ v[0.._index): logical position (0 = oldest) of physical slot p */
#define LOG(s, p) ((size_t)(N(s) < (s)->_capacity ? (p) : ((p) >= (s)->_index ? (p) - (s)->_index : (p) + (s)->_capacity - (s)->_index)))
/* ghosts of the replay: number of callback invocations, one arbitrary logical position, what was emitted there */
size_t g_emitted, g_k, g_n0;
uint64_t g_got_ev, g_got_tid, g_got_tn;
void callback(uint64_t ev, uint64_t tid, uint64_t tname)
__CPROVER_assigns(g_emitted, g_got_ev, g_got_tid, g_got_tn, g_exc)
__CPROVER_ensures(g_emitted == OLD(g_emitted) + 1)
__CPROVER_ensures(OLD(g_emitted) == g_k ? (g_got_ev == ev && g_got_tid == tid && g_got_tn == tname) : (g_got_ev == OLD(g_got_ev) && g_got_tid == OLD(g_got_tid) && g_got_tn == OLD(g_got_tn)))
#ifdef CB_MAY_THROW
__CPROVER_ensures(g_exc == EXC_NONE || g_exc == EXC_STD || g_exc == EXC_OTHER)
#else
__CPROVER_ensures(g_exc == OLD(g_exc))
#endif
;
'''

STRUCT = dict(c='BS', header=H, cls='BacktraceStorage', typemap={'std::vector<StoredTransitEvent>': 'Vec'})

COMMON_RULES = [(r'std::string\{(\w+)\}', r'\1'), (r'std::move\((\w+)\)', r'\1')]
METHODS = {'size': 'Vec_size', 'emplace_back': 'Vec_emplace3', 'clear': 'Vec_clear', 'reserve': 'Vec_reserve'}
SUBS = {'_stored_events': 'Vec_at'}

DROPPED = ['contents of thread_id / thread_name strings and of the TransitEvent (opaque ids)', 'std::move / std::string temporaries',
           'std::function indirection of the callback', 'vector capacity (reserve)']
TRUSTED = ['std::vector modelled by the tracked-slot shim prelude/vec.h (size, operator[], emplace_back, clear)']

store = dict(
    name='BS.store', primary='C18', props={'C18'}, kind='L',
    desc='BacktraceStorage::store: the view keeps the most recent min(capacity, stored) elements in order',
    structs=[STRUCT], prelude=PRELUDE, enforce='BS_store', replace=[],
    funcs=[dict(
        src=dict(header=H, cls='BacktraceStorage', name='store'), struct='BS',
        src_params=['transit_event', 'thread_id', 'thread_name'],
        cfun='BS_store', sig='void BS_store(BS* self, uint64_t transit_event, uint64_t thread_id, uint64_t thread_name)',
        pre_rules=COMMON_RULES + [(r'StoredTransitEvent\s*&\s*ste\s*=', 'STE* ste = &', 1),
                                  (r'\bste\s*=\s*StoredTransitEvent\s*\{([^{}]*)\}\s*;', r'*ste = (STE){\1};', 1)],
        methods=METHODS, subscripts=SUBS,
        contract=r'''
__CPROVER_requires(__CPROVER_is_fresh(self, sizeof(*self)))
__CPROVER_requires(RI(self))
#ifdef REPLAY_FRIENDLY
__CPROVER_requires(self->_capacity <= 8)
#endif
__CPROVER_assigns(self->_index, self->_stored_events.n, self->_stored_events.tracked, self->_stored_events.scratch)
__CPROVER_ensures(RI(self)) /*@ C18 "representation invariant preserved by store" */
__CPROVER_ensures(N(self) == (OLD(N(self)) < self->_capacity ? OLD(N(self)) + 1 : self->_capacity)) /*@ C18 "view length = min(capacity, old length + 1)" */
__CPROVER_ensures((GP(self) < N(self) && LOG(self, GP(self)) == N(self) - 1) ==> (TR(self).transit_event == transit_event && TR(self).thread_id == thread_id && TR(self).thread_name == thread_name)) /*@ C18 "the newest logical position holds the stored statement" */
__CPROVER_ensures((GP(self) < OLD(N(self)) && OLD(N(self)) < self->_capacity) ==> (TR(self).transit_event == OLD(TR(self).transit_event) && TR(self).thread_id == OLD(TR(self).thread_id) && TR(self).thread_name == OLD(TR(self).thread_name) && LOG(self, GP(self)) == OLD(LOG(self, GP(self))))) /*@ C18 "not full: every older element keeps content and logical position" */
__CPROVER_ensures((GP(self) < OLD(N(self)) && OLD(N(self)) == self->_capacity && OLD(LOG(self, GP(self))) >= 1) ==> (TR(self).transit_event == OLD(TR(self).transit_event) && TR(self).thread_id == OLD(TR(self).thread_id) && TR(self).thread_name == OLD(TR(self).thread_name) && LOG(self, GP(self)) == OLD(LOG(self, GP(self))) - 1)) /*@ C18 "full: only the oldest is dropped, every other element moves down by one" */
''')],
    harness='  BS* s; uint64_t ev, tid, tn; BS_store(s, ev, tid, tn);',
    variants=[dict(name='main')],
    dropped=DROPPED, trusted=TRUSTED, min_obligations=20,
    snapshot=[('cap', 'self->_capacity'), ('index', 'self->_index'), ('n', 'N(self)')],
    replay=dict(template='bs.cpp', op='store', friendly='REPLAY_FRIENDLY'),
)

PHYS = '(N(self) < self->_capacity ? (size_t)(K) : ((size_t)self->_index + (K) >= self->_capacity ? (size_t)self->_index + (K) - self->_capacity : (size_t)self->_index + (K)))'

process = dict(
    name='BS.process', primary='C18', props={'C18'}, kind='L',
    desc='BacktraceStorage::process: replays the view oldest first, each element once, then forgets everything',
    structs=[STRUCT], prelude=PRELUDE + '#define PHYS(self, K) ' + PHYS + '\n', enforce='BS_process', replace=['callback'], loopcontracts=True,
    funcs=[dict(
        src=dict(header=H, cls='BacktraceStorage', name='process'), struct='BS', src_params=['callback'],
        cfun='BS_process', sig='void BS_process(BS* self)', exceptions=True,
        methods=METHODS, subscripts=SUBS,
        loops={0: r'''
__CPROVER_assigns(i, index, g_emitted, g_got_ev, g_got_tid, g_got_tn, g_exc, self->_stored_events.scratch)
__CPROVER_loop_invariant(i <= N(self) && N(self) == g_n0 && g_emitted == i && g_exc == EXC_NONE)
__CPROVER_loop_invariant(i < N(self) ==> index == PHYS(self, i))
__CPROVER_loop_invariant(i > g_k ==> (g_got_ev == TR(self).transit_event && g_got_tid == TR(self).thread_id && g_got_tn == TR(self).thread_name))
__CPROVER_decreases(N(self) - i)
'''},
        contract=r'''
__CPROVER_requires(__CPROVER_is_fresh(self, sizeof(*self)))
__CPROVER_requires(RI(self) && g_emitted == 0 && g_n0 == N(self) && g_exc == EXC_NONE)
#ifdef REPLAY_FRIENDLY
__CPROVER_requires(self->_capacity <= 8)
#endif
__CPROVER_requires(N(self) > 0 ==> (g_k < N(self) && GP(self) < N(self) && LOG(self, GP(self)) == g_k))
__CPROVER_assigns(self->_index, self->_stored_events.n, self->_stored_events.scratch, g_emitted, g_got_ev, g_got_tid, g_got_tn, g_exc)
__CPROVER_ensures(g_exc == EXC_NONE ==> g_emitted == g_n0) /*@ C18 "exactly |view| statements are replayed" */
__CPROVER_ensures((g_exc == EXC_NONE && g_n0 > 0) ==> (g_got_ev == OLD(TR(self).transit_event) && g_got_tid == OLD(TR(self).thread_id) && g_got_tn == OLD(TR(self).thread_name))) /*@ C18 "the k-th replayed statement is the k-th oldest of the view, for every k" */
__CPROVER_ensures(g_exc == EXC_NONE ==> N(self) == 0) /*@ C18 "replayed statements are forgotten" */
__CPROVER_ensures(g_exc == EXC_NONE ==> RI(self)) /*@ C18 "representation invariant re-established after the replay (ring start reset with the clear)" */
''')],
    harness='  BS* s; BS_process(s);',
    variants=[dict(name='main')],
    dropped=DROPPED, trusted=TRUSTED + ['the replay callback is an arbitrary function of its arguments (contract-only stub counting invocations)'],
    min_obligations=30,
    snapshot=[('cap', 'self->_capacity'), ('index', 'self->_index'), ('n', 'N(self)')],
    replay=dict(template='bs.cpp', op='process', friendly='REPLAY_FRIENDLY'),
)

set_capacity = dict(
    name='BS.set_capacity', primary='C18', props={'C18'}, kind='L',
    desc='BacktraceStorage::set_capacity: a changed capacity empties the view and re-establishes the invariant',
    structs=[STRUCT], prelude=PRELUDE, enforce='BS_set_capacity', replace=[],
    funcs=[dict(
        src=dict(header=H, cls='BacktraceStorage', name='set_capacity'), struct='BS', src_params=['capacity'],
        cfun='BS_set_capacity', sig='void BS_set_capacity(BS* self, uint32_t capacity)',
        methods=METHODS, subscripts=SUBS,
        contract=r'''
__CPROVER_requires(__CPROVER_is_fresh(self, sizeof(*self)))
__CPROVER_requires(RI(self))
#ifdef REPLAY_FRIENDLY
__CPROVER_requires(self->_capacity <= 8)
#endif
__CPROVER_assigns(self->_capacity, self->_index, self->_stored_events.n)
__CPROVER_ensures(RI(self)) /*@ C18 "representation invariant preserved by set_capacity" */
__CPROVER_ensures(self->_capacity == capacity) /*@ C18 "capacity takes the requested value" */
__CPROVER_ensures(capacity != OLD(self->_capacity) ==> (N(self) == 0 && self->_index == 0)) /*@ C18 "re-initialisation with another capacity forgets everything" */
__CPROVER_ensures(capacity == OLD(self->_capacity) ==> (N(self) == OLD(N(self)) && self->_index == OLD(self->_index))) /*@ C18 "same capacity: nothing changes" */
''')],
    harness='  BS* s; uint32_t c; BS_set_capacity(s, c);',
    variants=[dict(name='main')],
    dropped=DROPPED, trusted=TRUSTED, min_obligations=10,
    snapshot=[('cap', 'self->_capacity'), ('index', 'self->_index'), ('n', 'N(self)'), ('arg', 'capacity')],
    replay=dict(template='bs.cpp', op='set_capacity', friendly='REPLAY_FRIENDLY'),
)

UNITS = [store, process, set_capacity]
