"""C12 — BackendWorker::_apply_runtime_metadata: position arithmetic of the runtime-metadata split (message, file, line,
function separated by the magic separator), metadata lookup / creation, restoring the message.  The string searches are stubs
over symbolic delimiter positions; the native stand-in BW.runtime_md runs the real string code on short inputs."""
H = 'quill/backend/BackendWorker.h'
MD_PRELUDE = r'''
#define NPOS SIZE_MAX
typedef struct MacroMetadata { int dummy; } MacroMetadata;
typedef struct Buf { size_t g_size; } Buf;                                 /* formatted_msg: its length */
typedef struct TE { MacroMetadata* macro_metadata; Buf* formatted_msg; } TE;
typedef struct Options { bool check_printable_char; } Options;
typedef struct BW { Options _options; } BW;
/* ghosts: the formatted text has length g_n and holds exactly three (non-overlapping) separators of length g_D at g_p1 < g_p2 < g_p3 */
size_t g_n, g_D, g_p1, g_p2, g_p3;
#define DELIM_SIZE g_D
/* std::string_view::find(delimiter, from): the first separator that starts at or after `from` */
static inline size_t FIND(size_t from) { return from <= g_p1 ? g_p1 : (from <= g_p2 ? g_p2 : (from <= g_p3 ? g_p3 : NPOS)); }
/* std::string_view::substr(pos, n): throws std::out_of_range when pos > size(); otherwise [pos, pos + min(n, size - pos)) */
size_t g_msg_b, g_msg_n, g_file_b, g_file_n, g_line_b, g_line_n, g_fn_b, g_fn_n; size_t g_substrs;
#define CLIP(b, n) ((n) < g_n - (b) ? (n) : g_n - (b))
void SUBSTR(int which, size_t b, size_t n)
__CPROVER_requires(b <= g_n) /*@ C12 "every component starts inside the formatted text (substr would throw otherwise)" */
__CPROVER_requires(which >= 0 && which < 4)
__CPROVER_assigns(g_msg_b, g_msg_n, g_file_b, g_file_n, g_line_b, g_line_n, g_fn_b, g_fn_n, g_substrs)
__CPROVER_ensures(g_substrs == OLD(g_substrs) + 1)
__CPROVER_ensures(which == 0 ? (g_msg_b == b && g_msg_n == CLIP(b, n)) : (g_msg_b == OLD(g_msg_b) && g_msg_n == OLD(g_msg_n)))
__CPROVER_ensures(which == 1 ? (g_file_b == b && g_file_n == CLIP(b, n)) : (g_file_b == OLD(g_file_b) && g_file_n == OLD(g_file_n)))
__CPROVER_ensures(which == 2 ? (g_line_b == b && g_line_n == CLIP(b, n)) : (g_line_b == OLD(g_line_b) && g_line_n == OLD(g_line_n)))
__CPROVER_ensures(which == 3 ? (g_fn_b == b && g_fn_n == CLIP(b, n)) : (g_fn_b == OLD(g_fn_b) && g_fn_n == OLD(g_fn_n)));
/* the map of runtime metadata keyed by (file:line, function) */
bool g_md_known; MacroMetadata* g_md_found; MacroMetadata* g_md_created; size_t g_md_creates, g_md_lookups, g_resizes, g_resized_to, g_sanitize_calls, g_clock, g_t_resize, g_t_sanitize;
bool MD_LOOKUP(BW* self) __CPROVER_requires(g_substrs == 4) /*@ C12 "the key is built from the file, line and function components" */ __CPROVER_assigns(g_md_lookups) __CPROVER_ensures(RET == g_md_known && g_md_lookups == OLD(g_md_lookups) + 1);
static inline MacroMetadata* MD_FOUND(BW* self) { return g_md_found; }
MacroMetadata* MD_CREATE(BW* self) __CPROVER_assigns(g_md_creates) __CPROVER_ensures(RET == g_md_created && g_md_creates == OLD(g_md_creates) + 1);
void BUF_try_resize(Buf* b, size_t n) __CPROVER_requires(__CPROVER_is_fresh(b, sizeof(*b))) __CPROVER_assigns(b->g_size, g_resizes, g_resized_to, g_clock, g_t_resize)
__CPROVER_ensures(b->g_size == n && g_resizes == OLD(g_resizes) + 1 && g_resized_to == n && g_clock == OLD(g_clock) + 1 && g_t_resize == g_clock);
void SANITIZE(Buf* b, BW* self) __CPROVER_requires(__CPROVER_is_fresh(b, sizeof(*b))) __CPROVER_assigns(g_sanitize_calls, g_clock, g_t_sanitize)
__CPROVER_ensures(g_sanitize_calls == OLD(g_sanitize_calls) + 1 && g_clock == OLD(g_clock) + 1 && g_t_sanitize == g_clock);
'''
apply_md = dict(
    name='BW.apply_runtime_md', primary='C12', props={'C12'}, kind='S',
    desc='BackendWorker::_apply_runtime_metadata: the formatted text "message SEP file SEP line SEP function" is split at its three separators exactly (no separator byte in any component), the metadata for (file:line, function) is looked up and created only when unknown, and the message alone is restored (then sanitised when configured)',
    structs=[], prelude=MD_PRELUDE, enforce='BW__apply_runtime_metadata', replace=['SUBSTR', 'MD_LOOKUP', 'MD_CREATE', 'BUF_try_resize', 'SANITIZE'],
    funcs=[dict(src=dict(header=H, cls='BackendWorker', name='_apply_runtime_metadata'), src_params=['transit_event'], cfun='BW__apply_runtime_metadata',
                sig='void BW__apply_runtime_metadata(BW* self, TE* transit_event)', cls_c='BW', member_fields=['_options'],
                pre_rules=[(r'auto\s+const\s+formatted_view\s*=\s*std::string_view\{[^{}]*\}\s*;', ''),
                           (r'static\s+constexpr\s+std::string_view\s+delimiter\{[^{}]*\}\s*;', ''),
                           (r'delimiter\.size\(\)', 'DELIM_SIZE'),
                           (r'auto\s+const\s+(pos_\w+)\s*=\s*formatted_view\.find\(delimiter\)\s*;', r'size_t const \1 = FIND(0);'),
                           (r'auto\s+const\s+(pos_\w+)\s*=\s*formatted_view\.find\(delimiter,\s*([^;]*)\)\s*;', r'size_t const \1 = FIND(\2);'),
                           (r'std::string_view\s+message\s*=\s*formatted_view\.substr\(([^;]*)\)\s*;', r'SUBSTR(0, \1);'),
                           (r'std::string_view\s+file\s*=\s*formatted_view\.substr\(([^;]*)\)\s*;', r'SUBSTR(1, \1);'),
                           (r'std::string_view\s+line\s*=\s*formatted_view\.substr\(([^;]*)\)\s*;', r'SUBSTR(2, \1);'),
                           (r'std::string_view\s+function_name\s*=\s*formatted_view\.substr\(([^;,]*)\)\s*;', r'SUBSTR(3, \1, NPOS);'),
                           (r'std::string\s+const\s+fileline\s*=[^;]*;', ''),
                           (r'std::pair<std::string,\s*std::string>\s+const\s+metadata_key\s*=\s*std::make_pair\([^;]*\)\s*;', ''),
                           (r'if\s*\(auto\s+search_it\s*=\s*_runtime_metadata\.find\(metadata_key\);\s*search_it\s*!=\s*_runtime_metadata\.end\(\)\)', 'if (MD_LOOKUP(self))'),
                           (r'transit_event->macro_metadata\s*=\s*search_it->second\.get\(\)\s*;', 'transit_event->macro_metadata = MD_FOUND(self);'),
                           (r'auto\s+\[it,\s*inserted\]\s*=\s*_runtime_metadata\.emplace\(metadata_key,\s*nullptr\)\s*;\s*it->second\s*=\s*std::make_unique<MacroMetadata>\(.*?\)\s*;\s*transit_event->macro_metadata\s*=\s*it->second\.get\(\)\s*;',
                            'transit_event->macro_metadata = MD_CREATE(self);'),
                           (r'transit_event->formatted_msg->try_resize\(message\.size\(\)\)\s*;', 'BUF_try_resize(transit_event->formatted_msg, g_msg_n);'),
                           (r'sanitize_non_printable_chars\(\*transit_event->formatted_msg,\s*_options\)\s*;', 'SANITIZE(transit_event->formatted_msg, self);')],
                contract=r'''
__CPROVER_requires(__CPROVER_is_fresh(self, sizeof(*self)) && __CPROVER_is_fresh(transit_event, sizeof(TE)) && __CPROVER_is_fresh(transit_event->formatted_msg, sizeof(Buf)))
__CPROVER_requires(g_D >= 1 && g_D <= 64 && g_n <= (((size_t)1) << 40) && g_p1 + g_D <= g_p2 && g_p2 + g_D <= g_p3 && g_p3 + g_D <= g_n && g_p1 < g_n && g_p2 < g_n && g_p3 < g_n)
__CPROVER_requires(transit_event->formatted_msg->g_size == g_n && g_substrs == 0 && g_md_creates == 0 && g_md_lookups == 0 && g_resizes == 0 && g_sanitize_calls == 0 && g_clock == 0)
__CPROVER_assigns(transit_event->macro_metadata, transit_event->formatted_msg->g_size, g_msg_b, g_msg_n, g_file_b, g_file_n, g_line_b, g_line_n, g_fn_b, g_fn_n, g_substrs, g_md_creates, g_md_lookups, g_resizes, g_resized_to, g_sanitize_calls, g_clock, g_t_resize, g_t_sanitize)
__CPROVER_ensures(g_msg_b == 0 && g_msg_n == g_p1) /*@ C12 "the message is the text in front of the first separator" */
__CPROVER_ensures(g_file_b == g_p1 + g_D && g_file_b + g_file_n == g_p2) /*@ C12 "the runtime file is exactly the text between the first and the second separator" */
__CPROVER_ensures(g_line_b == g_p2 + g_D && g_line_b + g_line_n == g_p3) /*@ C12 "the runtime line is exactly the text between the second and the third separator" */
__CPROVER_ensures(g_fn_b == g_p3 + g_D && g_fn_b + g_fn_n == g_n) /*@ C12 "the runtime function is exactly the text after the third separator" */
__CPROVER_ensures(g_md_lookups == 1 && (g_md_known ? (g_md_creates == 0 && transit_event->macro_metadata == g_md_found) : (g_md_creates == 1 && transit_event->macro_metadata == g_md_created))) /*@ C12 "the statement gets the metadata of its (file:line, function): the existing one when known, a new one - created once - otherwise" */
__CPROVER_ensures(g_resizes == 1 && g_resized_to == g_p1 && transit_event->formatted_msg->g_size == g_p1) /*@ C12 "afterwards the formatted message is the message alone" */
__CPROVER_ensures(g_sanitize_calls == (self->_options.check_printable_char ? 1 : 0) && (g_sanitize_calls == 1 ==> g_t_resize < g_t_sanitize)) /*@ C04 "with the check configured the restored message is sanitised (after the separators are gone)" */
''')],
    harness='  BW* s; TE* te; BW__apply_runtime_metadata(s, te);',
    dropped=['the characters of the formatted text (three separator positions are symbolic; the searches are the stub FIND)', 'the std::map of runtime metadata (lookup answer symbolic; creation as one stub)', 'construction of the key strings'],
    trusted=['std::string_view::find returns the first occurrence at or after the start position; substr clips to the end', 'the text holds exactly three non-overlapping separators (the LOG_RUNTIME_METADATA macros build "{}SEP{}SEP{}SEP{}"): a user message that itself contains the separator is outside this unit'],
    min_obligations=15)
UNITS = [apply_md]
