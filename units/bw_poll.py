"""C05 / C03 / C20 / C08 — BackendWorker: batch condition, pending check, clean-up predicate, failure counter report."""
H = 'quill/backend/BackendWorker.h'

HP_PRELUDE = r'''
typedef struct TEBs { size_t g_size; } TEBs;
typedef struct TCx { TEBs* _transit_event_buffer; uint8_t _queue_type; bool g_queue_empty; bool _valid; size_t _failure_counter; } TCx;
typedef struct CVec { size_t n; size_t g_p; TCx* tracked; TCx* other; } CVec;
typedef struct BW { CVec _active_thread_contexts_cache; } BW;
enum { QT_UnboundedBlocking, QT_UnboundedDropping, QT_BoundedBlocking, QT_BoundedDropping };
static inline size_t CVec_size(CVec* v) { return v->n; }
static inline TCx* CVec_get(CVec* v, size_t i) { return i == v->g_p ? v->tracked : v->other; }
static inline bool TEB_empty(TEBs* b) { return b->g_size == 0; }
static inline bool TC_has_unbounded_queue_type(TCx* t) { return t->_queue_type == QT_UnboundedBlocking || t->_queue_type == QT_UnboundedDropping; }
static inline bool TC_has_bounded_queue_type(TCx* t) { return t->_queue_type == QT_BoundedBlocking || t->_queue_type == QT_BoundedDropping; }
static inline bool TC_has_dropping_queue(TCx* t) { return t->_queue_type == QT_UnboundedDropping || t->_queue_type == QT_BoundedDropping; }
static inline bool TC_has_blocking_queue(TCx* t) { return t->_queue_type == QT_UnboundedBlocking || t->_queue_type == QT_BoundedBlocking; }
static inline bool TC_is_valid(TCx* t) { return t->_valid; }
/* queue.empty() of the thread's frontend queue (sequentially consistent view; C01/C02 give its meaning) */
static inline bool QUEUE_empty(TCx* t) { return t->g_queue_empty ? 1 : 0; }   /* normalised: a symbolic _Bool field may hold any byte in CBMC, a C++ bool is 0 or 1 */
size_t g_updates;
void BW__update_active_thread_contexts_cache(BW* self) __CPROVER_assigns(g_updates) __CPROVER_ensures(g_updates == OLD(g_updates) + 1);
#define T_(s) ((s)->_active_thread_contexts_cache.tracked)
#define O_(s) ((s)->_active_thread_contexts_cache.other)
'''
Q_RULES = [(r'thread_context->get_spsc_queue_union\(\)\s*\.\s*(un)?bounded_spsc_queue\s*\.\s*empty\(\)', 'QUEUE_empty(thread_context)')]
TC_METHODS = {'empty': 'TEB_empty', 'has_unbounded_queue_type': 'TC_has_unbounded_queue_type', 'has_bounded_queue_type': 'TC_has_bounded_queue_type',
              'has_dropping_queue': 'TC_has_dropping_queue', 'has_blocking_queue': 'TC_has_blocking_queue', 'is_valid': 'TC_is_valid'}
FRESH2 = '__CPROVER_is_fresh(self, sizeof(*self)) && __CPROVER_is_fresh(T_(self), sizeof(TCx)) && __CPROVER_is_fresh(O_(self), sizeof(TCx)) && __CPROVER_is_fresh(T_(self)->_transit_event_buffer, sizeof(TEBs)) && __CPROVER_is_fresh(O_(self)->_transit_event_buffer, sizeof(TEBs)) && T_(self)->_queue_type <= QT_BoundedDropping && O_(self)->_queue_type <= QT_BoundedDropping && self->_active_thread_contexts_cache.g_p < self->_active_thread_contexts_cache.n'

has_pending = dict(
    name='BW.has_pending', primary='C05', props={'C05'}, kind='S',
    desc='BackendWorker::has_pending_events_for_caching_when_transit_event_buffer_empty: false only if no thread has an empty backend buffer together with a non-empty queue',
    structs=[], prelude=HP_PRELUDE, enforce='BW_has_pending', replace=['BW__update_active_thread_contexts_cache'], loopcontracts=True,
    funcs=[dict(src=dict(header=H, cls='BackendWorker', name='has_pending_events_for_caching_when_transit_event_buffer_empty'), src_params=[],
                cfun='BW_has_pending', sig='bool BW_has_pending(BW* self)', cls_c='BW', member_fields=['_active_thread_contexts_cache'], auto_helpers=dict(typemap={'ThreadContext*': 'TCx*', 'ThreadContext const*': 'TCx*'}), 
                siblings=['_update_active_thread_contexts_cache'], methods=TC_METHODS, pre_rules=Q_RULES,
                range_for=[(r'_active_thread_contexts_cache', 'CVec_size', 'CVec_get', 'TCx*')],
                loops={0: r'''
__CPROVER_assigns(__i0)
__CPROVER_loop_invariant(__i0 <= self->_active_thread_contexts_cache.n)
__CPROVER_loop_invariant(__i0 > self->_active_thread_contexts_cache.g_p ==> !(T_(self)->_transit_event_buffer->g_size == 0 && !T_(self)->g_queue_empty))
__CPROVER_decreases(self->_active_thread_contexts_cache.n - __i0)
'''},
                contract=r'''
__CPROVER_requires(''' + FRESH2 + r''')
__CPROVER_assigns(g_updates)
__CPROVER_ensures(!RET ==> !(T_(self)->_transit_event_buffer->g_size == 0 && !T_(self)->g_queue_empty)) /*@ C05 "the batch loop is told 'nothing pending' only if no thread has an empty backend buffer while its queue still holds statements (whose timestamps could be smaller)" */
''')],
    harness='  BW* s; BW_has_pending(s);',
    dropped=['asserts (NDEBUG)', 'union access to the bounded/unbounded queue (one abstract emptiness query)'],
    trusted=['context cache abstracted to {one tracked context, one representative}', 'queue.empty() under sequentially consistent semantics'], min_obligations=20)

BATCH_PRELUDE = r'''
typedef struct BW { int dummy; } BW;
size_t g_clock, g_t_pending, g_processes; bool g_last_pending;
bool BW_has_pending(BW* self) __CPROVER_assigns(g_clock, g_t_pending, g_last_pending) __CPROVER_ensures(g_clock == OLD(g_clock) + 1 && g_t_pending == g_clock && g_last_pending == RET);
bool BW__process_lowest_timestamp_transit_event(BW* self)
__CPROVER_requires(!g_last_pending && g_t_pending == g_clock) /*@ C05 "in a batch an event is written only when the pending check just returned false (no queue with possibly smaller timestamps behind an empty buffer)" */
__CPROVER_assigns(g_clock, g_processes) __CPROVER_ensures(g_clock == OLD(g_clock) + 1 && g_processes == OLD(g_processes) + 1);
#define BW_has_pending_events_for_caching_when_transit_event_buffer_empty(self) BW_has_pending(self)
'''
BATCH_RE = r'while\s*\([^{};]*_process_lowest_timestamp_transit_event\(\)[^{};]*\)\s*\{[^{}]*\}'


def batch_unit(method):
    return dict(
        name='BW.batch[%s]' % method, primary='C05', props={'C05'}, kind='S',
        desc='the batch loop of BackendWorker::%s: every processing step is immediately preceded by a negative pending check' % method,
        structs=[], prelude=BATCH_PRELUDE, enforce='BW_batch', replace=['BW_has_pending', 'BW__process_lowest_timestamp_transit_event'], loopcontracts=True,
        funcs=[dict(src=dict(header=H, cls='BackendWorker', name=method, stmt_re=BATCH_RE), cfun='BW_batch', sig='void BW_batch(BW* self)', cls_c='BW', member_fields=[],
                    siblings=['has_pending_events_for_caching_when_transit_event_buffer_empty', '_process_lowest_timestamp_transit_event'],
                    loops={0: r'''
__CPROVER_assigns(g_clock, g_t_pending, g_last_pending, g_processes)
__CPROVER_loop_invariant(1 == 1)
'''},
                    contract=r'''
__CPROVER_requires(__CPROVER_is_fresh(self, sizeof(*self)))
__CPROVER_assigns(g_clock, g_t_pending, g_last_pending, g_processes)
__CPROVER_ensures(1 == 1)
''')],
        harness='  BW* s; BW_batch(s);', dropped=['everything of %s outside the batch loop' % method], trusted=[], min_obligations=5)


PRED_PRELUDE = HP_PRELUDE
cleanup_pred = dict(
    name='BW.cleanup_pred', primary='C20', props={'C20', 'C03'}, kind='S',
    desc='the predicate of BackendWorker::_cleanup_invalidated_thread_contexts: a context is reclaimed exactly when its thread has exited and both its queue and its backend buffer are empty',
    structs=[], prelude=PRED_PRELUDE, enforce='BW_cleanup_pred', replace=[],
    funcs=[dict(src=dict(header=H, cls='BackendWorker', name='_cleanup_invalidated_thread_contexts', lambda_after=r'find_invalid_and_empty_thread_context_callback\s*=\s*\[\]\(ThreadContext\*\s*thread_context\)\s*\{'),
                cfun='BW_cleanup_pred', sig='bool BW_cleanup_pred(TCx* thread_context)', cls_c='BW', member_fields=[], methods=TC_METHODS, pre_rules=Q_RULES, auto_helpers=dict(typemap={'ThreadContext*': 'TCx*', 'ThreadContext const*': 'TCx*'}), 
                contract=r'''
__CPROVER_requires(__CPROVER_is_fresh(thread_context, sizeof(TCx)) && __CPROVER_is_fresh(thread_context->_transit_event_buffer, sizeof(TEBs)) && thread_context->_queue_type <= QT_BoundedDropping)
__CPROVER_assigns()
__CPROVER_ensures(RET ==> (!thread_context->_valid && thread_context->g_queue_empty && thread_context->_transit_event_buffer->g_size == 0)) /*@ C03,C20 "a thread's context is reclaimed only after the thread exited and everything it logged was read and processed (nothing pending is discarded)" */
__CPROVER_ensures((!thread_context->_valid && thread_context->g_queue_empty && thread_context->_transit_event_buffer->g_size == 0) ==> RET) /*@ C20 "a drained context of an exited thread is recognised as reclaimable (all four queue types)" */
''')],
    harness='  TCx* t; BW_cleanup_pred(t);', dropped=['asserts (NDEBUG)'], trusted=['queue.empty() under sequentially consistent semantics (the relaxed valid flag: DESIGN §2.3)'], min_obligations=5)

FC_PRELUDE = HP_PRELUDE + r'''
#define IS_BOUNDED(t) ((t)->_queue_type == QT_BoundedBlocking || (t)->_queue_type == QT_BoundedDropping)
#define IS_DROPPING(t) ((t)->_queue_type == QT_UnboundedDropping || (t)->_queue_type == QT_BoundedDropping)
size_t g_reports, g_reported_value; bool g_reported_dropping; TCx* g_reported_tc; size_t g_resets;
size_t TC_get_and_reset_failure_counter(TCx* t) __CPROVER_requires(__CPROVER_is_fresh(t, sizeof(*t))) __CPROVER_assigns(t->_failure_counter, g_resets)
__CPROVER_ensures(RET == OLD(t->_failure_counter) && t->_failure_counter == 0 && g_resets == OLD(g_resets) + 1);
void REPORT(TCx* t, size_t n, bool dropping) __CPROVER_assigns(g_reports, g_reported_value, g_reported_dropping, g_reported_tc)
__CPROVER_ensures(t == g_reported_tc || 1) __CPROVER_ensures(g_reports == OLD(g_reports) + 1 && g_reported_value == n && g_reported_dropping == dropping && g_reported_tc == t);
'''
failure_counter = dict(
    name='BW.failure_counter', primary='C08', props={'C08'}, kind='S',
    desc='BackendWorker::_check_failure_counter: for bounded queues the value taken out of the counter is reported, with the dropping / blocking wording of the queue type; nothing is taken from unbounded queues',
    structs=[], prelude=FC_PRELUDE, enforce='BW__check_failure_counter', replace=['TC_get_and_reset_failure_counter', 'REPORT'], loopcontracts=True,
    funcs=[dict(src=dict(header=H, cls='BackendWorker', name='_check_failure_counter'), src_params=['error_notifier'],
                cfun='BW__check_failure_counter', sig='void BW__check_failure_counter(BW* self)', cls_c='BW', member_fields=['_active_thread_contexts_cache'],
                methods=dict(TC_METHODS, get_and_reset_failure_counter='TC_get_and_reset_failure_counter'),
                range_for=[(r'_active_thread_contexts_cache', 'CVec_size', 'CVec_get', 'TCx*')],
                pre_rules=[(r'char\s+timestamp\[24\]\s*;.*?strftime\([^;]*\)\s*;', '', 1),
                           (r'error_notifier\s*\(\s*fmtquill::format\s*\(\s*"\{\} Quill INFO: Dropped.*?\)\s*\)\s*;', 'REPORT(thread_context, failed_messages_cnt, true);', 1),
                           (r'error_notifier\s*\(\s*fmtquill::format\s*\(\s*"\{\} Quill INFO: Experienced.*?\)\s*\)\s*;', 'REPORT(thread_context, failed_messages_cnt, false);', 1)],
                loops={0: r'''
__CPROVER_assigns(__i0, g_reports, g_reported_value, g_reported_dropping, g_reported_tc, g_resets, T_(self)->_failure_counter, O_(self)->_failure_counter)
__CPROVER_loop_invariant(__i0 <= self->_active_thread_contexts_cache.n)
__CPROVER_loop_invariant(__i0 <= self->_active_thread_contexts_cache.g_p ==> T_(self)->_failure_counter == __CPROVER_loop_entry(T_(self)->_failure_counter))
__CPROVER_loop_invariant((__i0 > self->_active_thread_contexts_cache.g_p && IS_BOUNDED(T_(self))) ==> T_(self)->_failure_counter == 0)
__CPROVER_loop_invariant((__i0 > self->_active_thread_contexts_cache.g_p && !IS_BOUNDED(T_(self))) ==> T_(self)->_failure_counter == __CPROVER_loop_entry(T_(self)->_failure_counter))
__CPROVER_loop_invariant((__i0 == self->_active_thread_contexts_cache.g_p + 1 && IS_BOUNDED(T_(self)) && __CPROVER_loop_entry(T_(self)->_failure_counter) > 0) ==> (g_reported_tc == T_(self) && g_reported_value == __CPROVER_loop_entry(T_(self)->_failure_counter) && g_reported_dropping == IS_DROPPING(T_(self))))
__CPROVER_decreases(self->_active_thread_contexts_cache.n - __i0)
'''},
                contract=r'''
__CPROVER_requires(''' + FRESH2 + r''' && self->_active_thread_contexts_cache.g_p == self->_active_thread_contexts_cache.n - 1)
__CPROVER_assigns(g_reports, g_reported_value, g_reported_dropping, g_reported_tc, g_resets, T_(self)->_failure_counter, O_(self)->_failure_counter)
__CPROVER_ensures((IS_BOUNDED(T_(self)) && OLD(T_(self)->_failure_counter) > 0) ==> (g_reported_tc == T_(self) && g_reported_value == OLD(T_(self)->_failure_counter) && g_reported_dropping == IS_DROPPING(T_(self)) && T_(self)->_failure_counter == 0)) /*@ C08 "the discard count reported through the notifier is exactly what was taken out of the thread's counter, worded as dropped for a dropping queue and as blocked otherwise" */
__CPROVER_ensures(!IS_BOUNDED(T_(self)) ==> T_(self)->_failure_counter == OLD(T_(self)->_failure_counter)) /*@ C08 "counters of unbounded queues are not consumed" */
''')],
    harness='  BW* s; BW__check_failure_counter(s);',
    dropped=['timestamp text of the notification (time/localtime/strftime)', 'notification wording (only dropping vs blocking is kept)'],
    trusted=['context cache abstracted to {tracked, representative}; the tracked context is taken as the last one visited so that the last report is its report', 'get_and_reset_failure_counter by its contract (unit TC.get_and_reset_failure_counter)'], min_obligations=20)

UNITS = [has_pending, batch_unit('_poll'), batch_unit('_exit'), cleanup_pred, failure_counter]

# ------------------------------------------------------------------------------------------ _populate_transit_events_from_frontend_queues
PA_PRELUDE = HP_PRELUDE + r'''
/* std::chrono unit semantics are part of the lowering rules below:
     get_timestamp<system_clock>() / get_timestamp_ns<system_clock>()  -> NOW_NS()              (nanoseconds)
     <microseconds member> used in arithmetic with nanoseconds          -> GRACE_AS_NS(self)     (chrono converts to the common type)
     <microseconds member>.count()                                      -> GRACE_US_COUNT(self)  (the raw microsecond count) */
typedef struct OptionsPA { int64_t grace_us; } OptionsPA;
OptionsPA g_options; int64_t g_now_ns; size_t g_now_reads, g_reads_tracked; uint64_t g_ts_now_tracked; size_t g_clock, g_t_now, g_t_first_read; size_t g_ret_tracked;
static inline int64_t NOW_NS(void) { g_now_reads++; g_clock++; g_t_now = g_clock; return g_now_ns; }
#define GRACE_US_COUNT(self) (g_options.grace_us)
#define GRACE_AS_NS(self) (g_options.grace_us * 1000)
size_t READ_AND_DECODE(BW* self, TCx* tc, uint64_t ts_now)
__CPROVER_assigns(g_reads_tracked, g_ts_now_tracked, g_clock, g_t_first_read, g_ret_tracked)
__CPROVER_ensures(RET <= (((size_t)1) << 40) && g_clock == OLD(g_clock) + 1 && (OLD(g_t_first_read) == 0 ? g_t_first_read == g_clock : g_t_first_read == OLD(g_t_first_read)))
__CPROVER_ensures(tc == T_(self) ? (g_reads_tracked == OLD(g_reads_tracked) + 1 && g_ts_now_tracked == ts_now && g_ret_tracked == RET) : (g_reads_tracked == OLD(g_reads_tracked) && g_ts_now_tracked == OLD(g_ts_now_tracked) && g_ret_tracked == OLD(g_ret_tracked)));
#define BW__read_and_decode_frontend_queue(self, q, tc, ts) READ_AND_DECODE(self, tc, ts)
'''
populate_all = dict(
    name='BW.populate_all', primary='C05', props={'C05', 'C03'}, kind='S',
    desc='BackendWorker::_populate_transit_events_from_frontend_queues: the pass limit is "now minus the grace period" in the same unit (nanoseconds), read once before the first queue is read, and every active thread\'s queue is read once with that same limit',
    structs=[], prelude=PA_PRELUDE, enforce='BW_populate_all', replace=['READ_AND_DECODE'], loopcontracts=True,
    funcs=[dict(src=dict(header=H, cls='BackendWorker', name='_populate_transit_events_from_frontend_queues'), src_params=[],
                cfun='BW_populate_all', sig='size_t BW_populate_all(BW* self)', cls_c='BW', member_fields=['_active_thread_contexts_cache'],
                siblings=['_read_and_decode_frontend_queue'], methods=TC_METHODS,
                range_for=[(r'_active_thread_contexts_cache', 'CVec_size', 'CVec_get', 'TCx*')],
                pre_rules=[(r'detail::get_timestamp(_ns)?<std::chrono::system_clock>\(\)', 'NOW_NS()'),
                           (r'_options\.log_timestamp_ordering_grace_period\.count\(\)', 'GRACE_US_COUNT(self)', '?'),
                           (r'_options\.log_timestamp_ordering_grace_period\b(?!\.)', 'GRACE_AS_NS(self)', '?'),
                           (r'\(NOW_NS\(\) - GRACE_AS_NS\(self\)\)\s*\.count\(\)', '(NOW_NS() - GRACE_AS_NS(self))', '?'),
                           (r'thread_context->get_spsc_queue_union\(\)\s*\.\s*(un)?bounded_spsc_queue', '0')],
                loops={0: r'''
__CPROVER_assigns(__i0, cached_transit_events_count, g_reads_tracked, g_ts_now_tracked, g_clock, g_t_first_read, g_ret_tracked)
__CPROVER_loop_invariant(__i0 <= self->_active_thread_contexts_cache.n && cached_transit_events_count <= __i0 * (((size_t)1) << 40) && __i0 <= (((size_t)1) << 20))
__CPROVER_loop_invariant(g_reads_tracked == (__i0 > self->_active_thread_contexts_cache.g_p ? 1 : 0))
__CPROVER_loop_invariant(__i0 > self->_active_thread_contexts_cache.g_p ==> g_ts_now_tracked == ts_now)
__CPROVER_loop_invariant((g_t_first_read == 0 || g_t_first_read > g_t_now) && g_t_now <= g_clock && g_clock <= __i0 + 1 && g_t_first_read <= g_clock && (__i0 > 0 ==> g_t_first_read != 0))
__CPROVER_decreases(self->_active_thread_contexts_cache.n - __i0)
'''},
                contract=r'''
__CPROVER_requires(''' + FRESH2 + r''' && self->_active_thread_contexts_cache.n <= (((size_t)1) << 20))
__CPROVER_requires(g_now_reads == 0 && g_reads_tracked == 0 && g_clock == 0 && g_t_first_read == 0 && g_t_now == 0 && g_now_ns >= 0 && g_now_ns < (1LL << 62) && g_options.grace_us >= 0 && g_options.grace_us <= (1LL << 40) && g_options.grace_us * 1000 <= g_now_ns)
__CPROVER_assigns(g_now_reads, g_reads_tracked, g_ts_now_tracked, g_clock, g_t_now, g_t_first_read, g_ret_tracked)
__CPROVER_ensures(g_reads_tracked == 1) /*@ C03 "every active thread's queue is read exactly once per pass" */
__CPROVER_ensures(g_options.grace_us != 0 ==> (g_now_reads == 1 && g_ts_now_tracked == (uint64_t)(g_now_ns - g_options.grace_us * 1000))) /*@ C05 "the pass limit is the current time minus the configured grace period (same unit: a microsecond grace period is subtracted as microseconds), the same for every queue of the pass" */
__CPROVER_ensures(g_options.grace_us == 0 ==> g_ts_now_tracked == UINT64_MAX) /*@ C05 "a zero grace period disables the timestamp check" */
__CPROVER_ensures(g_now_reads == 1 ==> g_t_now < g_t_first_read) /*@ C05 "the limit is taken once, before the first queue is read" */
''')],
    harness='  BW* s; BW_populate_all(s);',
    dropped=['union access to the bounded/unbounded queue', 'asserts (NDEBUG)', 'std::chrono types: unit conversion encoded in the lowering rules (listed in the prelude)'],
    trusted=['context cache abstracted to {tracked, representative}', '_read_and_decode_frontend_queue by contract (units BW.read_decode[*])', 'std::chrono subtraction of microseconds from nanoseconds converts to nanoseconds'],
    min_obligations=30)
UNITS.append(populate_all)

# ------------------------------------------------------------------------------------------ _check_frontend_queues_and_cached_transit_events_empty
queues_empty = dict(
    name='BW.queues_empty', primary='C07', props={'C07', 'C17', 'C03'}, kind='S',
    desc='BackendWorker::_check_frontend_queues_and_cached_transit_events_empty: the context cache is refreshed first (threads that registered since are included), and the answer is true exactly when the queue and the backend buffer of every thread are empty',
    structs=[], prelude=HP_PRELUDE, enforce='BW_queues_empty', replace=['BW__update_active_thread_contexts_cache'], loopcontracts=True,
    funcs=[dict(src=dict(header=H, cls='BackendWorker', name='_check_frontend_queues_and_cached_transit_events_empty'), src_params=[],
                cfun='BW_queues_empty', sig='bool BW_queues_empty(BW* self)', cls_c='BW', member_fields=['_active_thread_contexts_cache'], auto_helpers=dict(typemap={'ThreadContext*': 'TCx*', 'ThreadContext const*': 'TCx*'}), 
                siblings=['_update_active_thread_contexts_cache'], methods=TC_METHODS, pre_rules=Q_RULES,
                range_for=[(r'_active_thread_contexts_cache', 'CVec_size', 'CVec_get', 'TCx*')],
                loops={0: r'''
__CPROVER_assigns(__i0, all_empty)
__CPROVER_loop_invariant(__i0 <= self->_active_thread_contexts_cache.n)
/* a havocked _Bool may hold any byte in CBMC: pin it to 0/1 (it is only ever assigned true and and-ed with 0/1 values) */
__CPROVER_loop_invariant(*(unsigned char*)&all_empty <= 1)
__CPROVER_loop_invariant((__i0 > self->_active_thread_contexts_cache.g_p && all_empty) ==> (T_(self)->_transit_event_buffer->g_size == 0 && T_(self)->g_queue_empty))
__CPROVER_loop_invariant((T_(self)->_transit_event_buffer->g_size == 0 && T_(self)->g_queue_empty && O_(self)->_transit_event_buffer->g_size == 0 && O_(self)->g_queue_empty) ==> all_empty)
__CPROVER_decreases(self->_active_thread_contexts_cache.n - __i0)
'''},
                contract=r'''
__CPROVER_requires(''' + FRESH2 + r''' && g_updates == 0 && self->_active_thread_contexts_cache.g_p < self->_active_thread_contexts_cache.n)
__CPROVER_assigns(g_updates)
__CPROVER_ensures(g_updates == 1) /*@ C07,C03 "the set of threads is refreshed before the check: a thread that registered since the last pass is not overlooked" */
__CPROVER_ensures(RET ==> (T_(self)->_transit_event_buffer->g_size == 0 && T_(self)->g_queue_empty)) /*@ C07,C17 "'everything is empty' is answered only if the queue and the backend buffer of every thread are empty (nothing completed is left behind at exit; no statement of a logger about to be destroyed is pending)" */
__CPROVER_ensures((T_(self)->_transit_event_buffer->g_size == 0 && T_(self)->g_queue_empty && O_(self)->_transit_event_buffer->g_size == 0 && O_(self)->g_queue_empty) ==> RET) /*@ C07 "when everything is empty the check says so (the exit drain terminates)" */
''')],
    harness='  BW* s; BW_queues_empty(s);',
    dropped=['asserts (NDEBUG)', 'union access to the bounded/unbounded queue (one abstract emptiness query)'],
    trusted=['context cache abstracted to {one tracked context, one representative}', 'queue.empty() under sequentially consistent semantics (its meaning: BQ.empty / UQ.empty)', 'the cache refresh itself: units TCM.register / BW.update_cache'], min_obligations=20)
UNITS.append(queues_empty)

# ------------------------------------------------------------------------------------------ the for_each_thread_context lambda of _update_active_thread_contexts_cache
UL_PRELUDE = HP_PRELUDE.replace('typedef struct BW { CVec _active_thread_contexts_cache; } BW;', 'typedef struct Options { size_t transit_event_buffer_initial_capacity; } Options;\ntypedef struct BW { CVec _active_thread_contexts_cache; Options _options; } BW;') + r'''
size_t g_pushes, g_buffer_makes; TCx* g_pushed; size_t g_made_capacity;
void CACHE_push_back(BW* self, TCx* tc) __CPROVER_assigns(g_pushes, g_pushed) __CPROVER_ensures(g_pushes == OLD(g_pushes) + 1 && g_pushed == tc);
/* std::make_shared<TransitEventBuffer>(capacity): a fresh, empty buffer (unit TEB.ctor) */
TEBs* TEB_make(size_t capacity) __CPROVER_assigns(g_buffer_makes, g_made_capacity) __CPROVER_ensures(__CPROVER_is_fresh(RET, sizeof(TEBs)) && RET->g_size == 0 && g_buffer_makes == OLD(g_buffer_makes) + 1 && g_made_capacity == capacity);
'''
assert UL_PRELUDE != HP_PRELUDE
update_cache_lambda = dict(
    name='BW.update_cache_lambda', primary='C20', props={'C20', 'C03'}, kind='S',
    desc='the for_each_thread_context lambda of BackendWorker::_update_active_thread_contexts_cache: EVERY registered context - also one whose thread has exited - gets a backend buffer and is put in the cache exactly once (reading, draining and reclaiming all go through the cache)',
    structs=[], prelude=UL_PRELUDE, enforce='BW_update_cache_lambda', replace=['CACHE_push_back', 'TEB_make'],
    funcs=[dict(src=dict(header=H, cls='BackendWorker', name='_update_active_thread_contexts_cache', lambda_after=r'for_each_thread_context\s*\(\s*\[this\]\(ThreadContext\* thread_context\)'),
                cfun='BW_update_cache_lambda', sig='void BW_update_cache_lambda(BW* self, TCx* thread_context)', cls_c='BW', member_fields=['_active_thread_contexts_cache', '_options'],
                methods=TC_METHODS, pre_rules=Q_RULES + [(r'std::make_shared<TransitEventBuffer>\(([^()]*)\)', r'TEB_make(\1)'), (r'_active_thread_contexts_cache\.push_back\(thread_context\)', 'CACHE_push_back(self, thread_context)')],
                auto_helpers=dict(typemap={'ThreadContext*': 'TCx*', 'ThreadContext const*': 'TCx*'}),
                contract=r'''
__CPROVER_requires(__CPROVER_is_fresh(self, sizeof(*self)) && __CPROVER_is_fresh(thread_context, sizeof(TCx)) && (thread_context->_transit_event_buffer == NULL || __CPROVER_is_fresh(thread_context->_transit_event_buffer, sizeof(TEBs))) && thread_context->_queue_type <= QT_BoundedDropping && g_pushes == 0 && g_buffer_makes == 0)
__CPROVER_assigns(thread_context->_transit_event_buffer, g_pushes, g_pushed, g_buffer_makes, g_made_capacity)
__CPROVER_ensures(g_pushes == 1 && g_pushed == thread_context) /*@ C20,C03 "every registered thread context is in the backend's cache after a reload, exactly once - whether its thread is alive or has exited, whether anything is pending or not (an exited thread's context can only be drained and reclaimed from the cache)" */
__CPROVER_ensures(thread_context->_transit_event_buffer != NULL && (OLD(thread_context->_transit_event_buffer) != NULL ==> (thread_context->_transit_event_buffer == OLD(thread_context->_transit_event_buffer) && g_buffer_makes == 0))) /*@ C03 "a context in the cache has a backend buffer; an existing buffer (with its events) is kept" */
__CPROVER_ensures(OLD(thread_context->_transit_event_buffer) == NULL ==> (g_buffer_makes == 1 && g_made_capacity == self->_options.transit_event_buffer_initial_capacity))
''')],
    harness='  BW* s; TCx* t; BW_update_cache_lambda(s, t);',
    dropped=['shared_ptr ownership of the buffer'], trusted=['for_each_thread_context visits every registered context under the registry lock (hand-off: units TCM.register / BW.update_cache)'], min_obligations=10)
UNITS.append(update_cache_lambda)

# ------------------------------------------------------------------------------------------ _cleanup_invalidated_thread_contexts: the whole reclaim loop
CT_PRELUDE = r'''
/* cache of active contexts with erase: one tracked context at g_p (until erased) and a representative of all the others.
   flag = the answer of the reclaim predicate for that context (unit BW.cleanup_pred: thread exited AND queue empty AND buffer empty) */
typedef struct TCe { bool flag; } TCe;
typedef struct EVec { size_t n; size_t g_p; bool g_tracked_erased; TCe* tracked; TCe* other; size_t g_erases; } EVec;
typedef struct BW { EVec _active_thread_contexts_cache; } BW;
static inline size_t EVec_size(EVec* v) { return v->n; }
static inline TCe* EVec_get(EVec* v, size_t i) { __CPROVER_assert(i < v->n, "cache index within size"); return (!v->g_tracked_erased && i == v->g_p) ? v->tracked : v->other; }
static inline void EVec_erase(EVec* v, size_t i) { __CPROVER_assert(i < v->n, "erase within size"); if (!v->g_tracked_erased) { if (i == v->g_p) v->g_tracked_erased = true; else if (i < v->g_p) v->g_p--; } v->n--; v->g_erases++; }
#define HAS_T(v) (!(v)->g_tracked_erased && (v)->g_p < (v)->n)
#define HAS_O(v) ((v)->n > (HAS_T(v) ? 1u : 0u))
#define NONE_LEFT(v) ((!HAS_T(v) || !(v)->tracked->flag) && (!HAS_O(v) || !(v)->other->flag))
bool g_has_invalid, g_snap_none_left; size_t g_removed_tracked, g_removed_total, g_clock, g_t_remove_tracked, g_t_erase_tracked;
bool TCM_has_invalid(BW* self) __CPROVER_assigns() __CPROVER_ensures(RET == g_has_invalid);
/* std::find_if over the cache with the reclaim predicate: the first context the predicate accepts, or end() */
size_t FIND_RECLAIMABLE(EVec* v) __CPROVER_assigns()
__CPROVER_ensures(RET <= v->n && (RET == v->n ? NONE_LEFT(v) : ((HAS_T(v) && RET == v->g_p) ? v->tracked->flag : (HAS_O(v) && v->other->flag))));
void TCM_remove(BW* self, TCe* tc)
__CPROVER_requires(tc->flag) /*@ C03,C20 "only a context whose thread exited and whose queue and buffer are empty is handed to the manager for removal" */
__CPROVER_assigns(g_removed_tracked, g_removed_total, g_clock, g_t_remove_tracked)
__CPROVER_ensures(g_removed_total == OLD(g_removed_total) + 1 && g_clock == OLD(g_clock) + 1 && (tc == self->_active_thread_contexts_cache.tracked && !self->_active_thread_contexts_cache.g_tracked_erased ? (g_removed_tracked == OLD(g_removed_tracked) + 1 && g_t_remove_tracked == g_clock) : (g_removed_tracked == OLD(g_removed_tracked) && g_t_remove_tracked == OLD(g_t_remove_tracked))));
#define C_(s) (&(s)->_active_thread_contexts_cache)
'''
FIND_RX = r'std::find_if\(_active_thread_contexts_cache\.begin\(\),\s*_active_thread_contexts_cache\.end\(\),\s*find_invalid_and_empty_thread_context_callback\)'
cleanup_tc = dict(
    name='BW.cleanup_tc', primary='C20', props={'C20', 'C03'}, kind='S',
    desc='BackendWorker::_cleanup_invalidated_thread_contexts (the loop around the reclaim predicate): every context the predicate accepts is removed from the manager and from the backend cache - the same one, once - and the pass ends only when none is left; nothing is touched unless a thread has exited',
    structs=[], prelude=CT_PRELUDE, enforce='BW__cleanup_invalidated_thread_contexts', replace=['TCM_has_invalid', 'FIND_RECLAIMABLE', 'TCM_remove'], loopcontracts=True,
    funcs=[dict(src=dict(header=H, cls='BackendWorker', name='_cleanup_invalidated_thread_contexts'), src_params=[], cfun='BW__cleanup_invalidated_thread_contexts', sig='void BW__cleanup_invalidated_thread_contexts(BW* self)',
                cls_c='BW', member_fields=['_active_thread_contexts_cache'],
                pre_rules=[(r'auto\s+find_invalid_and_empty_thread_context_callback\s*=\s*\[\]\(ThreadContext\*\s*thread_context\).*?return\s+false;\s*\}\s*;', '', '!'),
                           (r'!\s*_thread_context_manager\.has_invalid_thread_context\(\)', '!TCM_has_invalid(self)'),
                           (r'auto\s+found_invalid_and_empty_thread_context\s*=\s*' + FIND_RX, 'size_t found_invalid_and_empty_thread_context = FIND_RECLAIMABLE(&_active_thread_contexts_cache)'),
                           (r'found_invalid_and_empty_thread_context\s*=\s*' + FIND_RX, 'found_invalid_and_empty_thread_context = FIND_RECLAIMABLE(&_active_thread_contexts_cache)'),
                           (r'found_invalid_and_empty_thread_context\s*!=\s*std::end\(_active_thread_contexts_cache\)', 'found_invalid_and_empty_thread_context != EVec_size(&_active_thread_contexts_cache)'),
                           (r'_thread_context_manager\.remove_shared_invalidated_thread_context\(\*found_invalid_and_empty_thread_context\)\s*;', 'TCM_remove(self, EVec_get(&_active_thread_contexts_cache, found_invalid_and_empty_thread_context));'),
                           (r'_active_thread_contexts_cache\.erase\(found_invalid_and_empty_thread_context\)\s*;', 'EVec_erase(&_active_thread_contexts_cache, found_invalid_and_empty_thread_context);')],
                loops={r'while\s*\(': r'''
__CPROVER_assigns(found_invalid_and_empty_thread_context, self->_active_thread_contexts_cache.n, self->_active_thread_contexts_cache.g_p, self->_active_thread_contexts_cache.g_tracked_erased, self->_active_thread_contexts_cache.g_erases, g_removed_tracked, g_removed_total, g_clock, g_t_remove_tracked)
__CPROVER_loop_invariant(found_invalid_and_empty_thread_context <= C_(self)->n && C_(self)->n <= __CPROVER_loop_entry(C_(self)->n) && g_removed_total + C_(self)->n == __CPROVER_loop_entry(g_removed_total) + __CPROVER_loop_entry(C_(self)->n) && C_(self)->g_erases - __CPROVER_loop_entry(C_(self)->g_erases) == g_removed_total - __CPROVER_loop_entry(g_removed_total))
__CPROVER_loop_invariant(found_invalid_and_empty_thread_context == C_(self)->n ? NONE_LEFT(C_(self)) : ((HAS_T(C_(self)) && found_invalid_and_empty_thread_context == C_(self)->g_p) ? C_(self)->tracked->flag : (HAS_O(C_(self)) && C_(self)->other->flag)))
__CPROVER_loop_invariant(C_(self)->g_tracked_erased ? (C_(self)->tracked->flag && g_removed_tracked == 1) : (g_removed_tracked == 0 && C_(self)->g_p < C_(self)->n))
__CPROVER_loop_invariant((C_(self)->n == __CPROVER_loop_entry(C_(self)->n)) ==> (C_(self)->g_p == __CPROVER_loop_entry(C_(self)->g_p) && !C_(self)->g_tracked_erased))
__CPROVER_decreases(C_(self)->n)
'''},
                contract=r'''
__CPROVER_requires(__CPROVER_is_fresh(self, sizeof(*self)) && __CPROVER_is_fresh(C_(self)->tracked, sizeof(TCe)) && __CPROVER_is_fresh(C_(self)->other, sizeof(TCe)))
__CPROVER_requires(C_(self)->g_p < C_(self)->n && C_(self)->n <= 1000000 && !C_(self)->g_tracked_erased && g_removed_tracked == 0 && g_removed_total == 0 && C_(self)->g_erases == 0 && g_clock == 0 && (g_snap_none_left ==> NONE_LEFT(C_(self))) && (NONE_LEFT(C_(self)) ==> g_snap_none_left))
__CPROVER_assigns(self->_active_thread_contexts_cache.n, self->_active_thread_contexts_cache.g_p, self->_active_thread_contexts_cache.g_tracked_erased, self->_active_thread_contexts_cache.g_erases, g_removed_tracked, g_removed_total, g_clock, g_t_remove_tracked)
__CPROVER_ensures(C_(self)->g_tracked_erased ==> (C_(self)->tracked->flag && g_removed_tracked == 1)) /*@ C03,C20 "a context leaves the backend cache only if the reclaim predicate accepted it, and exactly then it is also removed from the manager (once): nothing pending is discarded, nothing stays registered" */
__CPROVER_ensures(!C_(self)->g_tracked_erased ==> g_removed_tracked == 0) /*@ C03 "a context that stays in the cache is not released" */
__CPROVER_ensures((g_has_invalid && !g_snap_none_left) ==> g_removed_total >= 1) /*@ C20 "once a thread has exited, a clean-up pass that finds a context whose thread exited and that is drained reclaims at least one (the source reclaims all of them in one pass; the property needs progress, repeated passes do the rest)" */
__CPROVER_ensures(C_(self)->g_erases == g_removed_total && C_(self)->n + g_removed_total == OLD(C_(self)->n)) /*@ C20 "the cache shrinks by exactly the contexts released" */
__CPROVER_ensures(!g_has_invalid ==> (g_removed_total == 0 && C_(self)->n == OLD(C_(self)->n))) /*@ C20 "nothing is touched unless a thread has exited" */
''')],
    harness='  BW* s; BW__cleanup_invalidated_thread_contexts(s);',
    dropped=['the predicate lambda (unit BW.cleanup_pred): its answer per context is the ghost flag', 'assert (NDEBUG)', 'iterators as indices'],
    trusted=['cache abstracted to {one tracked context, one representative of the others}; std::find_if returns the first accepted element or end()', 'remove_shared_invalidated_thread_context by unit TCM.remove'], min_obligations=30)
UNITS.append(cleanup_tc)

# ------------------------------------------------------------------------------------------ _try_shrink_empty_transit_event_buffers
TS_PRELUDE = r'''
typedef struct TEBs { size_t g_try_shrinks; } TEBs;
typedef struct TCx { TEBs* _transit_event_buffer; } TCx;
typedef struct CVec { size_t n; size_t g_p; TCx* tracked; TCx* other; } CVec;
typedef struct BW { CVec _active_thread_contexts_cache; } BW;
static inline size_t CVec_size(CVec* v) { return v->n; }
static inline TCx* CVec_get(CVec* v, size_t i) { return i == v->g_p ? v->tracked : v->other; }
/* TransitEventBuffer::try_shrink (unit TEB.try_shrink: acts only on an empty buffer with a pending request) */
void TEB_try_shrink(TEBs* b) __CPROVER_assigns(b->g_try_shrinks) __CPROVER_ensures(b->g_try_shrinks == OLD(b->g_try_shrinks) + 1);
#define T_(s) ((s)->_active_thread_contexts_cache.tracked)
#define O_(s) ((s)->_active_thread_contexts_cache.other)
'''
try_shrink_all = dict(
    name='BW.try_shrink_all', primary='C20', props={'C20'}, kind='S',
    desc='BackendWorker::_try_shrink_empty_transit_event_buffers: every cached context that has a backend buffer gets exactly one try_shrink per idle pass (a requested shrink takes effect once the buffer is empty)',
    structs=[], prelude=TS_PRELUDE, enforce='BW__try_shrink_empty_transit_event_buffers', replace=['TEB_try_shrink'], loopcontracts=True,
    funcs=[dict(src=dict(header=H, cls='BackendWorker', name='_try_shrink_empty_transit_event_buffers'), src_params=[], cfun='BW__try_shrink_empty_transit_event_buffers',
                sig='void BW__try_shrink_empty_transit_event_buffers(BW* self)', cls_c='BW', member_fields=['_active_thread_contexts_cache'], methods={'try_shrink': 'TEB_try_shrink'},
                range_for=[(r'_active_thread_contexts_cache', 'CVec_size', 'CVec_get', 'TCx*')],
                loops={0: r'''
__CPROVER_assigns(__i0; T_(self)->_transit_event_buffer != NULL: T_(self)->_transit_event_buffer->g_try_shrinks; O_(self)->_transit_event_buffer != NULL: O_(self)->_transit_event_buffer->g_try_shrinks)
__CPROVER_loop_invariant(__i0 <= self->_active_thread_contexts_cache.n)
__CPROVER_loop_invariant(T_(self)->_transit_event_buffer != NULL ==> T_(self)->_transit_event_buffer->g_try_shrinks == ((__i0 > self->_active_thread_contexts_cache.g_p) ? 1 : 0))
__CPROVER_decreases(self->_active_thread_contexts_cache.n - __i0)
'''},
                contract=r'''
__CPROVER_requires(__CPROVER_is_fresh(self, sizeof(*self)) && __CPROVER_is_fresh(T_(self), sizeof(TCx)) && __CPROVER_is_fresh(O_(self), sizeof(TCx)))
__CPROVER_requires((T_(self)->_transit_event_buffer == NULL || (__CPROVER_is_fresh(T_(self)->_transit_event_buffer, sizeof(TEBs)) && T_(self)->_transit_event_buffer->g_try_shrinks == 0)) && (O_(self)->_transit_event_buffer == NULL || __CPROVER_is_fresh(O_(self)->_transit_event_buffer, sizeof(TEBs))))
__CPROVER_assigns(T_(self)->_transit_event_buffer != NULL: T_(self)->_transit_event_buffer->g_try_shrinks)
__CPROVER_assigns(O_(self)->_transit_event_buffer != NULL: O_(self)->_transit_event_buffer->g_try_shrinks)
__CPROVER_ensures((T_(self)->_transit_event_buffer != NULL && self->_active_thread_contexts_cache.g_p < self->_active_thread_contexts_cache.n) ==> T_(self)->_transit_event_buffer->g_try_shrinks == 1) /*@ C20 "every thread's backend buffer is offered its pending shrink once per idle pass" */
''')],
    harness='  BW* s; BW__try_shrink_empty_transit_event_buffers(s);',
    dropped=[], trusted=['cache abstracted to {one tracked context, one representative of the others}', 'TransitEventBuffer::try_shrink by unit TEB.try_shrink'], min_obligations=10)
UNITS.append(try_shrink_all)
