"""C03 / C05 / C06 / C10 / C18 — BackendWorker: selecting and processing one buffered event.  Control skeletons."""

H = 'quill/backend/BackendWorker.h'

# --------------------------------------------------------------------------------------------- _process_lowest_timestamp_transit_event
PL_PRELUDE = r'''
typedef struct NA { bool g_cleared; } NA;                              /* named_args vector */
typedef struct TE { uint64_t timestamp; NA* named_args; } TE;         /* TransitEvent: the fields this function touches */
typedef struct TEBs { size_t g_size; TE front_ev; size_t g_popped; } TEBs;   /* backend buffer: size, its front event, pop counter */
typedef struct TCx { TEBs* _transit_event_buffer; } TCx;
/* cache of active contexts: one arbitrary tracked context at index g_p and one representative of all the others
   (a min-selection visits the representative idempotently) */
typedef struct CVec { size_t n; size_t g_p; TCx* tracked; TCx* other; } CVec;
typedef struct FlushFlag { bool value; } FlushFlag;
typedef struct Options { int dummy; } Options;
typedef struct BW { Options _options; CVec _active_thread_contexts_cache; } BW;
size_t g_clock;                       /* ghost event clock: every stub call takes a tick */
size_t g_t_process, g_t_pop, g_t_cleanup, g_t_store, g_t_notify;
size_t g_process_calls, g_notify_calls, g_pops, g_stores; TCx* g_processed_tc; TE* g_processed_te; TCx* g_popped_tc; int g_thrown; FlushFlag* g_stored_flag; FlushFlag* g_flag_of_event;
static inline size_t CVec_size(CVec* v) { return v->n; }
static inline TCx* CVec_get(CVec* v, size_t i) { return i == v->g_p ? v->tracked : v->other; }
/* executable shim (a contract-only stub returning an address makes the pointer analysis lose the target) */
static inline TE* TEB_front(TEBs* b) { return b->g_size > 0 ? &b->front_ev : NULL; }
void TEB_pop_front(TEBs* b)
__CPROVER_requires(__CPROVER_is_fresh(b, sizeof(*b)))
__CPROVER_requires(b->g_size > 0) /*@ C03 "only a non-empty buffer is popped" */
__CPROVER_requires(b->front_ev.named_args == NULL || b->front_ev.named_args->g_cleared) /*@ C10,C03 "the named args of an event are released before its slot is recycled, on every path including the exception paths: a later statement decoded into the slot never inherits them" */
__CPROVER_assigns(b->g_size, b->g_popped, b->front_ev, g_pops, g_clock, g_t_pop)
__CPROVER_ensures(b->g_size == OLD(b->g_size) - 1 && b->g_popped == OLD(b->g_popped) + 1 && g_pops == OLD(g_pops) + 1 && g_clock == OLD(g_clock) + 1 && g_t_pop == g_clock);
void NA_clear(NA* n) __CPROVER_requires(__CPROVER_is_fresh(n, sizeof(*n))) __CPROVER_assigns(n->g_cleared) __CPROVER_ensures(n->g_cleared);
/* _process_transit_event: may throw anything; a Flush event hands back the caller's flag (after flushing the sinks) */
void BW_process_event(BW* self, TCx* tc, TE* te, FlushFlag** flush_flag)
__CPROVER_requires(__CPROVER_is_fresh(flush_flag, sizeof(*flush_flag)) && te != NULL)
__CPROVER_assigns(*flush_flag, g_exc, g_clock, g_t_process, g_process_calls, g_processed_tc, g_processed_te, g_thrown)
__CPROVER_ensures(g_exc == 0 || g_exc == EXC_STD || g_exc == EXC_OTHER)
__CPROVER_ensures(g_thrown == g_exc && g_process_calls == OLD(g_process_calls) + 1 && g_processed_tc == tc && g_processed_te == te && g_clock == OLD(g_clock) + 1 && g_t_process == g_clock)
__CPROVER_ensures(*flush_flag == NULL || *flush_flag == g_flag_of_event);
void ERROR_NOTIFIER(BW* self) __CPROVER_assigns(g_notify_calls, g_clock, g_t_notify) __CPROVER_ensures(g_notify_calls == OLD(g_notify_calls) + 1 && g_clock == OLD(g_clock) + 1 && g_t_notify == g_clock);
size_t g_failchecks, g_t_failcheck, g_cleanups;
void BW__cleanup_invalidated_thread_contexts(BW* self) __CPROVER_assigns(g_clock, g_t_cleanup, g_cleanups) __CPROVER_ensures(g_clock == OLD(g_clock) + 1 && g_t_cleanup == g_clock && g_cleanups == OLD(g_cleanups) + 1);
/* _check_failure_counter (unit BW.failure_counter): reports and resets the discard / blocking counters of every cached context */
void BW__check_failure_counter(BW* self) __CPROVER_assigns(g_clock, g_t_failcheck, g_failchecks) __CPROVER_ensures(g_clock == OLD(g_clock) + 1 && g_t_failcheck == g_clock && g_failchecks == OLD(g_failchecks) + 1);
void FLAG_store(FlushFlag* f, bool v)
__CPROVER_requires(f != NULL)
__CPROVER_assigns(g_stores, g_stored_flag, g_clock, g_t_store)
__CPROVER_ensures(g_stores == OLD(g_stores) + 1 && g_stored_flag == f && g_clock == OLD(g_clock) + 1 && g_t_store == g_clock);
#define BW__process_transit_event(self, tc, te, ff) BW_process_event(self, &(tc), &(te), &(ff))
/* re-anchoring of a loop-havocked pointer: a provably-identity assignment (the assertion is an obligation) that gives
   CBMC's pointer analysis the possible targets back; without it the encoding of the later dereferences explodes */
#define ANCHOR_TC(s, p) do { __CPROVER_assert((p) == NULL || (p) == (s)->_active_thread_contexts_cache.tracked || (p) == (s)->_active_thread_contexts_cache.other, "anchor is the identity"); (p) = ((p) == (s)->_active_thread_contexts_cache.tracked ? (s)->_active_thread_contexts_cache.tracked : ((p) == (s)->_active_thread_contexts_cache.other ? (s)->_active_thread_contexts_cache.other : NULL)); } while (0)
#define T_(s) ((s)->_active_thread_contexts_cache.tracked)
#define O_(s) ((s)->_active_thread_contexts_cache.other)
#define NONEMPTY(c) ((c)->_transit_event_buffer->g_size > 0)
#define FTS(c) ((c)->_transit_event_buffer->front_ev.timestamp)
#define WAS_NONEMPTY(c) (OLD((c)->_transit_event_buffer->g_size) > 0)
#define OLD_FTS_SEL(s) (g_processed_tc == T_(s) ? OLD(FTS(T_(s))) : OLD(FTS(O_(s))))
'''

PL_CONTRACT = r'''
__CPROVER_requires(__CPROVER_is_fresh(self, sizeof(*self)) && __CPROVER_is_fresh(T_(self), sizeof(TCx)) && __CPROVER_is_fresh(O_(self), sizeof(TCx)) && __CPROVER_is_fresh(T_(self)->_transit_event_buffer, sizeof(TEBs)) && __CPROVER_is_fresh(O_(self)->_transit_event_buffer, sizeof(TEBs)))
__CPROVER_requires((T_(self)->_transit_event_buffer->front_ev.named_args == NULL || __CPROVER_is_fresh(T_(self)->_transit_event_buffer->front_ev.named_args, sizeof(NA))) && (O_(self)->_transit_event_buffer->front_ev.named_args == NULL || __CPROVER_is_fresh(O_(self)->_transit_event_buffer->front_ev.named_args, sizeof(NA))))
__CPROVER_requires(self->_active_thread_contexts_cache.g_p < self->_active_thread_contexts_cache.n && g_exc == 0 && g_clock == 0 && g_process_calls == 0 && g_notify_calls == 0 && g_pops == 0 && g_stores == 0 && g_thrown == 0 && g_t_store == 0 && g_t_pop == 0 && g_t_process == 0 && g_t_cleanup == 0 && g_failchecks == 0 && g_cleanups == 0 && g_t_failcheck == 0)
#ifdef TS_NOT_MAX
__CPROVER_requires(FTS(T_(self)) != UINT64_MAX && FTS(O_(self)) != UINT64_MAX)
#endif
#ifdef TS_MAX
__CPROVER_requires(FTS(T_(self)) == UINT64_MAX || FTS(O_(self)) == UINT64_MAX)
#endif
__CPROVER_assigns(g_failchecks, g_t_failcheck, g_cleanups, g_exc, g_clock, g_t_process, g_t_pop, g_t_cleanup, g_t_store, g_t_notify, g_process_calls, g_notify_calls, g_pops, g_stores, g_processed_tc, g_processed_te, g_popped_tc, g_thrown, g_stored_flag)
__CPROVER_assigns(T_(self)->_transit_event_buffer->g_size, T_(self)->_transit_event_buffer->g_popped, T_(self)->_transit_event_buffer->front_ev, O_(self)->_transit_event_buffer->g_size, O_(self)->_transit_event_buffer->g_popped, O_(self)->_transit_event_buffer->front_ev)
__CPROVER_assigns(T_(self)->_transit_event_buffer->front_ev.named_args != NULL: T_(self)->_transit_event_buffer->front_ev.named_args->g_cleared)
__CPROVER_assigns(O_(self)->_transit_event_buffer->front_ev.named_args != NULL: O_(self)->_transit_event_buffer->front_ev.named_args->g_cleared)
__CPROVER_ensures(g_exc == 0) /*@ C10 "whatever processing one event throws is caught: the backend keeps running" */
__CPROVER_ensures(!RET ==> (!WAS_NONEMPTY(T_(self)) && g_pops == 0 && g_process_calls == 0)) /*@ C03 "nothing is processed only if every thread's backend buffer is empty" */
__CPROVER_ensures(RET ==> (g_process_calls == 1 && g_pops == 1)) /*@ C03 "exactly one event is processed and exactly one is removed, on every path including the exception paths" */
__CPROVER_ensures(RET ==> (g_processed_tc == T_(self) || g_processed_tc == O_(self))) /*@ C03 "the processed event belongs to one of the active threads" */
__CPROVER_ensures((RET && g_processed_tc == T_(self)) ==> (g_processed_te == &T_(self)->_transit_event_buffer->front_ev && T_(self)->_transit_event_buffer->g_popped == OLD(T_(self)->_transit_event_buffer->g_popped) + 1 && WAS_NONEMPTY(T_(self)))) /*@ C03 "the processed event is the front of the selected thread's buffer and it is that buffer that is popped (tracked thread)" */
__CPROVER_ensures((RET && g_processed_tc == O_(self)) ==> (g_processed_te == &O_(self)->_transit_event_buffer->front_ev && O_(self)->_transit_event_buffer->g_popped == OLD(O_(self)->_transit_event_buffer->g_popped) + 1 && WAS_NONEMPTY(O_(self)))) /*@ C03 "the processed event is the front of the selected thread's buffer and it is that buffer that is popped (any other thread)" */
__CPROVER_ensures((RET && g_processed_tc != T_(self)) ==> (T_(self)->_transit_event_buffer->g_size == OLD(T_(self)->_transit_event_buffer->g_size) && T_(self)->_transit_event_buffer->g_popped == OLD(T_(self)->_transit_event_buffer->g_popped))) /*@ C03 "the buffers of all other threads are untouched (per-thread order is preserved)" */
__CPROVER_ensures((RET && WAS_NONEMPTY(T_(self))) ==> OLD_FTS_SEL(self) <= OLD(FTS(T_(self)))) /*@ C05 "the processed event carries the smallest timestamp among the fronts of all buffers" */
__CPROVER_ensures(RET ==> g_t_process < g_t_pop) /*@ C03 "the event is removed only after it was dispatched" */
__CPROVER_ensures(g_notify_calls == (g_thrown != 0 ? 1 : 0)) /*@ C10 "a failure while processing is reported through the error notifier exactly once" */
__CPROVER_ensures(g_stores <= 1 && (g_stores == 1 ==> (g_stored_flag == g_flag_of_event && g_t_process < g_t_pop && g_t_pop < g_t_store))) /*@ C06 "the flush caller is released only after the flush event was processed (sinks flushed) and removed from the buffer" */
__CPROVER_ensures(g_cleanups >= 1 ==> (g_failchecks >= 1 && g_t_failcheck < g_t_cleanup)) /*@ C08 "exited threads' contexts are reclaimed (here: after a flush event) only after their discard counts were reported: reported drops add up to the discarded statements" */
'''

PL_LOOP = {0: r'''
__CPROVER_assigns(__i0, min_ts, thread_context)
__CPROVER_loop_invariant(__i0 <= self->_active_thread_contexts_cache.n)
__CPROVER_loop_invariant(thread_context == NULL || thread_context == T_(self) || thread_context == O_(self))
/* never dereference the havocked pointer itself in an invariant (CBMC loses its target and the encoding explodes): case split */
__CPROVER_loop_invariant((thread_context == T_(self) ==> (NONEMPTY(T_(self)) && min_ts == FTS(T_(self)))) && (thread_context == O_(self) ==> (NONEMPTY(O_(self)) && min_ts == FTS(O_(self)))))
__CPROVER_loop_invariant(thread_context == NULL ==> min_ts == UINT64_MAX)
__CPROVER_loop_invariant((__i0 > self->_active_thread_contexts_cache.g_p && NONEMPTY(T_(self))) ==> (min_ts <= FTS(T_(self)) && thread_context != NULL))
__CPROVER_decreases(self->_active_thread_contexts_cache.n - __i0)
'''}

process_lowest = dict(
    name='BW.process_lowest', primary='C03', props={'C03', 'C05', 'C06', 'C10', 'C08'}, kind='S',
    desc='BackendWorker::_process_lowest_timestamp_transit_event: min-timestamp selection, exactly one pop after the dispatch on every path, exceptions contained, flush flag released last',
    structs=[], prelude=PL_PRELUDE, enforce='BW__process_lowest_timestamp_transit_event',
    replace=['TEB_pop_front', 'NA_clear', 'BW_process_event', 'ERROR_NOTIFIER', 'BW__cleanup_invalidated_thread_contexts', 'BW__check_failure_counter', 'FLAG_store'], loopcontracts=True,
    funcs=[dict(src=dict(header=H, cls='BackendWorker', name='_process_lowest_timestamp_transit_event'), src_params=[],
                cfun='BW__process_lowest_timestamp_transit_event', sig='bool BW__process_lowest_timestamp_transit_event(BW* self)', ret_default='false',
                cls_c='BW', member_fields=['_options', '_active_thread_contexts_cache'], siblings=['_process_transit_event', '_cleanup_invalidated_thread_contexts'],
                methods={'front': 'TEB_front', 'pop_front': 'TEB_pop_front', 'clear': 'NA_clear', 'store': 'FLAG_store'},
                range_for=[(r'_active_thread_contexts_cache', 'CVec_size', 'CVec_get', 'TCx*')],
                pre_rules=[(r'_check_failure_counter\(_options\.error_notifier\)\s*;', 'BW__check_failure_counter(self);', '?'), (r'_options\.error_notifier\s*\([^;]*\)\s*;', 'ERROR_NOTIFIER(self);'),
                           (r'std::atomic<bool>\s*\*', 'FlushFlag*', 1), (r'ThreadContext\s*\*', 'TCx*'), (r'TransitEvent\s*(const\s*)?\*', 'TE*')],
                rules=[(r'if\s*\(\s*!thread_context\s*\)', 'ANCHOR_TC(self, thread_context); if (!thread_context)', 1)],
                exceptions=True, may_throw=['BW__process_transit_event'],
                loops=PL_LOOP, contract=PL_CONTRACT)],
    harness='  BW* s; BW__process_lowest_timestamp_transit_event(s);',
    variants=[dict(name='main', defs=['TS_NOT_MAX']), dict(name='ts-max', defs=['TS_MAX'])],
    dropped=['TransitEvent fields other than timestamp and named_args', 'text passed to the error notifier', 'asserts (NDEBUG)'],
    trusted=['context cache abstracted to {one arbitrary tracked context, one representative of all others}: a min-selection visits the representative idempotently',
             'backend buffer abstracted to (size, front event, pop counter) - units TEB.*', '_process_transit_event by the contract of unit BW.process_event (may throw anything)'],
    min_obligations=50)

# --------------------------------------------------------------------------------------------- _process_transit_event
PE_PRELUDE = r'''
typedef uint8_t LogLevel;  enum { LL_TraceL3, LL_TraceL2, LL_TraceL1, LL_Debug, LL_Info, LL_Notice, LL_Warning, LL_Error, LL_Critical, LL_Backtrace, LL_None, LL_Dynamic };
typedef uint8_t Event;     enum { EV_Log, EV_InitBacktrace, EV_FlushBacktrace, EV_Flush, EV_LogWithRuntimeMetadata, EV_LoggerRemovalRequest };
typedef struct BSs { size_t g_stores, g_processes, g_setcaps; } BSs;                   /* BacktraceStorage: call counters (units BS.*) */
typedef struct LoggerBase { LogLevel backtrace_flush_level; BSs* backtrace_storage; } LoggerBase;
typedef struct MacroMetadata { Event g_event; } MacroMetadata;
typedef struct FlushFlag { bool value; } FlushFlag;
typedef struct TE { MacroMetadata* macro_metadata; LoggerBase* logger_base; FlushFlag* flush_flag; LogLevel g_level; } TE;
typedef struct TCx { int dummy; } TCx;
typedef struct BW { int dummy; } BW;
size_t g_clock, g_dispatches, g_t_dispatch, g_t_bt_process, g_t_flush, g_flushes, g_new_storage;
Event MM_event(MacroMetadata* m) __CPROVER_requires(__CPROVER_is_fresh(m, sizeof(*m))) __CPROVER_assigns() __CPROVER_ensures(RET == m->g_event);
LogLevel TE_log_level(TE* te) __CPROVER_assigns() __CPROVER_ensures(RET == te->g_level);
int TC_thread_id(TCx* tc) __CPROVER_assigns() __CPROVER_ensures(1);
int TC_thread_name(TCx* tc) __CPROVER_assigns() __CPROVER_ensures(1);
void BW_dispatch(BW* self, TE* te, int tid, int tname) __CPROVER_assigns(g_dispatches, g_clock, g_t_dispatch, g_exc)
__CPROVER_ensures(g_dispatches == OLD(g_dispatches) + 1 && g_clock == OLD(g_clock) + 1 && g_t_dispatch == g_clock && (g_exc == 0 || g_exc == EXC_STD || g_exc == EXC_OTHER));
/* BacktraceStorage::process with a replay callback that contains its exceptions (unit BW.bt_dispatch): cannot throw */
void BS_process_via__dispatch_backtrace_transit_event_to_sinks(BSs* b, BW* self) __CPROVER_requires(__CPROVER_is_fresh(b, sizeof(*b))) __CPROVER_assigns(b->g_processes, g_clock, g_t_bt_process)
__CPROVER_ensures(b->g_processes == OLD(b->g_processes) + 1 && g_clock == OLD(g_clock) + 1 && g_t_bt_process == g_clock);
/* ... with the plain dispatcher as callback: a throwing sink aborts the replay and leaves the replayed statements stored */
bool g_replay_aborted;
void BS_process_via__dispatch_transit_event_to_sinks(BSs* b, BW* self) __CPROVER_requires(__CPROVER_is_fresh(b, sizeof(*b))) __CPROVER_assigns(b->g_processes, g_clock, g_t_bt_process, g_exc, g_replay_aborted)
__CPROVER_ensures(b->g_processes == OLD(b->g_processes) + 1 && g_clock == OLD(g_clock) + 1 && g_t_bt_process == g_clock && (g_exc == 0 || g_exc == EXC_STD || g_exc == EXC_OTHER) && g_replay_aborted == (g_exc != 0));
void BS_store(BSs* b, TE* copy, int tid, int tname) __CPROVER_requires(__CPROVER_is_fresh(b, sizeof(*b))) __CPROVER_assigns(b->g_stores) __CPROVER_ensures(b->g_stores == OLD(b->g_stores) + 1);
void BS_set_capacity(BSs* b, uint32_t c) __CPROVER_requires(__CPROVER_is_fresh(b, sizeof(*b))) __CPROVER_assigns(b->g_setcaps) __CPROVER_ensures(b->g_setcaps == OLD(b->g_setcaps) + 1);
BSs* BS_make(void) __CPROVER_assigns(g_new_storage) __CPROVER_ensures(__CPROVER_is_fresh(RET, sizeof(BSs)) && RET->g_stores == 0 && RET->g_processes == 0 && RET->g_setcaps == 0 && g_new_storage == OLD(g_new_storage) + 1);
uint32_t PARSE_CAPACITY(TE* te) __CPROVER_assigns(g_exc) __CPROVER_ensures(g_exc == 0 || g_exc == EXC_STD);
void TE_copy_to(TE* te, TE* other) __CPROVER_assigns(*other) __CPROVER_ensures(1);
void BW_flush_sinks(BW* self, bool periodic, int interval) __CPROVER_assigns(g_flushes, g_clock, g_t_flush, g_exc)
__CPROVER_ensures(g_flushes == OLD(g_flushes) + 1 && g_clock == OLD(g_clock) + 1 && g_t_flush == g_clock && g_exc == OLD(g_exc));
#define transit_event (*transit_event_p)
#define thread_context (*thread_context_p)
#define BW__dispatch_transit_event_to_sinks(self, te, a, b) BW_dispatch(self, &(te), a, b)
#define BW__flush_and_run_active_sinks(self, a, b) BW_flush_sinks(self, a, 0)
#define LV(te) ((te)->g_level)
#define LGR(te) ((te)->logger_base)
#define STO(te) ((te)->logger_base->backtrace_storage)
'''

PE_CONTRACT = r'''
__CPROVER_requires(__CPROVER_is_fresh(self, sizeof(*self)) && __CPROVER_is_fresh(thread_context_p, sizeof(TCx)) && __CPROVER_is_fresh(transit_event_p, sizeof(TE)) && __CPROVER_is_fresh(flush_flag_p, sizeof(FlushFlag*)))
__CPROVER_requires(__CPROVER_is_fresh(transit_event_p->macro_metadata, sizeof(MacroMetadata)) && __CPROVER_is_fresh(transit_event_p->logger_base, sizeof(LoggerBase)))
__CPROVER_requires(STO(transit_event_p) == NULL || __CPROVER_is_fresh(STO(transit_event_p), sizeof(BSs)))
__CPROVER_requires(g_exc == 0 && g_clock == 0 && g_dispatches == 0 && g_flushes == 0 && g_new_storage == 0 && !g_replay_aborted && g_t_dispatch == 0 && g_t_bt_process == 0 && *flush_flag_p == NULL)
__CPROVER_requires(LV(transit_event_p) <= LL_Dynamic && transit_event_p->macro_metadata->g_event <= EV_LoggerRemovalRequest && transit_event_p->logger_base->backtrace_flush_level <= LL_Dynamic)
__CPROVER_requires(STO(transit_event_p) != NULL ==> (STO(transit_event_p)->g_stores == 0 && STO(transit_event_p)->g_processes == 0 && STO(transit_event_p)->g_setcaps == 0))
__CPROVER_assigns(g_exc, g_clock, g_dispatches, g_t_dispatch, g_t_bt_process, g_t_flush, g_flushes, g_new_storage, g_replay_aborted, *flush_flag_p, transit_event_p->flush_flag, transit_event_p->logger_base->backtrace_storage)
__CPROVER_assigns(STO(transit_event_p) != NULL: __CPROVER_object_whole(STO(transit_event_p)))
#define EVT (transit_event_p->macro_metadata->g_event)
#define OLD_STO OLD(STO(transit_event_p))
__CPROVER_ensures((EVT == EV_Log && LV(transit_event_p) == LL_Backtrace) ==> g_dispatches == 0) /*@ C18 "a backtrace statement is not written when it is logged" */
__CPROVER_ensures((EVT == EV_Log && LV(transit_event_p) == LL_Backtrace && OLD_STO != NULL) ==> (STO(transit_event_p) == OLD_STO && STO(transit_event_p)->g_stores == 1 && STO(transit_event_p)->g_processes == 0 && g_exc == 0)) /*@ C18 "a backtrace statement is stored in its logger's backtrace storage, exactly once" */
__CPROVER_ensures((EVT == EV_Log && LV(transit_event_p) == LL_Backtrace && OLD_STO == NULL) ==> g_exc == EXC_STD) /*@ C10 "a backtrace statement without initialisation is reported as an error (std exception handled by the caller)" */
__CPROVER_ensures((EVT == EV_Log && LV(transit_event_p) != LL_Backtrace) ==> (g_dispatches == 1 && (OLD_STO == NULL || STO(transit_event_p)->g_stores == 0))) /*@ C18 "an ordinary statement is written once and never stored" */
__CPROVER_ensures((EVT == EV_Log && LV(transit_event_p) != LL_Backtrace && g_exc == 0 && OLD_STO != NULL) ==> (STO(transit_event_p)->g_processes == ((LV(transit_event_p) >= transit_event_p->logger_base->backtrace_flush_level) ? 1 : 0))) /*@ C18 "the stored backtrace of the statement's own logger is replayed exactly when the statement's level is at or above that logger's flush level" */
__CPROVER_ensures((EVT == EV_Log && LV(transit_event_p) != LL_Backtrace && g_exc == 0 && OLD_STO != NULL && STO(transit_event_p)->g_processes == 1) ==> g_t_dispatch < g_t_bt_process) /*@ C18 "the replay comes immediately after the triggering statement" */
__CPROVER_ensures((EVT == EV_FlushBacktrace && OLD_STO != NULL && g_exc == 0) ==> (STO(transit_event_p)->g_processes == 1 && g_dispatches == 0)) /*@ C18 "flush_backtrace() replays the stored statements of its logger" */
__CPROVER_ensures((EVT == EV_InitBacktrace && g_exc == 0) ==> (STO(transit_event_p) != NULL && STO(transit_event_p)->g_setcaps == 1 && g_new_storage == (OLD_STO == NULL ? 1 : 0) && (OLD_STO != NULL ==> STO(transit_event_p) == OLD_STO))) /*@ C18 "init_backtrace() creates the storage once and sets its capacity" */
__CPROVER_ensures(!g_replay_aborted) /*@ C10 "a sink that throws during a backtrace replay does not abort the replay (already replayed statements would be written again by the next flush)" */
__CPROVER_ensures(EVT == EV_Flush ==> (g_flushes == 1 && *flush_flag_p == OLD(transit_event_p->flush_flag) && transit_event_p->flush_flag == NULL && g_dispatches == 0)) /*@ C06 "a flush event flushes every active sink and only then hands the caller's flag back; the reused event forgets the flag" */
__CPROVER_ensures(EVT != EV_Flush ==> (g_flushes == 0 && *flush_flag_p == NULL)) /*@ C06 "no other event releases a flush caller" */
'''

process_event = dict(
    name='BW.process_event', primary='C18', props={'C18', 'C06', 'C10'}, kind='S',
    desc='BackendWorker::_process_transit_event: store vs dispatch vs replay decision, flush event handling',
    structs=[], prelude=PE_PRELUDE, enforce='BW__process_transit_event',
    replace=['MM_event', 'TE_log_level', 'TC_thread_id', 'TC_thread_name', 'BW_dispatch', 'BS_process_via__dispatch_backtrace_transit_event_to_sinks', 'BS_process_via__dispatch_transit_event_to_sinks', 'BS_store', 'BS_set_capacity', 'BS_make', 'PARSE_CAPACITY', 'TE_copy_to', 'BW_flush_sinks'],
    funcs=[dict(src=dict(header=H, cls='BackendWorker', name='_process_transit_event'), src_params=['thread_context', 'transit_event', 'flush_flag'],
                cfun='BW__process_transit_event', sig='void BW__process_transit_event(BW* self, TCx* thread_context_p, TE* transit_event_p, FlushFlag** flush_flag_p)',
                cls_c='BW', member_fields=[], siblings=['_dispatch_transit_event_to_sinks', '_flush_and_run_active_sinks'],
                atomics=['backtrace_flush_level'],
                methods={'event': 'MM_event', 'log_level': 'TE_log_level', 'thread_id': 'TC_thread_id', 'thread_name': 'TC_thread_name',
                         'store': 'BS_store', 'set_capacity': 'BS_set_capacity', 'copy_to': 'TE_copy_to'},
                pre_rules=[(r'(?<![.>\w])flush_flag\b', '(*flush_flag_p)', 1), (r'MacroMetadata::Event::(\w+)', r'EV_\1'), (r'LogLevel::(\w+)', r'LL_\1'),
                           (r'(\w+\.logger_base->backtrace_storage)->process\s*\(\s*\[this\]\([^()]*\)\s*\{\s*(\w+)\(te, thread_id, thread_name\);\s*\}\s*\)\s*;', r'BS_process_via_\2(\1, self);', 2),
                           (r'std::make_shared<BacktraceStorage>\(\)', 'BS_make()', 1),
                           (r'static_cast<uint32_t>\(std::stoul\(\s*std::string\{[^{}]*\}\)\)', 'PARSE_CAPACITY(&transit_event)', 1),
                           (r'TransitEvent\s+transit_event_copy\s*;', 'TE transit_event_copy;', 1),
                           (r'std::move\((\w+)\)', r'&\1', 1), (r'copy_to\(transit_event_copy\)', 'copy_to(&transit_event_copy)', 1),
                           (r'std::chrono::milliseconds\{0\}', '0', 1),
                           (r'throw\s*\(\s*QuillError\s*\{.*?\}\s*\)\s*;', 'throw(QuillError{"x"});', 1)],
                rules=[(r'ATOMIC_LOAD_backtrace_flush_level\((.*?), MO_RELAXED\)', r'((\1)->backtrace_flush_level)', 1)],
                exceptions=True, may_throw=['BW__dispatch_transit_event_to_sinks', 'BS_process_via__dispatch_transit_event_to_sinks', 'PARSE_CAPACITY'],
                contract=PE_CONTRACT)],
    harness='  BW* s; TCx* tc; TE* te; FlushFlag** ff; BW__process_transit_event(s, tc, te, ff);',
    dropped=['formatted message / named args of the event', 'the lambda passed to BacktraceStorage::process (it dispatches each replayed event: unit BS.process + BW.dispatch)', 'std::stoul text parsing of the capacity'],
    trusted=['BacktraceStorage methods by their counters (contracts: units BS.*)', '_dispatch_transit_event_to_sinks and _flush_and_run_active_sinks by contract (units BW.dispatch / BW.flush_sinks where present)'],
    min_obligations=50)

UNITS = [process_lowest, process_event]

# --------------------------------------------------------------------------------------------- _dispatch_backtrace_transit_event_to_sinks
BD_PRELUDE = r'''
typedef struct TE { int dummy; } TE; typedef struct BW { int dummy; } BW;
size_t g_notify_calls, g_dispatches; int g_thrown;
void BW_dispatch(BW* self, TE* te, int tid, int tname) __CPROVER_assigns(g_dispatches, g_exc, g_thrown)
__CPROVER_ensures(g_dispatches == OLD(g_dispatches) + 1 && (g_exc == 0 || g_exc == EXC_STD || g_exc == EXC_OTHER) && g_thrown == g_exc);
void ERROR_NOTIFIER(BW* self) __CPROVER_assigns(g_notify_calls) __CPROVER_ensures(g_notify_calls == OLD(g_notify_calls) + 1);
#define transit_event (*transit_event_p)
#define BW__dispatch_transit_event_to_sinks(self, te, a, b) BW_dispatch(self, &(te), a, b)
'''
bt_dispatch = dict(
    name='BW.bt_dispatch', primary='C10', props={'C10', 'C18'}, kind='S',
    desc='BackendWorker::_dispatch_backtrace_transit_event_to_sinks (the replay callback): a throwing sink is reported and contained per replayed statement',
    structs=[], prelude=BD_PRELUDE, enforce='BW__dispatch_backtrace_transit_event_to_sinks', replace=['BW_dispatch', 'ERROR_NOTIFIER'],
    funcs=[dict(src=dict(header=H, cls='BackendWorker', name='_dispatch_backtrace_transit_event_to_sinks'), src_params=['transit_event', 'thread_id', 'thread_name'],
                cfun='BW__dispatch_backtrace_transit_event_to_sinks', sig='void BW__dispatch_backtrace_transit_event_to_sinks(BW* self, TE* transit_event_p, int thread_id, int thread_name)',
                cls_c='BW', member_fields=[], siblings=['_dispatch_transit_event_to_sinks'],
                pre_rules=[(r'_options\.error_notifier\s*\([^;]*\)\s*;', 'ERROR_NOTIFIER(self);')],
                exceptions=True, may_throw=['BW__dispatch_transit_event_to_sinks'],
                contract=r'''
__CPROVER_requires(__CPROVER_is_fresh(self, sizeof(*self)) && __CPROVER_is_fresh(transit_event_p, sizeof(TE)) && g_exc == 0 && g_notify_calls == 0 && g_dispatches == 0 && g_thrown == 0)
__CPROVER_assigns(g_exc, g_notify_calls, g_dispatches, g_thrown)
__CPROVER_ensures(g_exc == 0) /*@ C10 "a sink that throws while a backtrace statement is replayed is contained: the replay continues with the next stored statement" */
__CPROVER_ensures(g_dispatches == 1 && g_notify_calls == (g_thrown != 0 ? 1 : 0)) /*@ C10 "the replayed statement is dispatched once and a failure is reported once" */
''')],
    harness='  BW* s; TE* te; int a, b; BW__dispatch_backtrace_transit_event_to_sinks(s, te, a, b);',
    dropped=['text passed to the notifier'], trusted=[], min_obligations=10)
UNITS.append(bt_dispatch)
