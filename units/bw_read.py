"""C03 / C09 / C10 / C05 — BackendWorker: reading a frontend queue into the per-thread transit buffer.
Control skeletons: callees are contract-only; byte addresses are integers (addr_t) because these functions never
dereference them (DESIGN §2.1 'addresses')."""

H = 'quill/backend/BackendWorker.h'

COMMON = r'''
typedef uintptr_t addr_t;
/* abstract frontend queue as the consumer sees it (justified by the C01/C02 contracts): g_avail = committed bytes
   visible to the consumer, g_base = address of the reader position */
typedef struct Q { size_t cap; size_t g_avail; size_t g_finished_records, g_finished_bytes, g_commit_calls; addr_t g_base; bool g_looked; } Q;
/* abstract backend buffer: ghost size and counters (unit family TEB.* proves the real buffer against this view) */
typedef struct TEBs { size_t g_size; size_t g_pushed; size_t g_popped; bool g_shrink_requested; } TEBs;
typedef struct TCx { TEBs* _transit_event_buffer; uint8_t _queue_type; } TCx;
typedef struct Options { size_t transit_events_hard_limit; size_t transit_events_soft_limit; bool has_error_notifier; } Options;
typedef struct BW { Options _options; } BW;
size_t g_populate_ok;      /* number of records decoded into a transit event */
size_t g_rec_size;         /* size of the record at the head of the queue (known only to the decoder) */
size_t Q_capacity(Q* q) __CPROVER_requires(__CPROVER_is_fresh(q, sizeof(*q))) __CPROVER_assigns() __CPROVER_ensures(RET == q->cap);
/* prepare_read: the producer may have committed more in the meantime; null iff nothing visible */
addr_t Q_prepare_read(Q* q)
__CPROVER_requires(__CPROVER_is_fresh(q, sizeof(*q)))
__CPROVER_assigns(q->g_avail, q->g_looked)
__CPROVER_ensures(q->g_avail >= OLD(q->g_avail) && q->g_avail <= q->cap && q->g_looked)
__CPROVER_ensures((RET == 0) == (q->g_avail == 0)) __CPROVER_ensures(RET != 0 ==> RET == q->g_base);
/* finish_read: only what was visible may be finished (C01 precondition), and a record has at least one byte */
void Q_finish_read(Q* q, size_t n)
__CPROVER_requires(__CPROVER_is_fresh(q, sizeof(*q)))
__CPROVER_requires(n > 0 && n <= q->g_avail) /*@ C03 "the backend consumes exactly the bytes of a record it decoded, never more than is visible" */
__CPROVER_assigns(q->g_avail, q->g_finished_records, q->g_finished_bytes, q->g_base)
__CPROVER_ensures(q->g_avail == OLD(q->g_avail) - n && q->g_finished_records == OLD(q->g_finished_records) + 1 && q->g_finished_bytes == OLD(q->g_finished_bytes) + n && q->g_base == OLD(q->g_base) + n);
void Q_commit_read(Q* q) __CPROVER_requires(__CPROVER_is_fresh(q, sizeof(*q))) __CPROVER_assigns(q->g_commit_calls) __CPROVER_ensures(q->g_commit_calls == OLD(q->g_commit_calls) + 1);
size_t TEB_size(TEBs* b) __CPROVER_requires(__CPROVER_is_fresh(b, sizeof(*b))) __CPROVER_assigns() __CPROVER_ensures(RET == b->g_size);
void TEB_request_shrink(TEBs* b) __CPROVER_requires(__CPROVER_is_fresh(b, sizeof(*b))) __CPROVER_assigns(b->g_shrink_requested) __CPROVER_ensures(b->g_shrink_requested);
'''

RD_PRELUDE = COMMON + r'''
/* _populate_transit_event_from_frontend_queue: decodes one whole record starting at *read_pos; it may refuse it
   (timestamp ahead of ts_now) or throw; contract = the postcondition of unit BW.populate */
bool BW_populate(BW* self, addr_t* read_pos, TCx* tc, uint64_t ts_now, Q* gq)
__CPROVER_requires(__CPROVER_is_fresh(read_pos, sizeof(*read_pos)) && __CPROVER_is_fresh(tc, sizeof(*tc)) && __CPROVER_is_fresh(tc->_transit_event_buffer, sizeof(TEBs)))
__CPROVER_requires(*read_pos == gq->g_base && gq->g_avail > 0) /*@ C03 "the decoder is started at the reader position of a non-empty queue" */
__CPROVER_assigns(*read_pos, g_exc, g_populate_ok, tc->_transit_event_buffer->g_pushed, tc->_transit_event_buffer->g_size, g_rec_size)
__CPROVER_ensures(g_exc == 0 || g_exc == EXC_STD || g_exc == EXC_OTHER)
__CPROVER_ensures((g_exc == 0 && RET) ==> (g_rec_size >= 1 && g_rec_size <= gq->g_avail && *read_pos == OLD(*read_pos) + g_rec_size && g_populate_ok == OLD(g_populate_ok) + 1 && tc->_transit_event_buffer->g_pushed == OLD(tc->_transit_event_buffer->g_pushed) + 1 && tc->_transit_event_buffer->g_size == OLD(tc->_transit_event_buffer->g_size) + 1))
__CPROVER_ensures((g_exc != 0 || !RET) ==> (g_populate_ok == OLD(g_populate_ok) && tc->_transit_event_buffer->g_pushed == OLD(tc->_transit_event_buffer->g_pushed) && tc->_transit_event_buffer->g_size == OLD(tc->_transit_event_buffer->g_size)));
/* _read_unbounded_frontend_queue (unbounded instantiation): prepare_read of the unbounded queue + notifications */
addr_t BW_read_unbounded(BW* self, Q* q, TCx* tc)
__CPROVER_requires(__CPROVER_is_fresh(q, sizeof(*q)))
__CPROVER_assigns(q->g_avail, q->g_looked, q->cap, g_exc)
__CPROVER_ensures(g_exc == 0 || g_exc == EXC_STD || g_exc == EXC_OTHER)
__CPROVER_ensures(q->g_avail <= q->cap && q->cap <= (((size_t)1) << 40) && q->g_looked)
__CPROVER_ensures((RET == 0) == (q->g_avail == 0)) __CPROVER_ensures(RET != 0 ==> RET == q->g_base);
#define frontend_queue (*frontend_queue_p)
#define BW__populate_transit_event_from_frontend_queue(self, rp, tc, ts) BW_populate(self, &(rp), tc, ts, frontend_queue_p)
#define BW__read_unbounded_frontend_queue(self, q, tc) BW_read_unbounded(self, &(q), tc)
'''

RD_CONTRACT = r'''
__CPROVER_requires(__CPROVER_is_fresh(self, sizeof(*self)) && __CPROVER_is_fresh(frontend_queue_p, sizeof(Q)) && __CPROVER_is_fresh(thread_context, sizeof(TCx)) && __CPROVER_is_fresh(thread_context->_transit_event_buffer, sizeof(TEBs)))
__CPROVER_requires(frontend_queue_p->g_base >= 4096 && frontend_queue_p->g_base <= (((size_t)1) << 47) && g_exc == 0 && frontend_queue_p->g_avail <= frontend_queue_p->cap && frontend_queue_p->cap <= (((size_t)1) << 40) && frontend_queue_p->g_finished_bytes <= (((size_t)1) << 62) && self->_options.transit_events_hard_limit >= 1)
__CPROVER_assigns(g_exc, g_populate_ok, g_rec_size, frontend_queue_p->g_avail, frontend_queue_p->cap, frontend_queue_p->g_looked, frontend_queue_p->g_finished_records, frontend_queue_p->g_finished_bytes, frontend_queue_p->g_commit_calls, frontend_queue_p->g_base, thread_context->_transit_event_buffer->g_pushed, thread_context->_transit_event_buffer->g_size)
__CPROVER_ensures(frontend_queue_p->g_finished_records - OLD(frontend_queue_p->g_finished_records) == g_populate_ok - OLD(g_populate_ok)) /*@ C03 "a record is consumed from the queue exactly when it was decoded into a transit event (refused or failing records stay in the queue, none is consumed twice)" */
__CPROVER_ensures(thread_context->_transit_event_buffer->g_pushed - OLD(thread_context->_transit_event_buffer->g_pushed) == g_populate_ok - OLD(g_populate_ok)) /*@ C03 "every decoded record is pushed to the thread's backend buffer exactly once" */
__CPROVER_ensures(g_exc == 0 ==> (frontend_queue_p->g_commit_calls - OLD(frontend_queue_p->g_commit_calls) == (frontend_queue_p->g_finished_bytes != OLD(frontend_queue_p->g_finished_bytes) ? 1 : 0))) /*@ C09 "a pass that consumed bytes commits the read position once, a pass that consumed nothing commits nothing" */
__CPROVER_ensures((g_exc == 0 && frontend_queue_p->g_finished_bytes == OLD(frontend_queue_p->g_finished_bytes) && thread_context->_transit_event_buffer->g_size == 0 && g_populate_ok == OLD(g_populate_ok)) ==> frontend_queue_p->g_looked) /*@ C05 "a pass can leave the buffer empty only after looking at the queue (limits cannot stop a pass before the first read)" */
__CPROVER_ensures(g_exc == 0 ==> RET == thread_context->_transit_event_buffer->g_size) /*@ C03 "the pass reports the number of buffered events of this thread" */
'''

RD_LOOP = {0: r'''
__CPROVER_assigns(total_bytes_read, g_exc, g_populate_ok, g_rec_size, frontend_queue_p->g_avail, frontend_queue_p->cap, frontend_queue_p->g_looked, frontend_queue_p->g_finished_records, frontend_queue_p->g_finished_bytes, frontend_queue_p->g_base, thread_context->_transit_event_buffer->g_pushed, thread_context->_transit_event_buffer->g_size)
__CPROVER_loop_invariant(g_exc == 0 && frontend_queue_p->g_avail <= frontend_queue_p->cap && frontend_queue_p->cap <= (((size_t)1) << 40)
  && frontend_queue_p->g_finished_records - __CPROVER_loop_entry(frontend_queue_p->g_finished_records) == g_populate_ok - __CPROVER_loop_entry(g_populate_ok)
  && thread_context->_transit_event_buffer->g_pushed - __CPROVER_loop_entry(thread_context->_transit_event_buffer->g_pushed) == g_populate_ok - __CPROVER_loop_entry(g_populate_ok)
  && frontend_queue_p->g_finished_bytes - __CPROVER_loop_entry(frontend_queue_p->g_finished_bytes) == total_bytes_read && total_bytes_read <= (((size_t)1) << 61)
  && (total_bytes_read == 0 ==> g_populate_ok == __CPROVER_loop_entry(g_populate_ok))
  && frontend_queue_p->g_base >= 4096 && frontend_queue_p->g_base <= (((size_t)1) << 47) + total_bytes_read)
'''}

DROPPED = ['byte addresses lowered to integers (never dereferenced here)', 'template parameter TFrontendQueue instantiated at BoundedSPSCQueue / UnboundedSPSCQueue (if constexpr arm chosen accordingly)', 'asserts (NDEBUG)']
TRUSTED = ['frontend queue abstracted to (capacity, visible bytes, reader address) with the C01/C02 consumer contracts (prepare_read null iff nothing visible; finish_read only what is visible)',
           'backend buffer abstracted to its size and push counter (units TEB.*)',
           '_populate_transit_event_from_frontend_queue assumed by the contract of unit BW.populate (a decoded record is 1..visible bytes long: C04 size accounting)']


def rd_unit(inst):
    unb = inst == 'unbounded'
    return dict(
        name='BW.read_decode[%s]' % inst, primary='C03', props={'C03', 'C09', 'C10', 'C05'}, kind='S',
        desc='BackendWorker::_read_and_decode_frontend_queue<%s>: records are consumed iff decoded, pushed once, read position committed iff bytes were read' % ('UnboundedSPSCQueue' if unb else 'BoundedSPSCQueue'),
        structs=[], prelude=RD_PRELUDE, enforce='BW__read_and_decode_frontend_queue',
        replace=['Q_capacity', 'Q_prepare_read', 'Q_finish_read', 'Q_commit_read', 'TEB_size', 'BW_populate', 'BW_read_unbounded'], loopcontracts=True,
        funcs=[dict(src=dict(header=H, cls='BackendWorker', name='_read_and_decode_frontend_queue'), src_params=['frontend_queue', 'thread_context', 'ts_now'],
                    cfun='BW__read_and_decode_frontend_queue', sig='size_t BW__read_and_decode_frontend_queue(BW* self, Q* frontend_queue_p, TCx* thread_context, uint64_t ts_now)',
                    ret_default='0', cls_c='BW', member_fields=['_options'],
                    siblings=['_populate_transit_event_from_frontend_queue', '_read_unbounded_frontend_queue'],
                    methods={'capacity': 'Q_capacity', 'prepare_read': 'Q_prepare_read', 'finish_read': 'Q_finish_read', 'commit_read': 'Q_commit_read', 'size': 'TEB_size'},
                    constexpr=lambda cond: {'std::is_same_v<TFrontendQueue, UnboundedSPSCQueue>': unb}[cond],
                    pre_rules=[(r'std::byte\s*(const\s*)?\*\s*(const\s*)?', 'addr_t '), (r'auto\s+const\s+bytes_read\s*=', 'size_t const bytes_read =', 1)],
                    exceptions=True, may_throw=['BW__populate_transit_event_from_frontend_queue', 'BW__read_unbounded_frontend_queue'],
                    loops=RD_LOOP, contract=RD_CONTRACT)],
        harness='  BW* s; Q* q; TCx* t; uint64_t ts; BW__read_and_decode_frontend_queue(s, q, t, ts);',
        dropped=DROPPED, trusted=TRUSTED, min_obligations=50)


# ------------------------------------------------------------------------ _read_unbounded_frontend_queue (C20: shrink request)
RU_PRELUDE = COMMON + r'''
typedef struct ReadResult { addr_t read_pos; size_t previous_capacity; size_t new_capacity; bool allocation; } ReadResult;
size_t g_notified;
ReadResult UQ_prepare_read(Q* q) __CPROVER_requires(__CPROVER_is_fresh(q, sizeof(*q))) __CPROVER_assigns(q->g_avail, q->g_looked);
void NOTIFY_ALLOCATION(BW* self, size_t new_capacity, size_t previous_capacity, TCx* tc) __CPROVER_assigns(g_notified, g_exc) __CPROVER_ensures(g_notified == OLD(g_notified) + 1) __CPROVER_ensures(g_exc == 0 || g_exc == EXC_STD || g_exc == EXC_OTHER);
#define frontend_queue (*frontend_queue_p)
ReadResult g_rr;
'''
read_unbounded = dict(
    name='BW.read_unbounded', primary='C20', props={'C20'}, kind='S',
    desc='BackendWorker::_read_unbounded_frontend_queue: when the producer switched to a smaller buffer (shrink) the backend buffer is asked to shrink too; the read position is passed through',
    structs=[], prelude=RU_PRELUDE, enforce='BW__read_unbounded_frontend_queue', replace=['UQ_prepare_read', 'TEB_request_shrink', 'NOTIFY_ALLOCATION'],
    funcs=[dict(src=dict(header=H, cls='BackendWorker', name='_read_unbounded_frontend_queue'), src_params=['frontend_queue', 'thread_context'],
                cfun='BW__read_unbounded_frontend_queue', sig='addr_t BW__read_unbounded_frontend_queue(BW* self, Q* frontend_queue_p, TCx* thread_context)',
                ret_default='0', cls_c='BW', member_fields=['_options'], methods={'prepare_read': 'UQ_prepare_read', 'request_shrink': 'TEB_request_shrink'},
                pre_rules=[(r'auto\s+const\s+read_result\s*=\s*frontend_queue\.prepare_read\(\)\s*;', 'ReadResult const read_result = g_rr = frontend_queue.prepare_read();', 1),
                           (r'if\s*\(\s*_options\.error_notifier\s*\)\s*\{.*?_options\.error_notifier\s*\(.*?\)\s*\)\s*;\s*\}', 'if (_options.has_error_notifier) { NOTIFY_ALLOCATION(self, read_result.new_capacity, read_result.previous_capacity, thread_context); }', 1)],
                exceptions=True, may_throw=['NOTIFY_ALLOCATION'],
                contract=r'''
__CPROVER_requires(__CPROVER_is_fresh(self, sizeof(*self)) && __CPROVER_is_fresh(frontend_queue_p, sizeof(Q)) && __CPROVER_is_fresh(thread_context, sizeof(TCx)) && g_exc == 0 && g_notified == 0)
__CPROVER_requires(thread_context->_transit_event_buffer == NULL || __CPROVER_is_fresh(thread_context->_transit_event_buffer, sizeof(TEBs)))
__CPROVER_assigns(g_exc, g_notified, g_rr, frontend_queue_p->g_avail, frontend_queue_p->g_looked)
__CPROVER_assigns(thread_context->_transit_event_buffer != NULL: thread_context->_transit_event_buffer->g_shrink_requested)
__CPROVER_ensures((g_rr.allocation && g_rr.new_capacity < g_rr.previous_capacity && thread_context->_transit_event_buffer != NULL) ==> thread_context->_transit_event_buffer->g_shrink_requested) /*@ C20 "a shrunk frontend queue makes the backend request shrinking of that thread's backend buffer" */
__CPROVER_ensures((thread_context->_transit_event_buffer != NULL && !(g_rr.allocation && g_rr.new_capacity < g_rr.previous_capacity)) ==> thread_context->_transit_event_buffer->g_shrink_requested == OLD(thread_context->_transit_event_buffer->g_shrink_requested)) /*@ C20 "no shrink request unless the queue was shrunk" */
__CPROVER_ensures(g_exc == 0 ==> RET == g_rr.read_pos) /*@ C03 "the read position of the unbounded queue is passed through unchanged" */
__CPROVER_ensures(g_exc == 0 ==> g_notified == ((g_rr.allocation && self->_options.has_error_notifier) ? 1 : 0)) /*@ C20 "a buffer switch is reported once through the notifier" */
''')],
    harness='  BW* s; Q* q; TCx* t; BW__read_unbounded_frontend_queue(s, q, t);',
    dropped=DROPPED + ['timestamp text of the notification (time/localtime/strftime/fmt)'], trusted=['UnboundedSPSCQueue::prepare_read returns an arbitrary ReadResult here (its own contract is unit UQ.prepare_read)'], min_obligations=20)

UNITS = [rd_unit('bounded'), rd_unit('unbounded'), read_unbounded]

# ------------------------------------------------------------------------ _populate_transit_event_from_frontend_queue (control skeleton)
PO_PRELUDE = r'''
typedef uintptr_t addr_t;
typedef uint8_t LogLevel;  enum { LL_TraceL3, LL_TraceL2, LL_TraceL1, LL_Debug, LL_Info, LL_Notice, LL_Warning, LL_Error, LL_Critical, LL_Backtrace, LL_None, LL_Dynamic };
typedef uint8_t Event;     enum { EV_Log, EV_InitBacktrace, EV_FlushBacktrace, EV_Flush, EV_LogWithRuntimeMetadata, EV_LoggerRemovalRequest };
typedef uint8_t ClockSourceType; enum { CS_Tsc, CS_System, CS_User };
typedef struct MacroMetadata { Event g_event; LogLevel g_level; } MacroMetadata;
typedef struct LoggerBase { ClockSourceType clock_source; } LoggerBase;
typedef struct TE { uint64_t timestamp; MacroMetadata* macro_metadata; LoggerBase* logger_base; LogLevel dynamic_log_level; } TE;
typedef struct TEBs { size_t g_pushed; size_t g_backs; TE slot; } TEBs;
typedef struct TCx { TEBs* _transit_event_buffer; } TCx;
typedef struct BW { int dummy; } BW;
MacroMetadata g_md; LoggerBase g_lg; uint64_t g_raw_ts, g_converted_ts; LogLevel g_level_in_record; size_t g_decodes, g_converts;
static inline Event MM_event(MacroMetadata* m) { return m->g_event; }
static inline LogLevel MM_log_level(MacroMetadata* m) { return m->g_level; }
/* back(): the slot the next event is decoded into (reused: its previous content is arbitrary) */
static inline TE* TEB_back(TEBs* b) { b->g_backs++; return &b->slot; }
void TEB_push_back(TEBs* b) __CPROVER_requires(__CPROVER_is_fresh(b, sizeof(*b))) __CPROVER_assigns(b->g_pushed) __CPROVER_ensures(b->g_pushed == OLD(b->g_pushed) + 1);
/* header slice (unit LG.encode_header fixes the layout): timestamp, metadata, logger */
static inline void READ_HEADER(addr_t* rp, TE* te) { te->timestamp = g_raw_ts; te->macro_metadata = &g_md; te->logger_base = &g_lg; *rp += 24; }
void CONVERT_TSC(BW* self, TE* te) __CPROVER_assigns(te->timestamp, g_converts) __CPROVER_ensures(te->timestamp == g_converted_ts && g_converts == OLD(g_converts) + 1);
/* decoder pointer + arguments + formatting (or flush flag / removal request payload): advances, may throw */
void DECODE_AND_FORMAT(BW* self, addr_t* rp, TE* te) __CPROVER_requires(__CPROVER_is_fresh(rp, sizeof(*rp))) __CPROVER_assigns(*rp, g_exc, g_decodes)
__CPROVER_ensures((g_exc == 0 || g_exc == EXC_STD || g_exc == EXC_OTHER) && g_decodes == OLD(g_decodes) + 1 && *rp >= OLD(*rp) + 8 && *rp <= OLD(*rp) + (((addr_t)1) << 33));
static inline LogLevel READ_LEVEL(addr_t rp) { return g_level_in_record; }
#define read_pos (*read_pos_p)
'''
populate = dict(
    name='BW.populate', primary='C05', props={'C05', 'C16', 'C03', 'C10'}, kind='S',
    desc='BackendWorker::_populate_transit_event_from_frontend_queue (control skeleton): admission against ts_now, level tail, push exactly when admitted',
    structs=[], prelude=PO_PRELUDE, enforce='BW__populate', replace=['TEB_push_back', 'CONVERT_TSC', 'DECODE_AND_FORMAT'],
    funcs=[dict(src=dict(header=H, cls='BackendWorker', name='_populate_transit_event_from_frontend_queue'), src_params=['read_pos', 'thread_context', 'ts_now'],
                cfun='BW__populate', sig='bool BW__populate(BW* self, addr_t* read_pos_p, TCx* thread_context, uint64_t ts_now)', ret_default='false',
                cls_c='BW', member_fields=[], methods={'back': 'TEB_back', 'push_back': 'TEB_push_back', 'event': 'MM_event', 'log_level': 'MM_log_level'},
                pre_rules=[(r'MacroMetadata::Event::(\w+)', r'EV_\1'), (r'LogLevel::(\w+)', r'LL_\1'), (r'ClockSourceType::(\w+)', r'CS_\1'),
                           (r'TransitEvent\s*\*\s*transit_event', 'TE* transit_event', 1),
                           (r'std::memcpy\(&transit_event->timestamp, read_pos.*?read_pos \+= sizeof\(transit_event->logger_base\)\s*;', 'READ_HEADER(&read_pos, transit_event);', 1),
                           (r'if\s*\(\s*\(\s*__builtin_expect\s*\(\s*\(\s*!_rdtsc_clock\.load.*?time_since_epoch\(transit_event->timestamp\)\s*;', 'CONVERT_TSC(self, transit_event);', 1),
                           (r'FormatArgsDecoder\s+format_args_decoder\s*;.*?(?=if\s*\(\s*transit_event->macro_metadata->log_level\(\)\s*==\s*LL_Dynamic\s*\))', 'DECODE_AND_FORMAT(self, &read_pos, transit_event);\n', 1),
                           (r'std::memcpy\(&transit_event->dynamic_log_level, read_pos, sizeof\(transit_event->dynamic_log_level\)\)\s*;', 'transit_event->dynamic_log_level = READ_LEVEL(read_pos);', 1)],
                exceptions=True, may_throw=['DECODE_AND_FORMAT'],
                contract=r'''
__CPROVER_requires(__CPROVER_is_fresh(self, sizeof(*self)) && __CPROVER_is_fresh(read_pos_p, sizeof(addr_t)) && __CPROVER_is_fresh(thread_context, sizeof(TCx)) && __CPROVER_is_fresh(thread_context->_transit_event_buffer, sizeof(TEBs)))
__CPROVER_requires(g_exc == 0 && *read_pos_p >= 4096 && *read_pos_p <= (((addr_t)1) << 47) && g_md.g_event <= EV_LoggerRemovalRequest && g_md.g_level <= LL_Dynamic && g_lg.clock_source <= CS_User && g_level_in_record <= LL_Dynamic && g_decodes == 0)
__CPROVER_assigns(*read_pos_p, g_exc, g_decodes, g_converts, thread_context->_transit_event_buffer->g_pushed, thread_context->_transit_event_buffer->g_backs, thread_context->_transit_event_buffer->slot)
#define SLOT (thread_context->_transit_event_buffer->slot)
#define EFFECTIVE_TS (g_lg.clock_source == CS_Tsc ? g_converted_ts : g_raw_ts)
__CPROVER_ensures((g_exc == 0 && RET) ==> (g_lg.clock_source == CS_User || ts_now == UINT64_MAX || EFFECTIVE_TS <= ts_now)) /*@ C05 "a statement is admitted to the backend buffer only if its timestamp is not ahead of the pass's time limit (grace period), unless the clock is user supplied or ordering is disabled" */
__CPROVER_ensures((g_exc == 0 && !RET) ==> (thread_context->_transit_event_buffer->g_pushed == OLD(thread_context->_transit_event_buffer->g_pushed) && g_decodes == 0)) /*@ C05 "a statement that is ahead of the limit is left in the queue untouched (not decoded, not pushed)" */
__CPROVER_ensures((g_exc == 0 && !RET) ==> (g_lg.clock_source != CS_User && ts_now != UINT64_MAX && EFFECTIVE_TS > ts_now)) /*@ C03 "a statement is held back only for the ordering reason, never otherwise" */
__CPROVER_ensures((g_exc == 0 && RET) ==> (thread_context->_transit_event_buffer->g_pushed == OLD(thread_context->_transit_event_buffer->g_pushed) + 1 && *read_pos_p >= OLD(*read_pos_p) + 32 && SLOT.timestamp == EFFECTIVE_TS && SLOT.macro_metadata == &g_md && SLOT.logger_base == &g_lg)) /*@ C03 "an admitted statement is pushed exactly once, with its own header, and its bytes are consumed" */
__CPROVER_ensures(g_exc != 0 ==> thread_context->_transit_event_buffer->g_pushed == OLD(thread_context->_transit_event_buffer->g_pushed)) /*@ C10 "a record whose decoding throws is not pushed" */
__CPROVER_ensures((g_exc == 0 && RET && g_md.g_level != LL_Dynamic) ==> SLOT.dynamic_log_level == LL_None) /*@ C16 "a static-level statement never inherits a dynamic level from the reused event slot" */
__CPROVER_ensures((g_exc == 0 && RET && g_md.g_level == LL_Dynamic) ==> (SLOT.dynamic_log_level == g_level_in_record && *read_pos_p >= OLD(*read_pos_p) + 33)) /*@ C16 "a dynamic-level statement carries exactly the level encoded after its arguments" */
''')],
    harness='  BW* s; addr_t* rp; TCx* t; uint64_t ts; BW__populate(s, rp, t, ts);',
    dropped=['the argument decoding / formatting / named-args section (one stub that advances the read position and may throw; units BW.fmt_msg, CD.*)', 'lazy RdtscClock creation', 'byte addresses as integers; header bytes (layout fixed by LG.encode_header)', 'debug-only digit-count assertion'],
    trusted=['header slice reads timestamp, metadata and logger (24 bytes) as written by _encode_header'], min_obligations=30)
UNITS.append(populate)

# ------------------------------------------------------------------------ header decoding slice of _populate_transit_event_from_frontend_queue (C04)
HS_PRELUDE = r'''
typedef struct MacroMetadata MacroMetadata; typedef struct LoggerBase LoggerBase;
typedef struct TE { uint64_t timestamp; MacroMetadata const* macro_metadata; LoggerBase* logger_base; } TE;
'''
header_slice = dict(
    name='BW.header_slice', primary='C04', props={'C04'}, kind='L',
    desc='the header-decoding statements of _populate_transit_event_from_frontend_queue: timestamp, metadata pointer and logger pointer are read from offsets 0, 8, 16 - exactly where LoggerImpl::_encode_header (unit LG.encode_header) writes them - and 24 bytes are consumed (the decoder pointer follows)',
    structs=[], prelude=HS_PRELUDE, enforce='BW_header_slice', replace=[],
    funcs=[dict(src=dict(header=H, cls='BackendWorker', name='_populate_transit_event_from_frontend_queue',
                         stmt_re=r'std::memcpy\(&transit_event->timestamp, read_pos.*?read_pos \+= sizeof\(transit_event->logger_base\)\s*;'),
                cfun='BW_header_slice', sig='unsigned char* BW_header_slice(unsigned char* read_pos, TE* transit_event)', member_fields=[],
                rules=[(r'\}\s*$', 'return read_pos;\n}')],
                contract=r'''
__CPROVER_requires(__CPROVER_is_fresh(read_pos, 32) && __CPROVER_is_fresh(transit_event, sizeof(TE)))
__CPROVER_assigns(__CPROVER_object_whole(transit_event))
__CPROVER_ensures(RET == OLD(read_pos) + 24) /*@ C04 "the backend consumes 8 + 2 pointer-sized header bytes before the decoder pointer" */
__CPROVER_ensures(transit_event->timestamp == *(uint64_t*)OLD(read_pos) && (uintptr_t)transit_event->macro_metadata == *(uintptr_t*)(OLD(read_pos) + 8) && (uintptr_t)transit_event->logger_base == *(uintptr_t*)(OLD(read_pos) + 16)) /*@ C04 "header fields are read in the order and at the offsets the frontend wrote them" */
''')],
    harness='  unsigned char* p; TE* te; BW_header_slice(p, te);',
    dropped=['everything of the function outside the three header reads'], trusted=[], min_obligations=10)
UNITS.append(header_slice)

# ------------------------------------------------------------------------ control-request arms of _populate_transit_event_from_frontend_queue (C06 / C17)
CA_PRELUDE = r'''
typedef uint8_t Event;     enum { EV_Log, EV_InitBacktrace, EV_FlushBacktrace, EV_Flush, EV_LogWithRuntimeMetadata, EV_LoggerRemovalRequest };
typedef struct MM { Event g_event; } MM;
typedef struct FlagObj { bool v; } FlagObj;                /* std::atomic<bool> of the caller */
typedef struct TE { MM* macro_metadata; FlagObj* flush_flag; } TE;
typedef struct BW { int dummy; } BW;
typedef struct SV { unsigned char const* d; size_t n; } SV;
static inline Event MM_event(MM* m) { return m->g_event; }
/* Codec<std::string>::decode_arg (unit CD.roundtrip[std::string]): [uint32 length][bytes]; the view points into the record */
static inline SV DECODE_STRING(unsigned char** rp) { uint32_t len; memcpy(&len, *rp, sizeof(len)); SV v; v.d = *rp + sizeof(len); v.n = len; *rp += sizeof(len) + len; return v; }
size_t g_emplaces; unsigned char const* g_emplaced_name; size_t g_emplaced_name_n; FlagObj* g_emplaced_flag;
void REMOVAL_FLAGS_EMPLACE(BW* self, SV name, FlagObj* flag) __CPROVER_assigns(g_emplaces, g_emplaced_name, g_emplaced_name_n, g_emplaced_flag)
__CPROVER_ensures(g_emplaces == OLD(g_emplaces) + 1 && g_emplaced_name == name.d && g_emplaced_name_n == name.n && g_emplaced_flag == flag);
'''
control_arms = dict(
    name='BW.control_arms', primary='C06', props={'C06', 'C17'}, kind='L',
    desc='the Flush and LoggerRemovalRequest arms of _populate_transit_event_from_frontend_queue: the flag address the caller encoded is the one the event carries (flush) / is registered under the logger name that follows it in the record (removal); the record is consumed exactly',
    structs=[], prelude=CA_PRELUDE, enforce='BW_control_arms', replace=['REMOVAL_FLAGS_EMPLACE'],
    funcs=[dict(src=dict(header=H, cls='BackendWorker', name='_populate_transit_event_from_frontend_queue',
                         stmt_re=r'if \(transit_event->macro_metadata->event\(\) == MacroMetadata::Event::Flush\)\s*\{.*?_logger_removal_flags\.emplace\([^;]*\);\s*\}'),
                cfun='BW_control_arms', sig='unsigned char* BW_control_arms(BW* self, unsigned char* read_pos, TE* transit_event)', cls_c='BW', member_fields=[], methods={'event': 'MM_event'},
                pre_rules=[(r'MacroMetadata::Event::(\w+)', r'EV_\1'), (r'std::atomic<bool>\s*\*', 'FlagObj*'),
                           (r'std::string_view\s+const\s+logger_name\s*=\s*Codec<std::string>::decode_arg\(read_pos\)\s*;', 'SV const logger_name = DECODE_STRING(&read_pos);'),
                           (r'_logger_removal_flags\.emplace\(std::string\{logger_name\},\s*', 'REMOVAL_FLAGS_EMPLACE(self, logger_name, ')],
                rules=[(r'\}\s*$', 'return read_pos;\n}')],
                contract=r'''
__CPROVER_requires(__CPROVER_is_fresh(self, sizeof(*self)) && __CPROVER_is_fresh(read_pos, 64) && __CPROVER_is_fresh(transit_event, sizeof(TE)) && __CPROVER_is_fresh(transit_event->macro_metadata, sizeof(MM)))
__CPROVER_requires((transit_event->macro_metadata->g_event == EV_Flush || transit_event->macro_metadata->g_event == EV_LoggerRemovalRequest) && *(uint32_t*)(read_pos + 8) <= 32 && g_emplaces == 0)
__CPROVER_assigns(transit_event->flush_flag, g_emplaces, g_emplaced_name, g_emplaced_name_n, g_emplaced_flag)
__CPROVER_ensures(transit_event->macro_metadata->g_event == EV_Flush ==> ((uintptr_t)transit_event->flush_flag == *(uintptr_t*)OLD(read_pos) && RET == OLD(read_pos) + sizeof(uintptr_t) && g_emplaces == 0)) /*@ C06 "a flush event carries exactly the flag address its caller encoded: the backend later sets the very flag flush_log() waits on" */
__CPROVER_ensures(transit_event->macro_metadata->g_event == EV_LoggerRemovalRequest ==> (g_emplaces == 1 && (uintptr_t)g_emplaced_flag == *(uintptr_t*)OLD(read_pos) && g_emplaced_name == OLD(read_pos) + 12 && g_emplaced_name_n == *(uint32_t*)(OLD(read_pos) + 8))) /*@ C17 "a removal request registers the caller's flag under the logger name that follows it in the record" */
__CPROVER_ensures(transit_event->macro_metadata->g_event == EV_LoggerRemovalRequest ==> RET == OLD(read_pos) + 12 + *(uint32_t*)(OLD(read_pos) + 8)) /*@ C17 "the removal request is consumed exactly (flag, length, name)" */
''')],
    harness='  BW* s; unsigned char* p; TE* te; BW_control_arms(s, p, te);',
    dropped=['assert (NDEBUG)', 'the unordered_map of removal flags (one emplace stub); std::string{logger_name} copies the name'],
    trusted=['Codec<std::string>::decode_arg by an executable restatement (unit CD.roundtrip[std::string])', 'names of at most 32 bytes in a 64-byte record (the arithmetic does not depend on the length)'], min_obligations=10)
UNITS.append(control_arms)
