"""C16 / C03 / C06 / C10 — sink side: Sink::apply_all_filters, BackendWorker::_write_log_statement,
_flush_and_run_active_sinks, _populate_formatted_log_message / _populate_formatted_named_args."""

SH = 'quill/sinks/Sink.h'
H = 'quill/backend/BackendWorker.h'

ENUMS = r'''
typedef uint8_t LogLevel;  enum { LL_TraceL3, LL_TraceL2, LL_TraceL1, LL_Debug, LL_Info, LL_Notice, LL_Warning, LL_Error, LL_Critical, LL_Backtrace, LL_None, LL_Dynamic };
typedef uint8_t Event;     enum { EV_Log, EV_InitBacktrace, EV_FlushBacktrace, EV_Flush, EV_LogWithRuntimeMetadata, EV_LoggerRemovalRequest };
'''

# ------------------------------------------------------------------------------------------ Sink::apply_all_filters
SK_STRUCT = dict(c='SK', header=SH, cls='Sink', only=['_local_filters', '_global_filters', '_global_filters_lock', '_new_filter', '_log_level'],
                 typemap={'std::vector<Filter*>': 'FVec', 'std::vector<std::unique_ptr<Filter>>': 'FVec', 'detail::Spinlock': 'Spinlock', 'LogLevel': 'LogLevel'})
SK_PRELUDE = ENUMS + r'''
typedef struct Filter { bool g_accepts; } Filter;         /* what this filter answers for the statement at hand */
typedef struct Spinlock { int dummy; } Spinlock;
/* filter collection: one arbitrary tracked filter at index g_p and one representative of all the others (a conjunction
   visits the representative idempotently) */
typedef struct FVec { size_t n; size_t g_p; Filter* tracked; Filter* other; } FVec;
@STRUCT:SK@
static inline size_t FVec_size(FVec* v) { return v->n; }
static inline bool FVec_empty(FVec* v) { return v->n == 0; }
static inline Filter* FVec_get(FVec* v, size_t i) { return i == v->g_p ? v->tracked : v->other; }
static inline void FVec_push(FVec* v, Filter* f) { if (v->n == v->g_p) v->tracked = f; else v->other = f; v->n++; }
static inline void FVec_clear(FVec* v) { v->n = 0; }
#define HAS_TRACKED(v) ((v)->g_p < (v)->n)
#define HAS_OTHER(v) ((v)->n > 1 || ((v)->n == 1 && (v)->g_p >= 1))
#define ALL_ACCEPT(v) ((!HAS_TRACKED(v) || (v)->tracked->g_accepts) && (!HAS_OTHER(v) || (v)->other->g_accepts))
bool g_locked; size_t g_all_of_calls;
void LOCK_GUARD(Spinlock* l) __CPROVER_assigns(g_locked) __CPROVER_ensures(g_locked);
/* std::all_of over the local filters with the filter lambda: the conjunction of the filters' answers */
bool ALL_OF_FILTERS(FVec* v) __CPROVER_assigns(g_all_of_calls) __CPROVER_ensures(RET == ALL_ACCEPT(v) && g_all_of_calls == OLD(g_all_of_calls) + 1);
#define ATOMIC_LOAD__log_level(s, mo) ((s)->_log_level)
#define ATOMIC_LOAD__new_filter(s, mo) ((s)->_new_filter)
#define ATOMIC_STORE__new_filter(s, v, mo) ((s)->_new_filter = (v))
#define G_(s) (&(s)->_global_filters)
#define L_(s) (&(s)->_local_filters)
'''
apply_filters = dict(
    name='SK.apply_filters', primary='C16', props={'C16'}, kind='S',
    desc='Sink::apply_all_filters: accepted iff level >= the sink level filter and every attached filter accepts; newly added filters are picked up first',
    structs=[SK_STRUCT], prelude=SK_PRELUDE, enforce='SK_apply_all_filters', replace=['LOCK_GUARD', 'ALL_OF_FILTERS'], loopcontracts=True,
    funcs=[dict(src=dict(header=SH, cls='Sink', name='apply_all_filters'), struct='SK',
                src_params=['log_metadata', 'log_timestamp', 'thread_id', 'thread_name', 'logger_name', 'log_level', 'log_message', 'log_statement'],
                cfun='SK_apply_all_filters', sig='bool SK_apply_all_filters(SK* self, LogLevel log_level)', cls_c='SK',
                methods={'clear': 'FVec_clear', 'push_back': 'FVec_push', 'empty': 'FVec_empty'},
                range_for=[(r'_global_filters', 'FVec_size', 'FVec_get', 'Filter*')],
                pre_rules=[(r'detail::LockGuard\s+const\s+lock\s*\{\s*_global_filters_lock\s*\}\s*;', 'LOCK_GUARD(&_global_filters_lock);', 1),
                           (r'filter\.get\(\)', 'filter', 1),
                           (r'std::all_of\s*\(\s*_local_filters\.begin\(\)\s*,\s*_local_filters\.end\(\)\s*,\s*\[.*?\}\s*\)\s*;', 'ALL_OF_FILTERS(&_local_filters);', 1)],
                loops={0: r'''
__CPROVER_assigns(__i0, self->_local_filters.n, self->_local_filters.tracked, self->_local_filters.other)
__CPROVER_loop_invariant(__i0 <= self->_global_filters.n && self->_local_filters.n == __i0)
__CPROVER_loop_invariant((__i0 > self->_global_filters.g_p) ==> self->_local_filters.tracked == self->_global_filters.tracked)
__CPROVER_loop_invariant((__i0 > 1 || (__i0 == 1 && self->_global_filters.g_p >= 1)) ==> self->_local_filters.other == self->_global_filters.other)
__CPROVER_decreases(self->_global_filters.n - __i0)
'''},
                contract=r'''
__CPROVER_requires(__CPROVER_is_fresh(self, sizeof(*self)) && __CPROVER_is_fresh(self->_global_filters.tracked, sizeof(Filter)) && __CPROVER_is_fresh(self->_global_filters.other, sizeof(Filter)) && __CPROVER_is_fresh(self->_local_filters.tracked, sizeof(Filter)) && __CPROVER_is_fresh(self->_local_filters.other, sizeof(Filter)))
__CPROVER_requires(self->_local_filters.g_p == self->_global_filters.g_p && log_level <= LL_Dynamic && self->_log_level <= LL_Dynamic && g_all_of_calls == 0)
__CPROVER_assigns(self->_local_filters.n, self->_local_filters.tracked, self->_local_filters.other, self->_new_filter, g_locked, g_all_of_calls)
__CPROVER_ensures(log_level < self->_log_level ==> !RET) /*@ C16 "a statement below the sink's level filter is not written to that sink" */
__CPROVER_ensures((log_level >= self->_log_level && OLD(self->_new_filter)) ==> (RET == ALL_ACCEPT(G_(self)) && !self->_new_filter)) /*@ C16 "after a filter was added, the statement is written iff every attached filter (the new one included) accepts it" */
__CPROVER_ensures((log_level >= self->_log_level && !OLD(self->_new_filter)) ==> RET == ALL_ACCEPT(L_(self))) /*@ C16 "the statement is written iff every filter of the sink accepts it" */
''')],
    harness='  SK* s; LogLevel l; SK_apply_all_filters(s, l);',
    dropped=['the statement attributes passed to each filter (a filter is an arbitrary predicate of them: its answer is the ghost g_accepts)', 'LockGuard RAII unlock', 'unique_ptr ownership of the global filters'],
    trusted=['filter collections abstracted to {one tracked filter, one representative of the others}; std::all_of = conjunction'], min_obligations=30)

# ------------------------------------------------------------------------------------------ Sink::add_filter
AF_PRELUDE = SK_PRELUDE + r"""
bool g_dup;                       /* ghost: a filter with the same name is already attached (answer of the std::find_if over the names) */
size_t g_clock, g_t_lock, g_t_push, g_t_flag, g_pushes; Filter* g_pushed_filter;
void LOCK_GUARD_T(Spinlock* l) __CPROVER_assigns(g_locked, g_clock, g_t_lock) __CPROVER_ensures(g_locked && g_clock == OLD(g_clock) + 1 && g_t_lock == g_clock);
static inline bool NAME_EXISTS(SK* s, Filter* f) { return g_dup; }
void FVec_push_T(FVec* v, Filter* f) __CPROVER_requires(g_locked) /*@ C16 "the shared filter list is only changed under its lock" */
__CPROVER_assigns(v->n, g_pushes, g_pushed_filter, g_clock, g_t_push) __CPROVER_ensures(v->n == OLD(v->n) + 1 && g_pushes == OLD(g_pushes) + 1 && g_pushed_filter == f && g_clock == OLD(g_clock) + 1 && g_t_push == g_clock);
void FLAG_store(SK* s, bool v, int mo) __CPROVER_requires(g_locked) /*@ C16 "the new-filter flag is raised before the lock is released (the release of the lock publishes it together with the list)" */
__CPROVER_assigns(s->_new_filter, g_clock, g_t_flag) __CPROVER_ensures(s->_new_filter == v && g_clock == OLD(g_clock) + 1 && g_t_flag == g_clock);
#undef ATOMIC_STORE__new_filter
#define ATOMIC_STORE__new_filter(s, v, mo) FLAG_store(s, v, mo)
"""
add_filter = dict(
    name='SK.add_filter', primary='C16', props={'C16'}, kind='S',
    desc='Sink::add_filter: under the lock the filter is appended and then the new-filter flag raised, so the next statement the backend filters for this sink sees it; a duplicate name is rejected and changes nothing',
    structs=[SK_STRUCT], prelude=AF_PRELUDE, enforce='SK_add_filter', replace=['LOCK_GUARD_T', 'FVec_push_T', 'FLAG_store'],
    funcs=[dict(src=dict(header=SH, cls='Sink', name='add_filter'), struct='SK', src_params=['filter'], cfun='SK_add_filter', sig='void SK_add_filter(SK* self, Filter* filter)', cls_c='SK',
                methods={'push_back': 'FVec_push_T'}, exceptions=True, may_throw=[],
                pre_rules=[(r'detail::LockGuard\s+const\s+lock\s*\{\s*_global_filters_lock\s*\}\s*;', 'LOCK_GUARD_T(&_global_filters_lock);', 1),
                           (r'auto\s+const\s+search_filter_it\s*=\s*std::find_if\s*\(.*?\}\s*\)\s*;', 'bool const search_found = NAME_EXISTS(self, filter);', 1),
                           (r'search_filter_it\s*!=\s*_global_filters\.cend\(\)', 'search_found', 1),
                           (r'std::move\(filter\)', 'filter', 1),
                           (r'throw\s*\(?\s*QuillError\s*\{.*?\}\s*\)?\s*;', 'throw(QuillError{"x"});', 1)],
                contract=r"""
__CPROVER_requires(__CPROVER_is_fresh(self, sizeof(*self)) && g_exc == 0 && !g_locked && g_clock == 0 && g_pushes == 0 && self->_global_filters.n < 1000000)
__CPROVER_assigns(self->_global_filters.n, self->_new_filter, g_locked, g_exc, g_clock, g_t_lock, g_t_push, g_t_flag, g_pushes, g_pushed_filter)
__CPROVER_ensures(g_dup ==> (g_exc == EXC_STD && g_pushes == 0 && self->_new_filter == OLD(self->_new_filter))) /*@ C16 "a second filter with the same name is rejected and nothing changes" */
__CPROVER_ensures(!g_dup ==> (g_exc == 0 && g_pushes == 1 && g_pushed_filter == filter && self->_global_filters.n == OLD(self->_global_filters.n) + 1)) /*@ C16 "the filter is attached to this sink exactly once" */
__CPROVER_ensures(!g_dup ==> self->_new_filter) /*@ C16 "after add_filter returns the new-filter flag is up (raised under the same lock that guards the list, in either order): the backend refreshes its copy before it filters the next statement for this sink" */
""")],
    harness='  SK* s; Filter* f; SK_add_filter(s, f);',
    dropped=['comparison of filter names (std::find_if) as a ghost answer', 'LockGuard RAII unlock at scope exit (also on the throw path)', 'unique_ptr ownership'],
    trusted=['Spinlock acquire / release (units SP.lock, SP.unlock) order the relaxed flag store with the list for the backend, which reads the flag and then takes the same lock (unit SK.apply_filters)'], min_obligations=15)

# ------------------------------------------------------------------------------------------ _write_log_statement
WS_PRELUDE = ENUMS + r"""
/* a PatternFormatter is represented by a non-zero integer id (0 = null shared_ptr); format() returns the id of its
   formatter as the 'text' (a formatter's output is a function of the formatter and the statement) */
typedef int PFid;
typedef struct Sink { bool has_override_options; PFid _override_pattern_formatter; bool g_filter_answer; size_t g_writes; int g_written_text; size_t g_filter_calls; LogLevel g_level_written; } Sink;
typedef struct SVec { size_t n; size_t g_p; Sink* tracked; Sink* other; } SVec;
typedef struct LoggerBase { PFid pattern_formatter; SVec sinks; } LoggerBase;
typedef struct TE { LoggerBase* logger_base; LogLevel g_level; } TE;
typedef struct BW { int dummy; } BW;
static inline size_t SVec_size(SVec* v) { return v->n; }
static inline Sink* SVec_get(SVec* v, size_t i) { return i == v->g_p ? v->tracked : v->other; }
size_t g_new_formatters;
static inline int PF_format(PFid f) { __CPROVER_assert(f != 0, "format() is called on an existing formatter"); return f; }
static inline LogLevel TE_log_level(TE* te) { return te->g_level; }
bool SINK_apply_all_filters(Sink* s, LogLevel lvl) __CPROVER_requires(__CPROVER_is_fresh(s, sizeof(*s))) __CPROVER_assigns(s->g_filter_calls) __CPROVER_ensures(RET == s->g_filter_answer && s->g_filter_calls == OLD(s->g_filter_calls) + 1);
PFid PF_make(Sink* s) __CPROVER_assigns(g_new_formatters) __CPROVER_ensures(RET == 7777 && g_new_formatters == OLD(g_new_formatters) + 1);
void SINK_write_log(Sink* s, LogLevel lvl, int text) __CPROVER_requires(__CPROVER_is_fresh(s, sizeof(*s))) __CPROVER_assigns(s->g_writes, s->g_written_text, s->g_level_written, g_exc)
__CPROVER_ensures(s->g_writes == OLD(s->g_writes) + 1 && s->g_written_text == text && s->g_level_written == lvl && (g_exc == 0 || g_exc == EXC_STD));
#define transit_event (*transit_event_p)
#define T_(te) ((te)->logger_base->sinks.tracked)
#define O_(te) ((te)->logger_base->sinks.other)
#define OVR_TEXT(s) ((s)->_override_pattern_formatter)
"""
WS_ASSIGNS = 'g_exc, g_new_formatters, T_(transit_event_p)->g_writes, T_(transit_event_p)->g_written_text, T_(transit_event_p)->g_level_written, T_(transit_event_p)->g_filter_calls, T_(transit_event_p)->_override_pattern_formatter, O_(transit_event_p)->g_writes, O_(transit_event_p)->g_written_text, O_(transit_event_p)->g_level_written, O_(transit_event_p)->g_filter_calls, O_(transit_event_p)->_override_pattern_formatter'
write_stmt = dict(
    name='BW.write_stmt', primary='C16', props={'C16', 'C03', 'C12'}, kind='S',
    desc='BackendWorker::_write_log_statement: each sink of the logger, independently, gets exactly one write iff its own filters accept; text from the sink\'s override formatter if it has one, else the logger\'s',
    structs=[], prelude=WS_PRELUDE, enforce='BW__write_log_statement', replace=['SINK_apply_all_filters', 'PF_make', 'SINK_write_log'], loopcontracts=True,
    funcs=[dict(src=dict(header=H, cls='BackendWorker', name='_write_log_statement'),
                src_params=['transit_event', 'thread_id', 'thread_name', 'log_level_description', 'log_level_short_code', 'log_message'],
                cfun='BW__write_log_statement', sig='void BW__write_log_statement(BW* self, TE* transit_event_p)', cls_c='BW', member_fields=[],
                range_for=[(r'transit_event\.logger_base->sinks', 'SVec_size', 'SVec_get', 'Sink*')],
                pre_rules=[(r'std::string_view\s+const\s+log_statement\s*=\s*transit_event\.logger_base->pattern_formatter->format\s*\(.*?\)\s*;', 'int const log_statement = PF_format(transit_event.logger_base->pattern_formatter);', 1),
                           (r'sink->apply_all_filters\s*\(.*?log_statement\s*\)', 'SINK_apply_all_filters(sink, TE_log_level(&transit_event))', 1),
                           (r'std::string_view\s+log_to_write', 'int log_to_write', 1),
                           (r'std::make_shared<PatternFormatter>\(\*sink->_override_pattern_formatter_options\)', 'PF_make(sink)', 1),
                           (r'sink->_override_pattern_formatter_options\b', 'sink->has_override_options'),
                           (r'sink->_override_pattern_formatter->format\s*\(.*?log_message\s*\)\s*;', 'PF_format(sink->_override_pattern_formatter);', 1),
                           (r'sink->write_log\s*\(.*?log_to_write\s*\)\s*;', 'SINK_write_log(sink, TE_log_level(&transit_event), log_to_write);', 1)],
                exceptions=True, may_throw=['SINK_write_log'],
                loops={0: r"""
__CPROVER_assigns(__i0, """ + WS_ASSIGNS + r""")
__CPROVER_loop_invariant(__i0 <= transit_event_p->logger_base->sinks.n && g_exc == 0)
__CPROVER_loop_invariant(T_(transit_event_p)->g_filter_calls == (__i0 > transit_event_p->logger_base->sinks.g_p ? 1 : 0))
__CPROVER_loop_invariant(T_(transit_event_p)->g_writes == ((__i0 > transit_event_p->logger_base->sinks.g_p && T_(transit_event_p)->g_filter_answer) ? 1 : 0))
__CPROVER_loop_invariant((T_(transit_event_p)->g_writes == 1) ==> (T_(transit_event_p)->g_level_written == transit_event_p->g_level && (T_(transit_event_p)->has_override_options ? (OVR_TEXT(T_(transit_event_p)) != 0 && T_(transit_event_p)->g_written_text == OVR_TEXT(T_(transit_event_p))) : T_(transit_event_p)->g_written_text == transit_event_p->logger_base->pattern_formatter)))
__CPROVER_decreases(transit_event_p->logger_base->sinks.n - __i0)
"""},
                contract=r"""
__CPROVER_requires(__CPROVER_is_fresh(self, sizeof(*self)) && __CPROVER_is_fresh(transit_event_p, sizeof(TE)) && __CPROVER_is_fresh(transit_event_p->logger_base, sizeof(LoggerBase)))
__CPROVER_requires(__CPROVER_is_fresh(T_(transit_event_p), sizeof(Sink)) && __CPROVER_is_fresh(O_(transit_event_p), sizeof(Sink)) && transit_event_p->logger_base->sinks.g_p < transit_event_p->logger_base->sinks.n)
__CPROVER_requires(g_exc == 0 && T_(transit_event_p)->g_writes == 0 && T_(transit_event_p)->g_filter_calls == 0 && transit_event_p->g_level <= LL_Dynamic && transit_event_p->logger_base->pattern_formatter != 0 && transit_event_p->logger_base->pattern_formatter != 7777)
__CPROVER_assigns(""" + WS_ASSIGNS + r""")
__CPROVER_ensures(g_exc == 0 ==> T_(transit_event_p)->g_writes == (T_(transit_event_p)->g_filter_answer ? 1 : 0)) /*@ C16 "every sink of the logger is written exactly once iff its own level filter and filters accept the statement, independently of the other sinks" */
__CPROVER_ensures((g_exc == 0 && T_(transit_event_p)->g_writes == 1) ==> T_(transit_event_p)->g_level_written == transit_event_p->g_level) /*@ C16 "the sink is told the statement's effective level (dynamic level included)" */
__CPROVER_ensures((g_exc == 0 && T_(transit_event_p)->g_writes == 1 && !T_(transit_event_p)->has_override_options) ==> T_(transit_event_p)->g_written_text == transit_event_p->logger_base->pattern_formatter) /*@ C16,C12 "a sink without an override pattern receives the line formatted with the logger's pattern" */
__CPROVER_ensures((g_exc == 0 && T_(transit_event_p)->g_writes == 1 && T_(transit_event_p)->has_override_options) ==> (OVR_TEXT(T_(transit_event_p)) != 0 && T_(transit_event_p)->g_written_text == OVR_TEXT(T_(transit_event_p)))) /*@ C16,C12 "a sink with an override pattern receives the line formatted with its own pattern" */
__CPROVER_ensures(T_(transit_event_p)->g_writes <= 1) /*@ C03 "no sink is written twice for one statement, even when another sink throws" */
""")],
    harness='  BW* s; TE* te; BW__write_log_statement(s, te);',
    dropped=['all statement attributes passed to format/filters/write_log (opaque)', 'shared_ptr ownership of sinks and formatters (a formatter is an integer id)'],
    trusted=['sink list abstracted to {one tracked sink, one representative of the others}', 'Sink::apply_all_filters by its contract (unit SK.apply_filters)', 'PatternFormatter::format is a function of the formatter (its output id)'],
    min_obligations=50)

UNITS = [apply_filters, add_filter, write_stmt]

# ------------------------------------------------------------------------------------------ _flush_and_run_active_sinks
FS_PRELUDE = r'''
typedef struct Sink { size_t g_flushes; size_t g_periodic; bool g_flush_throws; } Sink;
typedef struct SVec { size_t n; size_t g_p; Sink* tracked; Sink* other; } SVec;
typedef struct BW { SVec _active_sinks_cache; int64_t _last_sink_flush_time; } BW;
static inline size_t SVec_size(SVec* v) { return v->n; }
static inline Sink* SVec_get(SVec* v, size_t i) { return i == v->g_p ? v->tracked : v->other; }
static inline void SVec_clear(SVec* v) { v->n = 0; }
size_t g_notify_calls, g_collects, g_n_collected; int64_t g_now;
/* the for_each_logger lambda (unit BW.collect_sinks): fills the cache with the sinks of the valid loggers */
void COLLECT_ACTIVE_SINKS(BW* self) __CPROVER_assigns(self->_active_sinks_cache.n, g_collects, g_n_collected) __CPROVER_ensures(g_collects == OLD(g_collects) + 1 && self->_active_sinks_cache.n <= (((size_t)1) << 40) && g_n_collected == self->_active_sinks_cache.n);
int64_t STEADY_NOW(void) __CPROVER_assigns() __CPROVER_ensures(RET == g_now);
void SINK_flush_sink(Sink* s) __CPROVER_requires(__CPROVER_is_fresh(s, sizeof(*s))) __CPROVER_assigns(s->g_flushes, g_exc)
__CPROVER_ensures(s->g_flushes == OLD(s->g_flushes) + 1 && (g_exc == 0 || g_exc == EXC_STD || g_exc == EXC_OTHER));
void SINK_run_periodic_tasks(Sink* s) __CPROVER_requires(__CPROVER_is_fresh(s, sizeof(*s))) __CPROVER_assigns(s->g_periodic) __CPROVER_ensures(s->g_periodic == OLD(s->g_periodic) + 1);
void ERROR_NOTIFIER(BW* self) __CPROVER_assigns(g_notify_calls) __CPROVER_ensures(g_notify_calls == OLD(g_notify_calls) + 1);
#define T_(s) ((s)->_active_sinks_cache.tracked)
#define O_(s) ((s)->_active_sinks_cache.other)
'''
flush_sinks = dict(
    name='BW.flush_sinks', primary='C06', props={'C06', 'C10'}, kind='S',
    desc='BackendWorker::_flush_and_run_active_sinks: with a zero interval every collected sink is flushed exactly once; a throwing sink is reported and does not stop the others',
    structs=[], prelude=FS_PRELUDE, enforce='BW__flush_and_run_active_sinks', replace=['COLLECT_ACTIVE_SINKS', 'STEADY_NOW', 'SINK_flush_sink', 'SINK_run_periodic_tasks', 'ERROR_NOTIFIER'], loopcontracts=True,
    funcs=[dict(src=dict(header=H, cls='BackendWorker', name='_flush_and_run_active_sinks'), src_params=['run_periodic_tasks', 'sink_min_flush_interval'],
                cfun='BW__flush_and_run_active_sinks', sig='void BW__flush_and_run_active_sinks(BW* self, bool run_periodic_tasks, int64_t sink_min_flush_interval)',
                cls_c='BW', member_fields=['_active_sinks_cache', '_last_sink_flush_time'],
                methods={'flush_sink': 'SINK_flush_sink', 'run_periodic_tasks': 'SINK_run_periodic_tasks', 'clear': 'SVec_clear'},
                range_for=[(r'_active_sinks_cache', 'SVec_size', 'SVec_get', 'Sink*')],
                pre_rules=[(r'_logger_manager\.for_each_logger\s*\(\s*\[this\]\(LoggerBase\* logger\).*?return false;\s*\}\s*\)\s*;', 'COLLECT_ACTIVE_SINKS(self);', 1),
                           (r'sink_min_flush_interval\.count\(\)', 'sink_min_flush_interval', 1),
                           (r'auto\s+const\s+now\s*=\s*std::chrono::steady_clock::now\(\)\s*;\s*\(', 'int64_t const now = STEADY_NOW(), 1; (', 1),
                           (r'if\s*\(\s*int64_t const now = STEADY_NOW\(\), 1;', 'int64_t const now = STEADY_NOW(); if (', 1),
                           (r'_options\.error_notifier\s*\([^;]*\)\s*;', 'ERROR_NOTIFIER(self);')],
                exceptions=True, may_throw=['SINK_flush_sink'],
                loops={0: r'''
__CPROVER_assigns(__i0, g_exc, g_notify_calls, T_(self)->g_flushes, T_(self)->g_periodic, O_(self)->g_flushes, O_(self)->g_periodic)
__CPROVER_loop_invariant(__i0 <= self->_active_sinks_cache.n && g_exc == 0)
__CPROVER_loop_invariant(T_(self)->g_flushes == ((__i0 > self->_active_sinks_cache.g_p && should_flush_sinks) ? 1 : 0))
__CPROVER_loop_invariant(T_(self)->g_periodic == ((__i0 > self->_active_sinks_cache.g_p && run_periodic_tasks) ? 1 : 0))
__CPROVER_decreases(self->_active_sinks_cache.n - __i0)
'''},
                contract=r'''
__CPROVER_requires(__CPROVER_is_fresh(self, sizeof(*self)) && __CPROVER_is_fresh(T_(self), sizeof(Sink)) && __CPROVER_is_fresh(O_(self), sizeof(Sink)))
__CPROVER_requires(g_exc == 0 && T_(self)->g_flushes == 0 && T_(self)->g_periodic == 0 && g_collects == 0 && sink_min_flush_interval >= 0 && sink_min_flush_interval <= (((int64_t)1) << 40) && g_now >= 0 && g_now <= (((int64_t)1) << 61) && self->_last_sink_flush_time >= 0 && self->_last_sink_flush_time <= g_now)
__CPROVER_assigns(g_exc, g_notify_calls, g_collects, g_n_collected, self->_active_sinks_cache.n, self->_last_sink_flush_time, T_(self)->g_flushes, T_(self)->g_periodic, O_(self)->g_flushes, O_(self)->g_periodic)
__CPROVER_ensures(g_exc == 0) /*@ C10 "a sink whose flush throws (any type) does not stop the backend" */
__CPROVER_ensures(g_collects == 1) /*@ C06 "the set of active sinks is rebuilt on every flush" */
__CPROVER_ensures((sink_min_flush_interval == 0 && self->_active_sinks_cache.g_p < g_n_collected) ==> T_(self)->g_flushes == 1) /*@ C06 "with a zero interval (flush request, exit) every collected sink is flushed, also when an earlier sink threw" */
__CPROVER_ensures((run_periodic_tasks && self->_active_sinks_cache.g_p < g_n_collected) ==> T_(self)->g_periodic == 1) /*@ C06 "periodic tasks of every collected sink run once" */
__CPROVER_ensures(sink_min_flush_interval == 0 ==> T_(self)->g_flushes <= 1) /*@ C06 "no sink is flushed twice by one flush request" */
__CPROVER_ensures(self->_active_sinks_cache.n == 0) /*@ C06 "the cache is emptied after use" */
''')],
    harness='  BW* s; bool p; int64_t i; BW__flush_and_run_active_sinks(s, p, i);',
    dropped=['std::chrono arithmetic as 64-bit integers', 'the for_each_logger lambda (verified separately: unit BW.collect_sinks)'],
    trusted=['sink cache abstracted to {one tracked sink, one representative of the others}'], min_obligations=50)

UNITS.append(flush_sinks)

# ------------------------------------------------------------------------------------------ the for_each_logger lambda of _flush_and_run_active_sinks
CS_PRELUDE = r'''
typedef struct Sink { int id; } Sink;
typedef struct SVec { size_t n; size_t g_p; Sink* tracked; Sink* other; } SVec;      /* a logger's sinks */
typedef struct LoggerBase { bool valid; SVec sinks; bool g_written_unflushed; } LoggerBase;
typedef struct BW { int dummy; } BW;
static inline size_t SVec_size(SVec* v) { return v->n; }
static inline Sink* SVec_get(SVec* v, size_t i) { return i == v->g_p ? v->tracked : v->other; }
static inline bool LB_is_valid_logger(LoggerBase* l) { return l->valid; }
/* the active-sinks cache as a set: membership of the tracked sink and of the representative */
bool g_cache_has_tracked, g_cache_has_other; size_t g_pushes_tracked;
Sink* g_T; Sink* g_O;
bool CACHE_contains(BW* self, Sink* s) __CPROVER_assigns() __CPROVER_ensures(RET == (s == g_T ? g_cache_has_tracked : g_cache_has_other));
void CACHE_push_back(BW* self, Sink* s) __CPROVER_assigns(g_cache_has_tracked, g_cache_has_other, g_pushes_tracked)
__CPROVER_ensures(s == g_T ? (g_cache_has_tracked && g_pushes_tracked == OLD(g_pushes_tracked) + 1 && g_cache_has_other == OLD(g_cache_has_other)) : (g_cache_has_other && g_cache_has_tracked == OLD(g_cache_has_tracked) && g_pushes_tracked == OLD(g_pushes_tracked)));
'''
collect_sinks = dict(
    name='BW.collect_sinks', primary='C06', props={'C06'}, kind='S',
    desc='the for_each_logger lambda of _flush_and_run_active_sinks: every sink of a registered logger that may hold written data ends up in the flush set exactly once',
    structs=[], prelude=CS_PRELUDE, enforce='BW_collect_lambda', replace=['CACHE_contains', 'CACHE_push_back'], loopcontracts=True,
    funcs=[dict(src=dict(header=H, cls='BackendWorker', name='_flush_and_run_active_sinks', lambda_after=r'_logger_manager\.for_each_logger\s*\(\s*\[this\]\(LoggerBase\* logger\)\s*\{'),
                cfun='BW_collect_lambda', sig='bool BW_collect_lambda(BW* self, LoggerBase* logger)', cls_c='BW', member_fields=[],
                methods={'is_valid_logger': 'LB_is_valid_logger'},
                range_for=[(r'logger->sinks', 'SVec_size', 'SVec_get', 'Sink*')],
                pre_rules=[(r'std::shared_ptr<Sink>\s+const\s*&\s*sink\b', 'Sink* sink', 1), (r'sink\.get\(\)', 'sink', 1),
                           (r'auto\s+search_it\s*=\s*std::find_if\s*\(\s*_active_sinks_cache\.begin\(\)\s*,\s*_active_sinks_cache\.end\(\)\s*,.*?\}\s*\)\s*;', 'bool const found = CACHE_contains(self, logger_sink_ptr);', 1),
                           (r'search_it\s*==\s*std::end\(_active_sinks_cache\)', '!found', 1),
                           (r'_active_sinks_cache\.push_back\(logger_sink_ptr\)', 'CACHE_push_back(self, logger_sink_ptr)', 1)],
                loops={0: r'''
__CPROVER_assigns(__i0, g_cache_has_tracked, g_cache_has_other, g_pushes_tracked)
__CPROVER_loop_invariant(__i0 <= logger->sinks.n)
__CPROVER_loop_invariant(__i0 > logger->sinks.g_p ==> g_cache_has_tracked)
__CPROVER_loop_invariant(g_pushes_tracked == ((g_cache_has_tracked && !__CPROVER_loop_entry(g_cache_has_tracked)) ? 1 : 0))
__CPROVER_loop_invariant(__CPROVER_loop_entry(g_cache_has_tracked) ==> g_cache_has_tracked)
__CPROVER_decreases(logger->sinks.n - __i0)
'''},
                contract=r'''
__CPROVER_requires(__CPROVER_is_fresh(self, sizeof(*self)) && __CPROVER_is_fresh(logger, sizeof(*logger)) && __CPROVER_is_fresh(logger->sinks.tracked, sizeof(Sink)) && __CPROVER_is_fresh(logger->sinks.other, sizeof(Sink)))
__CPROVER_requires(logger->sinks.g_p < logger->sinks.n && g_T == logger->sinks.tracked && g_O == logger->sinks.other && g_pushes_tracked == 0)
__CPROVER_assigns(g_cache_has_tracked, g_cache_has_other, g_pushes_tracked)
__CPROVER_ensures(!RET) /*@ C06 "the collection never stops early: every registered logger is visited" */
__CPROVER_ensures(logger->valid ==> (g_cache_has_tracked && g_pushes_tracked == (OLD(g_cache_has_tracked) ? 0 : 1))) /*@ C06 "every sink of a valid logger is in the flush set, exactly once even when loggers share it" */
__CPROVER_ensures((!logger->valid && logger->g_written_unflushed) ==> g_cache_has_tracked) /*@ C06 "a sink of a removed-but-still-registered logger that holds written, unflushed statements is in the flush set" */
''')],
    harness='  BW* s; LoggerBase* l; BW_collect_lambda(s, l);',
    dropped=['std::find_if over the cache rendered as a membership query', 'shared_ptr ownership of sinks'],
    trusted=['a logger\'s sink list abstracted to {one tracked sink, one representative of the others}', 'LoggerManager::for_each_logger visits every registered logger until the callback returns true'], min_obligations=20)
UNITS.append(collect_sinks)

# ------------------------------------------------------------------------------------------ _populate_formatted_log_message / _populate_formatted_named_args
FM_PRELUDE = ENUMS + r'''
typedef struct MacroMetadata { Event g_event; } MacroMetadata;
typedef struct Buf { int g_content; size_t g_clears; } Buf;                 /* formatted_msg: content id (1 = formatted text, 2 = error text) */
typedef struct TE { MacroMetadata* macro_metadata; Buf* formatted_msg; } TE;
typedef struct Options { bool check_printable_char; } Options;
typedef struct Store { bool g_has_string; } Store;
typedef struct BW { Options _options; Store _format_args_store; } BW;
size_t g_notify_calls, g_format_calls, g_sanitize_calls; int g_thrown;
static inline Event MM_event(MacroMetadata* m) { return m->g_event; }
void BUF_clear(Buf* b) __CPROVER_requires(__CPROVER_is_fresh(b, sizeof(*b))) __CPROVER_assigns(b->g_content, b->g_clears) __CPROVER_ensures(b->g_content == 0 && b->g_clears == OLD(b->g_clears) + 1);
/* fmtquill::vformat_to with the decoded arguments: runs user formatters - may throw ANY type */
void VFORMAT_TO(Buf* b, BW* self) __CPROVER_requires(__CPROVER_is_fresh(b, sizeof(*b))) __CPROVER_assigns(b->g_content, g_exc, g_format_calls, g_thrown)
__CPROVER_ensures(g_format_calls == OLD(g_format_calls) + 1 && (g_exc == 0 || g_exc == EXC_STD || g_exc == EXC_OTHER) && g_thrown == g_exc && (g_exc == 0 ==> b->g_content == 1));
bool STORE_has_string_related_type(Store* s) __CPROVER_assigns() __CPROVER_ensures(RET == s->g_has_string);
void SANITIZE(Buf* b, BW* self) __CPROVER_requires(__CPROVER_is_fresh(b, sizeof(*b))) __CPROVER_assigns(g_sanitize_calls) __CPROVER_ensures(g_sanitize_calls == OLD(g_sanitize_calls) + 1);
void SET_ERROR_TEXT_AND_NOTIFY(Buf* b, BW* self) __CPROVER_requires(__CPROVER_is_fresh(b, sizeof(*b))) __CPROVER_assigns(b->g_content, g_notify_calls) __CPROVER_ensures(b->g_content == 2 && g_notify_calls == OLD(g_notify_calls) + 1);
'''
fmt_msg = dict(
    name='BW.fmt_msg', primary='C10', props={'C10', 'C04'}, kind='S',
    desc='BackendWorker::_populate_formatted_log_message: whatever the formatter throws, the exception is contained, the message becomes the error text and the notifier is called once',
    structs=[], prelude=FM_PRELUDE, enforce='BW__populate_formatted_log_message',
    replace=['BUF_clear', 'VFORMAT_TO', 'STORE_has_string_related_type', 'SANITIZE', 'SET_ERROR_TEXT_AND_NOTIFY'],
    funcs=[dict(src=dict(header=H, cls='BackendWorker', name='_populate_formatted_log_message'), src_params=['transit_event', 'message_format'],
                cfun='BW__populate_formatted_log_message', sig='void BW__populate_formatted_log_message(BW* self, TE* transit_event)',
                cls_c='BW', member_fields=['_options', '_format_args_store'],
                methods={'event': 'MM_event', 'has_string_related_type': 'STORE_has_string_related_type'},
                pre_rules=[(r'MacroMetadata::Event::(\w+)', r'EV_\1'),
                           (r'transit_event->formatted_msg->clear\(\)\s*;', 'BUF_clear(transit_event->formatted_msg);'),
                           (r'fmtquill::vformat_to\s*\(\s*std::back_inserter\(\*transit_event->formatted_msg\).*?\}\s*\)\s*;', 'VFORMAT_TO(transit_event->formatted_msg, self);', 1),
                           (r'sanitize_non_printable_chars\(\*transit_event->formatted_msg, _options\)\s*;', 'SANITIZE(transit_event->formatted_msg, self);', 1),
                           (r'std::string\s+const\s+error\s*=\s*fmtquill::format\s*\(.*?\)\s*;\s*transit_event->formatted_msg->append\(error\)\s*;\s*_options\.error_notifier\(error\)\s*;', 'SET_ERROR_TEXT_AND_NOTIFY(transit_event->formatted_msg, self);')],
                exceptions=True, may_throw=['VFORMAT_TO'],
                contract=r'''
__CPROVER_requires(__CPROVER_is_fresh(self, sizeof(*self)) && __CPROVER_is_fresh(transit_event, sizeof(TE)) && __CPROVER_is_fresh(transit_event->macro_metadata, sizeof(MacroMetadata)) && __CPROVER_is_fresh(transit_event->formatted_msg, sizeof(Buf)))
__CPROVER_requires(g_exc == 0 && g_notify_calls == 0 && g_format_calls == 0 && g_thrown == 0 && g_sanitize_calls < 1000 && transit_event->macro_metadata->g_event <= EV_LoggerRemovalRequest)
__CPROVER_assigns(g_exc, g_notify_calls, g_format_calls, g_sanitize_calls, g_thrown, transit_event->formatted_msg->g_content, transit_event->formatted_msg->g_clears)
__CPROVER_ensures(g_exc == 0) /*@ C10 "a formatter that throws - a std::exception or any other type - never escapes: the record is consumed and later statements are still delivered" */
__CPROVER_ensures(g_thrown != 0 ==> (transit_event->formatted_msg->g_content == 2 && g_notify_calls == 1)) /*@ C10 "a statement that cannot be formatted is written with the explanatory error text and reported through the error notifier once" */
__CPROVER_ensures(g_thrown == 0 ==> (transit_event->formatted_msg->g_content == 1 && g_notify_calls == 0)) /*@ C04 "otherwise the message is the formatted text (the previous content of the reused buffer is cleared first)" */
__CPROVER_ensures(g_format_calls == 1)
__CPROVER_ensures((g_thrown == 0 && self->_options.check_printable_char && self->_format_args_store.g_has_string && transit_event->macro_metadata->g_event != EV_LogWithRuntimeMetadata) ==> g_sanitize_calls == OLD(g_sanitize_calls) + 1) /*@ C04 "with the check configured, the formatted text of a statement that has an argument able to carry arbitrary bytes is sanitised (runtime-metadata statements later, once their separator is gone)" */
__CPROVER_ensures(!self->_options.check_printable_char ==> g_sanitize_calls == OLD(g_sanitize_calls)) /*@ C04 "nothing is rewritten when the check is switched off" */
''')],
    harness='  BW* s; TE* te; BW__populate_formatted_log_message(s, te);',
    dropped=['text of the error message', 'fmt argument store contents'], trusted=['fmtquill::vformat_to may throw any exception type (user formatters)'], min_obligations=20)
UNITS.append(fmt_msg)

# ------------------------------------------------------------------------------------------ _process_multi_line_message
ML_PRELUDE = r'''
typedef struct BW { int dummy; } BW;
#define NPOS SIZE_MAX
size_t g_n;            /* message length */
size_t g_expect;       /* ghost: offset at which the next emitted line must start */
size_t g_emitted;
static inline size_t MSG_size(void) { return g_n; }
static inline bool MSG_empty(void) { return g_n == 0; }
/* msg.find_first_of('\n', start): the first newline at or after start (so [start, RET) contains none), or npos */
size_t FIND_NL(size_t start) __CPROVER_assigns() __CPROVER_ensures(RET == NPOS || (RET >= start && RET < g_n));
void WRITE_SEG(size_t off, size_t len)
__CPROVER_requires(off == g_expect) /*@ C12 "lines are emitted in order and contiguously: each line starts right after the newline that ended the previous one" */
__CPROVER_requires(off + len <= g_n) /*@ C12 "a line never extends beyond the message" */
__CPROVER_assigns(g_expect, g_emitted) __CPROVER_ensures(g_expect == off + len + 1 && g_emitted == OLD(g_emitted) + 1);
'''
multiline = dict(
    name='BW.multiline', primary='C12', props={'C12'}, kind='S',
    desc='BackendWorker::_process_multi_line_message: one complete line per message line, in order, newline-free, the whole message covered, at most one trailing newline dropped; empty message = one empty line',
    structs=[], prelude=ML_PRELUDE, enforce='BW_multiline', replace=['FIND_NL', 'WRITE_SEG'], loopcontracts=True,
    funcs=[dict(src=dict(header=H, cls='BackendWorker', name='_process_multi_line_message'), src_params=['transit_event', 'thread_id', 'thread_name', 'log_level_description', 'log_level_short_code'],
                cfun='BW_multiline', sig='void BW_multiline(BW* self)', cls_c='BW', member_fields=[],
                pre_rules=[(r'auto\s+const\s+msg\s*=\s*std::string_view\{[^{}]*\}\s*;', '', 1),
                           (r'_write_log_statement\s*\([^;]*?log_level_short_code,\s*msg\s*\)\s*;', 'WRITE_SEG(0, 0);', 1),
                           (r'_write_log_statement\s*\([^;]*?std::string_view\(msg\.data\(\) \+ start,\s*(.*?)\)\s*\)\s*;', r'WRITE_SEG(start, \1);', 2),
                           (r'msg\.find_first_of\(\'\\n\',\s*start\)', 'FIND_NL(start)', 1), (r'msg\.size\(\)', 'MSG_size()'), (r'msg\.empty\(\)', 'MSG_empty()', 1),
                           (r'std::string_view::npos', 'NPOS', 1)],
                loops={0: r'''
__CPROVER_assigns(start, g_expect, g_emitted)
__CPROVER_loop_invariant(start == g_expect && start <= g_n && g_emitted <= start && (start > 0 ==> g_emitted >= 1))
__CPROVER_decreases(g_n - start)
'''},
                contract=r'''
__CPROVER_requires(__CPROVER_is_fresh(self, sizeof(*self)) && g_expect == 0 && g_emitted == 0 && g_n <= (((size_t)1) << 40))
__CPROVER_assigns(g_expect, g_emitted)
__CPROVER_ensures(g_n == 0 ==> g_emitted == 1) /*@ C12 "an empty message yields one (empty) line" */
__CPROVER_ensures(g_n > 0 ==> (g_expect == g_n || g_expect == g_n + 1)) /*@ C12 "the emitted lines cover the whole message; only a final newline is dropped" */
__CPROVER_ensures(g_emitted >= 1) /*@ C12 "every statement yields at least one line" */
''')],
    harness='  BW* s; BW_multiline(s);',
    dropped=['message bytes (newline positions are given by the find_first_of stub: first newline at or after the start)', 'statement attributes passed through to _write_log_statement'],
    trusted=['std::string_view::find_first_of returns the first match'], min_obligations=20)
UNITS.append(multiline)

# ------------------------------------------------------------------------------------------ _populate_formatted_named_args
FN_PRELUDE = r'''
typedef struct TE { int dummy; } TE; typedef struct BW { int dummy; } BW;
size_t g_prepares, g_splits; int g_thrown;
void PREPARE_NAMED_ARGS(BW* self, TE* te) __CPROVER_assigns(g_prepares) __CPROVER_ensures(g_prepares == OLD(g_prepares) + 1);
/* _format_and_split_arguments: formats every argument with its own spec through fmt - runs user formatters, may throw ANY type */
void FORMAT_AND_SPLIT(BW* self, TE* te) __CPROVER_assigns(g_splits, g_exc, g_thrown)
__CPROVER_ensures(g_splits == OLD(g_splits) + 1 && (g_exc == 0 || g_exc == EXC_STD || g_exc == EXC_OTHER) && g_thrown == g_exc);
'''
fmt_named = dict(
    name='BW.fmt_named', primary='C10', props={'C10'}, kind='S',
    desc='BackendWorker::_populate_formatted_named_args: an exception of any type thrown while formatting the named values is contained (the error was already reported for the message)',
    structs=[], prelude=FN_PRELUDE, enforce='BW__populate_formatted_named_args', replace=['PREPARE_NAMED_ARGS', 'FORMAT_AND_SPLIT'],
    funcs=[dict(src=dict(header=H, cls='BackendWorker', name='_populate_formatted_named_args'), src_params=['transit_event', 'arg_names'],
                cfun='BW__populate_formatted_named_args', sig='void BW__populate_formatted_named_args(BW* self, TE* transit_event)', cls_c='BW', member_fields=[],
                pre_rules=[(r'^\s*\{.*?(?=try\s*\{\s*_format_and_split_arguments)', '{ PREPARE_NAMED_ARGS(self, transit_event);\n', 1),
                           (r'_format_and_split_arguments\s*\([^;]*\)\s*;', 'FORMAT_AND_SPLIT(self, transit_event);', 1)],
                exceptions=True, may_throw=['FORMAT_AND_SPLIT'],
                contract=r'''
__CPROVER_requires(__CPROVER_is_fresh(self, sizeof(*self)) && __CPROVER_is_fresh(transit_event, sizeof(TE)) && g_exc == 0 && g_prepares == 0 && g_splits == 0 && g_thrown == 0)
__CPROVER_assigns(g_exc, g_prepares, g_splits, g_thrown)
__CPROVER_ensures(g_exc == 0) /*@ C10 "a user formatter that throws - any type - while the named values are formatted never escapes: the record is consumed and later statements are still delivered" */
__CPROVER_ensures(g_prepares == 1 && g_splits == 1) /*@ C19 "the pairs are prepared, then the values are formatted and split once" */
''')],
    harness='  BW* s; TE* te; BW__populate_formatted_named_args(s, te);',
    dropped=['the construction of the key/value vector (names, placeholders for surplus arguments) - one stub'], trusted=[], min_obligations=10)
UNITS.append(fmt_named)

# ------------------------------------------------------------------------------------------ _dispatch_transit_event_to_sinks: the two arms
DA_PRELUDE = r'''
typedef struct BW { int dummy; } BW;
typedef struct TE { size_t g_n; char g_last; bool g_add_metadata; bool g_has_named_args; } TE;   /* message length, its last byte, the two switches */
size_t g_multi, g_whole, g_whole_len;
static inline size_t MSG_size(TE const* te) { return te->g_n; }
static inline char MSG_at(TE const* te, size_t i) { __CPROVER_assert(i < te->g_n, "C12: the message is never read beyond its end"); char c; return i == te->g_n - 1 ? te->g_last : c; }
void MULTI_LINE(BW* self, TE const* te) __CPROVER_assigns(g_multi) __CPROVER_ensures(g_multi == OLD(g_multi) + 1);
void WRITE_WHOLE(BW* self, TE const* te, size_t len) __CPROVER_assigns(g_whole, g_whole_len) __CPROVER_ensures(g_whole == OLD(g_whole) + 1 && g_whole_len == len);
'''
dispatch_arm = dict(
    name='BW.dispatch_arm', primary='C12', props={'C12'}, kind='S',
    desc='BackendWorker::_dispatch_transit_event_to_sinks, the statement that chooses between per-line metadata and one whole statement: one statement with at most one trailing newline removed when the option is off (or named args are present)',
    structs=[], prelude=DA_PRELUDE, enforce='BW_dispatch_arm', replace=['MULTI_LINE', 'WRITE_WHOLE'],
    funcs=[dict(src=dict(header=H, cls='BackendWorker', name='_dispatch_transit_event_to_sinks', nth=0,
                         stmt_re=r'if \(transit_event\.logger_base->pattern_formatter->get_options\(\)\.add_metadata_to_multi_line_logs.*_write_log_statement\([^;]*\);\s*\}'),
                cfun='BW_dispatch_arm', sig='void BW_dispatch_arm(BW* self, TE const* transit_event)', cls_c='BW', member_fields=[],
                pre_rules=[(r'transit_event\.logger_base->pattern_formatter->get_options\(\)\.add_metadata_to_multi_line_logs', 'transit_event->g_add_metadata', '!'),
                           (r'\(\s*!transit_event\.named_args\s*\|\|\s*transit_event\.named_args->empty\(\)\s*\)', '(!transit_event->g_has_named_args)', '!'),
                           (r'transit_event\.formatted_msg->size\(\)', 'MSG_size(transit_event)'),
                           (r'transit_event\.formatted_msg->data\(\)\[(.*?)\]', r'MSG_at(transit_event, \1)'),
                           (r'_process_multi_line_message\s*\([^;]*\)\s*;', 'MULTI_LINE(self, transit_event);'),
                           (r'_write_log_statement\s*\([^;]*?std::string_view\{transit_event\.formatted_msg->data\(\),\s*(.*?)\}\s*\)\s*;', r'WRITE_WHOLE(self, transit_event, \1);')],
                contract=r'''
__CPROVER_requires(__CPROVER_is_fresh(self, sizeof(*self)) && __CPROVER_is_fresh(transit_event, sizeof(TE)) && g_multi == 0 && g_whole == 0)
__CPROVER_assigns(g_multi, g_whole, g_whole_len)
__CPROVER_ensures((transit_event->g_add_metadata && !transit_event->g_has_named_args) ==> (g_multi == 1 && g_whole == 0)) /*@ C12 "with add_metadata_to_multi_line_logs (and no named args) the message goes through the line splitter, once" */
__CPROVER_ensures(!(transit_event->g_add_metadata && !transit_event->g_has_named_args) ==> (g_multi == 0 && g_whole == 1 && g_whole_len == transit_event->g_n - ((transit_event->g_n > 0 && transit_event->g_last == '\n') ? 1 : 0))) /*@ C12 "otherwise one statement: the whole message with at most one trailing newline removed" */
''')],
    harness='  BW* s; TE* te; BW_dispatch_arm(s, te);',
    dropped=['message bytes other than the last one', 'statement attributes passed through', 'the pattern-formatter lookup/creation at the top of the function (not part of the slice)'], trusted=[], min_obligations=8)
UNITS.append(dispatch_arm)
