"""C07 — stopping / exiting / dying by a handled signal: BackendWorker::_exit, BackendWorker::stop,
BackendManager::stop_backend_thread, detail::on_signal.  Only what a contract can decide (DESIGN §3 C07); atexit ordering,
signal masks, async-signal-safety, what another process sees are assumptions."""
BH = 'quill/backend/BackendWorker.h'
MH = 'quill/backend/BackendManager.h'
SH = 'quill/backend/SignalHandler.h'

EX_PRELUDE = r'''
typedef struct Options { bool wait_for_queues_to_empty_before_exit; } Options;
typedef struct BW { Options _options; } BW;
/* ghost protocol state (no clock: the exit loop is unbounded): g_last_empty = "the last thing that happened was an
   emptiness check of all queues and buffers that returned true" */
bool g_last_empty, g_checked; size_t g_flushes, g_cleanups_tc, g_cleanups_lg, g_failure_checks;
bool BW__check_frontend_queues_and_cached_transit_events_empty(BW* self) __CPROVER_assigns(g_last_empty, g_checked)
__CPROVER_ensures(g_checked && (g_last_empty ? RET : !RET));
void BW__check_failure_counter(BW* self) __CPROVER_assigns(g_failure_checks) __CPROVER_ensures(g_failure_checks == OLD(g_failure_checks) + 1);
void BW_flush_sinks(BW* self, bool periodic, int interval)
__CPROVER_requires(!periodic && interval == 0) /*@ C07 "the final flush is unconditional (zero interval)" */
__CPROVER_requires(!self->_options.wait_for_queues_to_empty_before_exit || (g_checked && g_last_empty)) /*@ C07 "with wait_for_queues_to_empty_before_exit the final flush happens only after every queue and buffer was found empty, with nothing read or processed in between: every completed statement is written and flushed before the worker terminates" */
__CPROVER_assigns(g_flushes) __CPROVER_ensures(g_flushes == OLD(g_flushes) + 1);
uint64_t BW__populate_transit_events_from_frontend_queues(BW* self) __CPROVER_assigns(g_last_empty) __CPROVER_ensures(!g_last_empty);
bool BW_has_pending(BW* self) __CPROVER_assigns() __CPROVER_ensures(1 == 1);
bool BW__process_lowest_timestamp_transit_event(BW* self) __CPROVER_assigns(g_last_empty) __CPROVER_ensures(!g_last_empty);
void BW__cleanup_invalidated_thread_contexts(BW* self)
__CPROVER_requires(g_flushes == 1) /*@ C07 "contexts of finished threads are reclaimed only after the final flush" */
__CPROVER_assigns(g_cleanups_tc) __CPROVER_ensures(g_cleanups_tc == OLD(g_cleanups_tc) + 1);
void BW__cleanup_invalidated_loggers(BW* self) __CPROVER_requires(g_flushes == 1) __CPROVER_assigns(g_cleanups_lg) __CPROVER_ensures(g_cleanups_lg == OLD(g_cleanups_lg) + 1);
#define BW__flush_and_run_active_sinks(self, a, b) BW_flush_sinks(self, a, b)
#define BW_has_pending_events_for_caching_when_transit_event_buffer_empty(self) BW_has_pending(self)
'''
bw_exit = dict(
    name='BW.exit', primary='C07', props={'C07'}, kind='S',
    desc='BackendWorker::_exit: the worker leaves only after an emptiness check of all queues and buffers returned true (when configured to wait), and flushes every sink after that check',
    structs=[], prelude=EX_PRELUDE, enforce='BW__exit',
    replace=['BW__check_frontend_queues_and_cached_transit_events_empty', 'BW__check_failure_counter', 'BW_flush_sinks', 'BW__populate_transit_events_from_frontend_queues', 'BW_has_pending',
             'BW__process_lowest_timestamp_transit_event', 'BW__cleanup_invalidated_thread_contexts', 'BW__cleanup_invalidated_loggers'], loopcontracts=True,
    funcs=[dict(src=dict(header=BH, cls='BackendWorker', name='_exit'), src_params=[], cfun='BW__exit', sig='void BW__exit(BW* self)', cls_c='BW', member_fields=['_options'],
                siblings=['_check_frontend_queues_and_cached_transit_events_empty', '_check_failure_counter', '_flush_and_run_active_sinks', '_populate_transit_events_from_frontend_queues',
                          'has_pending_events_for_caching_when_transit_event_buffer_empty', '_process_lowest_timestamp_transit_event', '_cleanup_invalidated_thread_contexts', '_cleanup_invalidated_loggers'],
                pre_rules=[(r'_check_failure_counter\(_options\.error_notifier\)', '_check_failure_counter()', '?'), (r'std::chrono::milliseconds\{0\}', '0', '?')],
                loops={r'while\s*\(\s*true\s*\)': r'''
__CPROVER_assigns(g_last_empty, g_checked, g_failure_checks, g_flushes)
__CPROVER_loop_invariant(g_flushes == 0)
''', r'while\s*\(\s*\(?\s*!\s*BW_has_pending': r'''
__CPROVER_assigns(g_last_empty)
__CPROVER_loop_invariant(1 == 1)
'''},
                contract=r'''
__CPROVER_requires(__CPROVER_is_fresh(self, sizeof(*self)) && g_flushes == 0 && g_cleanups_tc == 0 && g_cleanups_lg == 0 && !g_checked)
__CPROVER_assigns(g_last_empty, g_checked, g_failure_checks, g_flushes, g_cleanups_tc, g_cleanups_lg)
__CPROVER_ensures(g_flushes == 1) /*@ C07 "the worker flushes every sink exactly once on its way out" */
__CPROVER_ensures(g_cleanups_tc == 1 && g_cleanups_lg == 1) /*@ C07 "contexts of finished threads and removed loggers are reclaimed on exit (the backend can be started again)" */
''')],
    harness='  BW* s; BW__exit(s);',
    dropped=['the error notifier argument of _check_failure_counter'], trusted=['the emptiness check, populate, process and flush functions by their own units'], min_obligations=20)

ST_PRELUDE = r'''
typedef struct BW { bool _is_worker_running; bool g_joinable; uint32_t _worker_thread_id; } BW;
size_t g_notifies, g_joins, g_lock_resets, g_clock, g_t_notify, g_t_join;
static inline bool RUN_exchange(BW* s, bool v, int mo) { bool o = s->_is_worker_running; s->_is_worker_running = v; return o; }
#define ATOMIC_EXCHANGE__is_worker_running(s, v, mo) RUN_exchange(s, v, mo)
#define ATOMIC_STORE__worker_thread_id(s, v, mo) ((s)->_worker_thread_id = (v))
void BW_notify(BW* self) __CPROVER_assigns(g_notifies, g_clock, g_t_notify) __CPROVER_ensures(g_notifies == OLD(g_notifies) + 1 && g_clock == OLD(g_clock) + 1 && g_t_notify == g_clock);
static inline bool THREAD_joinable(BW* s) { return s->g_joinable; }
void THREAD_join(BW* self) __CPROVER_requires(self->g_joinable) __CPROVER_assigns(self->g_joinable, g_joins, g_clock, g_t_join) __CPROVER_ensures(!self->g_joinable && g_joins == OLD(g_joins) + 1 && g_clock == OLD(g_clock) + 1 && g_t_join == g_clock);
void LOCK_reset(BW* self) __CPROVER_assigns(g_lock_resets) __CPROVER_ensures(g_lock_resets == OLD(g_lock_resets) + 1);
'''
bw_stop = dict(
    name='BW.stop', primary='C07', props={'C07'}, kind='S',
    desc='BackendWorker::stop: a running worker is woken and joined exactly once (stop returns only after the worker thread - and therefore _exit - has finished); stopping twice is harmless',
    structs=[], prelude=ST_PRELUDE, enforce='BW_stop', replace=['BW_notify', 'THREAD_join', 'LOCK_reset'],
    funcs=[dict(src=dict(header=BH, cls='BackendWorker', name='stop'), src_params=[], cfun='BW_stop', sig='void BW_stop(BW* self)', cls_c='BW',
                member_fields=['_is_worker_running', '_worker_thread_id'], atomics=['_is_worker_running', '_worker_thread_id'], siblings=['notify'],
                pre_rules=[(r'_worker_thread\.joinable\(\)', 'THREAD_joinable(self)', 1), (r'_worker_thread\.join\(\)', 'THREAD_join(self)', '?'), (r'_backend_worker_lock\.reset\(nullptr\)', 'LOCK_reset(self)', 1)],
                contract=r'''
__CPROVER_requires(__CPROVER_is_fresh(self, sizeof(*self)) && g_notifies == 0 && g_joins == 0 && g_clock == 0)
__CPROVER_assigns(self->_is_worker_running, self->g_joinable, self->_worker_thread_id, g_notifies, g_joins, g_lock_resets, g_clock, g_t_notify, g_t_join)
__CPROVER_ensures(OLD(self->_is_worker_running) ==> (!self->_is_worker_running && g_notifies == 1 && (OLD(self->g_joinable) ==> (g_joins == 1 && g_t_notify < g_t_join && !self->g_joinable)) && self->_worker_thread_id == 0)) /*@ C07 "stop() wakes the worker and returns only after the worker thread has terminated (joined exactly once)" */
__CPROVER_ensures(!OLD(self->_is_worker_running) ==> (g_notifies == 0 && g_joins == 0)) /*@ C07 "stopping a stopped backend does nothing" */
''')],
    harness='  BW* s; BW_stop(s);', dropped=['std::thread as a joinable flag', 'BackendWorkerLock'], trusted=['std::thread::join returns after the thread function returned'], min_obligations=10)

BM_PRELUDE = r'''
typedef struct OnceFlag { bool g_used; } OnceFlag;
typedef struct BM { OnceFlag* _start_once_flag; } BM;
size_t g_stops, g_clock, g_t_stop, g_t_exchange;
void WORKER_stop(BM* self) __CPROVER_assigns(g_stops, g_clock, g_t_stop) __CPROVER_ensures(g_stops == OLD(g_stops) + 1 && g_clock == OLD(g_clock) + 1 && g_t_stop == g_clock);
OnceFlag* ONCE_new(void) __CPROVER_assigns() __CPROVER_ensures(__CPROVER_is_fresh(RET, sizeof(OnceFlag)) && !RET->g_used);
static inline OnceFlag* FLAG_exchange(BM* s, OnceFlag* v, int mo) { OnceFlag* o = s->_start_once_flag; s->_start_once_flag = v; g_clock++; g_t_exchange = g_clock; return o; }
#define ATOMIC_EXCHANGE__start_once_flag(s, v, mo) FLAG_exchange(s, v, mo)
#define OBJ_DELETE(p) free(p)
'''
bm_stop = dict(
    name='BM.stop_backend_thread', primary='C07', props={'C07'}, kind='S',
    desc='BackendManager::stop_backend_thread: after the worker stopped a fresh once_flag is installed, so the backend can be started again',
    structs=[], prelude=BM_PRELUDE, enforce='BM_stop_backend_thread', replace=['WORKER_stop', 'ONCE_new'],
    funcs=[dict(src=dict(header=MH, cls='BackendManager', name='stop_backend_thread'), src_params=[], cfun='BM_stop_backend_thread', sig='void BM_stop_backend_thread(BM* self)', cls_c='BM',
                member_fields=['_start_once_flag'], atomics=['_start_once_flag'],
                pre_rules=[(r'_backend_worker\.stop\(\)', 'WORKER_stop(self)', 1), (r'auto\s*\*\s*new_flag\s*=\s*new\s+std::once_flag\(\)\s*;', 'OnceFlag* new_flag = ONCE_new();', 1),
                           (r'std::once_flag\s*\*\s*old_flag', 'OnceFlag* old_flag', 1)],
                contract=r'''
__CPROVER_requires(__CPROVER_is_fresh(self, sizeof(*self)) && __CPROVER_is_fresh(self->_start_once_flag, sizeof(OnceFlag)) && g_stops == 0 && g_clock == 0)
__CPROVER_assigns(self->_start_once_flag, g_stops, g_clock, g_t_stop, g_t_exchange)
__CPROVER_frees(self->_start_once_flag)
__CPROVER_ensures(g_stops == 1 && g_t_stop < g_t_exchange) /*@ C07 "the worker is stopped (joined) before a restart is made possible" */
__CPROVER_ensures(self->_start_once_flag != OLD(self->_start_once_flag) && !self->_start_once_flag->g_used && __CPROVER_was_freed(OLD(self->_start_once_flag))) /*@ C07 "a fresh, unused once_flag replaces the old one: Backend::start() works again after Backend::stop()" */
''')],
    harness='  BM* m; BM_stop_backend_thread(m);', dropped=['std::once_flag as an object with a used flag'], trusted=[], min_obligations=10)

SG_PRELUDE = r'''
typedef uint8_t LogLevel; enum { LL_TraceL3, LL_TraceL2, LL_TraceL1, LL_Debug, LL_Info, LL_Notice, LL_Warning, LL_Error, LL_Critical, LL_Backtrace, LL_None, LL_Dynamic };
#define SIGINT_ 2
#define SIGTERM_ 15
typedef struct LGx { int d; } LGx;
/* ghost event trace: every call takes a tick of the clock */
size_t g_clock, g_t_info, g_t_critical, g_t_flush, g_t_sigdfl, g_t_raise, g_t_exit, g_t_alarm; size_t g_infos, g_criticals, g_flushes, g_raises, g_exits, g_sigdfls; int g_raised_signal, g_exit_code, g_dfl_signal; bool g_paused;
uint32_t g_lock_value, g_backend_tid, g_current_tid; bool g_reraise; LGx* g_logger;
#define TICK(t) (g_clock++, (t) = g_clock)
static inline uint32_t CTX_lock_fetch_add(void) { return g_lock_value; }
void PAUSE_FOREVER(void) __CPROVER_assigns(g_paused) __CPROVER_ensures(g_paused);
void CTX_store_signal(int s) __CPROVER_assigns() __CPROVER_ensures(1 == 1);
void ALARM(void) __CPROVER_assigns(g_clock, g_t_alarm) __CPROVER_ensures(g_clock == OLD(g_clock) + 1 && g_t_alarm == g_clock);
static inline uint32_t CTX_backend_thread_id(void) { return g_backend_tid; }
static inline uint32_t get_thread_id(void) { return g_current_tid; }
static inline bool CTX_should_reraise(void) { return g_reraise; }
static inline LGx* CTX_get_logger(void) { return g_logger; }
void SH_LOG(LGx* l, LogLevel lvl) __CPROVER_assigns(g_clock, g_t_info, g_t_critical, g_infos, g_criticals)
__CPROVER_ensures(g_clock == OLD(g_clock) + 1 && (lvl == LL_Info ? (g_t_info == g_clock && g_infos == OLD(g_infos) + 1 && g_criticals == OLD(g_criticals) && g_t_critical == OLD(g_t_critical)) : (g_t_critical == g_clock && g_criticals == OLD(g_criticals) + 1 && g_infos == OLD(g_infos) && g_t_info == OLD(g_t_info))));
void LG_flush_log(LGx* l, uint32_t d) __CPROVER_assigns(g_clock, g_t_flush, g_flushes) __CPROVER_ensures(g_clock == OLD(g_clock) + 1 && g_t_flush == g_clock && g_flushes == OLD(g_flushes) + 1);
void EXIT_(int code) __CPROVER_assigns(g_clock, g_t_exit, g_exits, g_exit_code) __CPROVER_ensures(g_clock == OLD(g_clock) + 1 && g_t_exit == g_clock && g_exits == OLD(g_exits) + 1 && g_exit_code == code);
void SIGNAL_DFL(int s) __CPROVER_assigns(g_clock, g_t_sigdfl, g_sigdfls, g_dfl_signal) __CPROVER_ensures(g_clock == OLD(g_clock) + 1 && g_t_sigdfl == g_clock && g_sigdfls == OLD(g_sigdfls) + 1 && g_dfl_signal == s);
void RAISE(int s) __CPROVER_assigns(g_clock, g_t_raise, g_raises, g_raised_signal) __CPROVER_ensures(g_clock == OLD(g_clock) + 1 && g_t_raise == g_clock && g_raises == OLD(g_raises) + 1 && g_raised_signal == s);
'''
on_signal = dict(
    name='SIG.on_signal', primary='C07', props={'C07'}, kind='S',
    desc='detail::on_signal on a thread that has logged (frontend thread, valid logger): notice, flush, then death by the original signal with the default handler - or a successful exit for SIGINT/SIGTERM; on the backend thread: re-raise / exit without logging',
    structs=[], prelude=SG_PRELUDE, enforce='on_signal',
    replace=['PAUSE_FOREVER', 'CTX_store_signal', 'ALARM', 'SH_LOG', 'LG_flush_log', 'EXIT_', 'SIGNAL_DFL', 'RAISE'],
    funcs=[dict(src=dict(header=SH, cls=None, name='on_signal'), src_params=['signal_number'], cfun='on_signal', sig='void on_signal(int32_t signal_number)', member_fields=[],
                pre_rules=[(r'SignalHandlerContext::instance\(\)\.lock\.fetch_add\(1\)', 'CTX_lock_fetch_add()', 1), (r'\bpause\(\)\s*;', 'PAUSE_FOREVER(); return;', 1),
                           (r'SignalHandlerContext::instance\(\)\.signal_number\.store\(signal_number\)', 'CTX_store_signal(signal_number)', 1),
                           (r'alarm\(SignalHandlerContext::instance\(\)\.signal_handler_timeout_seconds\.load\(\)\)', 'ALARM()', 1),
                           (r'SignalHandlerContext::instance\(\)\.backend_thread_id\.load\(\)', 'CTX_backend_thread_id()', 1),
                           (r'SignalHandlerContext::instance\(\)\.should_reraise_signal\.load\(\)', 'CTX_should_reraise()', 1),
                           (r'LoggerBase\s*\*\s*logger_base\s*=\s*SignalHandlerContext::instance\(\)\.get_logger\(\)', 'LGx* logger_base = CTX_get_logger()', 1),
                           (r'char const\* const signal_desc\s*=\s*::strsignal\(signal_number\)\s*;', '', 1),
                           (r'auto\s+logger\s*=\s*reinterpret_cast<LoggerImpl<TFrontendOptions>\*>\(logger_base\)\s*;', 'LGx* logger = logger_base;', 1),
                           (r'do\s*\{\s*if\s*\(logger->template should_log_statement<LogLevel::(\w+)>\(\)\)\s*\{.*?\}\s*\}\s*while\s*\(0\)', r'SH_LOG(logger, LL_\1)', 2),
                           (r'logger->flush_log\(0\)', 'LG_flush_log(logger, 0)'),
                           (r'std::exit\(0\)\s*;', 'EXIT_(0); return;', '?'), (r'std::exit\(EXIT_SUCCESS\)\s*;', 'EXIT_(0); return;', '?'),
                           (r'std::signal\(signal_number,\s*(?:SIG_DFL|\(\(__sighandler_t\)\s*0\)|[^)]*)\)', 'SIGNAL_DFL(signal_number)'), (r'std::raise\(signal_number\)\s*;', 'RAISE(signal_number); return;'),
                           (r'\bSIGINT\b', 'SIGINT_', '?'), (r'\bSIGTERM\b', 'SIGTERM_', '?')],
                contract=r'''
__CPROVER_requires(g_clock == 0 && g_infos == 0 && g_criticals == 0 && g_flushes == 0 && g_raises == 0 && g_exits == 0 && g_sigdfls == 0 && !g_paused && signal_number > 0 && signal_number < 65 && (g_logger == NULL || __CPROVER_is_fresh(g_logger, sizeof(LGx))))
__CPROVER_assigns(g_clock, g_t_info, g_t_critical, g_t_flush, g_t_sigdfl, g_t_raise, g_t_exit, g_t_alarm, g_infos, g_criticals, g_flushes, g_raises, g_exits, g_sigdfls, g_raised_signal, g_exit_code, g_dfl_signal, g_paused)
#define FIRST (g_lock_value == 0)
#define FRONTEND (g_backend_tid != 0 && g_current_tid != g_backend_tid)
#define TERM (signal_number == SIGINT_ || signal_number == SIGTERM_)
__CPROVER_ensures(!FIRST ==> (g_paused && g_infos == 0 && g_flushes == 0 && g_raises == 0 && g_exits == 0)) /*@ C07 "only the first thread to enter the handler acts; the others wait" */
__CPROVER_ensures((FIRST && FRONTEND && g_logger != NULL && TERM) ==> (g_infos == 1 && g_flushes == 1 && g_exits == 1 && g_exit_code == 0 && g_raises == 0 && g_t_info < g_t_flush && g_t_flush < g_t_exit)) /*@ C07 "SIGINT/SIGTERM on a thread that has logged: the notice is logged, everything is flushed, then the process exits successfully" */
__CPROVER_ensures((FIRST && FRONTEND && g_logger != NULL && !TERM && g_reraise) ==> (g_infos == 1 && g_criticals == 1 && g_flushes == 1 && g_sigdfls == 1 && g_raises == 1 && g_raised_signal == signal_number && g_dfl_signal == signal_number && g_exits == 0 && g_t_info < g_t_critical && g_t_critical < g_t_flush && g_t_flush < g_t_sigdfl && g_t_sigdfl < g_t_raise)) /*@ C07 "a fatal signal on a thread that has logged: both notices are logged after the thread's earlier statements, flushed, and then the process dies from the ORIGINAL signal with the default disposition" */
__CPROVER_ensures((FIRST && FRONTEND && g_logger != NULL && !TERM && !g_reraise) ==> (g_infos == 1 && g_flushes == 1 && g_raises == 0 && g_exits == 0 && g_t_info < g_t_flush)) /*@ C07 "with re-raising disabled the notice is still logged and flushed" */
__CPROVER_ensures((FIRST && !FRONTEND && TERM) ==> (g_exits == 1 && g_exit_code == 0 && g_infos == 0 && g_flushes == 0)) /*@ C07 "on the backend thread (or without a backend) nothing can be flushed: SIGINT/SIGTERM exit successfully" */
__CPROVER_ensures((FIRST && !FRONTEND && !TERM && g_reraise) ==> (g_raises == 1 && g_raised_signal == signal_number && g_sigdfls == 1 && g_t_sigdfl < g_t_raise && g_flushes == 0)) /*@ C07 "... and a fatal signal is re-raised with the default disposition" */
__CPROVER_ensures(FIRST ==> g_t_alarm != 0) /*@ C07 "a watchdog alarm is armed before anything that could block" */
''')],
    harness='  int32_t s; on_signal(s);',
    dropped=['the log call macro bodies (one stub per expansion: level kept)', 'strsignal text', 'SignalHandlerContext singleton as globals', 'template parameter TFrontendOptions'],
    trusted=['pause() does not return in the second thread; std::exit / std::raise do not return', 'flush_log(0) by its contract (unit LG.flush_log)', 'async-signal-safety, signal masks, atexit ordering'],
    min_obligations=20)

UNITS = [bw_exit, bw_stop, bm_stop, on_signal]
