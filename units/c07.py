"""C07 — stopping / exiting / dying by a handled signal: BackendWorker::_exit, BackendWorker::stop,
BackendManager::stop_backend_thread, detail::on_signal.  Only what a contract can decide (DESIGN §3 C07); atexit ordering,
signal masks, async-signal-safety, what another process sees are assumptions."""
BH = 'quill/backend/BackendWorker.h'
MH = 'quill/backend/BackendManager.h'
SH = 'quill/backend/SignalHandler.h'

EX_PRELUDE = r'''
typedef struct Options { bool wait_for_queues_to_empty_before_exit; } Options;
typedef struct BW { Options _options; } BW;
/* ghost protocol state (no clock: the exit loop is unbounded): g_last_empty = "the last thing that happened was an
   emptiness check of all queues and buffers that returned true" */
bool g_last_empty, g_checked; size_t g_flushes, g_cleanups_tc, g_cleanups_lg, g_failure_checks;
bool BW__check_frontend_queues_and_cached_transit_events_empty(BW* self) __CPROVER_assigns(g_last_empty, g_checked)
__CPROVER_ensures(g_checked && (g_last_empty ? RET : !RET));
void BW__check_failure_counter(BW* self) __CPROVER_assigns(g_failure_checks) __CPROVER_ensures(g_failure_checks == OLD(g_failure_checks) + 1);
void BW_flush_sinks(BW* self, bool periodic, int interval)
__CPROVER_requires(!periodic && interval == 0) /*@ C07 "the final flush is unconditional (zero interval)" */
__CPROVER_requires(!self->_options.wait_for_queues_to_empty_before_exit || (g_checked && g_last_empty)) /*@ C07 "with wait_for_queues_to_empty_before_exit the final flush happens only after every queue and buffer was found empty, with nothing read or processed in between: every completed statement is written and flushed before the worker terminates" */
__CPROVER_assigns(g_flushes) __CPROVER_ensures(g_flushes == OLD(g_flushes) + 1);
uint64_t BW__populate_transit_events_from_frontend_queues(BW* self) __CPROVER_assigns(g_last_empty) __CPROVER_ensures(!g_last_empty);
bool BW_has_pending(BW* self) __CPROVER_assigns() __CPROVER_ensures(1 == 1);
bool BW__process_lowest_timestamp_transit_event(BW* self) __CPROVER_assigns(g_last_empty) __CPROVER_ensures(!g_last_empty);
void BW__cleanup_invalidated_thread_contexts(BW* self)
__CPROVER_requires(g_flushes == 1) /*@ C07 "contexts of finished threads are reclaimed only after the final flush" */
__CPROVER_assigns(g_cleanups_tc) __CPROVER_ensures(g_cleanups_tc == OLD(g_cleanups_tc) + 1);
void BW__cleanup_invalidated_loggers(BW* self) __CPROVER_requires(g_flushes == 1) __CPROVER_assigns(g_cleanups_lg) __CPROVER_ensures(g_cleanups_lg == OLD(g_cleanups_lg) + 1);
#define BW__flush_and_run_active_sinks(self, a, b) BW_flush_sinks(self, a, b)
#define BW_has_pending_events_for_caching_when_transit_event_buffer_empty(self) BW_has_pending(self)
'''
bw_exit = dict(
    name='BW.exit', primary='C07', props={'C07'}, kind='S',
    desc='BackendWorker::_exit: the worker leaves only after an emptiness check of all queues and buffers returned true (when configured to wait), and flushes every sink after that check',
    structs=[], prelude=EX_PRELUDE, enforce='BW__exit',
    replace=['BW__check_frontend_queues_and_cached_transit_events_empty', 'BW__check_failure_counter', 'BW_flush_sinks', 'BW__populate_transit_events_from_frontend_queues', 'BW_has_pending',
             'BW__process_lowest_timestamp_transit_event', 'BW__cleanup_invalidated_thread_contexts', 'BW__cleanup_invalidated_loggers'], loopcontracts=True,
    funcs=[dict(src=dict(header=BH, cls='BackendWorker', name='_exit'), src_params=[], cfun='BW__exit', sig='void BW__exit(BW* self)', cls_c='BW', member_fields=['_options'],
                siblings=['_check_frontend_queues_and_cached_transit_events_empty', '_check_failure_counter', '_flush_and_run_active_sinks', '_populate_transit_events_from_frontend_queues',
                          'has_pending_events_for_caching_when_transit_event_buffer_empty', '_process_lowest_timestamp_transit_event', '_cleanup_invalidated_thread_contexts', '_cleanup_invalidated_loggers'],
                pre_rules=[(r'_check_failure_counter\(_options\.error_notifier\)', '_check_failure_counter()', '?'), (r'std::chrono::milliseconds\{0\}', '0', '?')],
                loops={r'while\s*\(\s*true\s*\)': r'''
__CPROVER_assigns(g_last_empty, g_checked, g_failure_checks, g_flushes)
__CPROVER_loop_invariant(g_flushes == 0)
''', r'while\s*\(\s*\(?\s*!\s*BW_has_pending': r'''
__CPROVER_assigns(g_last_empty)
__CPROVER_loop_invariant(1 == 1)
'''},
                contract=r'''
__CPROVER_requires(__CPROVER_is_fresh(self, sizeof(*self)) && g_flushes == 0 && g_cleanups_tc == 0 && g_cleanups_lg == 0 && !g_checked)
__CPROVER_assigns(g_last_empty, g_checked, g_failure_checks, g_flushes, g_cleanups_tc, g_cleanups_lg)
__CPROVER_ensures(g_flushes == 1) /*@ C07 "the worker flushes every sink exactly once on its way out" */
__CPROVER_ensures(g_cleanups_tc == 1 && g_cleanups_lg == 1) /*@ C07 "contexts of finished threads and removed loggers are reclaimed on exit (the backend can be started again)" */
''')],
    harness='  BW* s; BW__exit(s);',
    dropped=['the error notifier argument of _check_failure_counter'], trusted=['the emptiness check, populate, process and flush functions by their own units'], min_obligations=20)

ST_PRELUDE = r'''
typedef struct BW { bool _is_worker_running; bool g_joinable; uint32_t _worker_thread_id; } BW;
size_t g_notifies, g_joins, g_lock_resets, g_clock, g_t_notify, g_t_join;
static inline bool RUN_exchange(BW* s, bool v, int mo) { bool o = s->_is_worker_running; s->_is_worker_running = v; return o; }
#define ATOMIC_EXCHANGE__is_worker_running(s, v, mo) RUN_exchange(s, v, mo)
#define ATOMIC_STORE__worker_thread_id(s, v, mo) ((s)->_worker_thread_id = (v))
void BW_notify(BW* self) __CPROVER_assigns(g_notifies, g_clock, g_t_notify) __CPROVER_ensures(g_notifies == OLD(g_notifies) + 1 && g_clock == OLD(g_clock) + 1 && g_t_notify == g_clock);
static inline bool THREAD_joinable(BW* s) { return s->g_joinable; }
void THREAD_join(BW* self) __CPROVER_requires(self->g_joinable) __CPROVER_assigns(self->g_joinable, g_joins, g_clock, g_t_join) __CPROVER_ensures(!self->g_joinable && g_joins == OLD(g_joins) + 1 && g_clock == OLD(g_clock) + 1 && g_t_join == g_clock);
void LOCK_reset(BW* self) __CPROVER_assigns(g_lock_resets) __CPROVER_ensures(g_lock_resets == OLD(g_lock_resets) + 1);
'''
bw_stop = dict(
    name='BW.stop', primary='C07', props={'C07'}, kind='S',
    desc='BackendWorker::stop: a running worker is woken and joined exactly once (stop returns only after the worker thread - and therefore _exit - has finished); stopping twice is harmless',
    structs=[], prelude=ST_PRELUDE, enforce='BW_stop', replace=['BW_notify', 'THREAD_join', 'LOCK_reset'],
    funcs=[dict(src=dict(header=BH, cls='BackendWorker', name='stop'), src_params=[], cfun='BW_stop', sig='void BW_stop(BW* self)', cls_c='BW',
                member_fields=['_is_worker_running', '_worker_thread_id'], atomics=['_is_worker_running', '_worker_thread_id'], siblings=['notify'],
                pre_rules=[(r'_worker_thread\.joinable\(\)', 'THREAD_joinable(self)', 1), (r'_worker_thread\.join\(\)', 'THREAD_join(self)', '?'), (r'_backend_worker_lock\.reset\(nullptr\)', 'LOCK_reset(self)', 1)],
                contract=r'''
__CPROVER_requires(__CPROVER_is_fresh(self, sizeof(*self)) && g_notifies == 0 && g_joins == 0 && g_clock == 0)
__CPROVER_assigns(self->_is_worker_running, self->g_joinable, self->_worker_thread_id, g_notifies, g_joins, g_lock_resets, g_clock, g_t_notify, g_t_join)
__CPROVER_ensures(OLD(self->_is_worker_running) ==> (!self->_is_worker_running && g_notifies == 1 && (OLD(self->g_joinable) ==> (g_joins == 1 && g_t_notify < g_t_join && !self->g_joinable)) && self->_worker_thread_id == 0)) /*@ C07 "stop() wakes the worker and returns only after the worker thread has terminated (joined exactly once)" */
__CPROVER_ensures(!OLD(self->_is_worker_running) ==> (g_notifies == 0 && g_joins == 0)) /*@ C07 "stopping a stopped backend does nothing" */
''')],
    harness='  BW* s; BW_stop(s);', dropped=['std::thread as a joinable flag', 'BackendWorkerLock'], trusted=['std::thread::join returns after the thread function returned'], min_obligations=10)

BM_PRELUDE = r'''
typedef struct OnceFlag { bool g_used; } OnceFlag;
typedef struct BM { OnceFlag* _start_once_flag; } BM;
size_t g_stops, g_clock, g_t_stop, g_t_exchange;
void WORKER_stop(BM* self) __CPROVER_assigns(g_stops, g_clock, g_t_stop) __CPROVER_ensures(g_stops == OLD(g_stops) + 1 && g_clock == OLD(g_clock) + 1 && g_t_stop == g_clock);
OnceFlag* ONCE_new(void) __CPROVER_assigns() __CPROVER_ensures(__CPROVER_is_fresh(RET, sizeof(OnceFlag)) && !RET->g_used);
static inline OnceFlag* FLAG_exchange(BM* s, OnceFlag* v, int mo) { OnceFlag* o = s->_start_once_flag; s->_start_once_flag = v; g_clock++; g_t_exchange = g_clock; return o; }
#define ATOMIC_EXCHANGE__start_once_flag(s, v, mo) FLAG_exchange(s, v, mo)
#define OBJ_DELETE(p) free(p)
'''
bm_stop = dict(
    name='BM.stop_backend_thread', primary='C07', props={'C07'}, kind='S',
    desc='BackendManager::stop_backend_thread: after the worker stopped a fresh once_flag is installed, so the backend can be started again',
    structs=[], prelude=BM_PRELUDE, enforce='BM_stop_backend_thread', replace=['WORKER_stop', 'ONCE_new'],
    funcs=[dict(src=dict(header=MH, cls='BackendManager', name='stop_backend_thread'), src_params=[], cfun='BM_stop_backend_thread', sig='void BM_stop_backend_thread(BM* self)', cls_c='BM',
                member_fields=['_start_once_flag'], atomics=['_start_once_flag'],
                pre_rules=[(r'_backend_worker\.stop\(\)', 'WORKER_stop(self)', 1), (r'auto\s*\*\s*new_flag\s*=\s*new\s+std::once_flag\(\)\s*;', 'OnceFlag* new_flag = ONCE_new();', 1),
                           (r'std::once_flag\s*\*\s*old_flag', 'OnceFlag* old_flag', 1)],
                contract=r'''
__CPROVER_requires(__CPROVER_is_fresh(self, sizeof(*self)) && __CPROVER_is_fresh(self->_start_once_flag, sizeof(OnceFlag)) && g_stops == 0 && g_clock == 0)
__CPROVER_assigns(self->_start_once_flag, g_stops, g_clock, g_t_stop, g_t_exchange)
__CPROVER_frees(self->_start_once_flag)
__CPROVER_ensures(g_stops == 1 && g_t_stop < g_t_exchange) /*@ C07 "the worker is stopped (joined) before a restart is made possible" */
__CPROVER_ensures(self->_start_once_flag != OLD(self->_start_once_flag) && !self->_start_once_flag->g_used && __CPROVER_was_freed(OLD(self->_start_once_flag))) /*@ C07 "a fresh, unused once_flag replaces the old one: Backend::start() works again after Backend::stop()" */
''')],
    harness='  BM* m; BM_stop_backend_thread(m);', dropped=['std::once_flag as an object with a used flag'], trusted=[], min_obligations=10)

SG_PRELUDE = r'''
typedef uint8_t LogLevel; enum { LL_TraceL3, LL_TraceL2, LL_TraceL1, LL_Debug, LL_Info, LL_Notice, LL_Warning, LL_Error, LL_Critical, LL_Backtrace, LL_None, LL_Dynamic };
#define SIGINT_ 2
#define SIGTERM_ 15
typedef struct LGx { int d; } LGx;
/* ghost event trace: every call takes a tick of the clock */
size_t g_clock, g_t_info, g_t_critical, g_t_flush, g_t_sigdfl, g_t_raise, g_t_exit, g_t_alarm; size_t g_infos, g_criticals, g_flushes, g_raises, g_exits, g_sigdfls; int g_raised_signal, g_exit_code, g_dfl_signal; bool g_paused;
uint32_t g_lock_value, g_backend_tid, g_current_tid; bool g_reraise; LGx* g_logger;
#define TICK(t) (g_clock++, (t) = g_clock)
static inline uint32_t CTX_lock_fetch_add(void) { return g_lock_value; }
void PAUSE_FOREVER(void) __CPROVER_assigns(g_paused) __CPROVER_ensures(g_paused);
void CTX_store_signal(int s) __CPROVER_assigns() __CPROVER_ensures(1 == 1);
void ALARM(void) __CPROVER_assigns(g_clock, g_t_alarm) __CPROVER_ensures(g_clock == OLD(g_clock) + 1 && g_t_alarm == g_clock);
static inline uint32_t CTX_backend_thread_id(void) { return g_backend_tid; }
static inline uint32_t get_thread_id(void) { return g_current_tid; }
static inline bool CTX_should_reraise(void) { return g_reraise; }
static inline LGx* CTX_get_logger(void) { return g_logger; }
void SH_LOG(LGx* l, LogLevel lvl) __CPROVER_assigns(g_clock, g_t_info, g_t_critical, g_infos, g_criticals)
__CPROVER_ensures(g_clock == OLD(g_clock) + 1 && (lvl == LL_Info ? (g_t_info == g_clock && g_infos == OLD(g_infos) + 1 && g_criticals == OLD(g_criticals) && g_t_critical == OLD(g_t_critical)) : (g_t_critical == g_clock && g_criticals == OLD(g_criticals) + 1 && g_infos == OLD(g_infos) && g_t_info == OLD(g_t_info))));
void LG_flush_log(LGx* l, uint32_t d) __CPROVER_assigns(g_clock, g_t_flush, g_flushes) __CPROVER_ensures(g_clock == OLD(g_clock) + 1 && g_t_flush == g_clock && g_flushes == OLD(g_flushes) + 1);
void EXIT_(int code) __CPROVER_assigns(g_clock, g_t_exit, g_exits, g_exit_code) __CPROVER_ensures(g_clock == OLD(g_clock) + 1 && g_t_exit == g_clock && g_exits == OLD(g_exits) + 1 && g_exit_code == code);
void SIGNAL_DFL(int s) __CPROVER_assigns(g_clock, g_t_sigdfl, g_sigdfls, g_dfl_signal) __CPROVER_ensures(g_clock == OLD(g_clock) + 1 && g_t_sigdfl == g_clock && g_sigdfls == OLD(g_sigdfls) + 1 && g_dfl_signal == s);
void RAISE(int s) __CPROVER_assigns(g_clock, g_t_raise, g_raises, g_raised_signal) __CPROVER_ensures(g_clock == OLD(g_clock) + 1 && g_t_raise == g_clock && g_raises == OLD(g_raises) + 1 && g_raised_signal == s);
'''
on_signal = dict(
    name='SIG.on_signal', primary='C07', props={'C07'}, kind='S',
    desc='detail::on_signal on a thread that has logged (frontend thread, valid logger): notice, flush, then death by the original signal with the default handler - or a successful exit for SIGINT/SIGTERM; on the backend thread: re-raise / exit without logging',
    structs=[], prelude=SG_PRELUDE, enforce='on_signal',
    replace=['PAUSE_FOREVER', 'CTX_store_signal', 'ALARM', 'SH_LOG', 'LG_flush_log', 'EXIT_', 'SIGNAL_DFL', 'RAISE'],
    funcs=[dict(src=dict(header=SH, cls=None, name='on_signal'), src_params=['signal_number'], cfun='on_signal', sig='void on_signal(int32_t signal_number)', member_fields=[],
                pre_rules=[(r'SignalHandlerContext::instance\(\)\.lock\.fetch_add\(1\)', 'CTX_lock_fetch_add()', 1), (r'\bpause\(\)\s*;', 'PAUSE_FOREVER(); return;', 1),
                           (r'SignalHandlerContext::instance\(\)\.signal_number\.store\(signal_number\)', 'CTX_store_signal(signal_number)', 1),
                           (r'alarm\(SignalHandlerContext::instance\(\)\.signal_handler_timeout_seconds\.load\(\)\)', 'ALARM()', 1),
                           (r'SignalHandlerContext::instance\(\)\.backend_thread_id\.load\(\)', 'CTX_backend_thread_id()', 1),
                           (r'SignalHandlerContext::instance\(\)\.should_reraise_signal\.load\(\)', 'CTX_should_reraise()', 1),
                           (r'LoggerBase\s*\*\s*logger_base\s*=\s*SignalHandlerContext::instance\(\)\.get_logger\(\)', 'LGx* logger_base = CTX_get_logger()', 1),
                           (r'char const\* const signal_desc\s*=\s*::strsignal\(signal_number\)\s*;', '', 1),
                           (r'auto\s+logger\s*=\s*reinterpret_cast<LoggerImpl<TFrontendOptions>\*>\(logger_base\)\s*;', 'LGx* logger = logger_base;', 1),
                           (r'do\s*\{\s*if\s*\(logger->template should_log_statement<LogLevel::(\w+)>\(\)\)\s*\{.*?\}\s*\}\s*while\s*\(0\)', r'SH_LOG(logger, LL_\1)', 2),
                           (r'logger->flush_log\(0\)', 'LG_flush_log(logger, 0)'),
                           (r'std::exit\(0\)\s*;', 'EXIT_(0); return;', '?'), (r'std::exit\(EXIT_SUCCESS\)\s*;', 'EXIT_(0); return;', '?'),
                           (r'std::signal\(signal_number,\s*(?:SIG_DFL|\(\(__sighandler_t\)\s*0\)|[^)]*)\)', 'SIGNAL_DFL(signal_number)'), (r'std::raise\(signal_number\)\s*;', 'RAISE(signal_number); return;'),
                           (r'\bSIGINT\b', 'SIGINT_', '?'), (r'\bSIGTERM\b', 'SIGTERM_', '?')],
                contract=r'''
__CPROVER_requires(g_clock == 0 && g_infos == 0 && g_criticals == 0 && g_flushes == 0 && g_raises == 0 && g_exits == 0 && g_sigdfls == 0 && !g_paused && signal_number > 0 && signal_number < 65 && (g_logger == NULL || __CPROVER_is_fresh(g_logger, sizeof(LGx))))
__CPROVER_assigns(g_clock, g_t_info, g_t_critical, g_t_flush, g_t_sigdfl, g_t_raise, g_t_exit, g_t_alarm, g_infos, g_criticals, g_flushes, g_raises, g_exits, g_sigdfls, g_raised_signal, g_exit_code, g_dfl_signal, g_paused)
#define FIRST (g_lock_value == 0)
#define FRONTEND (g_backend_tid != 0 && g_current_tid != g_backend_tid)
#define TERM (signal_number == SIGINT_ || signal_number == SIGTERM_)
__CPROVER_ensures(!FIRST ==> (g_paused && g_infos == 0 && g_flushes == 0 && g_raises == 0 && g_exits == 0)) /*@ C07 "only the first thread to enter the handler acts; the others wait" */
__CPROVER_ensures((FIRST && FRONTEND && g_logger != NULL && TERM) ==> (g_infos == 1 && g_flushes == 1 && g_exits == 1 && g_exit_code == 0 && g_raises == 0 && g_t_info < g_t_flush && g_t_flush < g_t_exit)) /*@ C07 "SIGINT/SIGTERM on a thread that has logged: the notice is logged, everything is flushed, then the process exits successfully" */
__CPROVER_ensures((FIRST && FRONTEND && g_logger != NULL && !TERM && g_reraise) ==> (g_infos == 1 && g_criticals == 1 && g_flushes == 1 && g_sigdfls == 1 && g_raises == 1 && g_raised_signal == signal_number && g_dfl_signal == signal_number && g_exits == 0 && g_t_info < g_t_critical && g_t_critical < g_t_flush && g_t_flush < g_t_sigdfl && g_t_sigdfl < g_t_raise)) /*@ C07 "a fatal signal on a thread that has logged: both notices are logged after the thread's earlier statements, flushed, and then the process dies from the ORIGINAL signal with the default disposition" */
__CPROVER_ensures((FIRST && FRONTEND && g_logger != NULL && !TERM && !g_reraise) ==> (g_infos == 1 && g_flushes == 1 && g_raises == 0 && g_exits == 0 && g_t_info < g_t_flush)) /*@ C07 "with re-raising disabled the notice is still logged and flushed" */
__CPROVER_ensures((FIRST && !FRONTEND && TERM) ==> (g_exits == 1 && g_exit_code == 0 && g_infos == 0 && g_flushes == 0)) /*@ C07 "on the backend thread (or without a backend) nothing can be flushed: SIGINT/SIGTERM exit successfully" */
__CPROVER_ensures((FIRST && !FRONTEND && !TERM && g_reraise) ==> (g_raises == 1 && g_raised_signal == signal_number && g_sigdfls == 1 && g_t_sigdfl < g_t_raise && g_flushes == 0)) /*@ C07 "... and a fatal signal is re-raised with the default disposition" */
__CPROVER_ensures(FIRST ==> g_t_alarm != 0) /*@ C07 "a watchdog alarm is armed before anything that could block" */
''')],
    harness='  int32_t s; on_signal(s);',
    dropped=['the log call macro bodies (one stub per expansion: level kept)', 'strsignal text', 'SignalHandlerContext singleton as globals', 'template parameter TFrontendOptions'],
    trusted=['pause() does not return in the second thread; std::exit / std::raise do not return', 'flush_log(0) by its contract (unit LG.flush_log)', 'async-signal-safety, signal masks, atexit ordering'],
    min_obligations=20)

UNITS = [bw_exit, bw_stop, bm_stop, on_signal]

# ------------------------------------------------------------------------------------------ the worker thread function (lambda in BackendWorker::run)
ML_PRELUDE = r'''
typedef struct Options { uint16_t cpu_affinity; } Options;
typedef struct BW { Options _options; bool _is_worker_running; } BW;
size_t g_inits, g_polls, g_exits, g_notify_calls, g_thrown_total; bool g_running_published, g_stop_seen;
void BW__init(BW* self) __CPROVER_requires(g_inits == 0) __CPROVER_assigns(g_inits) __CPROVER_ensures(g_inits == 1);
/* OS calls that may fail with a QuillError - or anything else */
void SET_CPU_AFFINITY(uint16_t cpu) __CPROVER_assigns(g_exc, g_thrown_total) __CPROVER_ensures((g_exc == 0 || g_exc == EXC_STD || g_exc == EXC_OTHER) && g_thrown_total == OLD(g_thrown_total) + (g_exc != 0 ? 1 : 0));
void SET_THREAD_NAME(BW* self) __CPROVER_assigns(g_exc, g_thrown_total) __CPROVER_ensures((g_exc == 0 || g_exc == EXC_STD || g_exc == EXC_OTHER) && g_thrown_total == OLD(g_thrown_total) + (g_exc != 0 ? 1 : 0));
void ERROR_NOTIFIER(BW* self) __CPROVER_assigns(g_notify_calls) __CPROVER_ensures(g_notify_calls == OLD(g_notify_calls) + 1);
/* one pass of the backend: may let an exception of ANY type escape (user sinks, notifier callbacks, allocation) */
void BW__poll(BW* self)
__CPROVER_requires(g_running_published && g_exits == 0) /*@ C07 "the worker polls only between publishing that it runs and its exit drain" */
__CPROVER_assigns(g_polls, g_exc, g_thrown_total) __CPROVER_ensures(g_polls == OLD(g_polls) + 1 && (g_exc == 0 || g_exc == EXC_STD || g_exc == EXC_OTHER) && g_thrown_total == OLD(g_thrown_total) + (g_exc != 0 ? 1 : 0));
void BW__exit(BW* self)
__CPROVER_requires(g_stop_seen) /*@ C07 "the exit drain starts only after the worker saw the stop request" */
__CPROVER_assigns(g_exits, g_exc, g_thrown_total) __CPROVER_ensures(g_exits == OLD(g_exits) + 1 && (g_exc == 0 || g_exc == EXC_STD || g_exc == EXC_OTHER) && g_thrown_total == OLD(g_thrown_total) + (g_exc != 0 ? 1 : 0));
/* _is_worker_running: stored by this thread once; stop() on another thread clears it at any time (rely step inside the load) */
/* branch-free on purpose: a shim that ends in an `if` right before a loop with a contract gives the loop head a second
   entry edge after inlining, which bypasses DFCC's havoc (seen as a failing loop_step_unwinding check) */
static inline void RUN_store(BW* s, bool v, int mo) { s->_is_worker_running = v; g_running_published = (bool)(g_running_published | v); }
bool RUN_load(BW* s, int mo) __CPROVER_assigns(s->_is_worker_running, g_stop_seen) __CPROVER_ensures(RET == s->_is_worker_running && (OLD(s->_is_worker_running) || !s->_is_worker_running) && g_stop_seen == !RET);
#define ATOMIC_STORE__is_worker_running(s, v, mo) RUN_store(s, v, mo)
#define ATOMIC_LOAD__is_worker_running(s, mo) RUN_load(s, mo)
'''
main_loop = dict(
    name='BW.main_loop', primary='C10', props={'C10', 'C07'}, kind='S',
    desc='the worker thread function (lambda in BackendWorker::run): no exception of any type escapes the thread (each is reported once and the loop goes on), the worker keeps polling until it sees the stop request, then runs the exit drain exactly once',
    structs=[], prelude=ML_PRELUDE, enforce='BW_thread_main', replace=['BW__init', 'SET_CPU_AFFINITY', 'SET_THREAD_NAME', 'ERROR_NOTIFIER', 'BW__poll', 'BW__exit', 'RUN_load'], loopcontracts=True,
    funcs=[dict(src=dict(header=BH, cls='BackendWorker', name='run', lambda_after=r'std::thread\s+worker\(\s*\[this,\s*options\]\(\)'), cfun='BW_thread_main', sig='void BW_thread_main(BW* self)', cls_c='BW',
                member_fields=['_options', '_is_worker_running'], atomics=['_is_worker_running'], siblings=['_poll', '_exit'],
                pre_rules=[(r'_init\(options\)\s*;', 'BW__init(self);', '!'), (r'\(std::numeric_limits<uint16_t>::max\)\(\)', '((uint16_t)65535)'),
                           (r'set_cpu_affinity\(_options\.cpu_affinity\)\s*;', 'SET_CPU_AFFINITY(_options.cpu_affinity);'), (r'set_thread_name\(_options\.thread_name\.data\(\)\)\s*;', 'SET_THREAD_NAME(self);'),
                           (r'_options\.error_notifier\s*\([^;]*\)\s*;', 'ERROR_NOTIFIER(self);')],
                exceptions=True, may_throw=['SET_CPU_AFFINITY', 'SET_THREAD_NAME', 'BW__poll', 'BW__exit'],
                loops={r'while\s*\(.*?_is_worker_running': r'''
__CPROVER_assigns(self->_is_worker_running, g_stop_seen, g_polls, g_exc, g_thrown_total, g_notify_calls)
__CPROVER_loop_invariant(g_exc == 0 && g_exits == 0 && g_running_published && g_notify_calls == g_thrown_total)
'''},
                contract=r'''
__CPROVER_requires(__CPROVER_is_fresh(self, sizeof(*self)) && g_exc == 0 && g_inits == 0 && g_exits == 0 && g_notify_calls == 0 && g_thrown_total == 0 && !g_running_published && !g_stop_seen && !self->_is_worker_running)
__CPROVER_assigns(self->_is_worker_running, g_inits, g_polls, g_exits, g_notify_calls, g_thrown_total, g_running_published, g_stop_seen, g_exc)
__CPROVER_ensures(g_exc == 0) /*@ C10 "no exception of any type escapes the backend thread: a throwing sink, notifier or OS call never terminates the process or the worker" */
__CPROVER_ensures(g_notify_calls == g_thrown_total) /*@ C10 "every exception that reaches the thread function is reported through the error notifier exactly once" */
__CPROVER_ensures(g_exits == 1 && g_stop_seen) /*@ C07 "the worker leaves its loop only on the stop request and then runs the exit drain exactly once" */
''')],
    harness='  BW* s; BW_thread_main(s);',
    dropped=['the options copy captured by the lambda (passed to _init)', 'text of the error messages'], trusted=['_poll and _exit by their own units; stop() on another thread may clear the running flag at any time (rely step in the load stub)', '_init does not throw (valid limits, unit BW.init_limits): it runs outside any try block, so an invalid configuration terminates the process - a configuration error, outside C10', 'termination of the loop (liveness) is not claimed'], min_obligations=20)
UNITS.append(main_loop)

# ------------------------------------------------------------------------------------------ BackendWorker::_poll: one pass of the backend
PO_PRELUDE = r'''
typedef struct Options { size_t transit_events_soft_limit; int64_t sleep_duration; bool enable_yield_when_idle; int64_t sink_min_flush_interval; } Options;
typedef struct BW { Options _options; bool _wake_up_flag; } BW;
size_t g_clock, g_t_update, g_t_populate, g_t_first_process, g_t_empty_check, g_t_sleep, g_t_cleanup_tc, g_t_cleanup_lg;
size_t g_updates, g_populates, g_processes, g_pending_checks, g_flushes, g_failure_checks, g_empty_checks, g_cleanups_tc, g_cleanups_lg, g_shrinks, g_sleeps, g_yields, g_resyncs;
size_t g_cached; bool g_last_pending, g_last_pending_valid, g_all_empty;
#define TICK (g_clock == OLD(g_clock) + 1)
void BW__update_active_thread_contexts_cache(BW* self) __CPROVER_assigns(g_clock, g_t_update, g_updates) __CPROVER_ensures(TICK && g_t_update == g_clock && g_updates == OLD(g_updates) + 1);
size_t BW__populate_transit_events_from_frontend_queues(BW* self)
__CPROVER_requires(g_updates == 1) /*@ C03 "the queues are read after the set of threads was refreshed" */
__CPROVER_assigns(g_clock, g_t_populate, g_populates, g_cached) __CPROVER_ensures(TICK && g_t_populate == g_clock && g_populates == OLD(g_populates) + 1 && RET == g_cached);
bool BW_has_pending(BW* self) __CPROVER_assigns(g_clock, g_pending_checks, g_last_pending, g_last_pending_valid) __CPROVER_ensures(TICK && g_pending_checks == OLD(g_pending_checks) + 1 && g_last_pending == RET && g_last_pending_valid);
bool BW__process_lowest_timestamp_transit_event(BW* self)
__CPROVER_requires(g_populates == 1 && g_cached != 0) /*@ C05 "an event is written only after the queues were read in this pass and something is buffered" */
__CPROVER_requires(g_processes == 0 || (g_last_pending_valid && !g_last_pending)) /*@ C05 "after the first event of a pass (which follows a complete read of the queues) every further event is written right after a negative pending check" */
__CPROVER_assigns(g_clock, g_processes, g_t_first_process, g_last_pending_valid) __CPROVER_ensures(TICK && g_processes == OLD(g_processes) + 1 && !g_last_pending_valid && (OLD(g_processes) == 0 ? g_t_first_process == g_clock : g_t_first_process == OLD(g_t_first_process)));
void BW_flush_sinks(BW* self, bool periodic, int64_t interval)
__CPROVER_requires(periodic && interval == self->_options.sink_min_flush_interval) /*@ C06 "the idle flush honours the configured minimum flush interval and runs the sinks' periodic tasks" */
__CPROVER_assigns(g_clock, g_flushes) __CPROVER_ensures(TICK && g_flushes == OLD(g_flushes) + 1);
size_t g_t_failure_check;
void BW__check_failure_counter(BW* self) __CPROVER_assigns(g_clock, g_failure_checks, g_t_failure_check) __CPROVER_ensures(TICK && g_failure_checks == OLD(g_failure_checks) + 1 && g_t_failure_check == g_clock);
void BW__resync_rdtsc_clock(BW* self) __CPROVER_assigns(g_resyncs) __CPROVER_ensures(g_resyncs == OLD(g_resyncs) + 1);
bool BW__check_frontend_queues_and_cached_transit_events_empty(BW* self) __CPROVER_assigns(g_clock, g_t_empty_check, g_empty_checks, g_all_empty) __CPROVER_ensures(TICK && g_t_empty_check == g_clock && g_empty_checks == OLD(g_empty_checks) + 1 && g_all_empty == RET);
void BW__cleanup_invalidated_thread_contexts(BW* self)
__CPROVER_requires(g_empty_checks == 1 && g_all_empty && g_processes == 0) /*@ C20 "in a pass, thread contexts are reclaimed only after every queue and buffer was found empty" */
__CPROVER_assigns(g_clock, g_t_cleanup_tc, g_cleanups_tc) __CPROVER_ensures(TICK && g_t_cleanup_tc == g_clock && g_cleanups_tc == OLD(g_cleanups_tc) + 1);
void BW__cleanup_invalidated_loggers(BW* self)
__CPROVER_requires(g_empty_checks == 1 && g_all_empty && g_processes == 0) /*@ C17 "in a pass, removed loggers are destroyed only after every queue and buffer was found empty" */
__CPROVER_assigns(g_clock, g_t_cleanup_lg, g_cleanups_lg) __CPROVER_ensures(TICK && g_t_cleanup_lg == g_clock && g_cleanups_lg == OLD(g_cleanups_lg) + 1);
void BW__try_shrink_empty_transit_event_buffers(BW* self) __CPROVER_requires(g_all_empty) __CPROVER_assigns(g_shrinks) __CPROVER_ensures(g_shrinks == OLD(g_shrinks) + 1);
void CV_WAIT_FOR(BW* self)
__CPROVER_requires(g_empty_checks == 1 && g_all_empty && g_cached == 0) /*@ C09 "the backend goes to sleep only in a pass that read nothing and found every queue and buffer empty: it never sleeps on a queue that holds statements or on a producer waiting for room" */
__CPROVER_assigns(g_clock, g_t_sleep, g_sleeps, self->_wake_up_flag) __CPROVER_ensures(TICK && g_t_sleep == g_clock && g_sleeps == OLD(g_sleeps) + 1);
void THREAD_YIELD(void) __CPROVER_assigns(g_yields) __CPROVER_ensures(g_yields == OLD(g_yields) + 1);
#define BW__flush_and_run_active_sinks(self, a, b) BW_flush_sinks(self, a, b)
#define BW_has_pending_events_for_caching_when_transit_event_buffer_empty(self) BW_has_pending(self)
'''
bw_poll = dict(
    name='BW.poll', primary='C05', props={'C08', 'C05', 'C03', 'C06', 'C09', 'C17', 'C20'}, kind='S',
    desc='BackendWorker::_poll, one pass: refresh the threads, read the queues, then either write (one event below the soft limit, a checked batch above it) or - only when nothing was read - flush, report drops, and reclaim / sleep only if everything was found empty',
    structs=[], prelude=PO_PRELUDE, enforce='BW__poll',
    replace=['BW__update_active_thread_contexts_cache', 'BW__populate_transit_events_from_frontend_queues', 'BW_has_pending', 'BW__process_lowest_timestamp_transit_event', 'BW_flush_sinks', 'BW__check_failure_counter',
             'BW__resync_rdtsc_clock', 'BW__check_frontend_queues_and_cached_transit_events_empty', 'BW__cleanup_invalidated_thread_contexts', 'BW__cleanup_invalidated_loggers', 'BW__try_shrink_empty_transit_event_buffers',
             'CV_WAIT_FOR', 'THREAD_YIELD'], loopcontracts=True,
    funcs=[dict(src=dict(header=BH, cls='BackendWorker', name='_poll'), src_params=[], cfun='BW__poll', sig='void BW__poll(BW* self)', cls_c='BW', member_fields=['_options', '_wake_up_flag'],
                siblings=['_update_active_thread_contexts_cache', '_populate_transit_events_from_frontend_queues', 'has_pending_events_for_caching_when_transit_event_buffer_empty', '_process_lowest_timestamp_transit_event',
                          '_flush_and_run_active_sinks', '_check_failure_counter', '_resync_rdtsc_clock', '_check_frontend_queues_and_cached_transit_events_empty', '_cleanup_invalidated_thread_contexts',
                          '_cleanup_invalidated_loggers', '_try_shrink_empty_transit_event_buffers'],
                pre_rules=[(r'_check_failure_counter\(_options\.error_notifier\)', '_check_failure_counter()'), (r'_options\.sleep_duration\.count\(\)', '_options.sleep_duration'),
                           (r'std::unique_lock<std::mutex>\s+lock\{_wake_up_mutex\}\s*;', ''), (r'_wake_up_cv\.wait_for\(lock,\s*_options\.sleep_duration,\s*\[this\]\s*\{\s*return _wake_up_flag;\s*\}\)\s*;', 'CV_WAIT_FOR(self);'),
                           (r'std::this_thread::yield\(\)\s*;', 'THREAD_YIELD();')],
                loops={r'while\s*\(\s*\(?\s*!\s*BW_has_pending': r'''
__CPROVER_assigns(g_clock, g_pending_checks, g_last_pending, g_last_pending_valid, g_processes, g_t_first_process)
__CPROVER_loop_invariant(g_populates == 1 && g_cached != 0 && g_cached >= self->_options.transit_events_soft_limit)
'''},
                contract=r'''
__CPROVER_requires(__CPROVER_is_fresh(self, sizeof(*self)) && g_clock == 0 && g_updates == 0 && g_populates == 0 && g_processes == 0 && g_pending_checks == 0 && g_flushes == 0 && g_failure_checks == 0 && g_empty_checks == 0 && g_cleanups_tc == 0 && g_cleanups_lg == 0 && g_sleeps == 0 && g_yields == 0 && !g_last_pending_valid && g_t_first_process == 0)
__CPROVER_assigns(g_t_failure_check)
__CPROVER_assigns(g_clock, g_t_update, g_t_populate, g_t_first_process, g_t_empty_check, g_t_sleep, g_t_cleanup_tc, g_t_cleanup_lg, g_updates, g_populates, g_processes, g_pending_checks, g_flushes, g_failure_checks, g_empty_checks, g_cleanups_tc, g_cleanups_lg, g_shrinks, g_sleeps, g_yields, g_resyncs, g_cached, g_last_pending, g_last_pending_valid, g_all_empty, self->_wake_up_flag)
__CPROVER_ensures(g_updates == 1 && g_populates == 1 && g_t_update < g_t_populate) /*@ C03 "every pass refreshes the set of threads and then reads every queue once" */
__CPROVER_ensures(g_processes > 0 ==> (g_cached != 0 && g_flushes == 0 && g_sleeps == 0 && g_cleanups_tc == 0 && g_cleanups_lg == 0)) /*@ C05 "events are written only when this pass buffered something (and, by the precondition of the processing step, after it read the queues); a pass that writes neither sleeps nor reclaims" */
__CPROVER_ensures(g_cached == 0 ==> (g_processes == 0 && g_flushes == 1 && g_failure_checks == 1 && g_empty_checks == 1)) /*@ C06,C08 "a pass that read nothing flushes the sinks, reports dropped statements and checks whether everything is empty" */
__CPROVER_ensures((g_cleanups_tc + g_cleanups_lg + g_sleeps + g_yields > 0) ==> (g_cached == 0 && g_all_empty)) /*@ C20,C17,C09 "reclaiming, sleeping and yielding happen only when every queue and buffer was found empty" */
__CPROVER_ensures((g_cached == 0 && g_all_empty) ==> (g_cleanups_tc == 1 && g_cleanups_lg == 1)) /*@ C20 "whenever everything is empty, exited threads and removed loggers are reclaimed in that very pass" */
__CPROVER_ensures(g_sleeps == 1 ==> (!self->_wake_up_flag && g_t_cleanup_tc < g_t_sleep && g_t_cleanup_lg < g_t_sleep)) /*@ C07 "the wake-up flag is consumed by the sleep it ended" */
__CPROVER_ensures(g_cleanups_tc >= 1 ==> (g_failure_checks >= 1 && g_t_failure_check < g_t_cleanup_tc)) /*@ C08 "an idle pass reports the discard counts BEFORE it reclaims the contexts of exited threads (a reclaimed context takes its counter with it): reported drops add up to the discarded statements" */
''')],
    harness='  BW* s; BW__poll(s);',
    dropped=['std::unique_lock / condition_variable::wait_for as one stub (spurious wake-ups and time-outs are the same event to the caller)', 'the error notifier argument of _check_failure_counter', 'std::chrono durations as integers'],
    trusted=['the called functions by their own units (BW.update_cache*, BW.populate_all, BW.has_pending, BW.process_lowest, BW.flush_sinks, BW.failure_counter, BW.queues_empty, BW.cleanup_pred, BW.cleanup_loggers)'], min_obligations=30)
UNITS.append(bw_poll)

# ------------------------------------------------------------------------------------------ BackendWorker::_init: normalisation / validation of the transit event limits
IN_PRELUDE = r'''
typedef struct Options { size_t transit_events_hard_limit; size_t transit_events_soft_limit; } Options;
typedef struct BW { Options _options; } BW;
#define POW2(x) ((x) != 0 && (((x) & ((x) - 1)) == 0))
'''
bw_init_limits = dict(
    name='BW.init_limits', primary='C03', props={'C03', 'C05'}, kind='L',
    desc='BackendWorker::_init, the statements that normalise and validate transit_events_soft_limit / transit_events_hard_limit: the worker only ever runs with 1 <= soft <= hard, both powers of two (what TransitEventBuffer and the batch logic assume); anything else is an error before the first pass',
    structs=[], prelude=IN_PRELUDE, enforce='BW_init_limits', replace=[],
    funcs=[dict(src=dict(header='quill/core/MathUtilities.h', cls=None, name='is_power_of_two'), src_params=['number'], cfun='is_power_of_two', sig='bool is_power_of_two(uint64_t number)'),
           dict(src=dict(header=BH, cls='BackendWorker', name='_init', stmt_re=r'if \(_options\.transit_events_hard_limit == 0\).*'), cfun='BW_init_limits', sig='void BW_init_limits(BW* self)', cls_c='BW',
                member_fields=['_options'], exceptions=True,
                pre_rules=[(r'throw\s*\(\s*QuillError\s*\{.*?\}\s*\)\s*;(?=\s*\})', 'throw(QuillError{"x"});'), (r'\}\s*\}\s*$', '}')],
                contract=r'''
__CPROVER_requires(__CPROVER_is_fresh(self, sizeof(*self)) && g_exc == 0)
__CPROVER_assigns(self->_options.transit_events_hard_limit, self->_options.transit_events_soft_limit, g_exc)
__CPROVER_ensures(g_exc == 0 ==> (POW2(self->_options.transit_events_hard_limit) && POW2(self->_options.transit_events_soft_limit) && self->_options.transit_events_soft_limit <= self->_options.transit_events_hard_limit)) /*@ C03,C05 "the backend only runs with 1 <= soft limit <= hard limit, both powers of two" */
__CPROVER_ensures((POW2(OLD(self->_options.transit_events_hard_limit)) && POW2(OLD(self->_options.transit_events_soft_limit)) && OLD(self->_options.transit_events_soft_limit) <= OLD(self->_options.transit_events_hard_limit)) ==> (g_exc == 0 && self->_options.transit_events_hard_limit == OLD(self->_options.transit_events_hard_limit) && self->_options.transit_events_soft_limit == OLD(self->_options.transit_events_soft_limit))) /*@ C03 "valid limits are accepted unchanged" */
__CPROVER_ensures(g_exc == 0 || g_exc == EXC_STD)
''')],
    harness='  BW* s; BW_init_limits(s);',
    dropped=['text of the error messages (fmt::format)'], trusted=['_init runs outside any try block of the thread function: an invalid configuration terminates the process (std::terminate) instead of reaching the error notifier - a configuration error, outside C10'], min_obligations=8)
UNITS.append(bw_init_limits)

# ------------------------------------------------------------------------------------------ ManualBackendWorker::poll_one / poll
MBH = 'quill/backend/ManualBackendWorker.h'
MB_PRELUDE = r'''
typedef struct BWm { int dummy; } BWm;
typedef struct MBW { BWm* _backend_worker; } MBW;
size_t g_polls, g_notify_calls, g_thrown_total, g_checks; bool g_last_check;
/* one pass of the backend: may let an exception of ANY type escape (user sinks, notifier callbacks, allocation) */
void BW__poll(BWm* b) __CPROVER_assigns(g_polls, g_exc, g_thrown_total, g_last_check)
__CPROVER_ensures(g_polls == OLD(g_polls) + 1 && (g_exc == 0 || g_exc == EXC_STD || g_exc == EXC_OTHER) && g_thrown_total == OLD(g_thrown_total) + (g_exc != 0 ? 1 : 0) && !g_last_check);
void ERROR_NOTIFIER(BWm* b) __CPROVER_assigns(g_notify_calls) __CPROVER_ensures(g_notify_calls == OLD(g_notify_calls) + 1);
/* _check_frontend_queues_and_cached_transit_events_empty (unit BW.queues_empty): g_last_check remembers the answer of the latest check; a pass invalidates it */
bool BW__check_empty(BWm* b) __CPROVER_assigns(g_checks, g_last_check) __CPROVER_ensures(g_checks == OLD(g_checks) + 1 && g_last_check == RET);
'''
MB_RULES = [(r'_backend_worker->_poll\(\)', 'BW__poll(_backend_worker)'), (r'_backend_worker->_options\.error_notifier\s*\([^;]*\)\s*;', 'ERROR_NOTIFIER(_backend_worker);'),
            (r'_backend_worker->_check_frontend_queues_and_cached_transit_events_empty\(\)', 'BW__check_empty(_backend_worker)')]
mbw_poll_one_f = dict(src=dict(header=MBH, cls='ManualBackendWorker', name='poll_one'), src_params=[], cfun='MBW_poll_one', sig='void MBW_poll_one(MBW* self)', cls_c='MBW',
                      member_fields=['_backend_worker'], pre_rules=MB_RULES, exceptions=True, may_throw=['BW__poll'])
mbw_poll_one = dict(
    name='MBW.poll_one', primary='C10', props={'C10'}, kind='S',
    desc='ManualBackendWorker::poll_one: one backend pass; no exception of any type escapes to the caller, each is reported through the error notifier once',
    structs=[], prelude=MB_PRELUDE, enforce='MBW_poll_one', replace=['BW__poll', 'ERROR_NOTIFIER'],
    funcs=[dict(mbw_poll_one_f, contract=r'''
__CPROVER_requires(__CPROVER_is_fresh(self, sizeof(*self)) && g_exc == 0 && g_polls == 0 && g_notify_calls == 0 && g_thrown_total == 0)
__CPROVER_assigns(g_polls, g_exc, g_thrown_total, g_notify_calls, g_last_check)
__CPROVER_ensures(g_exc == 0) /*@ C10 "no exception of any type escapes a manual backend pass: a throwing sink or notifier never reaches the application thread that polls" */
__CPROVER_ensures(g_polls == 1 && g_notify_calls == g_thrown_total) /*@ C10 "exactly one pass; an exception that reaches poll_one is reported through the error notifier exactly once" */
''')],
    harness='  MBW* m; MBW_poll_one(m);', dropped=['assert (NDEBUG)', 'text of the error messages'], trusted=['BackendWorker::_poll by its own unit (BW.poll); it may throw any type'], min_obligations=8)
mbw_poll = dict(
    name='MBW.poll', primary='C03', props={'C03', 'C06', 'C10'}, kind='S',
    desc='ManualBackendWorker::poll(): passes are repeated until a check finds every queue and buffer empty - it returns only directly after such a check (partial correctness: no termination claim)',
    structs=[], prelude=MB_PRELUDE + r'''
void MBW_poll_one(MBW* self) __CPROVER_requires(g_exc == 0) __CPROVER_assigns(g_polls, g_last_check) __CPROVER_ensures(g_polls == OLD(g_polls) + 1 && !g_last_check);   /* unit MBW.poll_one: contains every exception */
''', enforce='MBW_poll', replace=['MBW_poll_one', 'BW__check_empty'], loopcontracts=True,
    funcs=[dict(src=dict(header=MBH, cls='ManualBackendWorker', name='poll', nth=0), src_params=[], cfun='MBW_poll', sig='void MBW_poll(MBW* self)', cls_c='MBW', member_fields=['_backend_worker'],
                siblings=['poll_one'], pre_rules=MB_RULES,
                loops={r'while\s*\(\s*!': r'''
__CPROVER_assigns(g_polls, g_checks, g_last_check)
__CPROVER_loop_invariant(g_exc == 0)
'''},
                contract=r'''
__CPROVER_requires(__CPROVER_is_fresh(self, sizeof(*self)) && g_exc == 0)
__CPROVER_assigns(g_polls, g_checks, g_last_check)
__CPROVER_ensures(g_last_check) /*@ C03,C06 "poll() returns only directly after a check that found every frontend queue and every backend buffer empty (no pass in between): everything logged before has been processed" */
__CPROVER_ensures(g_exc == 0) /*@ C10 "nothing escapes poll()" */
''')],
    harness='  MBW* m; MBW_poll(m);', dropped=['assert (NDEBUG)'], trusted=['poll_one by unit MBW.poll_one', '_check_frontend_queues_and_cached_transit_events_empty by unit BW.queues_empty'],
    assumes=['partial correctness: whether the loop ends is not claimed'], min_obligations=8)
UNITS += [mbw_poll_one, mbw_poll]

# ------------------------------------------------------------------------------------------ Backend::start (both overloads): the call_once bodies
BEH = 'quill/Backend.h'
ST_PRELUDE = r'''
size_t g_clock, g_t_block, g_t_init_handler, g_t_spawn, g_t_ctx_tid, g_t_unblock, g_t_atexit;
size_t g_spawns, g_atexits, g_blocks, g_unblocks, g_handler_inits, g_ctx_tid_stores; uint32_t g_backend_tid, g_ctx_tid; bool g_atexit_is_stop, g_mask_restored;
typedef struct SigSet { int g_id; } SigSet;
#define TICK (g_clock == OLD(g_clock) + 1)
void START_BACKEND_THREAD(void) __CPROVER_assigns(g_clock, g_t_spawn, g_spawns) __CPROVER_ensures(TICK && g_t_spawn == g_clock && g_spawns == OLD(g_spawns) + 1);
void ATEXIT_STOP(void) __CPROVER_assigns(g_clock, g_t_atexit, g_atexits, g_atexit_is_stop) __CPROVER_ensures(TICK && g_t_atexit == g_clock && g_atexits == OLD(g_atexits) + 1 && g_atexit_is_stop);
static inline void SIGFILLSET(SigSet* s) { s->g_id = 1; }        /* 1 = every signal */
/* sigprocmask(SIG_SETMASK, set, old): installs *set, returns the previous mask in *old (the previous mask has id 2) */
void SIGPROCMASK(SigSet* set, SigSet* oldp) __CPROVER_assigns(g_clock, g_t_block, g_t_unblock, g_blocks, g_unblocks, g_mask_restored) __CPROVER_assigns(oldp != NULL: oldp->g_id)
__CPROVER_ensures(TICK && (set->g_id == 1 ? (g_blocks == OLD(g_blocks) + 1 && g_t_block == g_clock && g_unblocks == OLD(g_unblocks) && g_t_unblock == OLD(g_t_unblock) && g_mask_restored == OLD(g_mask_restored))
                                          : (g_unblocks == OLD(g_unblocks) + 1 && g_t_unblock == g_clock && g_blocks == OLD(g_blocks) && g_t_block == OLD(g_t_block) && g_mask_restored == (set->g_id == 2))))
__CPROVER_ensures(oldp != NULL ==> oldp->g_id == 2);
void INIT_SIGNAL_HANDLER(void) __CPROVER_assigns(g_clock, g_t_init_handler, g_handler_inits) __CPROVER_ensures(TICK && g_t_init_handler == g_clock && g_handler_inits == OLD(g_handler_inits) + 1);
static inline uint32_t GET_BACKEND_TID(void) { return g_backend_tid; }
void CTX_STORE_TID(uint32_t v) __CPROVER_assigns(g_clock, g_t_ctx_tid, g_ctx_tid_stores, g_ctx_tid) __CPROVER_ensures(TICK && g_t_ctx_tid == g_clock && g_ctx_tid_stores == OLD(g_ctx_tid_stores) + 1 && g_ctx_tid == v);
'''
ST_RULES = [(r'detail::BackendManager::instance\(\)\.start_backend_thread\(\w+\)\s*;', 'START_BACKEND_THREAD();', '!'),
            (r'std::atexit\(\[\]\(\)\s*\{\s*detail::BackendManager::instance\(\)\.stop_backend_thread\(\);\s*\}\)\s*;', 'ATEXIT_STOP();'),
            (r'sigset_t\s+set,\s*oldset\s*;', 'SigSet set; SigSet oldset;', '?'), (r'sigfillset\(&set\)\s*;', 'SIGFILLSET(&set);', '?'),
            (r'sigprocmask\(SIG_SETMASK,\s*&set,\s*&oldset\)\s*;', 'SIGPROCMASK(&set, &oldset);', '?'), (r'sigprocmask\(SIG_SETMASK,\s*&oldset,\s*nullptr\)\s*;', 'SIGPROCMASK(&oldset, NULL);', '?'),
            (r'detail::init_signal_handler<TFrontendOptions>\([^;]*\)\s*;', 'INIT_SIGNAL_HANDLER();', '?'),
            (r'detail::SignalHandlerContext::instance\(\)\.logger_name\s*=\s*[^;]*;', '', '?'),
            (r'detail::SignalHandlerContext::instance\(\)\.signal_handler_timeout_seconds\.store\(\s*[^;]*\)\s*;', '', '?'),
            (r'detail::SignalHandlerContext::instance\(\)\.backend_thread_id\.store\(\s*detail::BackendManager::instance\(\)\.get_backend_thread_id\(\)\)\s*;', 'CTX_STORE_TID(GET_BACKEND_TID());', '?')]
be_start_plain = dict(
    name='BE.start[plain]', primary='C07', props={'C07'}, kind='S',
    desc='Backend::start(options), body of the call_once: the backend thread is started once and afterwards a stop is registered with atexit (normal process exit drains like Backend::stop)',
    structs=[], prelude=ST_PRELUDE, enforce='BE_start_once', replace=['START_BACKEND_THREAD', 'ATEXIT_STOP'],
    funcs=[dict(src=dict(header=BEH, cls='Backend', name='start', nth=0, lambda_after=r'std::call_once\([^;]*?\[options\]\(\)'), cfun='BE_start_once', sig='void BE_start_once(void)', member_fields=[], pre_rules=ST_RULES,
                contract=r'''
__CPROVER_requires(g_clock == 0 && g_spawns == 0 && g_atexits == 0)
__CPROVER_assigns(g_clock, g_t_spawn, g_spawns, g_t_atexit, g_atexits, g_atexit_is_stop)
__CPROVER_ensures(g_spawns == 1) /*@ C07 "start() starts the backend thread once" */
__CPROVER_ensures(g_atexits == 1 && g_atexit_is_stop) /*@ C07 "normal process exit stops the backend like Backend::stop(): the stop is registered with atexit (before or after the worker is started)" */
''')],
    harness='  BE_start_once();', dropped=['std::call_once and the once flag (restart: unit BM.stop_backend_thread)', 'the options copy'], trusted=['start_backend_thread = BackendWorker::run (units BW.main_loop ...)', 'atexit runs the registered function at normal exit'], min_obligations=3)
be_start_signal = dict(
    name='BE.start[signal handler]', primary='C07', props={'C07'}, kind='S',
    desc='Backend::start(options, signal_handler_options), body of the call_once: every signal is blocked while the backend thread is spawned (it inherits the full mask, so handled signals are delivered to application threads), the handler is installed before, the previous mask is restored after, the handler context learns the backend thread id, and the atexit stop is registered',
    structs=[], prelude=ST_PRELUDE, enforce='BE_start_once', replace=['START_BACKEND_THREAD', 'ATEXIT_STOP', 'SIGPROCMASK', 'INIT_SIGNAL_HANDLER', 'CTX_STORE_TID'],
    funcs=[dict(src=dict(header=BEH, cls='Backend', name='start', nth=1, lambda_after=r'std::call_once\([^;]*?\[backend_options,\s*signal_handler_options\]\(\)'), cfun='BE_start_once', sig='void BE_start_once(void)', member_fields=[], pre_rules=ST_RULES,
                contract=r'''
__CPROVER_requires(g_clock == 0 && g_spawns == 0 && g_atexits == 0 && g_blocks == 0 && g_unblocks == 0 && g_handler_inits == 0 && g_ctx_tid_stores == 0 && !g_mask_restored)
__CPROVER_assigns(g_clock, g_t_spawn, g_spawns, g_t_atexit, g_atexits, g_atexit_is_stop, g_t_block, g_t_unblock, g_blocks, g_unblocks, g_mask_restored, g_t_init_handler, g_handler_inits, g_t_ctx_tid, g_ctx_tid_stores, g_ctx_tid)
__CPROVER_ensures(g_spawns == 1 && g_blocks == 1 && g_t_block < g_t_spawn) /*@ C07 "every signal is blocked in the starting thread before the backend thread is spawned (the worker inherits the mask and never runs the handler)" */
__CPROVER_ensures(g_unblocks == 1 && g_mask_restored && g_t_spawn < g_t_unblock) /*@ C07 "the starting thread gets its previous signal mask back after the spawn, so handled signals reach application threads" */
__CPROVER_ensures(g_handler_inits == 1) /*@ C07 "the built-in handler is installed for the configured signals" */
__CPROVER_ensures(g_ctx_tid_stores == 1 && g_ctx_tid == g_backend_tid && g_t_spawn < g_t_ctx_tid) /*@ C07 "the handler knows the backend thread's id (read after the worker started): a signal on the backend thread itself is not logged through the backend" */
__CPROVER_ensures(g_atexits == 1 && g_atexit_is_stop) /*@ C07 "normal process exit stops the backend like Backend::stop()" */
''')],
    harness='  BE_start_once();', dropped=['std::call_once and the once flag', 'logger name / timeout stored in the handler context', 'the _WIN32 arm (not compiled here)'],
    trusted=['POSIX: a new thread inherits the creating thread\'s signal mask; sigprocmask / sigfillset', 'init_signal_handler installs on_signal (unit SIG.on_signal) for the listed signals'], min_obligations=6)
UNITS += [be_start_plain, be_start_signal]

# ------------------------------------------------------------------------------------------ detail::on_alarm (the handler's timeout)
AL_PRELUDE = r'''
int g_ctx_signal;                                  /* SignalHandlerContext::signal_number: the handled signal on_signal recorded (0: none yet) */
size_t g_clock, g_t_sigdfl, g_t_raise, g_sigdfls, g_raises; int g_dfl_signal, g_raised_signal;
static inline int CTX_signal_load(void) { return g_ctx_signal; }
static inline void CTX_signal_assign(int s) { g_ctx_signal = s; }
void SIGNAL_DFL(int s) __CPROVER_assigns(g_clock, g_t_sigdfl, g_sigdfls, g_dfl_signal) __CPROVER_ensures(g_clock == OLD(g_clock) + 1 && g_t_sigdfl == g_clock && g_sigdfls == OLD(g_sigdfls) + 1 && g_dfl_signal == s);
void RAISE(int s) __CPROVER_assigns(g_clock, g_t_raise, g_raises, g_raised_signal) __CPROVER_ensures(g_clock == OLD(g_clock) + 1 && g_t_raise == g_clock && g_raises == OLD(g_raises) + 1 && g_raised_signal == s);
'''
on_alarm = dict(
    name='SIG.on_alarm', primary='C07', props={'C07'}, kind='S',
    desc='detail::on_alarm (the handler ran out of time): the process still dies from the ORIGINAL handled signal with its default action - from SIGALRM itself only when no handled signal was recorded',
    structs=[], prelude=AL_PRELUDE, enforce='on_alarm', replace=['SIGNAL_DFL', 'RAISE'],
    funcs=[dict(src=dict(header=SH, cls=None, name='on_alarm'), src_params=['signal_number'], cfun='on_alarm', sig='void on_alarm(int32_t signal_number)', member_fields=[],
                pre_rules=[(r'SignalHandlerContext::instance\(\)\.signal_number\.load\(\)', 'CTX_signal_load()'), (r'SignalHandlerContext::instance\(\)\.signal_number\s*=\s*signal_number\s*;', 'CTX_signal_assign(signal_number);'),
                           (r'std::signal\(SignalHandlerContext::instance\(\)\.signal_number,\s*SIG_DFL\)\s*;', 'SIGNAL_DFL(CTX_signal_load());'), (r'std::raise\(SignalHandlerContext::instance\(\)\.signal_number\)\s*;', 'RAISE(CTX_signal_load());')],
                contract=r'''
__CPROVER_requires(g_clock == 0 && g_sigdfls == 0 && g_raises == 0 && signal_number != 0)
__CPROVER_assigns(g_ctx_signal, g_clock, g_t_sigdfl, g_t_raise, g_sigdfls, g_raises, g_dfl_signal, g_raised_signal)
__CPROVER_ensures(g_raises == 1 && g_sigdfls == 1 && g_t_sigdfl < g_t_raise && g_dfl_signal == g_raised_signal) /*@ C07 "the default action is restored for the very signal that is then raised (the process dies, it does not re-enter the handler)" */
__CPROVER_ensures(OLD(g_ctx_signal) != 0 ==> g_raised_signal == OLD(g_ctx_signal)) /*@ C07 "after a timeout the process still dies from the original handled signal" */
__CPROVER_ensures(OLD(g_ctx_signal) == 0 ==> g_raised_signal == signal_number)
''')],
    harness='  int32_t s; on_alarm(s);', dropped=['the atomic of the handler context as a plain int (the handler runs on one thread)'], trusted=['std::signal / std::raise'], min_obligations=4)
UNITS += [on_alarm]

# ------------------------------------------------------------------------------------------ detail::init_signal_handler (POSIX overload)
IH_PRELUDE = r'''
#define SIGALRM_ 14
/* the list of catchable signals: one arbitrary tracked entry at index g_p, every other entry is some other signal number */
typedef struct SigVec { size_t n; size_t g_p; int tracked; } SigVec;
SigVec g_sigs; int nondet_int(void);
static inline size_t SV_size(SigVec* v) { return v->n; }
static inline int SV_get(SigVec* v, size_t i) { if (i == v->g_p) return v->tracked; return nondet_int(); }
bool g_tracked_installed, g_alarm_installed, g_install_fails; size_t g_installs; bool g_other_is_alarm;
/* std::signal(sig, on_signal<...>) / std::signal(SIGALRM, on_alarm): returns SIG_ERR_ on failure, the previous handler (0) otherwise */
#define SIG_ERR_ 1
int INSTALL_ON_SIGNAL(int sig) __CPROVER_assigns(g_installs, g_tracked_installed) __CPROVER_ensures(g_installs == OLD(g_installs) + 1 && RET == (g_install_fails ? SIG_ERR_ : 0) && g_tracked_installed == (OLD(g_tracked_installed) || (sig == g_sigs.tracked && !g_install_fails)));
int INSTALL_ON_ALARM(void) __CPROVER_assigns(g_alarm_installed) __CPROVER_ensures(RET == (g_install_fails ? SIG_ERR_ : 0) && g_alarm_installed == !g_install_fails);
'''
init_handler = dict(
    name='SIG.init_handler', primary='C07', props={'C07'}, kind='S',
    desc='detail::init_signal_handler: every configured signal gets the logging handler, SIGALRM gets the timeout handler; SIGALRM in the list or a failing installation is an error, never a silently missing handler',
    structs=[], prelude=IH_PRELUDE, enforce='init_signal_handler', replace=['INSTALL_ON_SIGNAL', 'INSTALL_ON_ALARM'], loopcontracts=True,
    funcs=[dict(src=dict(header=SH, cls=None, name='init_signal_handler', nth=0), src_params=['catchable_signals'], cfun='init_signal_handler', sig='void init_signal_handler(void)', member_fields=[], exceptions=True, may_throw=[],
                range_for=[(r'g_sigs', 'SV_size', 'SV_get', 'int')],
                pre_rules=[(r'\bcatchable_signals\b', 'g_sigs'), (r'\bSIGALRM\b', 'SIGALRM_'),
                           (r'std::signal\(catchable_signal,\s*on_signal<TFrontendOptions>\)', 'INSTALL_ON_SIGNAL(catchable_signal)'), (r'\bSIG_ERR\b', 'SIG_ERR_'),
                           (r'std::signal\(SIGALRM_,\s*on_alarm\)', 'INSTALL_ON_ALARM()'),
                           (r'throw\s*\(?\s*QuillError\s*\{.*?\}\s*\)?\s*;', 'throw(QuillError{"x"});')],
                loops={0: r'''
__CPROVER_assigns(__i0, g_installs, g_tracked_installed, g_exc)
__CPROVER_loop_invariant(__i0 <= g_sigs.n && g_exc == 0 && (g_installs > 0 ==> !g_install_fails))
__CPROVER_loop_invariant((__i0 > g_sigs.g_p) ==> (g_tracked_installed && g_sigs.tracked != SIGALRM_))
__CPROVER_decreases(g_sigs.n - __i0)
'''},
                contract=r'''
__CPROVER_requires(g_exc == 0 && g_installs == 0 && !g_tracked_installed && !g_alarm_installed && g_sigs.n < 1000)
__CPROVER_assigns(g_installs, g_tracked_installed, g_alarm_installed, g_exc)
__CPROVER_ensures((g_exc == 0 && g_sigs.g_p < g_sigs.n) ==> (g_tracked_installed && g_sigs.tracked != SIGALRM_)) /*@ C07 "after a successful start every configured signal has the logging handler installed" */
__CPROVER_ensures(g_exc == 0 ==> g_alarm_installed) /*@ C07 "after a successful start SIGALRM has the timeout handler" */
__CPROVER_ensures((g_sigs.g_p < g_sigs.n && g_sigs.tracked == SIGALRM_) ==> g_exc == EXC_STD) /*@ C07 "SIGALRM in the list of handled signals is rejected" */
__CPROVER_ensures(g_install_fails ==> g_exc == EXC_STD) /*@ C07 "a handler that cannot be installed is an error, not a silently unhandled signal" */
''')],
    harness='  init_signal_handler();', dropped=['std::vector<int> as {size, one tracked entry}; std::signal as two install stubs', 'text of the error messages'],
    trusted=['std::signal'], min_obligations=10)
UNITS += [init_handler]

# ------------------------------------------------------------------------------------------ BackendWorker::notify
NT_PRELUDE = r'''
typedef struct BW { bool _wake_up_flag; } BW;
bool g_locked; size_t g_clock, g_t_flag, g_t_notify, g_notifies, g_locks;
void WAKE_LOCK(BW* self) __CPROVER_assigns(g_locked, g_locks) __CPROVER_ensures(g_locked && g_locks == OLD(g_locks) + 1);
void WAKE_UNLOCK(BW* self) __CPROVER_assigns(g_locked) __CPROVER_ensures(!g_locked);
void CV_NOTIFY_ONE(BW* self) __CPROVER_assigns(g_clock, g_t_notify, g_notifies) __CPROVER_ensures(g_clock == OLD(g_clock) + 1 && g_t_notify == g_clock && g_notifies == OLD(g_notifies) + 1);
static inline void FLAG_SET(BW* self, bool v) { __CPROVER_assert(g_locked, "C06,C07: the wake-up flag is only written under the wake-up mutex (the sleeping worker reads it under the same mutex: no lost wake-up)"); self->_wake_up_flag = v; g_clock++; g_t_flag = g_clock; }
'''
bw_notify = dict(
    name='BW.notify', primary='C07', props={'C07', 'C06'}, kind='S',
    desc='BackendWorker::notify: the wake-up flag is raised under the wake-up mutex and the condition variable signalled afterwards, so a worker that sleeps (or is about to) cannot miss the request',
    structs=[], prelude=NT_PRELUDE, enforce='BW_notify', replace=['WAKE_LOCK', 'WAKE_UNLOCK', 'CV_NOTIFY_ONE'],
    funcs=[dict(src=dict(header=BH, cls='BackendWorker', name='notify'), src_params=[], cfun='BW_notify', sig='void BW_notify(BW* self)', cls_c='BW', member_fields=['_wake_up_flag'],
                pre_rules=[(r'\{\s*std::lock_guard<std::mutex>\s+lock\{_wake_up_mutex\}\s*;\s*_wake_up_flag\s*=\s*true\s*;\s*\}', '{ WAKE_LOCK(self); FLAG_SET(self, true); WAKE_UNLOCK(self); }', '?'),
                           (r'std::lock_guard<std::mutex>\s+lock\{_wake_up_mutex\}\s*;', 'WAKE_LOCK(self);', '?'), (r'_wake_up_flag\s*=\s*(true|false)\s*;', r'FLAG_SET(self, \1);', '?'),
                           (r'_wake_up_cv\.notify_one\(\)\s*;', 'CV_NOTIFY_ONE(self);')],
                contract=r'''
__CPROVER_requires(__CPROVER_is_fresh(self, sizeof(*self)) && !g_locked && g_clock == 0 && g_notifies == 0 && g_locks == 0)
__CPROVER_assigns(self->_wake_up_flag, g_locked, g_locks, g_clock, g_t_flag, g_t_notify, g_notifies)
__CPROVER_ensures(self->_wake_up_flag && g_notifies == 1) /*@ C06,C07 "after notify() the wake-up flag is up and the worker was signalled once (the order of the two is not demanded: signalling first only costs one sleep period, the properties set no deadline)" */
''')],
    harness='  BW* s; BW_notify(s);', dropped=['std::lock_guard scope as explicit lock / unlock around the flag store'], trusted=['std::mutex / std::condition_variable'], min_obligations=5)
UNITS += [bw_notify]
