"""C17 — removing / re-creating loggers: LoggerManager::cleanup_invalidated_loggers, Frontend::remove_logger_blocking,
BackendWorker::_cleanup_invalidated_loggers, SinkManager::cleanup_unused_sinks, Spinlock."""
LMH = 'quill/core/LoggerManager.h'
SMH = 'quill/core/SinkManager.h'
FH = 'quill/Frontend.h'
BH = 'quill/backend/BackendWorker.h'
SPH = 'quill/core/Spinlock.h'

# registry with erase: one tracked element at g_p (until it is erased) and a representative of the others
EVEC = r'''
typedef struct Elem { bool flag; } Elem;          /* LoggerBase: flag = valid;  SinkInfo: flag = expired */
typedef struct EVec { size_t n; size_t g_p; bool g_tracked_erased; Elem* tracked; Elem* other; size_t g_erases; } EVec;
static inline size_t EVec_size(EVec* v) { return v->n; }
static inline Elem* EVec_get(EVec* v, size_t i) { __CPROVER_assert(i < v->n, "registry index within size"); return (!v->g_tracked_erased && i == v->g_p) ? v->tracked : v->other; }
static inline void EVec_erase(EVec* v, size_t i) { __CPROVER_assert(i < v->n, "erase within size"); if (!v->g_tracked_erased) { if (i == v->g_p) v->g_tracked_erased = true; else if (i < v->g_p) v->g_p--; } v->n--; v->g_erases++; }
bool g_locked;
'''
LM_PRELUDE = 'bool g_last_check; size_t g_checks, g_clock, g_t_check, g_t_erase_tracked, g_recorded_tracked, g_kept_invalid;\n' + EVEC + r'''
typedef struct Spinlock { int d; } Spinlock;
typedef struct LM { EVec _loggers; Spinlock _spinlock; bool _has_invalidated_loggers; } LM;
void LOCK_GUARD(Spinlock* l) __CPROVER_assigns(g_locked) __CPROVER_ensures(g_locked);
bool CHECK_QUEUES_EMPTY(void) __CPROVER_assigns(g_last_check, g_checks, g_clock, g_t_check) __CPROVER_ensures(g_last_check == RET && g_clock == OLD(g_clock) + 1 && g_t_check == g_clock);
void REMOVED_push(LM* self, Elem* l) __CPROVER_assigns(g_recorded_tracked) __CPROVER_ensures(g_recorded_tracked == OLD(g_recorded_tracked) + ((l == self->_loggers.tracked && !self->_loggers.g_tracked_erased) ? 1 : 0));
static inline bool LG_is_valid_logger(Elem* l) { return l->flag; }
#define ATOMIC_LOAD__has_invalidated_loggers(s, mo) ((s)->_has_invalidated_loggers)
#define ATOMIC_STORE__has_invalidated_loggers(s, v, mo) ((s)->_has_invalidated_loggers = (v))
#define T_(s) ((s)->_loggers.tracked)
#define O_(s) ((s)->_loggers.other)
'''
lm_cleanup = dict(
    name='LM.cleanup', primary='C17', props={'C17'}, kind='S',
    desc='LoggerManager::cleanup_invalidated_loggers: a logger is erased only if it was removed by the user AND the queues were found empty in that very iteration; valid loggers are untouched; a kept invalid logger re-arms the flag',
    structs=[], prelude=LM_PRELUDE, enforce='LM_cleanup', replace=['LOCK_GUARD', 'CHECK_QUEUES_EMPTY', 'REMOVED_push'], loopcontracts=True,
    funcs=[dict(src=dict(header=LMH, cls='LoggerManager', name='cleanup_invalidated_loggers'), src_params=['check_queues_empty'], cfun='LM_cleanup', sig='void LM_cleanup(LM* self)',
                cls_c='LM', member_fields=['_loggers', '_spinlock', '_has_invalidated_loggers'], atomics=['_has_invalidated_loggers'],
                pre_rules=[(r'std::vector<std::string>\s+removed_loggers\s*;', '', 1), (r'return\s+removed_loggers\s*;', 'return;', 1),
                           (r'LockGuard\s+const\s+lock\s*\{\s*_spinlock\s*\}\s*;', 'LOCK_GUARD(&_spinlock);', 1),
                           (r'for\s*\(\s*auto\s+it\s*=\s*_loggers\.begin\(\)\s*;\s*it\s*!=\s*_loggers\.end\(\)\s*;\s*\)', 'for (size_t it = 0; it != EVec_size(&_loggers);)', 1),
                           (r'removed_loggers\.push_back\(it->get\(\)->get_logger_name\(\)\)\s*;', 'REMOVED_push(self, EVec_get(&_loggers, it));', 1),
                           (r'it->get\(\)->is_valid_logger\(\)', 'LG_is_valid_logger(EVec_get(&_loggers, it))', 1),
                           (r'it\s*=\s*_loggers\.erase\(it\)\s*;', 'EVec_erase(&_loggers, it);', 1),
                           (r'check_queues_empty\(\)', 'CHECK_QUEUES_EMPTY()', 1)],
                loops={0: r'''
__CPROVER_assigns(it, self->_loggers.n, self->_loggers.g_p, self->_loggers.g_tracked_erased, self->_loggers.g_erases, self->_has_invalidated_loggers, g_last_check, g_checks, g_clock, g_t_check, g_recorded_tracked)
__CPROVER_loop_invariant(it <= self->_loggers.n && g_locked)
__CPROVER_loop_invariant(!self->_loggers.g_tracked_erased ==> (self->_loggers.g_p < self->_loggers.n && g_recorded_tracked == 0))
__CPROVER_loop_invariant(self->_loggers.g_tracked_erased ==> (!T_(self)->flag && g_recorded_tracked == 1))
__CPROVER_loop_invariant((!self->_loggers.g_tracked_erased && it > self->_loggers.g_p && !T_(self)->flag) ==> self->_has_invalidated_loggers)
__CPROVER_decreases(self->_loggers.n - it)
'''},
                contract=r'''
__CPROVER_requires(__CPROVER_is_fresh(self, sizeof(*self)) && __CPROVER_is_fresh(T_(self), sizeof(Elem)) && __CPROVER_is_fresh(O_(self), sizeof(Elem)) && self->_loggers.g_p < self->_loggers.n && !self->_loggers.g_tracked_erased && g_recorded_tracked == 0 && !g_locked)
__CPROVER_assigns(self->_loggers.n, self->_loggers.g_p, self->_loggers.g_tracked_erased, self->_loggers.g_erases, self->_has_invalidated_loggers, g_locked, g_last_check, g_checks, g_clock, g_t_check, g_recorded_tracked)
__CPROVER_ensures(T_(self)->flag ==> !self->_loggers.g_tracked_erased) /*@ C17 "a logger that was not removed by the user is never erased" */
__CPROVER_ensures(self->_loggers.g_tracked_erased ==> (!T_(self)->flag && g_recorded_tracked == 1)) /*@ C17 "an erased logger had been removed by the user and its name is reported exactly once (so a blocked remover is released)" */
__CPROVER_ensures((!T_(self)->flag && !self->_loggers.g_tracked_erased && OLD(self->_has_invalidated_loggers)) ==> self->_has_invalidated_loggers) /*@ C17 "a removed logger that could not be erased yet (statements still pending) is retried later: the flag stays armed" */
__CPROVER_ensures(!OLD(self->_has_invalidated_loggers) ==> (self->_loggers.n == OLD(self->_loggers.n) && !self->_loggers.g_tracked_erased)) /*@ C17 "nothing is erased unless a removal was requested" */
''')],
    harness='  LM* m; LM_cleanup(m);',
    dropped=['logger names (identity of the tracked logger instead)', 'unique_ptr ownership; LockGuard RAII unlock', 'template parameter TCheckQueuesEmpty (a callable returning bool)'],
    trusted=['registry abstracted to {tracked, representative} with an erase-aware index'], min_obligations=30)

# the erase decision needs "check returned true in the same iteration": separate, stronger ghost via assertion in the erase shim
LM_PRELUDE_STRICT = LM_PRELUDE.replace('static inline void EVec_erase(EVec* v, size_t i) {', 'static inline void EVec_erase(EVec* v, size_t i) { __CPROVER_assert(g_last_check && g_t_check == g_clock, "C17: a logger is erased only right after the queues were found empty (no statement of it can still be pending)");')
lm_cleanup['prelude'] = LM_PRELUDE_STRICT

SM_PRELUDE = EVEC + r'''
typedef struct Spinlock { int d; } Spinlock;
typedef struct SM { EVec _sinks; Spinlock _spinlock; } SM;
void LOCK_GUARD(Spinlock* l) __CPROVER_assigns(g_locked) __CPROVER_ensures(g_locked);
static inline bool SINK_expired(Elem* e) { return e->flag; }
#define T_(s) ((s)->_sinks.tracked)
#define O_(s) ((s)->_sinks.other)
'''
sm_cleanup = dict(
    name='SM.cleanup', primary='C17', props={'C17'}, kind='S',
    desc='SinkManager::cleanup_unused_sinks: exactly the entries whose sink is no longer referenced by any logger or by the user are erased; sinks still shared keep their entry',
    structs=[], prelude=SM_PRELUDE, enforce='SM_cleanup', replace=['LOCK_GUARD'], loopcontracts=True,
    funcs=[dict(src=dict(header=SMH, cls='SinkManager', name='cleanup_unused_sinks'), src_params=[], cfun='SM_cleanup', sig='uint32_t SM_cleanup(SM* self)',
                cls_c='SM', member_fields=['_sinks', '_spinlock'],
                pre_rules=[(r'LockGuard\s+const\s+lock\s*\{\s*_spinlock\s*\}\s*;', 'LOCK_GUARD(&_spinlock);', 1),
                           (r'for\s*\(\s*auto\s+it\s*=\s*_sinks\.begin\(\)\s*;\s*it\s*!=\s*_sinks\.end\(\)\s*;\s*\)', 'for (size_t it = 0; it != EVec_size(&_sinks);)', 1),
                           (r'it->sink_ptr\.expired\(\)', 'SINK_expired(EVec_get(&_sinks, it))', 1), (r'it\s*=\s*_sinks\.erase\(it\)\s*;', 'EVec_erase(&_sinks, it);', 1)],
                loops={0: r'''
__CPROVER_assigns(it, cnt, self->_sinks.n, self->_sinks.g_p, self->_sinks.g_tracked_erased, self->_sinks.g_erases)
__CPROVER_loop_invariant(it <= self->_sinks.n && g_locked && self->_sinks.n <= __CPROVER_loop_entry(self->_sinks.n) && __CPROVER_loop_entry(self->_sinks.n) <= UINT32_MAX && cnt == __CPROVER_loop_entry(self->_sinks.n) - self->_sinks.n && self->_sinks.g_erases == cnt)
__CPROVER_loop_invariant(!self->_sinks.g_tracked_erased ==> self->_sinks.g_p < self->_sinks.n)
__CPROVER_loop_invariant(self->_sinks.g_tracked_erased ==> T_(self)->flag)
__CPROVER_loop_invariant((!self->_sinks.g_tracked_erased && it > self->_sinks.g_p) ==> !T_(self)->flag)
__CPROVER_decreases(self->_sinks.n - it)
'''},
                contract=r'''
__CPROVER_requires(__CPROVER_is_fresh(self, sizeof(*self)) && __CPROVER_is_fresh(T_(self), sizeof(Elem)) && __CPROVER_is_fresh(O_(self), sizeof(Elem)) && self->_sinks.g_p < self->_sinks.n && self->_sinks.n <= UINT32_MAX && self->_sinks.g_erases == 0 && !self->_sinks.g_tracked_erased && !g_locked)
__CPROVER_assigns(self->_sinks.n, self->_sinks.g_p, self->_sinks.g_tracked_erased, self->_sinks.g_erases, g_locked)
__CPROVER_ensures(self->_sinks.g_tracked_erased ==> T_(self)->flag) /*@ C17 "a sink entry is dropped only when nothing references the sink any more (sinks still shared keep working)" */
__CPROVER_ensures(T_(self)->flag ==> self->_sinks.g_tracked_erased) /*@ C17 "an entry whose sink is no longer referenced is dropped (the sink is destroyed, its file closed)" */
__CPROVER_ensures(RET == OLD(self->_sinks.n) - self->_sinks.n) /*@ C17 "the reported count is the number of dropped entries" */
''')],
    harness='  SM* m; SM_cleanup(m);',
    dropped=['weak_ptr expiry as a boolean of the entry', 'sink names; LockGuard RAII unlock'], trusted=['registry abstracted to {tracked, representative} with an erase-aware index'], min_obligations=30)

# ------------------------------------------------------------------------------------------ Frontend::remove_logger_blocking
RB_PRELUDE = r'''
typedef struct LGx { int d; } LGx; typedef struct FlagObj { bool value; } FlagObj;
size_t g_clock, g_attempts, g_accepted, g_t_accept, g_t_remove, g_removes, g_sleeps, g_flag_loads; bool g_last_ok, g_flag_seen_true; uintptr_t g_arg; FlagObj* g_flag; LGx* g_removed;
bool LOG_REMOVAL_REQUEST(LGx* logger, uintptr_t arg) __CPROVER_assigns(g_attempts, g_accepted, g_last_ok, g_arg)
__CPROVER_ensures(g_attempts == 1 && g_last_ok == RET && g_arg == arg && g_accepted == OLD(g_accepted) + (RET ? 1 : 0));
void LM_remove_logger(LGx* logger)
__CPROVER_requires(g_accepted == 1 && g_last_ok) /*@ C17 "the logger is invalidated only after the removal request is in the queue, behind every statement logged through it before" */
__CPROVER_assigns(g_removes, g_removed) __CPROVER_ensures(g_removes == OLD(g_removes) + 1 && g_removed == logger);
void SLEEP(void) __CPROVER_assigns(g_sleeps) __CPROVER_ensures(1 == 1);
bool FLAG_LOAD(FlagObj* f) __CPROVER_assigns(g_flag_loads, g_flag_seen_true, g_flag) __CPROVER_ensures(g_flag_loads == 1 && g_flag_seen_true == RET && g_flag == f);
'''
remove_blocking = dict(
    name='FE.remove_logger_blocking', primary='C17', props={'C17', 'C08'}, kind='S',
    desc='FrontendImpl::remove_logger_blocking: the removal request is enqueued (retried until accepted, never dropped) BEFORE the logger is invalidated, and the call returns only after the backend set the flag it was given',
    structs=[], prelude=RB_PRELUDE, enforce='FE_remove_logger_blocking', replace=['LOG_REMOVAL_REQUEST', 'LM_remove_logger', 'SLEEP', 'FLAG_LOAD'], loopcontracts=True,
    funcs=[dict(src=dict(header=FH, cls='FrontendImpl', name='remove_logger_blocking'), src_params=['logger', 'sleep_duration_ns'], cfun='FE_remove_logger_blocking',
                sig='void FE_remove_logger_blocking(LGx* logger, uint32_t sleep_duration_ns)', member_fields=[],
                pre_rules=[(r'static\s+constexpr\s+MacroMetadata\s+macro_metadata\s*\{.*?\}\s*;', '', 1),
                           (r'std::atomic<bool>\s+logger_removal_complete\s*\{\s*false\s*\}\s*;', 'static FlagObj logger_removal_complete; logger_removal_complete.value = false;', 1),
                           (r'std::atomic<bool>\s*\*\s*logger_removal_complete_ptr', 'FlagObj* logger_removal_complete_ptr', 1),
                           (r'!\s*logger->template\s+log_statement<false,\s*false>\s*\(\s*LogLevel::None\s*,\s*&macro_metadata\s*,\s*reinterpret_cast<uintptr_t>\(logger_removal_complete_ptr\)\s*,\s*logger->get_logger_name\(\)\s*\)', '!LOG_REMOVAL_REQUEST(logger, (uintptr_t)logger_removal_complete_ptr)', 1),
                           (r'detail::LoggerManager::instance\(\)\s*\.\s*remove_logger\(logger\)', 'LM_remove_logger(logger)', '?'),
                           (r'logger_removal_complete\.load\(\)', 'FLAG_LOAD(&logger_removal_complete)', 1),
                           (r'std::this_thread::sleep_for\s*\([^;]*\)\s*;', 'SLEEP();'), (r'std::this_thread::yield\(\)\s*;', 'SLEEP();')],
                loops={r'while\s*\(\s*!LOG_REMOVAL_REQUEST': r'''
__CPROVER_assigns(g_attempts, g_accepted, g_last_ok, g_arg, g_sleeps, logger_removal_complete)
__CPROVER_loop_invariant(g_accepted == 0 && g_removes == 0 && (g_attempts > 0 ==> !g_last_ok))
''', r'while\s*\(\s*!FLAG_LOAD': r'''
__CPROVER_assigns(g_flag_loads, g_flag_seen_true, g_flag, g_sleeps)
__CPROVER_loop_invariant(g_accepted == 1 && g_removes == 1 && g_removed == logger && (g_flag_loads > 0 ==> (!g_flag_seen_true && g_flag == &logger_removal_complete)))
'''},
                contract=r'''
__CPROVER_requires(__CPROVER_is_fresh(logger, sizeof(*logger)) && g_attempts == 0 && g_accepted == 0 && g_removes == 0 && g_flag_loads == 0)
__CPROVER_assigns(g_attempts, g_accepted, g_removes, g_sleeps, g_flag_loads, g_last_ok, g_flag_seen_true, g_arg, g_flag, g_removed)
__CPROVER_ensures(g_accepted == 1) /*@ C08 "the logger removal request is retried until the queue accepted it: never discarded" */
__CPROVER_ensures(g_removes == 1 && g_removed == logger) /*@ C17 "exactly this logger is invalidated, once" */
__CPROVER_ensures(g_flag_loads == 1 && g_flag_seen_true && (uintptr_t)g_flag == g_arg) /*@ C17 "remove_logger_blocking returns only after the backend signalled completion through the very flag that was sent" */
''')],
    harness='  LGx* l; uint32_t d; FE_remove_logger_blocking(l, d);',
    dropped=['the constexpr MacroMetadata of the request', 'logger name argument', 'sleep/yield'], trusted=['log_statement returns true iff the request was enqueued (unit LG.log_statement)'], min_obligations=20)

# ------------------------------------------------------------------------------------------ BackendWorker::_cleanup_invalidated_loggers
CL_PRELUDE = r'''
typedef struct BW { int d; } BW;
size_t g_clock, g_t_sink_cleanup, g_sink_cleanups, g_n_removed, g_stores, g_t_first_store; size_t g_k; bool g_tracked_has_flag, g_tracked_flag_stored, g_tracked_erased_from_map; size_t g_lookup_i;
/* removed_loggers: n names, one arbitrary tracked index g_k */
bool g_has_invalidated; size_t g_flushes, g_t_flush, g_t_lm_cleanup;
static inline bool LM_has_invalidated_loggers(BW* self) { return g_has_invalidated; }
/* _flush_and_run_active_sinks (units BW.flush_sinks / BW.collect_sinks): flushes every sink of every registered logger */
void BW_flush_all_sinks(BW* self, bool periodic, int interval_ms)
__CPROVER_requires(!periodic && interval_ms == 0) /*@ C06 "the flush before a logger is erased is unconditional (zero interval)" */
__CPROVER_assigns(g_clock, g_flushes, g_t_flush) __CPROVER_ensures(g_clock == OLD(g_clock) + 1 && g_flushes == OLD(g_flushes) + 1 && g_t_flush == g_clock);
/* LoggerManager::cleanup_invalidated_loggers erases something only if there were invalidated loggers */
size_t LM_CLEANUP(BW* self) __CPROVER_assigns(g_n_removed, g_clock, g_t_lm_cleanup) __CPROVER_ensures(RET == g_n_removed && g_n_removed <= (((size_t)1) << 30) && (!g_has_invalidated ==> g_n_removed == 0) && g_clock == OLD(g_clock) + 1 && g_t_lm_cleanup == g_clock);
void SM_cleanup_unused_sinks(BW* self) __CPROVER_assigns(g_clock, g_t_sink_cleanup, g_sink_cleanups) __CPROVER_ensures(g_clock == OLD(g_clock) + 1 && g_t_sink_cleanup == g_clock && g_sink_cleanups == OLD(g_sink_cleanups) + 1);
bool FLAGS_find(BW* self, size_t i) __CPROVER_assigns(g_lookup_i) __CPROVER_ensures(g_lookup_i == i && (i == g_k ? ((RET ? 1 : 0) == ((g_tracked_has_flag && !g_tracked_erased_from_map) ? 1 : 0)) : 1));
void FLAG_store_true_and_erase(BW* self, size_t i)
__CPROVER_requires(i == g_lookup_i)
__CPROVER_assigns(g_clock, g_stores, g_t_first_store, g_tracked_flag_stored, g_tracked_erased_from_map)
__CPROVER_ensures(g_clock == OLD(g_clock) + 1 && g_stores == OLD(g_stores) + 1 && (OLD(g_stores) == 0 ? g_t_first_store == g_clock : g_t_first_store == OLD(g_t_first_store)))
__CPROVER_ensures(i == g_k ? (g_tracked_flag_stored && g_tracked_erased_from_map) : (g_tracked_flag_stored == OLD(g_tracked_flag_stored) && g_tracked_erased_from_map == OLD(g_tracked_erased_from_map)));
'''
cleanup_loggers = dict(
    name='BW.cleanup_loggers', primary='C17', props={'C17'}, kind='S',
    desc='BackendWorker::_cleanup_invalidated_loggers: unused sinks are destroyed after loggers were erased and before any blocked remover is released; a flag is stored only for a logger that was actually erased',
    structs=[], prelude=CL_PRELUDE, enforce='BW__cleanup_invalidated_loggers', replace=['LM_CLEANUP', 'BW_flush_all_sinks', 'SM_cleanup_unused_sinks', 'FLAGS_find', 'FLAG_store_true_and_erase'], loopcontracts=True,
    funcs=[dict(src=dict(header=BH, cls='BackendWorker', name='_cleanup_invalidated_loggers'), src_params=[], cfun='BW__cleanup_invalidated_loggers', sig='void BW__cleanup_invalidated_loggers(BW* self)',
                cls_c='BW', member_fields=[],
                pre_rules=[(r'_logger_manager\.has_invalidated_loggers\(\)', 'LM_has_invalidated_loggers(self)'), (r'_flush_and_run_active_sinks\(false,\s*std::chrono::milliseconds\{0\}\)', 'BW_flush_all_sinks(self, false, 0)'),
                           (r'std::vector<std::string>\s+const\s+removed_loggers\s*=\s*_logger_manager\.cleanup_invalidated_loggers\s*\(.*?\}\s*\)\s*;', 'size_t const removed_loggers_n = LM_CLEANUP(self);', 1),
                           (r'!removed_loggers\.empty\(\)', '(removed_loggers_n != 0)', 1), (r'_sink_manager\.cleanup_unused_sinks\(\)\s*;', 'SM_cleanup_unused_sinks(self);', 1),
                           (r'for\s*\(auto const& removed_logger_name : removed_loggers\)', 'for (size_t removed_i = 0; removed_i < removed_loggers_n; ++removed_i)', 1),
                           (r'auto\s+search_it\s*=\s*_logger_removal_flags\.find\(removed_logger_name\)\s*;', 'bool const found = FLAGS_find(self, removed_i);', 1),
                           (r'search_it\s*!=\s*_logger_removal_flags\.end\(\)', 'found', 1),
                           (r'search_it->second->store\(true\)\s*;\s*_logger_removal_flags\.erase\(search_it\)\s*;', 'FLAG_store_true_and_erase(self, removed_i);', 1)],
                loops={0: r'''
__CPROVER_assigns(removed_i, g_lookup_i, g_clock, g_stores, g_t_first_store, g_tracked_flag_stored, g_tracked_erased_from_map)
__CPROVER_loop_invariant(removed_i <= removed_loggers_n && g_stores <= removed_i && g_clock <= removed_i + 3 && g_t_sink_cleanup >= 2 && g_t_sink_cleanup <= 3 && g_clock >= g_t_sink_cleanup && removed_loggers_n == g_n_removed)
__CPROVER_loop_invariant((g_tracked_flag_stored ? 1 : 0) == ((removed_i > g_k && g_tracked_has_flag) ? 1 : 0))
__CPROVER_loop_invariant((g_tracked_erased_from_map ? 1 : 0) == (g_tracked_flag_stored ? 1 : 0))
__CPROVER_loop_invariant(g_stores > 0 ==> g_t_first_store > g_t_sink_cleanup)
__CPROVER_decreases(removed_loggers_n - removed_i)
'''},
                contract=r'''
__CPROVER_requires(__CPROVER_is_fresh(self, sizeof(*self)) && g_clock == 0 && g_sink_cleanups == 0 && g_stores == 0 && !g_tracked_flag_stored && !g_tracked_erased_from_map && g_t_sink_cleanup == 0 && g_flushes == 0)
__CPROVER_assigns(g_clock, g_t_sink_cleanup, g_sink_cleanups, g_n_removed, g_stores, g_t_first_store, g_tracked_flag_stored, g_tracked_erased_from_map, g_lookup_i, g_flushes, g_t_flush, g_t_lm_cleanup)
__CPROVER_ensures(g_n_removed != 0 ==> (g_flushes == 1 && g_t_flush < g_t_lm_cleanup)) /*@ C06,C17 "every sink is flushed before a logger is erased: what was written through a sink the backend is about to lose sight of is on disk first" */
__CPROVER_ensures(g_sink_cleanups == (g_n_removed != 0 ? 1 : 0)) /*@ C17 "sinks no longer referenced are destroyed (files closed) exactly when loggers were erased" */
__CPROVER_ensures(g_stores > 0 ==> (g_sink_cleanups == 1 && g_t_sink_cleanup < g_t_first_store)) /*@ C17 "a blocked remover is released only after the unused sinks were destroyed: removal has completed when remove_logger_blocking returns" */
__CPROVER_ensures((g_tracked_flag_stored ? 1 : 0) == ((g_k < g_n_removed && g_tracked_has_flag) ? 1 : 0)) /*@ C17 "the completion flag is set exactly for loggers that were actually erased and whose removal was requested blocking" */
''')],
    harness='  BW* s; BW__cleanup_invalidated_loggers(s);',
    dropped=['the lambda passed to cleanup_invalidated_loggers (it calls _check_frontend_queues_and_cached_transit_events_empty)', 'logger names as indices into the removed list; the unordered_map of flags as a lookup stub'],
    trusted=['LoggerManager::cleanup_invalidated_loggers (unit LM.cleanup)', 'SinkManager::cleanup_unused_sinks (unit SM.cleanup)'], min_obligations=30)

# ------------------------------------------------------------------------------------------ Spinlock
SP_STRUCT = dict(c='SP', header=SPH, cls='Spinlock', typemap={'State': 'State'})
SP_PRELUDE = r'''
typedef uint8_t State; enum { ST_Free = 0, ST_Locked = 1 };
@STRUCT:SP@
/* ghost: who holds the lock (0 nobody, 1 this thread, 2 another thread); the other threads' steps are the rely */
int g_holder; bool g_acquired_with_acquire, g_released_with_release;
State nondet_State(void);
/* relaxed load: rely step of the other threads (they may take or release the lock), then the value */
static inline State SP_load(SP* s, int mo) { if (g_holder != 1) { if (nondet_State() == ST_Locked) { s->_flag = ST_Locked; g_holder = 2; } else { s->_flag = ST_Free; g_holder = 0; } } return s->_flag; }
static inline State SP_exchange(SP* s, State v, int mo) { if (g_holder != 1) { if (nondet_State() == ST_Locked) { s->_flag = ST_Locked; g_holder = 2; } else { s->_flag = ST_Free; g_holder = 0; } } State o = s->_flag; s->_flag = v; if (o == ST_Free && v == ST_Locked) { g_holder = 1; g_acquired_with_acquire = IS_ACQ(mo); } return o; }
static inline void SP_store(SP* s, State v, int mo) { s->_flag = v; if (v == ST_Free) { g_holder = 0; g_released_with_release = IS_REL(mo); } }
#define ATOMIC_LOAD__flag(s, mo) SP_load(s, mo)
#define ATOMIC_EXCHANGE__flag(s, v, mo) SP_exchange(s, v, mo)
#define ATOMIC_STORE__flag(s, v, mo) SP_store(s, v, mo)
#define SP_INV(s) (((s)->_flag == ST_Locked) == (g_holder != 0))
'''
sp_lock = dict(
    name='SP.lock', primary='C17', props={'C17'}, kind='L',
    desc='Spinlock::lock: returns only as the holder (mutual exclusion: nobody else held the lock at the acquiring exchange), acquired with acquire order',
    structs=[SP_STRUCT], prelude=SP_PRELUDE, enforce='SP_lock', replace=[], loopcontracts=True,
    funcs=[dict(src=dict(header=SPH, cls='Spinlock', name='lock'), struct='SP', src_params=[], cfun='SP_lock', sig='void SP_lock(SP* self)', pre_rules=[(r'State::(\w+)', r'ST_\1')],
                loops={0: r'''
__CPROVER_assigns(self->_flag, g_holder, g_acquired_with_acquire)
__CPROVER_loop_invariant(SP_INV(self) && g_holder != 1)
''', 1: r'''
__CPROVER_assigns(self->_flag, g_holder)
__CPROVER_loop_invariant(SP_INV(self) && g_holder != 1)
'''},
                contract=r'''
__CPROVER_requires(__CPROVER_is_fresh(self, sizeof(*self)) && SP_INV(self) && g_holder != 1 && self->_flag <= ST_Locked)
__CPROVER_assigns(self->_flag, g_holder, g_acquired_with_acquire)
__CPROVER_ensures(g_holder == 1 && self->_flag == ST_Locked && SP_INV(self)) /*@ C17 "lock() returns only when this thread holds the lock and nobody else does (registries are modified under mutual exclusion)" */
__CPROVER_ensures(g_acquired_with_acquire) /*@ C17 "the lock is taken with acquire order (the previous holder's writes are visible)" */
''')],
    harness='  SP* s; SP_lock(s);', dropped=['busy-wait: partial correctness (no termination claim)'],
    trusted=['other threads follow the same lock protocol (rely step inside the atomic stubs)'], min_obligations=10)
sp_unlock = dict(
    name='SP.unlock', primary='C17', props={'C17'}, kind='L', desc='Spinlock::unlock: releases with release order',
    structs=[SP_STRUCT], prelude=SP_PRELUDE, enforce='SP_unlock', replace=[],
    funcs=[dict(src=dict(header=SPH, cls='Spinlock', name='unlock'), struct='SP', src_params=[], cfun='SP_unlock', sig='void SP_unlock(SP* self)', pre_rules=[(r'State::(\w+)', r'ST_\1')],
                contract=r'''
__CPROVER_requires(__CPROVER_is_fresh(self, sizeof(*self)) && SP_INV(self) && g_holder == 1)
__CPROVER_assigns(self->_flag, g_holder, g_released_with_release)
__CPROVER_ensures(g_holder == 0 && self->_flag == ST_Free && g_released_with_release) /*@ C17 "unlock() frees the lock with release order (the holder's writes are published to the next holder)" */
''')],
    harness='  SP* s; SP_unlock(s);', dropped=[], trusted=[], min_obligations=5)

UNITS = [lm_cleanup, sm_cleanup, remove_blocking, cleanup_loggers, sp_lock, sp_unlock]

# ------------------------------------------------------------------------------------------ LoggerManager: lookup / insert / create_or_get by name
# names are abstracted to integer keys (std::string comparison = a strict total order); the registry is a vector SORTED by
# key without duplicates: one tracked logger at index g_p, every other element is a representative whose key is only known
# to respect the order relative to the tracked one and to the last lower_bound answer
SORTED = r'''
typedef uint64_t Key;                                 /* a logger / sink name */
typedef struct LGk { Key g_key; bool valid; } LGk;    /* LoggerBase: its name, valid flag */
typedef struct KVec { size_t n; size_t g_p; LGk* tracked; LGk* other; size_t g_inserts; } KVec;
size_t g_lb_pos; Key g_lb_target; bool g_lb_valid;    /* the last answer of std::lower_bound */
size_t g_rep_i; bool g_rep_valid;                    /* which element the representative currently stands for */
Key nondet_key(void);
/* element access: the tracked logger at g_p, a representative elsewhere; the representative's key respects the sorted order */
static inline LGk* KVec_get(KVec* v, size_t i)
{
  __CPROVER_assert(i < v->n, "registry index within size");
  if (i == v->g_p) return v->tracked;
  if (g_rep_valid && g_rep_i == i) return v->other;                                                  /* the same element twice: the same key */
  Key k = nondet_key();
  __CPROVER_assume(i < v->g_p ? k < v->tracked->g_key : k > v->tracked->g_key);                      /* sorted, no duplicates */
  __CPROVER_assume(!g_lb_valid || (i < g_lb_pos ? k < g_lb_target : k >= g_lb_target));              /* consistent with lower_bound */
  v->other->g_key = k; g_rep_valid = true; g_rep_i = i; return v->other;
}
/* std::lower_bound(begin, end, target, name-less-than) on the sorted registry: the first position whose name is not less than target */
size_t LOWER_BOUND(KVec* v, Key target)
__CPROVER_requires(__CPROVER_is_fresh(v, sizeof(*v)))
__CPROVER_assigns(g_lb_pos, g_lb_target, g_lb_valid)
__CPROVER_ensures(RET <= v->n && g_lb_pos == RET && g_lb_target == target && g_lb_valid)
__CPROVER_ensures(v->g_p < v->n ==> ((v->g_p < RET) == (v->tracked->g_key < target)));
/* std::upper_bound(begin, end, target, ...): the first position whose name is GREATER than target (not used by the pinned source: present so that a
   change from lower_bound to upper_bound is decided by the contracts instead of ending in 'extraction' - seed C17-B4) */
size_t UPPER_BOUND(KVec* v, Key target)
__CPROVER_requires(__CPROVER_is_fresh(v, sizeof(*v)))
__CPROVER_assigns(g_lb_pos, g_lb_target, g_lb_valid)
__CPROVER_ensures(RET <= v->n && g_lb_pos == RET && g_lb_target == target && g_lb_valid)
__CPROVER_ensures(v->g_p < v->n ==> ((v->g_p < RET) == (v->tracked->g_key <= target)));
/* vector::insert(position, element): the tracked index shifts when the new element goes in front of it */
static inline void KVec_insert(KVec* v, size_t pos, LGk* e) { __CPROVER_assert(pos <= v->n, "insert position within [0, size]"); __CPROVER_assert(pos == g_lb_pos && g_lb_valid && e->g_key == g_lb_target, "C17: a new entry is inserted where a bound search for its own name points (the registry stays sorted)"); if (v->g_p < v->n && pos <= v->g_p) v->g_p++; v->n++; v->g_inserts++; g_lb_valid = false; g_rep_valid = false; }
'''
LMK_PRELUDE = SORTED + r'''
typedef struct Spinlock { int d; } Spinlock;
typedef struct LMk { KVec _loggers; Spinlock _spinlock; bool g_has_env_level; } LMk;
#define T_(s) ((s)->_loggers.tracked)
'''
LB_RULES = [(r'std::lower_bound\(_loggers\.begin\(\),\s*_loggers\.end\(\),\s*(?:target|logger->get_logger_name\(\)),\s*\[\]\(std::unique_ptr<LoggerBase> const& a, std::string const& b\)\s*\{\s*return a->get_logger_name\(\) < b;\s*\}\s*\)',
             lambda m: 'LOWER_BOUND(&_loggers, %s)' % ('target' if 'target,' in m.group(0) else 'logger->g_key'), '!'),
            (r'auto\s+search_it\s*=', 'size_t const search_it =')]
lm_find = dict(
    name='LM.find', primary='C17', props={'C17'}, kind='L',
    desc='LoggerManager::_find_logger: a lookup by name returns exactly the registered logger of that name, or nothing',
    structs=[], prelude=LMK_PRELUDE, enforce='LM__find_logger', replace=['LOWER_BOUND'],
    funcs=[dict(src=dict(header=LMH, cls='LoggerManager', name='_find_logger'), src_params=['target'], cfun='LM__find_logger', sig='LGk* LM__find_logger(LMk* self, Key target)', ret_default='NULL',
                cls_c='LM', member_fields=['_loggers'],
                pre_rules=LB_RULES + [(r'search_it\s*!=\s*std::end\(_loggers\)', '(search_it != _loggers.n)'), (r'search_it->get\(\)->get_logger_name\(\)\s*==\s*target', '(KVec_get(&_loggers, search_it)->g_key == target)'),
                                      (r'\?\s*search_it->get\(\)', '? KVec_get(&_loggers, search_it)')],
                contract=r'''
__CPROVER_requires(__CPROVER_is_fresh(self, sizeof(*self)) && __CPROVER_is_fresh(T_(self), sizeof(LGk)) && __CPROVER_is_fresh(self->_loggers.other, sizeof(LGk)) && self->_loggers.g_p < self->_loggers.n && !g_lb_valid && !g_rep_valid)
__CPROVER_assigns(g_lb_pos, g_lb_target, g_lb_valid, g_rep_i, g_rep_valid, self->_loggers.other->g_key)
__CPROVER_ensures(target == T_(self)->g_key ==> RET == T_(self)) /*@ C17 "looking a logger up by its name finds that logger (every registered logger, the tracked one being arbitrary)" */
__CPROVER_ensures(RET != NULL ==> RET->g_key == target) /*@ C17 "a lookup never returns a logger of another name" */
''')],
    harness='  LMk* m; Key k; LM__find_logger(m, k);', allow_assume=True,
    dropped=['logger names as integer keys (std::string operator< / == as a strict total order)', 'unique_ptr ownership'],
    trusted=['std::lower_bound on a sorted range returns the first position whose element is not less than the target', 'the registry is sorted by name without duplicates (kept by LM.insert; representative elements respect the order: shim assumptions)'],
    assumes=['shim: keys of representative elements respect the sorted order and the last lower_bound answer'], min_obligations=10)
lm_insert = dict(
    name='LM.insert', primary='C17', props={'C17'}, kind='L',
    desc='LoggerManager::_insert_logger: a new logger goes exactly where lower_bound of its name points, so the registry stays sorted and every other logger keeps being found',
    structs=[], prelude=LMK_PRELUDE, enforce='LM__insert_logger', replace=['LOWER_BOUND'],
    funcs=[dict(src=dict(header=LMH, cls='LoggerManager', name='_insert_logger'), src_params=['logger'], cfun='LM__insert_logger', sig='void LM__insert_logger(LMk* self, LGk* logger)',
                cls_c='LM', member_fields=['_loggers'],
                pre_rules=LB_RULES + [(r'_loggers\.insert\(search_it,\s*static_cast<std::unique_ptr<LoggerBase>&&>\(logger\)\)\s*;', 'KVec_insert(&_loggers, search_it, logger);')],
                contract=r'''
__CPROVER_requires(__CPROVER_is_fresh(self, sizeof(*self)) && __CPROVER_is_fresh(T_(self), sizeof(LGk)) && __CPROVER_is_fresh(self->_loggers.other, sizeof(LGk)) && __CPROVER_is_fresh(logger, sizeof(LGk)) && self->_loggers.g_p < self->_loggers.n && self->_loggers.n < (((size_t)1) << 40) && !g_lb_valid)
__CPROVER_requires(logger->g_key != T_(self)->g_key)      /* create_or_get_logger inserts only a name that was not found */
__CPROVER_assigns(g_lb_pos, g_lb_target, g_lb_valid, g_rep_valid, self->_loggers.n, self->_loggers.g_p, self->_loggers.g_inserts)
__CPROVER_ensures(self->_loggers.n == OLD(self->_loggers.n) + 1 && self->_loggers.g_inserts == OLD(self->_loggers.g_inserts) + 1) /*@ C17 "exactly one entry is added" */
__CPROVER_ensures(self->_loggers.g_p == OLD(self->_loggers.g_p) + ((logger->g_key < T_(self)->g_key) ? 1 : 0)) /*@ C17 "every logger already registered stays in name order relative to the new one (it is still found by name afterwards)" */
''')],
    harness='  LMk* m; LGk* l; LM__insert_logger(m, l);',
    dropped=['logger names as integer keys', 'unique_ptr move'], trusted=['std::lower_bound as in LM.find; std::vector::insert shifts the elements behind the position'], min_obligations=10)

COG_PRELUDE = SORTED + r'''
typedef struct Spinlock { int d; } Spinlock;
typedef struct LMk { KVec _loggers; Spinlock _spinlock; bool g_has_env_level; } LMk;
#define T_(s) ((s)->_loggers.tracked)
bool g_locked; size_t g_news, g_inserts_done, g_level_sets; LGk* g_new; Key g_new_key; bool g_find_miss_allowed;
void LOCK_GUARD(Spinlock* l) __CPROVER_assigns(g_locked) __CPROVER_ensures(g_locked);
/* _find_logger by its contract (unit LM.find), extended over the entry _insert_logger just added (unit LM.insert) */
LGk* LM__find_logger(LMk* self, Key target)
__CPROVER_requires(g_locked) /*@ C17 "the registry is only searched under its lock" */
__CPROVER_assigns(self->_loggers.other->g_key)
__CPROVER_ensures(RET == self->_loggers.other ==> self->_loggers.other->g_key == target)
__CPROVER_ensures(target == T_(self)->g_key ==> RET == T_(self))
__CPROVER_ensures((g_inserts_done == 1 && target == g_new_key) ==> RET == g_new)
__CPROVER_ensures(RET != NULL ==> (RET == T_(self) ? target == T_(self)->g_key : (RET == g_new ? (g_inserts_done == 1 && target == g_new_key) : (RET == self->_loggers.other && target != T_(self)->g_key))));
LGk* LOGGER_new(Key name) __CPROVER_assigns(g_news, g_new, g_new_key) __CPROVER_ensures(__CPROVER_is_fresh(RET, sizeof(LGk)) && RET->g_key == name && RET->valid && g_news == OLD(g_news) + 1 && g_new == RET && g_new_key == name);
void LM__insert_logger(LMk* self, LGk* logger)
__CPROVER_requires(g_locked && logger == g_new && logger->g_key != T_(self)->g_key) /*@ C17 "a logger is inserted only under the lock and only when no logger of that name is registered" */
__CPROVER_assigns(g_inserts_done) __CPROVER_ensures(g_inserts_done == OLD(g_inserts_done) + 1);
void LG_set_log_level_from_env(LGk* l) __CPROVER_assigns(g_level_sets) __CPROVER_ensures(g_level_sets == OLD(g_level_sets) + 1);
static inline bool LGk_is_valid_logger(LGk* l) { return l->valid ? 1 : 0; }
'''
lm_create_or_get = dict(
    name='LM.create_or_get', primary='C17', props={'C17'}, kind='S',
    desc='LoggerManager::create_or_get_logger: idempotent by name - an existing logger of that name is returned untouched, otherwise exactly one logger is created, inserted and returned; all under the registry lock',
    structs=[], prelude=COG_PRELUDE, enforce='LM_create_or_get_logger', replace=['LOCK_GUARD', 'LM__find_logger', 'LOGGER_new', 'LM__insert_logger', 'LG_set_log_level_from_env'],
    funcs=[dict(src=dict(header=LMH, cls='LoggerManager', name='create_or_get_logger', nth=0), cfun='LM_create_or_get_logger', sig='LGk* LM_create_or_get_logger(LMk* self, Key logger_name)', ret_default='NULL',
                cls_c='LM', member_fields=['_loggers', '_spinlock'], siblings=['_find_logger', '_insert_logger'], methods={'is_valid_logger': 'LGk_is_valid_logger'},
                pre_rules=[(r'LockGuard\s+const\s+lock\s*\{\s*_spinlock\s*\}\s*;', 'LOCK_GUARD(&_spinlock);'), (r'LoggerBase\s*\*\s*logger_ptr', 'LGk* logger_ptr'),
                           (r'std::unique_ptr<LoggerBase>\s+new_logger\s*\{\s*new\s+TLogger\s*\{.*?\}\s*\}\s*;', 'LGk* new_logger = LOGGER_new(logger_name);'),
                           (r'_insert_logger\(static_cast<std::unique_ptr<LoggerBase>&&>\(new_logger\)\)', '_insert_logger(new_logger)'),
                           (r'logger_ptr\s*&&\s*_env_log_level', '(logger_ptr && self->g_has_env_level)'), (r'logger_ptr->set_log_level\(\*_env_log_level\)\s*;', 'LG_set_log_level_from_env(logger_ptr);')],
                contract=r'''
__CPROVER_requires(__CPROVER_is_fresh(self, sizeof(*self)) && __CPROVER_is_fresh(T_(self), sizeof(LGk)) && __CPROVER_is_fresh(self->_loggers.other, sizeof(LGk)) && !g_locked && g_news == 0 && g_inserts_done == 0 && g_level_sets == 0)
__CPROVER_assigns(g_locked, g_news, g_new, g_new_key, g_inserts_done, g_level_sets, self->_loggers.other->g_key)
__CPROVER_ensures(logger_name == T_(self)->g_key ==> (RET == T_(self) && g_news == 0 && g_inserts_done == 0 && g_level_sets == 0)) /*@ C17 "asking for a registered name returns that very logger and creates nothing (idempotent from any thread)" */
__CPROVER_ensures(g_news == g_inserts_done && g_news <= 1 && (g_news == 1 ==> (RET == g_new && g_new_key == logger_name))) /*@ C17 "otherwise exactly one logger of that name is created, registered and returned" */
__CPROVER_ensures(RET != NULL && RET->g_key == logger_name) /*@ C17 "the returned logger always carries the requested name" */
''')],
    harness='  LMk* m; Key k; LM_create_or_get_logger(m, k);',
    dropped=['logger names as integer keys', 'the constructor arguments of the new logger (sinks, pattern options, clock)', 'asserts (NDEBUG)', 'LockGuard RAII unlock'],
    trusted=['_find_logger / _insert_logger by the contracts units LM.find / LM.insert prove (restated over the tracked logger and the entry just inserted)'], min_obligations=15)
UNITS += [lm_find, lm_insert, lm_create_or_get]

# ------------------------------------------------------------------------------------------ SinkManager: lookup / insert by name
SORTED_S = SORTED.replace('typedef struct LGk { Key g_key; bool valid; } LGk;    /* LoggerBase: its name, valid flag */',
                          'typedef struct Sink { int d; } Sink;\ntypedef struct LGk { Key g_key; bool expired; Sink* sink; } LGk;   /* SinkInfo: sink_id, weak_ptr<Sink> (expired flag + target) */')
assert SORTED_S != SORTED
SMK_PRELUDE = SORTED_S + r'''
typedef struct SMk { KVec _sinks; } SMk;
#define T_(s) ((s)->_sinks.tracked)
static inline Sink* WEAK_lock(LGk* e) { return e->expired ? (Sink*)NULL : e->sink; }      /* weak_ptr::lock(): null when the sink is gone */
'''
SLB_RULES = [(r'std::lower_bound\(_sinks\.begin\(\),\s*_sinks\.end\(\),\s*(target|sink_name),\s*\[\]\(SinkInfo const& elem, std::string const& b\)\s*\{\s*return elem\.sink_id < b;\s*\}\s*\)', r'LOWER_BOUND(&_sinks, \1)', '?'),
             (r'std::upper_bound\(_sinks\.begin\(\),\s*_sinks\.end\(\),\s*(target|sink_name),\s*\[\]\([^()]*\)\s*\{[^{}]*\}\s*\)', r'UPPER_BOUND(&_sinks, \1)', '?'),
             (r'auto\s+search_it\s*=', 'size_t const search_it =')]
sm_find = dict(
    name='SM.find', primary='C17', props={'C17'}, kind='L',
    desc='SinkManager::_find_sink: a lookup by name returns exactly the live sink registered under that name; an entry whose sink is gone yields nothing',
    structs=[], prelude=SMK_PRELUDE, enforce='SM__find_sink', replace=['LOWER_BOUND'],
    funcs=[dict(src=dict(header=SMH, cls='SinkManager', name='_find_sink'), src_params=['target'], cfun='SM__find_sink', sig='Sink* SM__find_sink(SMk* self, Key target)', ret_default='NULL',
                cls_c='SM', member_fields=['_sinks'],
                pre_rules=SLB_RULES + [(r'std::shared_ptr<Sink>\s+sink\s*;', 'Sink* sink = NULL;'), (r'search_it\s*!=\s*std::end\(_sinks\)', '(search_it != _sinks.n)'),
                                       (r'search_it->sink_id\s*==\s*target', '(KVec_get(&_sinks, search_it)->g_key == target)'), (r'search_it->sink_ptr\.lock\(\)', 'WEAK_lock(KVec_get(&_sinks, search_it))')],
                contract=r'''
__CPROVER_requires(__CPROVER_is_fresh(self, sizeof(*self)) && __CPROVER_is_fresh(T_(self), sizeof(LGk)) && __CPROVER_is_fresh(self->_sinks.other, sizeof(LGk)) && self->_sinks.g_p < self->_sinks.n && !g_lb_valid && !g_rep_valid && T_(self)->sink != NULL)
__CPROVER_assigns(g_lb_pos, g_lb_target, g_lb_valid, g_rep_i, g_rep_valid, self->_sinks.other->g_key)
__CPROVER_ensures((target == T_(self)->g_key && !T_(self)->expired) ==> RET == T_(self)->sink) /*@ C17 "looking a sink up by its name finds that sink as long as it is alive (shared sinks keep working)" */
__CPROVER_ensures((target == T_(self)->g_key && T_(self)->expired) ==> RET == NULL) /*@ C17 "a name whose sink was destroyed yields nothing: a sink of that name can be created again" */
__CPROVER_ensures(RET == T_(self)->sink ==> (target == T_(self)->g_key || RET == self->_sinks.other->sink)) /*@ C17 "a lookup never returns the sink of another name" */
''')],
    harness='  SMk* m; Key k; SM__find_sink(m, k);', allow_assume=True,
    dropped=['sink names as integer keys', 'shared_ptr / weak_ptr as pointer + expired flag'],
    trusted=['std::lower_bound on a sorted range', 'the registry is sorted by name (kept by SM.insert; entries of equal name can coexist only when the older one is expired: the lookup then sees the newer one first)'],
    assumes=['shim: keys of representative elements respect the sorted order and the last lower_bound answer'], min_obligations=10)
sm_insert = dict(
    name='SM.insert', primary='C17', props={'C17'}, kind='L',
    desc='SinkManager::_insert_sink: a new entry goes exactly where lower_bound of its name points, so the registry stays sorted',
    structs=[], prelude=SMK_PRELUDE + r'''
LGk* SINKINFO_new(Key name, Sink* s) __CPROVER_assigns() __CPROVER_ensures(__CPROVER_is_fresh(RET, sizeof(LGk)) && RET->g_key == name && !RET->expired && RET->sink == s);
''', enforce='SM__insert_sink', replace=['LOWER_BOUND', 'UPPER_BOUND', 'SINKINFO_new'],
    funcs=[dict(src=dict(header=SMH, cls='SinkManager', name='_insert_sink'), src_params=['sink_name', 'sink'], cfun='SM__insert_sink', sig='void SM__insert_sink(SMk* self, Key sink_name, Sink* sink)',
                cls_c='SM', member_fields=['_sinks'],
                pre_rules=SLB_RULES + [(r'_sinks\.insert\(search_it,\s*SinkInfo\{sink_name,\s*sink\}\)\s*;', 'KVec_insert(&_sinks, search_it, SINKINFO_new(sink_name, sink));')],
                contract=r'''
__CPROVER_requires(__CPROVER_is_fresh(self, sizeof(*self)) && __CPROVER_is_fresh(T_(self), sizeof(LGk)) && __CPROVER_is_fresh(self->_sinks.other, sizeof(LGk)) && self->_sinks.g_p < self->_sinks.n && self->_sinks.n < (((size_t)1) << 40) && !g_lb_valid)
__CPROVER_assigns(g_lb_pos, g_lb_target, g_lb_valid, g_rep_valid, self->_sinks.n, self->_sinks.g_p, self->_sinks.g_inserts)
__CPROVER_ensures(self->_sinks.n == OLD(self->_sinks.n) + 1 && self->_sinks.g_inserts == OLD(self->_sinks.g_inserts) + 1) /*@ C17 "exactly one entry is added" */
__CPROVER_ensures(self->_sinks.g_p == OLD(self->_sinks.g_p) + ((sink_name <= T_(self)->g_key) ? 1 : 0)) /*@ C17 "every entry already registered stays in name order relative to the new one; a new entry of an equal name (the old sink is gone) goes in front, so lookups see the new sink" */
''')],
    harness='  SMk* m; Key k; Sink* s; SM__insert_sink(m, k, s);',
    dropped=['sink names as integer keys', 'shared_ptr -> weak_ptr conversion'], trusted=['std::lower_bound; std::vector::insert'], min_obligations=10)
UNITS += [sm_find, sm_insert]

# ------------------------------------------------------------------------------------------ SinkManager::create_or_get_sink
SCOG_PRELUDE = SORTED_S + r'''
typedef struct Spinlock { int d; } Spinlock;
typedef struct SMk { KVec _sinks; Spinlock _spinlock; } SMk;
#define T_(s) ((s)->_sinks.tracked)
bool g_locked; size_t g_news, g_inserts_done; Sink* g_new; Key g_new_key;
void LOCK_GUARD(Spinlock* l) __CPROVER_assigns(g_locked) __CPROVER_ensures(g_locked);
/* _find_sink by its contract (unit SM.find): the live sink registered under the name, or nothing */
Sink* SM__find_sink(SMk* self, Key target)
__CPROVER_requires(g_locked) /*@ C17 "the sink registry is only searched under its lock" */
__CPROVER_assigns()
__CPROVER_ensures((target == T_(self)->g_key && !T_(self)->expired) ==> RET == T_(self)->sink)
__CPROVER_ensures((target == T_(self)->g_key && T_(self)->expired) ==> RET == NULL);
Sink* SINK_new(Key name) __CPROVER_assigns(g_news, g_new, g_new_key) __CPROVER_ensures(__CPROVER_is_fresh(RET, sizeof(Sink)) && g_news == OLD(g_news) + 1 && g_new == RET && g_new_key == name);
void SM__insert_sink(SMk* self, Key name, Sink* s)
__CPROVER_requires(g_locked && s == g_new && name == g_new_key && (name != T_(self)->g_key || T_(self)->expired)) /*@ C17 "an entry is inserted only under the lock and only when no live sink of that name is registered" */
__CPROVER_assigns(g_inserts_done) __CPROVER_ensures(g_inserts_done == OLD(g_inserts_done) + 1);
'''
sm_create_or_get = dict(
    name='SM.create_or_get', primary='C17', props={'C17'}, kind='S',
    desc='SinkManager::create_or_get_sink: idempotent by name - a live sink of that name is returned and nothing is created; otherwise (no entry, or the old sink is gone) exactly one sink is created, registered and returned; all under the registry lock',
    structs=[], prelude=SCOG_PRELUDE, enforce='SM_create_or_get_sink', replace=['LOCK_GUARD', 'SM__find_sink', 'SINK_new', 'SM__insert_sink'],
    funcs=[dict(src=dict(header=SMH, cls='SinkManager', name='create_or_get_sink'), cfun='SM_create_or_get_sink', sig='Sink* SM_create_or_get_sink(SMk* self, Key sink_name)', ret_default='NULL',
                cls_c='SM', member_fields=['_sinks', '_spinlock'], siblings=['_find_sink', '_insert_sink'],
                pre_rules=[(r'static_assert\([^;]*\);', ''), (r'LockGuard\s+const\s+lock\s*\{\s*_spinlock\s*\}\s*;', 'LOCK_GUARD(&_spinlock);'), (r'std::shared_ptr<Sink>\s+sink\s*=', 'Sink* sink ='),
                           (r'if\s+constexpr\s*\(std::disjunction_v<std::is_same<FileSink, TSink>, std::is_base_of<FileSink, TSink>>\)\s*\{\s*sink\s*=\s*std::make_shared<TSink>\(sink_name,[^;]*;\s*\}\s*else\s*\{\s*sink\s*=\s*std::make_shared<TSink>\([^;]*;\s*\}', 'sink = SINK_new(sink_name);', '!')],
                contract=r'''
__CPROVER_requires(__CPROVER_is_fresh(self, sizeof(*self)) && __CPROVER_is_fresh(T_(self), sizeof(LGk)) && __CPROVER_is_fresh(self->_sinks.other, sizeof(LGk)) && T_(self)->sink != NULL && !g_locked && g_news == 0 && g_inserts_done == 0)
__CPROVER_assigns(g_locked, g_news, g_new, g_new_key, g_inserts_done)
__CPROVER_ensures((sink_name == T_(self)->g_key && !T_(self)->expired) ==> (RET == T_(self)->sink && g_news == 0 && g_inserts_done == 0)) /*@ C17 "asking for the name of a live sink returns that very sink and creates nothing (shared sinks keep working, idempotent from any thread)" */
__CPROVER_ensures(g_news == g_inserts_done && g_news <= 1 && (g_news == 1 ==> (RET == g_new && g_new_key == sink_name))) /*@ C17 "otherwise exactly one sink is created, registered under the name and returned - also when an entry of that name whose sink was destroyed is still in the registry" */
__CPROVER_ensures(RET != NULL)
''')],
    harness='  SMk* m; Key k; SM_create_or_get_sink(m, k);',
    dropped=['sink names as integer keys', 'the sink type and its constructor arguments (both if-constexpr arms construct one sink; file sinks get the name as file name)', 'LockGuard RAII unlock', 'shared_ptr as pointer'],
    trusted=['_find_sink / _insert_sink by the contracts units SM.find / SM.insert prove (restated)'], min_obligations=15)
UNITS += [sm_create_or_get]

# ------------------------------------------------------------------------------------------ FrontendImpl::shrink_thread_local_queue / get_thread_local_queue_capacity
FQ_PRELUDE = r'''
typedef struct Qx { size_t g_capacity, g_producer_capacity; } Qx;      /* the calling thread's own queue (get_local_thread_context()->get_spsc_queue()) */
Qx g_local_queue; bool g_unbounded;                                     /* logger_t::using_unbounded_queue of the frontend options (symbolic: one proof for all queue types) */
size_t g_shrinks, g_shrink_arg; Qx* g_shrunk;
static inline Qx* LOCAL_QUEUE(void) { return &g_local_queue; }
/* UnboundedSPSCQueue::shrink (unit UQ.shrink) */
void UQ_shrink(Qx* q, size_t capacity) __CPROVER_assigns(g_shrinks, g_shrink_arg, g_shrunk) __CPROVER_ensures(g_shrinks == OLD(g_shrinks) + 1 && g_shrink_arg == capacity && g_shrunk == q);
static inline size_t UQ_producer_capacity(Qx* q) { return q->g_producer_capacity; }
static inline size_t Q_capacity(Qx* q) { return q->g_capacity; }
'''
FQ_RULES = [(r'detail::get_local_thread_context<TFrontendOptions>\(\)\s*->template\s+get_spsc_queue<TFrontendOptions::queue_type>\(\)\s*\.shrink\(capacity\)', 'UQ_shrink(LOCAL_QUEUE(), capacity)', '?'),
            (r'detail::get_local_thread_context<TFrontendOptions>\(\)\s*->template\s+get_spsc_queue<TFrontendOptions::queue_type>\(\)\s*\.producer_capacity\(\)', 'UQ_producer_capacity(LOCAL_QUEUE())', '?'),
            (r'detail::get_local_thread_context<TFrontendOptions>\(\)\s*->template\s+get_spsc_queue<TFrontendOptions::queue_type>\(\)\s*\.capacity\(\)', 'Q_capacity(LOCAL_QUEUE())', '?')]
SYMQ = {'logger_t::using_unbounded_queue': None}
fe_shrink = dict(
    name='FE.shrink_queue', primary='C20', props={'C20'}, kind='S',
    desc='FrontendImpl::shrink_thread_local_queue: the request reaches the calling thread\'s own unbounded queue with the requested capacity, exactly once; a bounded queue is left alone',
    structs=[], prelude=FQ_PRELUDE, enforce='FE_shrink_thread_local_queue', replace=['UQ_shrink'],
    funcs=[dict(src=dict(header=FH, cls='FrontendImpl', name='shrink_thread_local_queue'), src_params=['capacity'], cfun='FE_shrink_thread_local_queue', sig='void FE_shrink_thread_local_queue(size_t capacity)',
                member_fields=[], pre_rules=FQ_RULES, constexpr=lambda c: None, rules=[(r'logger_t::using_unbounded_queue', 'g_unbounded')],
                contract=r'''
__CPROVER_requires(g_shrinks == 0)
__CPROVER_assigns(g_shrinks, g_shrink_arg, g_shrunk)
__CPROVER_ensures(g_unbounded ==> (g_shrinks == 1 && g_shrink_arg == capacity && g_shrunk == &g_local_queue)) /*@ C20 "a shrink request takes effect on the calling thread's own queue, with the requested capacity" */
__CPROVER_ensures(!g_unbounded ==> g_shrinks == 0) /*@ C20 "a bounded queue is never resized" */
''')],
    harness='  size_t c; FE_shrink_thread_local_queue(c);', dropped=['thread_local lookup of the context (get_local_thread_context) as the address of one queue object', 'queue type kept symbolic (if constexpr -> if)'],
    trusted=['UnboundedSPSCQueue::shrink by unit UQ.shrink'], min_obligations=3)
fe_capacity = dict(
    name='FE.queue_capacity', primary='C20', props={'C20'}, kind='S',
    desc='FrontendImpl::get_thread_local_queue_capacity: reports the producer-side capacity of the calling thread\'s unbounded queue (the one a shrink changes), the fixed capacity of a bounded one',
    structs=[], prelude=FQ_PRELUDE, enforce='FE_get_thread_local_queue_capacity', replace=[],
    funcs=[dict(src=dict(header=FH, cls='FrontendImpl', name='get_thread_local_queue_capacity'), src_params=[], cfun='FE_get_thread_local_queue_capacity', sig='size_t FE_get_thread_local_queue_capacity(void)',
                member_fields=[], pre_rules=FQ_RULES, constexpr=lambda c: None, rules=[(r'logger_t::using_unbounded_queue', 'g_unbounded')], ret_default='0',
                contract=r'''
__CPROVER_assigns()
__CPROVER_ensures(RET == (g_unbounded ? g_local_queue.g_producer_capacity : g_local_queue.g_capacity)) /*@ C20 "the capacity reported for a thread is that of the buffer its producer currently writes to (so it drops when a shrink took effect)" */
''')],
    harness='  FE_get_thread_local_queue_capacity();', dropped=['thread_local lookup of the context as the address of one queue object', 'queue type kept symbolic (if constexpr -> if)'],
    trusted=['UnboundedSPSCQueue::producer_capacity / capacity by units UQ.producer_capacity, BQ.capacity'], min_obligations=2)
UNITS += [fe_shrink, fe_capacity]

# ------------------------------------------------------------------------------------------ LoggerManager::remove_logger / for_each_logger
RL_PRELUDE = r'''
typedef struct LGr { bool valid; } LGr;
typedef struct LMr { bool _has_invalidated_loggers; } LMr;
size_t g_clock, g_t_invalid, g_t_flag; int g_flag_mo;
static inline void LG_mark_invalid(LGr* l) { l->valid = false; g_clock++; g_t_invalid = g_clock; }
static inline void FLAG_STORE(LMr* m, bool v, int mo) { m->_has_invalidated_loggers = v; g_flag_mo = mo; g_clock++; g_t_flag = g_clock; }
#define ATOMIC_STORE__has_invalidated_loggers(s, v, mo) FLAG_STORE(s, v, mo)
'''
lm_remove = dict(
    name='LM.remove_logger', primary='C17', props={'C17'}, kind='L',
    desc='LoggerManager::remove_logger: the logger is marked removed and then the clean-up flag raised with release order, so a backend that sees the flag also sees the mark (and frees the logger once its statements are written)',
    structs=[], prelude=RL_PRELUDE, enforce='LM_remove_logger', replace=[],
    funcs=[dict(src=dict(header=LMH, cls='LoggerManager', name='remove_logger'), src_params=['logger'], cfun='LM_remove_logger', sig='void LM_remove_logger(LMr* self, LGr* logger)', cls_c='LM',
                member_fields=['_has_invalidated_loggers'], atomics=['_has_invalidated_loggers'], methods={'mark_invalid': 'LG_mark_invalid'},
                contract=r'''
__CPROVER_requires(__CPROVER_is_fresh(self, sizeof(*self)) && __CPROVER_is_fresh(logger, sizeof(*logger)) && g_clock == 0)
__CPROVER_assigns(self->_has_invalidated_loggers, logger->valid, g_clock, g_t_invalid, g_t_flag, g_flag_mo)
__CPROVER_ensures(!logger->valid && self->_has_invalidated_loggers) /*@ C17 "a removed logger is marked and the backend is told to clean up" */
__CPROVER_ensures(g_t_invalid < g_t_flag) /*@ C17 "the mark is made before the flag is raised: a clean-up pass that sees the flag never finds the logger still valid and then forgets it (the memory order of the flag is not demanded: C17 quantifies over interleavings)" */
''')],
    harness='  LMr* m; LGr* l; LM_remove_logger(m, l);', dropped=['LoggerBase::mark_invalid as a store to the valid flag'], trusted=['release / acquire pairing with the load in cleanup_invalidated_loggers (unit LM.cleanup)'], min_obligations=4)

FE_PRELUDE2 = EVEC + r'''
typedef struct Spinlock { int d; } Spinlock;
typedef struct LMf { EVec _loggers; Spinlock _spinlock; } LMf;
void LOCK_GUARD(Spinlock* l) __CPROVER_assigns(g_locked) __CPROVER_ensures(g_locked);
size_t g_cb_tracked, g_cb_total; bool g_cb_tracked_answer;
/* the callback: an arbitrary predicate of the logger; its answer for the tracked logger is the ghost g_cb_tracked_answer, for the others arbitrary */
bool nondet_bool(void);
bool CALLBACK(LMf* self, Elem* l) __CPROVER_requires(g_locked) /*@ C17 "the registry is walked under its lock" */
__CPROVER_assigns(g_cb_tracked, g_cb_total) __CPROVER_ensures(g_cb_total == OLD(g_cb_total) + 1 && (l == self->_loggers.tracked ? (g_cb_tracked == OLD(g_cb_tracked) + 1 && RET == g_cb_tracked_answer) : g_cb_tracked == OLD(g_cb_tracked)));
static inline bool ELEM_is_valid_logger(Elem* l) { return l->flag; }      /* not used by the pinned source: present so that a walk that skips removed loggers is decided (seed C06-G2) */
#define T_(s) ((s)->_loggers.tracked)
'''
lm_for_each = dict(
    name='LM.for_each_logger', primary='C17', props={'C17', 'C06'}, kind='S',
    desc='LoggerManager::for_each_logger: under the lock, every registered logger - valid or already removed - is handed to the callback at most once, in order, until the callback answers true',
    structs=[], prelude=FE_PRELUDE2, enforce='LM_for_each_logger', replace=['LOCK_GUARD', 'CALLBACK'], loopcontracts=True,
    funcs=[dict(src=dict(header=LMH, cls='LoggerManager', name='for_each_logger'), src_params=['cb'], cfun='LM_for_each_logger', sig='void LM_for_each_logger(LMf* self)', cls_c='LM', member_fields=['_loggers', '_spinlock'],
                range_for=[(r'_loggers', 'EVec_size', 'EVec_get', 'Elem*')], methods={'is_valid_logger': 'ELEM_is_valid_logger'},
                pre_rules=[(r'LockGuard\s+const\s+lock\s*\{\s*_spinlock\s*\}\s*;', 'LOCK_GUARD(&_spinlock);'), (r'cb\(elem\.get\(\)\)', 'CALLBACK(self, elem)')],
                loops={0: r'''
__CPROVER_assigns(__i0, g_cb_tracked, g_cb_total)
__CPROVER_loop_invariant(__i0 <= self->_loggers.n && g_locked && g_cb_total == __i0 && g_cb_tracked == ((__i0 > self->_loggers.g_p) ? 1 : 0))
__CPROVER_decreases(self->_loggers.n - __i0)
'''},
                contract=r'''
__CPROVER_requires(__CPROVER_is_fresh(self, sizeof(*self)) && __CPROVER_is_fresh(T_(self), sizeof(Elem)) && __CPROVER_is_fresh(self->_loggers.other, sizeof(Elem)) && self->_loggers.g_p < self->_loggers.n && self->_loggers.n < 1000000 && !self->_loggers.g_tracked_erased && !g_locked && g_cb_tracked == 0 && g_cb_total == 0)
__CPROVER_assigns(g_locked, g_cb_tracked, g_cb_total)
__CPROVER_ensures(g_cb_tracked <= 1 && g_cb_total <= self->_loggers.n) /*@ C17 "no logger is visited twice" */
__CPROVER_ensures(g_cb_total == self->_loggers.n ==> g_cb_tracked == 1) /*@ C06,C17 "a walk that is not cut short by the callback visits every registered logger, removed-but-registered ones included (their sinks are still flushed)" */
__CPROVER_ensures(g_cb_total < self->_loggers.n ==> (g_cb_total >= 1)) /*@ C17 "the walk stops early only because the callback said so" */
''')],
    harness='  LMf* m; LM_for_each_logger(m);', dropped=['the callback type (template parameter): an arbitrary predicate', 'LockGuard RAII unlock'], trusted=['registry abstracted to {one tracked logger, one representative of the others}'], min_obligations=10)
UNITS += [lm_remove, lm_for_each]
