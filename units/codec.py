"""C04 — core/Codec.h: size / encode / decode triple of the primary Codec<Arg> template, at the instantiations the arms
distinguish.  The `if constexpr` arms are selected by g++ itself (vlib/cxx_eval.py).  Each unit is a ROUND-TRIP lemma over
the real lowered bodies: bytes reserved == bytes written == bytes consumed, and the decoded value equals the argument."""

H = 'quill/core/Codec.h'

BASE = r'''
/* SizeCacheVector (InlinedVector<uint32_t,12>) below its inline capacity: executable shim (the real class: units IV.*) */
typedef struct IV { uint32_t a[12]; size_t n; } IV;
static inline uint32_t IV_push_back(IV* v, uint32_t x) { __CPROVER_assert(v->n < 12, "size cache below its inline capacity"); v->a[v->n] = x; v->n++; return x; }
static inline uint32_t* IV_at(IV* v, size_t i) { __CPROVER_assert(i < v->n, "size cache index within size"); return &v->a[i]; }
/* libc memchr: executable model (CBMC ships none); a null source with length 0 is tolerated by memcpy in every libc */
static inline void* MEMCHR(const void* s, int c, size_t n) { for (size_t i = 0; i < n; i++) { if (((const unsigned char*)s)[i] == (unsigned char)c) return (void*)((const unsigned char*)s + i); } return NULL; }
#define memchr(s, c, n) MEMCHR(s, c, n)
static inline void MEMCPY0(void* d, const void* s, size_t n) { if (n != 0) memcpy(d, s, n); }
'''

COMMON_RULES = [(r'\bdetail::', '', '?'), (r'std::byte\{([^{}]*)\}', r'((unsigned char)(\1))', '?'), (r'safe_strnlen\(([^(),]+),', r'safe_strnlen2(\1,', '?'),
                ]
STRNLEN_FUNCS = [
    dict(src=dict(header=H, cls=None, name='safe_strnlen', nth=0), src_params=['str', 'maxlen'], cfun='safe_strnlen2', sig='size_t safe_strnlen2(char const* str, size_t maxlen)',
         pre_rules=[(r'auto\s+end\s*=', 'char const* end =', 1)]),
    dict(src=dict(header=H, cls=None, name='safe_strnlen', nth=1), src_params=['str'], cfun='safe_strnlen', sig='size_t safe_strnlen(char const* str)',
         pre_rules=[(r'static\s+constexpr\s+uint32_t\s+max_len', 'static const uint32_t max_len', 1), (r'safe_strnlen\(str, max_len\)', 'safe_strnlen2(str, max_len)', 1)]),
]


def funcs(inst_using, argt, rett, extra_rules=(), strings=False):
    enc_rules = COMMON_RULES + [(r'\barg\b', '(*arg_p)', '?'), (r'\bbuffer\b', '(*buffer_p)', '?'), (r'\bconditional_arg_size_cache_index\b', '(*idx_p)', '?'),
                                (r'\bconditional_arg_size_cache\b(?!_)', '(*cache_p)', '?')] + list(extra_rules)
    dec_rules = COMMON_RULES + [(r'\bbuffer\b', '(*buffer_p)'), (r'auto\s+(const\s+)?arg\s*=', rett + ' arg =', '?')] + list(extra_rules)
    f = list(STRNLEN_FUNCS) if strings else []
    f += [
        dict(src=dict(header=H, cls='Codec', name='compute_encoded_size'), src_params=['conditional_arg_size_cache', 'arg'], cfun='CD_compute_encoded_size',
             sig='size_t CD_compute_encoded_size(IV* cache_p, %s const* arg_p)' % argt, constexpr_gxx=inst_using,
             methods={'push_back': 'IV_push_back', 'length': 'STR_length', 'data': 'STR_data'}, pre_rules=enc_rules + [(r'size_t\s+constexpr\s+N', 'size_t const N', '?')]),
        dict(src=dict(header=H, cls='Codec', name='encode'), src_params=['buffer', 'conditional_arg_size_cache', 'conditional_arg_size_cache_index', 'arg'], cfun='CD_encode',
             sig='void CD_encode(unsigned char** buffer_p, IV* cache_p, uint32_t* idx_p, %s const* arg_p)' % argt, constexpr_gxx=inst_using,
             methods={'length': 'STR_length', 'data': 'STR_data'}, subscripts={},
             pre_rules=enc_rules + [(r'size_t\s+constexpr\s+N', 'size_t const N', '?'), (r'\(\*cache_p\)\s*\[([^\]]*)\]', r'(*IV_at(cache_p, \1))', '?'), (r'auto\s+const\s+len\s*=', 'uint32_t const len =', '?'),
                                    (r'\bstd::memcpy\(', 'MEMCPY0(')]),
        dict(src=dict(header=H, cls='Codec', name='decode_arg'), src_params=['buffer'], cfun='CD_decode_arg', sig='%s CD_decode_arg(unsigned char** buffer_p)' % rett,
             constexpr_gxx=inst_using, pre_rules=dec_rules + [(r'std::string_view\{((?:[^{}]|\{[^{}]*\})*)\}', r'SV_make(\1)', '?')]),
    ]
    return f


def rt_unit(name, inst_using, argt, rett, arg_setup, same, prelude_extra='', extra_rules=(), strings=False, bounded=None, cbmc=(), size_spec=None, desc=''):
    text = r'''
void lem_roundtrip(void)
__CPROVER_assigns()
__CPROVER_ensures(1 == 1)
{
  static unsigned char buf[BUFSZ];
  IV cache; cache.n = 0;
  ''' + arg_setup + r'''
  size_t const size = CD_compute_encoded_size(&cache, &argv);
  __CPROVER_assert(size <= BUFSZ, "harness: the record fits the scratch buffer");
  ''' + (('__CPROVER_assert(size == (%s), "C04: reserved size is the specified encoded size");' % size_spec) if size_spec else '') + r'''
  unsigned char* w = buf; uint32_t idx = 0;
  CD_encode(&w, &cache, &idx, &argv);
  __CPROVER_assert((size_t)(w - buf) == size, "C04: bytes written by encode == bytes reserved by the size pass");
  __CPROVER_assert(idx == cache.n, "C04: the encode pass consumes exactly the cached lengths of the size pass");
  unsigned char* r = buf;
  ''' + rett + r''' d = CD_decode_arg(&r);
  __CPROVER_assert(r == w, "C04: bytes consumed by decode == bytes written by encode");
  __CPROVER_assert(''' + same + r''', "C04: the decoded argument equals the encoded argument (deep copy: the record does not alias the argument)");
}
'''
    return dict(
        name='CD.roundtrip[%s]' % name, primary='C04', props={'C04'}, kind='L',
        desc=desc or ('Codec<%s>: compute_encoded_size / encode / decode_arg round trip over the real bodies (arms selected by g++)' % name),
        structs=[], prelude=BASE + prelude_extra + 'typedef %s Arg;\n' % argt, enforce='lem_roundtrip', replace=[],
        funcs=funcs(inst_using, argt, rett, extra_rules, strings) + [dict(cfun='lem_roundtrip', text=text)],
        harness='  lem_roundtrip();', cbmc=list(cbmc), bounded=bounded,
        dropped=['reference parameters as pointers', 'template instantiated at the named argument type; untaken if-constexpr arms removed (evaluated by g++ against the real header)',
                 'decode_and_store_arg (fmt argument store)'],
        trusted=['memcpy (CBMC built-in), memchr (executable model)', 'fmt formats the decoded value like the original (both sides call the same fmt)'],
        min_obligations=5)


def arith(name, cty, using, cmp=None):
    return rt_unit(name, using, cty, cty, '%s argv = nondet_arg();' % cty, cmp or 'd == argv',
                   prelude_extra='#define BUFSZ 16\n%s nondet_arg(void);\n' % cty, size_spec='sizeof(%s)' % cty)


L = 16
CSTR_PRE = r'''
#define BUFSZ 64
#define MAXLEN %d
''' % L
cstring = rt_unit('char const*', 'using Arg = char const*;', 'char const*', 'char const*',
                  r'''static char src[MAXLEN + 1]; size_t k; __CPROVER_assume(k <= MAXLEN); src[k] = 0; bool isnull; char const* argv = isnull ? (char const*)NULL : src;''',
                  '(argv == NULL ? d[0] == 0 : (safe_strnlen(d) == safe_strnlen(argv) && memcmp(d, argv, safe_strnlen(argv) + 1) == 0)) && (void const*)d == (void const*)buf',
                  prelude_extra=CSTR_PRE, strings=True, bounded=dict(bound='C strings of length <= %d (all contents, nullptr included)' % L, form='a'),
                  cbmc=['--unwind', str(L + 3), '--unwinding-assertions'], size_spec='(argv == NULL ? 1 : safe_strnlen(argv) + 1)')
cstring['allow_assume'] = True
cstring['assumes'] = ['harness assume: the source C string has a terminator within the bound']

chararray = rt_unit('char[8]', 'using Arg = char[8];', 'char8_t_', 'char const*',
                    r'''char8_t_ argv; for (int i = 0; i < 8; i++) argv[i] = nondet_char();''',
                    '(safe_strnlen2(argv, 8) == safe_strnlen(d)) && memcmp(d, argv, safe_strnlen2(argv, 8)) == 0',
                    prelude_extra='#define BUFSZ 32\ntypedef char char8_t_[8];\nchar nondet_char(void);\n', strings=True,
                    extra_rules=[(r'std::extent_v<Arg>', '8', '?')],
                    bounded=dict(bound='char[8], all contents with and without a terminator', form='a'), cbmc=['--unwind', '12', '--unwinding-assertions'],
                    size_spec='safe_strnlen2(argv, 8) + 1')

STR_PRE = r'''
#define BUFSZ 64
#define MAXLEN %d
typedef struct Str { char const* d; size_t n; } Str;          /* std::string / std::string_view: data + length */
typedef struct SV { char const* d; size_t n; } SV;
static inline size_t STR_length(Str const* s) { return s->n; }
static inline char const* STR_data(Str const* s) { return s->d; }
static inline SV SV_make(char const* p, uint32_t n) { SV v; v.d = p; v.n = n; return v; }
''' % L
string = rt_unit('std::string', 'using Arg = std::string;', 'Str', 'SV',
                 r'''static char src[MAXLEN]; Str argv; argv.d = src; size_t k; __CPROVER_assume(k <= MAXLEN); argv.n = k;''',
                 'd.n == argv.n && memcmp(d.d, argv.d, argv.n) == 0 && (void const*)d.d == (void const*)(buf + 4)',
                 prelude_extra=STR_PRE, bounded=dict(bound='strings of length <= %d, all contents incl. embedded NUL and empty' % L, form='a'),
                 cbmc=['--unwind', str(L + 3), '--unwinding-assertions'], size_spec='4 + argv.n')
string['allow_assume'] = True
string['assumes'] = ['harness assume: string length within the bound']

UNITS = [
    arith('uint32_t', 'uint32_t', 'using Arg = uint32_t;'),
    arith('double', 'double', 'using Arg = double;', cmp='memcmp(&d, &argv, sizeof(double)) == 0'),
    arith('bool', '_Bool', 'using Arg = bool;'),
    arith('enum:uint8_t', 'uint8_t', 'enum class VerifE : uint8_t { A, B }; using Arg = VerifE;'),
    arith('void const*', 'voidcp', 'using Arg = void const*;'),
    cstring, chararray, string,
]
for u in UNITS:
    if u['name'] == 'CD.roundtrip[void const*]':
        u['prelude'] = u['prelude'].replace('#define BUFSZ 16', '#define BUFSZ 16\ntypedef void const* voidcp;')

# ------------------------------------------------------------------------------------------ std/Vector.h: Codec<std::vector<uint32_t>> (arithmetic arm)
VH = 'quill/std/Vector.h'
VEC_PRE = BASE + r'''
#define BUFSZ 64
#define MAXN 8
typedef uint32_t T;
typedef struct VecIn { T const* d; size_t n; } VecIn;              /* std::vector<T>: data + size */
typedef struct VecOut { T a[MAXN]; size_t n; size_t g_reserved; } VecOut;   /* the decoded vector */
static inline size_t VIN_size(VecIn const* v) { return v->n; }
static inline T const* VIN_data(VecIn const* v) { return v->d; }
static inline void VOUT_reserve(VecOut* v, size_t n) { v->g_reserved = n; }
static inline void VOUT_emplace_back(VecOut* v, T x) { __CPROVER_assert(v->n < MAXN, "harness: decoded vector within the bound"); v->a[v->n] = x; v->n++; }
'''
SZ = 'using Arg = size_t;'
EL = 'using Arg = uint32_t;'


def codec_funcs_for(inst, prefix, argt):
    fs = funcs(inst, argt, argt)
    out = []
    for f in fs:
        g = dict(f)
        g['cfun'] = f['cfun'].replace('CD_', prefix)
        g['sig'] = f['sig'].replace('CD_', prefix)
        g['pre_rules'] = list(f.get('pre_rules', [])) + [(r'\bArg\b', argt)]
        out.append(g)
    return out


VRULES = [(r'\bdetail::', ''), (r'\barg\b', '(*arg_p)'), (r'\bbuffer\b', '(*buffer_p)'), (r'\bconditional_arg_size_cache_index\b', '(*idx_p)'), (r'\bconditional_arg_size_cache\b(?!_)', '(*cache_p)'),
          (r'Codec<size_t>::encode\(\(\*buffer_p\),\s*\(\*cache_p\),\s*\(\*idx_p\),\s*(.*?)\)\s*;', r'{ size_t const n_tmp = \1; CDS_encode(buffer_p, cache_p, idx_p, &n_tmp); }'),
          (r'Codec<size_t>::decode_arg\(\(\*buffer_p\)\)', 'CDS_decode_arg(buffer_p)'), (r'Codec<T>::decode_arg\(\(\*buffer_p\)\)', 'CDE_decode_arg(buffer_p)'),
          (r'\bstd::memcpy\(', 'MEMCPY0(')]
vec_funcs = codec_funcs_for(SZ, 'CDS_', 'size_t') + codec_funcs_for(EL, 'CDE_', 'uint32_t')[2:] + [
    dict(src=dict(header=VH, cls='Codec', cls_re=r'struct\s+Codec<std::vector<T,\s*Allocator>>', name='compute_encoded_size'), cfun='CDV_compute_encoded_size', sig='size_t CDV_compute_encoded_size(IV* cache_p, VecIn const* arg_p)',
         constexpr_gxx='using T = uint32_t; using Allocator = std::allocator<uint32_t>;', methods={'size': 'VIN_size', 'data': 'VIN_data'}, pre_rules=VRULES),
    dict(src=dict(header=VH, cls='Codec', cls_re=r'struct\s+Codec<std::vector<T,\s*Allocator>>', name='encode'), cfun='CDV_encode', sig='void CDV_encode(unsigned char** buffer_p, IV* cache_p, uint32_t* idx_p, VecIn const* arg_p)',
         constexpr_gxx='using T = uint32_t; using Allocator = std::allocator<uint32_t>;', methods={'size': 'VIN_size', 'data': 'VIN_data'}, pre_rules=VRULES),
    dict(src=dict(header=VH, cls='Codec', cls_re=r'struct\s+Codec<std::vector<T,\s*Allocator>>', name='decode_arg'), cfun='CDV_decode_arg', sig='VecOut CDV_decode_arg(unsigned char** buffer_p)',
         constexpr_gxx='using T = uint32_t; using Allocator = std::allocator<uint32_t>;', methods={'reserve': 'VOUT_reserve', 'emplace_back': 'VOUT_emplace_back'},
         pre_rules=[r_ for r_ in VRULES if r_[0] != r'\barg\b'] + [(r'using\s+ReturnType\s*=[^;]*;', ''), (r'using\s+ReboundAllocator\s*=[^;]*;', ''), (r'std::vector<ReturnType,\s*ReboundAllocator>\s+arg\s*;', 'VecOut arg; arg.n = 0; arg.g_reserved = 0;')]),
    dict(cfun='lem_roundtrip', text=r'''
void lem_roundtrip(void)
__CPROVER_assigns()
__CPROVER_ensures(1 == 1)
{
  static unsigned char buf[BUFSZ]; static T src[MAXN];
  IV cache; cache.n = 0;
  VecIn argv; argv.d = src; size_t k; __CPROVER_assume(k <= MAXN); argv.n = k;
  size_t const size = CDV_compute_encoded_size(&cache, &argv);
  __CPROVER_assert(size == 8 + 4 * argv.n, "C04: reserved size is the specified encoded size (element count + elements)");
  unsigned char* w = buf; uint32_t idx = 0;
  CDV_encode(&w, &cache, &idx, &argv);
  __CPROVER_assert((size_t)(w - buf) == size, "C04: bytes written by encode == bytes reserved by the size pass");
  unsigned char* r = buf;
  VecOut d = CDV_decode_arg(&r);
  __CPROVER_assert(r == w, "C04: bytes consumed by decode == bytes written by encode");
  size_t j; __CPROVER_assume(j < MAXN);
  __CPROVER_assert(d.n == argv.n && (j < argv.n ==> d.a[j] == src[j]), "C04: the decoded vector equals the argument, element by element (deep copy)");
}
''')]
vector_u32 = dict(
    name='CD.roundtrip[std::vector<uint32_t>]', primary='C04', props={'C04'}, kind='L',
    desc='quill/std/Vector.h Codec<std::vector<uint32_t>> (arithmetic arm, selected by g++) over the real bodies, with the real Codec<size_t> / Codec<uint32_t> bodies for the nested calls',
    structs=[], prelude=VEC_PRE, enforce='lem_roundtrip', replace=[], funcs=vec_funcs, harness='  lem_roundtrip();',
    cbmc=['--unwind', '10', '--unwinding-assertions'], bounded=dict(bound='vectors of at most 8 elements, every content', form='a'),
    dropped=['allocator template parameter, rebind', 'reference parameters as pointers', 'the _WIN32 wide-string arm'], trusted=['memcpy (CBMC built-in)'],
    assumes=['harness assume: vector length within the bound'], allow_assume=True, min_obligations=5)
UNITS.append(vector_u32)

# ------------------------------------------------------------------------------------------ std/Pair.h and std/Optional.h (loop-free: complete)
PH = 'quill/std/Pair.h'
OH = 'quill/std/Optional.h'
NESTED = [(r'Codec<(T1|T2|T|bool)>::compute_encoded_size\(\(\*cache_p\),\s*(.*?)\)\s*;', lambda m: 'CD%s_compute_encoded_size(cache_p, &(%s));' % (TAG[m.group(1)], m.group(2))),
          (r'Codec<(T1|T2|T)>::encode\(\(\*buffer_p\),\s*\(\*cache_p\),\s*\(\*idx_p\),\s*(.*?)\)\s*;', lambda m: 'CD%s_encode(buffer_p, cache_p, idx_p, &(%s));' % (TAG[m.group(1)], m.group(2))),
          (r'Codec<bool>::encode\(\(\*buffer_p\),\s*\(\*cache_p\),\s*\(\*idx_p\),\s*(.*?)\)\s*;', r'{ bool const hv_tmp = \1; CDB_encode(buffer_p, cache_p, idx_p, &hv_tmp); }'),
          (r'Codec<(T1|T2|T|bool)>::decode_arg\(\(\*buffer_p\)\)', lambda m: 'CD%s_decode_arg(buffer_p)' % TAG[m.group(1)])]
TAG = {'T1': '1', 'T2': '2', 'T': 'E', 'bool': 'B'}
PRULES = [r_ for r_ in VRULES if 'Codec<' not in r_[0]] + NESTED
PAIR_PRE = BASE + r'''
#define BUFSZ 32
typedef struct PairT { uint32_t first; double second; } PairT;      /* std::pair<uint32_t, double> */
'''
pair_funcs = codec_funcs_for('using Arg = uint32_t;', 'CD1_', 'uint32_t') + codec_funcs_for('using Arg = double;', 'CD2_', 'double') + [
    dict(src=dict(header=PH, cls='Codec', cls_re=r'struct\s+Codec<std::pair<T1,\s*T2>>', name='compute_encoded_size'), cfun='CDP_compute_encoded_size', sig='size_t CDP_compute_encoded_size(IV* cache_p, PairT const* arg_p)', pre_rules=PRULES),
    dict(src=dict(header=PH, cls='Codec', cls_re=r'struct\s+Codec<std::pair<T1,\s*T2>>', name='encode'), cfun='CDP_encode', sig='void CDP_encode(unsigned char** buffer_p, IV* cache_p, uint32_t* idx_p, PairT const* arg_p)', pre_rules=PRULES),
    dict(src=dict(header=PH, cls='Codec', cls_re=r'struct\s+Codec<std::pair<T1,\s*T2>>', name='decode_arg'), cfun='CDP_decode_arg', sig='PairT CDP_decode_arg(unsigned char** buffer_p)',
         pre_rules=[r_ for r_ in PRULES if r_[0] != r'\barg\b'] + [(r'using\s+ReturnType[12]\s*=[^;]*;', ''), (r'std::pair<ReturnType1,\s*ReturnType2>\s+arg\s*;', 'PairT arg;')]),
    dict(cfun='lem_roundtrip', text=r'''
uint32_t nondet_u32(void); double nondet_double(void);
void lem_roundtrip(void)
__CPROVER_assigns()
__CPROVER_ensures(1 == 1)
{
  static unsigned char buf[BUFSZ];
  IV cache; cache.n = 0;
  PairT argv; argv.first = nondet_u32(); argv.second = nondet_double();
  size_t const size = CDP_compute_encoded_size(&cache, &argv);
  __CPROVER_assert(size == sizeof(uint32_t) + sizeof(double), "C04: reserved size is the specified encoded size (both members, no padding)");
  unsigned char* w = buf; uint32_t idx = 0;
  CDP_encode(&w, &cache, &idx, &argv);
  __CPROVER_assert((size_t)(w - buf) == size, "C04: bytes written by encode == bytes reserved by the size pass");
  unsigned char* r = buf;
  PairT d = CDP_decode_arg(&r);
  __CPROVER_assert(r == w, "C04: bytes consumed by decode == bytes written by encode");
  __CPROVER_assert(d.first == argv.first && memcmp(&d.second, &argv.second, sizeof(double)) == 0, "C04: the decoded pair equals the argument, member by member (first stays first)");
}
''')]
pair_u32_double = dict(
    name='CD.roundtrip[std::pair<uint32_t,double>]', primary='C04', props={'C04'}, kind='L',
    desc='quill/std/Pair.h Codec<std::pair<uint32_t,double>> over the real bodies, with the real Codec<uint32_t> / Codec<double> bodies for the nested calls (loop-free: complete)',
    structs=[], prelude=PAIR_PRE, enforce='lem_roundtrip', replace=[], funcs=pair_funcs, harness='  lem_roundtrip();',
    dropped=['reference parameters as pointers', 'the _WIN32 wide-string arms (not compiled on this platform)', 'std::pair as a two-member struct'], trusted=['memcpy (CBMC built-in)'], min_obligations=5)

OPT_PRE = BASE + r'''
#define BUFSZ 16
typedef struct OptT { _Bool has; uint32_t v; } OptT;               /* std::optional<uint32_t> */
static inline _Bool OPT_has_value(OptT const* o) { return o->has; }
'''
ORULES = PRULES + [(r'\*\(\*arg_p\)', 'arg_p->v')]
opt_funcs = codec_funcs_for('using Arg = bool;', 'CDB_', 'bool') + codec_funcs_for('using Arg = uint32_t;', 'CDE_', 'uint32_t') + [
    dict(src=dict(header=OH, cls='Codec', cls_re=r'struct\s+Codec<std::optional<T>>', name='compute_encoded_size'), cfun='CDO_compute_encoded_size', sig='size_t CDO_compute_encoded_size(IV* cache_p, OptT const* arg_p)',
         methods={'has_value': 'OPT_has_value'}, pre_rules=ORULES),
    dict(src=dict(header=OH, cls='Codec', cls_re=r'struct\s+Codec<std::optional<T>>', name='encode'), cfun='CDO_encode', sig='void CDO_encode(unsigned char** buffer_p, IV* cache_p, uint32_t* idx_p, OptT const* arg_p)',
         methods={'has_value': 'OPT_has_value'}, pre_rules=ORULES),
    dict(src=dict(header=OH, cls='Codec', cls_re=r'struct\s+Codec<std::optional<T>>', name='decode_arg'), cfun='CDO_decode_arg', sig='OptT CDO_decode_arg(unsigned char** buffer_p)',
         pre_rules=[r_ for r_ in PRULES if r_[0] != r'\barg\b'] + [(r'using\s+ReturnType\s*=[^;]*;', ''), (r'std::optional<ReturnType>\s+arg\{std::nullopt\}\s*;', 'OptT arg; arg.has = 0; arg.v = 0;'),
                                                                    (r'\barg\s*=\s*(CDE_decode_arg\(buffer_p\))\s*;', r'{ arg.v = \1; arg.has = 1; }')]),
    dict(cfun='lem_roundtrip', text=r'''
uint32_t nondet_u32(void); _Bool nondet_bool(void);
void lem_roundtrip(void)
__CPROVER_assigns()
__CPROVER_ensures(1 == 1)
{
  static unsigned char buf[BUFSZ];
  IV cache; cache.n = 0;
  OptT argv; argv.has = nondet_bool(); argv.v = nondet_u32();
  size_t const size = CDO_compute_encoded_size(&cache, &argv);
  __CPROVER_assert(size == sizeof(_Bool) + (argv.has ? sizeof(uint32_t) : 0), "C04: reserved size is the specified encoded size (flag, then the value only if present)");
  unsigned char* w = buf; uint32_t idx = 0;
  CDO_encode(&w, &cache, &idx, &argv);
  __CPROVER_assert((size_t)(w - buf) == size, "C04: bytes written by encode == bytes reserved by the size pass");
  unsigned char* r = buf;
  OptT d = CDO_decode_arg(&r);
  __CPROVER_assert(r == w, "C04: bytes consumed by decode == bytes written by encode");
  __CPROVER_assert((d.has ? 1 : 0) == (argv.has ? 1 : 0) && (argv.has ==> d.v == argv.v), "C04: the decoded optional equals the argument (empty stays empty, a value stays that value)");
}
''')]
optional_u32 = dict(
    name='CD.roundtrip[std::optional<uint32_t>]', primary='C04', props={'C04'}, kind='L',
    desc='quill/std/Optional.h Codec<std::optional<uint32_t>> over the real bodies, with the real Codec<bool> / Codec<uint32_t> bodies for the nested calls (loop-free: complete)',
    structs=[], prelude=OPT_PRE, enforce='lem_roundtrip', replace=[], funcs=opt_funcs, harness='  lem_roundtrip();',
    dropped=['reference parameters as pointers', 'the _WIN32 wide-string arm (not compiled on this platform)', 'std::optional as {flag, value}: operator*, has_value, assignment'], trusted=['memcpy (CBMC built-in)'], min_obligations=5)
UNITS += [pair_u32_double, optional_u32]

# ------------------------------------------------------------------------------------------ std/Array.h: Codec<uint32_t[4]> (C array of arithmetic type)
AH = 'quill/std/Array.h'
ARR_PRE = BASE + r'''
#define BUFSZ 32
#define N 4
typedef uint32_t T;
typedef struct ArrT { T a[N]; } ArrT;                               /* std::array<T, N> returned by decode_arg */
'''
ARR_RE = r'struct\s+Codec<T\[N\],'
ARR_GXX = 'using T = uint32_t; constexpr std::size_t N = 4;'
arr_funcs = codec_funcs_for('using Arg = uint32_t;', 'CDE_', 'uint32_t') + [
    dict(src=dict(header=AH, cls='Codec', cls_re=ARR_RE, name='compute_encoded_size'), cfun='CDA_compute_encoded_size', sig='size_t CDA_compute_encoded_size(IV* cache_p, T const (*arg_p)[N])',
         constexpr_gxx=ARR_GXX, pre_rules=PRULES),
    dict(src=dict(header=AH, cls='Codec', cls_re=ARR_RE, name='encode'), cfun='CDA_encode', sig='void CDA_encode(unsigned char** buffer_p, IV* cache_p, uint32_t* idx_p, T const (*arg_p)[N])',
         constexpr_gxx=ARR_GXX, pre_rules=PRULES),
    dict(src=dict(header=AH, cls='Codec', cls_re=ARR_RE, name='decode_arg'), cfun='CDA_decode_arg', sig='ArrT CDA_decode_arg(unsigned char** buffer_p)', constexpr_gxx=ARR_GXX,
         pre_rules=[r_ for r_ in PRULES if r_[0] != r'\barg\b'] + [(r'using\s+ReturnType\s*=[^;]*;', ''), (r'std::array<ReturnType,\s*N>\s+arg\s*;', 'ArrT arg;'), (r'\barg\[(\w+)\]', r'arg.a[\1]')]),
    dict(cfun='lem_roundtrip', text=r'''
uint32_t nondet_u32(void);
void lem_roundtrip(void)
__CPROVER_assigns()
__CPROVER_ensures(1 == 1)
{
  static unsigned char buf[BUFSZ];
  IV cache; cache.n = 0;
  T argv[N]; for (int i = 0; i < N; i++) argv[i] = nondet_u32();
  size_t const size = CDA_compute_encoded_size(&cache, &argv);
  __CPROVER_assert(size == sizeof(T) * N, "C04: reserved size is the specified encoded size (N elements, no count)");
  unsigned char* w = buf; uint32_t idx = 0;
  CDA_encode(&w, &cache, &idx, &argv);
  __CPROVER_assert((size_t)(w - buf) == size, "C04: bytes written by encode == bytes reserved by the size pass");
  unsigned char* r = buf;
  ArrT d = CDA_decode_arg(&r);
  __CPROVER_assert(r == w, "C04: bytes consumed by decode == bytes written by encode");
  size_t j; __CPROVER_assume(j < N);
  __CPROVER_assert(d.a[j] == argv[j], "C04: the decoded array equals the argument, element by element");
}
''')]
array_u32 = dict(
    name='CD.roundtrip[uint32_t[4]]', primary='C04', props={'C04'}, kind='L',
    desc='quill/std/Array.h Codec<uint32_t[4]> (C array, arithmetic arm selected by g++) over the real bodies, with the real Codec<uint32_t> body for the nested decode',
    structs=[], prelude=ARR_PRE, enforce='lem_roundtrip', replace=[], funcs=arr_funcs, harness='  lem_roundtrip();',
    cbmc=['--unwind', '6', '--unwinding-assertions'], width_bounded='the loops run N = 4 times (template argument, not an input): --unwind 6 with unwinding assertions is complete for this instantiation',
    dropped=['reference-to-array parameter as pointer-to-array', 'std::array as a struct holding T[N]'], trusted=['memcpy (CBMC built-in)'],
    assumes=['harness assume: ghost element index < N'], allow_assume=True, min_obligations=5)
UNITS += [array_u32]

# ------------------------------------------------------------------------------------------ DeferredFormatCodec<T>, the copy-construct arm (T not trivially copyable)
DH = 'quill/DeferredFormatCodec.h'
DEF_PRE = r'''
/* one proof for every T: sizeof(T) and alignof(T) are symbolic (alignof a power of two) */
size_t SIZEOF_T, ALIGNOF_T;
#define POW2(x) ((x) != 0 && (((x) & ((x) - 1)) == 0))
typedef struct Tobj { int d; } Tobj;                       /* the user's object: opaque */
uintptr_t g_span_lo, g_span_hi;                            /* the bytes reserved for this argument: [lo, hi) */
uintptr_t g_placed_at; size_t g_placements, g_moves, g_destroys; bool g_trivially_destructible;
void PLACEMENT_COPY(uintptr_t where, Tobj const* arg)
__CPROVER_requires((where & (ALIGNOF_T - 1)) == 0) /*@ C04 "the copy of the object is constructed at an address aligned for its type" */
__CPROVER_requires(where >= g_span_lo && where + SIZEOF_T <= g_span_hi) /*@ C04 "the copy of the object lies inside the bytes reserved for it" */
__CPROVER_assigns(g_placed_at, g_placements) __CPROVER_ensures(g_placed_at == where && g_placements == OLD(g_placements) + 1);
void MOVE_OUT(uintptr_t from)
__CPROVER_requires(from == g_placed_at && g_placements == 1 && g_destroys == 0) /*@ C04 "the backend reads the object from exactly the address where the frontend constructed it" */
__CPROVER_assigns(g_moves) __CPROVER_ensures(g_moves == OLD(g_moves) + 1);
void DESTROY_AT(uintptr_t at) __CPROVER_requires(at == g_placed_at && g_moves == 1) __CPROVER_assigns(g_destroys) __CPROVER_ensures(g_destroys == OLD(g_destroys) + 1);
'''
DEF_GXX = 'struct VerifNT { VerifNT(); VerifNT(VerifNT const&); VerifNT(VerifNT&&); ~VerifNT(); int x; }; using T = VerifNT; static constexpr bool use_memcpy = quill::DeferredFormatCodec<VerifNT>::use_memcpy;'
DEF_RULES = [(r'\bbuffer\b', '(*buffer_p)'), (r'\bsizeof\(T\)', 'SIZEOF_T'), (r'\balignof\(T\)', 'ALIGNOF_T'), (r'\bauto\s+aligned_ptr\s*=', 'uintptr_t const aligned_ptr ='),
             (r'align_pointer\(\(\*buffer_p\),\s*ALIGNOF_T\)', 'DF_align_pointer((uintptr_t)(*buffer_p), ALIGNOF_T)'),
             (r'static_assert\([^;]*\);', ''), (r'new\s*\(static_cast<void\*>\(aligned_ptr\)\)\s*T\(arg\)\s*;', 'PLACEMENT_COPY(aligned_ptr, arg_p);'),
             (r'auto\s*\*\s*tmp\s*=\s*std::launder\(reinterpret_cast<T\*>\(aligned_ptr\)\)\s*;', 'uintptr_t const tmp = aligned_ptr;'), (r'T\s+arg\{std::move\(\*tmp\)\}\s*;', 'MOVE_OUT(tmp);'),
             (r'tmp->~T\(\)\s*;', 'DESTROY_AT(tmp);'), (r'return\s+arg\s*;', 'return;')]
deferred_funcs = [
    dict(src=dict(header=DH, cls='DeferredFormatCodec', name='align_pointer'), src_params=['pointer', 'alignment'], cfun='DF_align_pointer', sig='uintptr_t DF_align_pointer(uintptr_t pointer, size_t alignment)', member_fields=[],
         pre_rules=[(r'reinterpret_cast<std::byte\*>\(\(reinterpret_cast<uintptr_t>\(pointer\)', '((uintptr_t)((pointer)')],
         contract=r'''
__CPROVER_requires(POW2(alignment) && alignment <= (((size_t)1) << 30) && pointer < (((uintptr_t)1) << 62))
__CPROVER_assigns()
__CPROVER_ensures(RET >= pointer && RET - pointer < alignment && (RET & (alignment - 1)) == 0) /*@ C04 "align_pointer returns the first address not below the pointer that is a multiple of the alignment" */
'''),
    dict(src=dict(header=DH, cls='DeferredFormatCodec', name='compute_encoded_size'), cfun='DF_compute_encoded_size', sig='size_t DF_compute_encoded_size(void)', member_fields=[], constexpr_gxx=DEF_GXX, pre_rules=DEF_RULES),
    dict(src=dict(header=DH, cls='DeferredFormatCodec', name='encode'), cfun='DF_encode', sig='void DF_encode(unsigned char** buffer_p, Tobj const* arg_p)', member_fields=[], constexpr_gxx=DEF_GXX, pre_rules=DEF_RULES),
    dict(src=dict(header=DH, cls='DeferredFormatCodec', name='decode_arg'), cfun='DF_decode_arg', sig='void DF_decode_arg(unsigned char** buffer_p)', member_fields=[],
         constexpr=lambda cond: (None if 'trivially_destructible' in cond else False), pre_rules=DEF_RULES + [(r'!std::is_trivially_destructible_v<T>', '(!g_trivially_destructible)')]),
    dict(cfun='lem_roundtrip', text=r'''
void lem_roundtrip(unsigned char* base, size_t k, Tobj const* obj)
__CPROVER_requires(POW2(ALIGNOF_T) && ALIGNOF_T <= 4096 && SIZEOF_T >= 1 && SIZEOF_T <= (((size_t)1) << 20) && k < ALIGNOF_T && __CPROVER_is_fresh(base, SIZEOF_T + 2 * ALIGNOF_T) && (uintptr_t)base < (((uintptr_t)1) << 61) && g_placements == 0 && g_moves == 0 && g_destroys == 0)
__CPROVER_assigns(g_span_lo, g_span_hi, g_placed_at, g_placements, g_moves, g_destroys)
__CPROVER_ensures(g_placements == 1 && g_moves == 1 && (g_destroys == (g_trivially_destructible ? 0 : 1))) /*@ C04 "the object is copy-constructed into the record once, moved out of it once and - unless trivially destructible - destroyed there once" */
{
  unsigned char* buf = base + k;       /* the record starts at an arbitrary offset from any alignment boundary */
  size_t const size = DF_compute_encoded_size();
  g_span_lo = (uintptr_t)buf; g_span_hi = (uintptr_t)buf + size;
  unsigned char* w = buf;
  DF_encode(&w, obj);
  __CPROVER_assert((uintptr_t)w == (uintptr_t)buf + size, "C04: bytes written by encode == bytes reserved by the size pass");
  unsigned char* r = buf;
  DF_decode_arg(&r);
  __CPROVER_assert(r == w, "C04: bytes consumed by decode == bytes written by encode");
}
''')]
deferred = dict(
    name='CD.deferred[copy-construct]', primary='C04', props={'C04'}, kind='L',
    desc='DeferredFormatCodec<T>, the arm for types that are not trivially copyable (selected by g++ for a user type with non-trivial special members), with sizeof(T) / alignof(T) symbolic: the copy is constructed aligned and inside the reserved bytes, read back from the same address, and reserved == written == consumed',
    structs=[], prelude=DEF_PRE, enforce='lem_roundtrip', replace=['PLACEMENT_COPY', 'MOVE_OUT', 'DESTROY_AT'], funcs=deferred_funcs, harness='  unsigned char* b; size_t k; Tobj* o; lem_roundtrip(b, k, o);',
    dropped=['the user type itself: copy / move construction and destruction as ghost events at an address', 'std::launder / reinterpret_cast as identity on the address', 'static_asserts', 'the memcpy arm (trivially copyable types): same shape as the arithmetic arm of the primary codec'],
    trusted=['the record is decoded at the address it was encoded at (queue storage is not copied; C01/C02)'], min_obligations=10)
deferred_align = dict(
    name='CD.deferred.align_pointer', primary='C04', props={'C04'}, kind='L', desc='DeferredFormatCodec::align_pointer: round an address up to a power-of-two alignment',
    structs=[], prelude=DEF_PRE, enforce='DF_align_pointer', replace=[], funcs=[deferred_funcs[0]], harness='  uintptr_t p; size_t a; DF_align_pointer(p, a);',
    dropped=['pointer as uintptr_t'], trusted=[], min_obligations=3)
UNITS += [deferred_align, deferred]

# ------------------------------------------------------------------------------------------ DirectFormatCodec<T>: format at the call site, ship the text
DIH = 'quill/DirectFormatCodec.h'
DIR_PRE = BASE + STR_PRE.replace('#define BUFSZ 64', '#define BUFSZ 64') + r'''
typedef struct Tobj { int d; } Tobj;
uint32_t g_text_len;                 /* length of fmt::format("{}", obj): the same on both passes (the object does not change between them) */
size_t g_size_calls, g_format_calls; unsigned char* g_fmt_dst; uint32_t g_fmt_n;
size_t FORMATTED_SIZE(Tobj const* o) __CPROVER_assigns(g_size_calls) __CPROVER_ensures(RET == g_text_len && g_size_calls == OLD(g_size_calls) + 1);
/* fmt::format_to_n(dst, n, "{}", obj): writes at most n characters of the text at dst */
static inline void FORMAT_TO_N(unsigned char* dst, uint32_t n, Tobj const* o) { g_format_calls++; g_fmt_dst = dst; g_fmt_n = n; uint32_t m = n < g_text_len ? n : g_text_len; for (uint32_t i = 0; i < m; i++) dst[i] = (unsigned char)('a' + (i & 7)); }
typedef Str Arg;
'''
DIR_RULES = [(r'quill::detail::', ''), (r'\barg\b', '(*arg_p)'), (r'\bbuffer\b', '(*buffer_p)'), (r'\bconditional_arg_size_cache_index\b', '(*idx_p)'), (r'\bconditional_arg_size_cache\b(?!_)', '(*cache_p)'),
             (r'fmtquill::formatted_size\("\{\}",\s*\(\*arg_p\)\)', 'FORMATTED_SIZE(arg_p)'), (r'fmtquill::format_to_n\(reinterpret_cast<char\*>\(\(\*buffer_p\)\),\s*len,\s*"\{\}",\s*\(\*arg_p\)\)', 'FORMAT_TO_N((*buffer_p), len, arg_p)'),
             (r'\(\*cache_p\)\s*\[([^\]]*)\]', r'(*IV_at(cache_p, \1))'), (r'\bstd::memcpy\(', 'MEMCPY0('), (r'quill::Codec<std::string>::decode_arg\(\(\*buffer_p\)\)', 'CD_decode_arg(buffer_p)')]
direct_funcs = [f for f in funcs('using Arg = std::string;', 'Str', 'SV') if f['cfun'] == 'CD_decode_arg'] + [
    dict(src=dict(header=DIH, cls='DirectFormatCodec', name='compute_encoded_size'), cfun='DI_compute_encoded_size', sig='size_t DI_compute_encoded_size(IV* cache_p, Tobj const* arg_p)', member_fields=[], methods={'push_back': 'IV_push_back'}, pre_rules=DIR_RULES),
    dict(src=dict(header=DIH, cls='DirectFormatCodec', name='encode'), cfun='DI_encode', sig='void DI_encode(unsigned char** buffer_p, IV* cache_p, uint32_t* idx_p, Tobj const* arg_p)', member_fields=[], pre_rules=DIR_RULES),
    dict(src=dict(header=DIH, cls='DirectFormatCodec', name='decode_arg'), cfun='DI_decode_arg', sig='SV DI_decode_arg(unsigned char** buffer_p)', member_fields=[], pre_rules=DIR_RULES),
    dict(cfun='lem_roundtrip', text=r'''
void lem_roundtrip(void)
__CPROVER_assigns(g_size_calls, g_format_calls, g_fmt_dst, g_fmt_n)
__CPROVER_ensures(1 == 1)
{
  static unsigned char buf[BUFSZ]; Tobj obj;
  __CPROVER_assume(g_text_len <= MAXLEN);
  IV cache; cache.n = 0; g_size_calls = 0; g_format_calls = 0;
  size_t const size = DI_compute_encoded_size(&cache, &obj);
  __CPROVER_assert(size == 4 + (size_t)g_text_len, "C04: reserved size is the length field plus the text formatted at the call site");
  unsigned char* w = buf; uint32_t idx = 0;
  DI_encode(&w, &cache, &idx, &obj);
  __CPROVER_assert((size_t)(w - buf) == size && idx == cache.n, "C04: bytes written by encode == bytes reserved by the size pass; the cached length is consumed");
  __CPROVER_assert(g_format_calls == 1 && g_fmt_dst == buf + 4 && g_fmt_n == g_text_len, "C04: the text is formatted once, right behind the length field, with exactly the reserved length");
  unsigned char* r = buf;
  SV d = DI_decode_arg(&r);
  __CPROVER_assert(r == w, "C04: bytes consumed by decode == bytes written by encode");
  __CPROVER_assert(d.n == g_text_len && (void const*)d.d == (void const*)(buf + 4), "C04: the decoded argument is the text formatted at the call site (a view into the record)");
}
''')]
direct = dict(
    name='CD.direct', primary='C04', props={'C04'}, kind='L',
    desc='DirectFormatCodec<T>: the object is formatted at the call site into the record ([length][text]); the backend sees that text - with the real Codec<std::string>::decode_arg body',
    structs=[], prelude=DIR_PRE, enforce='lem_roundtrip', replace=['FORMATTED_SIZE'], funcs=direct_funcs, harness='  lem_roundtrip();',
    cbmc=['--unwind', str(L + 3), '--unwinding-assertions'], bounded=dict(bound='formatted text of length <= %d' % L, form='a'),
    dropped=['the user type and its formatter (text length as a ghost; fmt::formatted_size / format_to_n as shims)'], trusted=['fmt::formatted_size and fmt::format_to_n agree on the text of an unchanged object', 'memcpy (CBMC built-in)'],
    assumes=['harness assume: text length within the bound'], allow_assume=True, min_obligations=5)
UNITS += [direct]

# ------------------------------------------------------------------------------------------ DynamicFormatArgStore::push_back
DH = 'quill/core/DynamicFormatArgStore.h'
DFAS_PRELUDE = r'''
typedef struct DFAS { bool _has_string_related_type; } DFAS;
size_t g_copies, g_refs;        /* arguments copied into the store's own list / referenced in place */
void EMPLACE_COPY(DFAS* self) __CPROVER_assigns(g_copies) __CPROVER_ensures(g_copies == OLD(g_copies) + 1);
void EMPLACE_REF(DFAS* self) __CPROVER_assigns(g_refs) __CPROVER_ensures(g_refs == OLD(g_refs) + 1);
'''


def dfas_unit(tname, using, textual, owned, why):
    return dict(
        name='DFAS.push_back[%s]' % tname, primary='C04', props={'C04'}, kind='L',
        desc='DynamicFormatArgStore::push_back<%s> (the type decode_and_store_arg hands over): %s' % (tname, why),
        structs=[], prelude=DFAS_PRELUDE + '#define SPEC_TEXTUAL %d\n#define SPEC_OWNED %d\n' % (textual, owned), enforce='DFAS_push_back', replace=['EMPLACE_COPY', 'EMPLACE_REF'],
        funcs=[dict(src=dict(header=DH, cls='DynamicFormatArgStore', name='push_back'), src_params=['arg'], cfun='DFAS_push_back', sig='void DFAS_push_back(DFAS* self)', cls_c='DFAS',
                    member_fields=['_has_string_related_type'], constexpr_gxx=using, constexpr_locals=True,
                    pre_rules=[(r'emplace_arg\(_dynamic_arg_list\.push<stored_type>\(arg\)\)\s*;', 'EMPLACE_COPY(self);', '?'), (r'emplace_arg\(arg\)\s*;', 'EMPLACE_REF(self);', '?')],
                    contract=r'''
__CPROVER_requires(__CPROVER_is_fresh(self, sizeof(*self)) && g_copies == 0 && g_refs == 0)
__CPROVER_assigns(self->_has_string_related_type, g_copies, g_refs)
__CPROVER_ensures(g_copies + g_refs == 1) /*@ C04 "every decoded argument is handed to the formatter exactly once" */
__CPROVER_ensures(SPEC_TEXTUAL ==> self->_has_string_related_type) /*@ C04 "an argument whose text can carry arbitrary bytes (char, C string, string, string_view, user / container type) marks the statement for the non-printable-character sanitisation" */
__CPROVER_ensures(OLD(self->_has_string_related_type) ==> self->_has_string_related_type) /*@ C04 "a later argument never clears the mark set by an earlier one" */
__CPROVER_ensures(SPEC_OWNED ==> g_copies == 1) /*@ C04 "a decoded argument that does not live in the queue record (a decoded std::string or container / user object is a temporary) is copied into the store: the formatter never reads a dead object" */
''')],
        harness='  DFAS* s; DFAS_push_back(s);', **(dict(replay=dict(template='dfas.cpp', op='char')) if tname == 'char' else {}),
        dropped=['the fmt argument objects (basic_format_arg, DynamicArgList): which of the two emplace forms is used is kept', 'template instantiated at the named type; if-constexpr arms selected by g++ against the real header, the compile-time declarations of the body (char_type, mapped_type, stored_type) included'],
        trusted=['fmt: mapped_type_constant classifies the type as g++ evaluates it; DynamicArgList::push copies its argument'], min_obligations=4)


UNITS += [
    dfas_unit('char', 'using T = char;', 1, 0, 'a char argument formats to its byte, which may be non-printable'),
    dfas_unit('std::string_view', 'using T = std::string_view;', 1, 0, 'what the string / string_view / char-array codecs decode to (points into the queue record)'),
    dfas_unit('char const*', 'using T = char const*;', 1, 0, 'what the C-string codec decodes to (points into the queue record)'),
    dfas_unit('std::string', 'using T = std::string;', 1, 1, 'element type rebuilt by the container codecs'),
    dfas_unit('std::vector<std::string>', 'using T = std::vector<std::string>;', 1, 1, 'a decoded container is a temporary formatted through fmt\'s range formatter'),
    dfas_unit('uint32_t', 'using T = uint32_t;', 0, 0, 'arithmetic arguments are stored by value and cannot carry a non-printable byte'),
    dfas_unit('double', 'using T = double;', 0, 0, 'arithmetic arguments are stored by value and cannot carry a non-printable byte'),
]

# ------------------------------------------------------------------------------------------ Codec<utility::StringRef>
SRH = 'quill/StringRef.h'
SR_RE = r'struct\s+Codec<utility::StringRef>'
SR_PRE = r'''
#define BUFSZ 32
typedef struct SV { char const* d; size_t n; } SV;                         /* std::string_view */
typedef struct StringRef { SV _str_view; } StringRef;
static inline SV const* SR_get_string_view(StringRef const* r) { return &r->_str_view; }
static inline char const* SV_data(SV const* v) { return v->d; }
static inline size_t SV_size(SV const* v) { return v->n; }
static inline SV SV_make(char const* p, size_t n) { SV v; v.d = p; v.n = n; return v; }
'''
SR_RULES = [(r'std::byte\{([^{}]*)\}', r'((unsigned char)(\1))', '?'), (r'\bbuffer\b', '(*buffer_p)', '?'),
            (r'no_copy\.get_string_view\(\)\.data\(\)', 'SV_data(SR_get_string_view(no_copy_p))', '?'), (r'no_copy\.get_string_view\(\)\.size\(\)', 'SV_size(SR_get_string_view(no_copy_p))', '?'),
            (r'std::string_view\{data, size\}', 'SV_make(data, size)', '?')]
stringref_funcs = [
    dict(src=dict(header=SRH, cls='Codec', cls_re=SR_RE, name='compute_encoded_size'), cfun='CDS_compute_encoded_size', sig='size_t CDS_compute_encoded_size(void)', pre_rules=SR_RULES),
    dict(src=dict(header=SRH, cls='Codec', cls_re=SR_RE, name='encode'), cfun='CDS_encode', sig='void CDS_encode(unsigned char** buffer_p, StringRef const* no_copy_p)', pre_rules=SR_RULES),
    dict(src=dict(header=SRH, cls='Codec', cls_re=SR_RE, name='decode_arg'), src_params=['buffer'], cfun='CDS_decode_arg', sig='SV CDS_decode_arg(unsigned char** buffer_p)', pre_rules=SR_RULES),
    dict(cfun='lem_roundtrip', text=r'''
void lem_roundtrip(void)
__CPROVER_assigns()
__CPROVER_ensures(1 == 1)
{
  static unsigned char buf[BUFSZ];
  StringRef argv; char const* nondet_ptr(void); size_t nondet_size(void); argv._str_view.d = nondet_ptr(); argv._str_view.n = nondet_size();
  size_t const size = CDS_compute_encoded_size();
  __CPROVER_assert(size <= BUFSZ, "harness: the record fits the scratch buffer");
  unsigned char* w = buf;
  CDS_encode(&w, &argv);
  __CPROVER_assert((size_t)(w - buf) == size, "C04: bytes written by encode == bytes reserved by the size pass");
  unsigned char* r = buf;
  SV d = CDS_decode_arg(&r);
  __CPROVER_assert(r == w, "C04: bytes consumed by decode == bytes written by encode");
  __CPROVER_assert(d.d == argv._str_view.d && d.n == argv._str_view.n, "C04: a StringRef is handed to the backend as the very same (pointer, length) view - no copy, by its documented design");
}
''')]
stringref = dict(
    name='CD.roundtrip[utility::StringRef]', primary='C04', props={'C04'}, kind='L',
    desc='Codec<utility::StringRef>: (pointer, length) round trip over the real bodies; reserved == written == consumed',
    structs=[], prelude=SR_PRE, enforce='lem_roundtrip', replace=[], funcs=stringref_funcs, harness='  lem_roundtrip();',
    dropped=['reference parameters as pointers', 'std::string_view as (pointer, length)', 'the unused size-cache parameters', 'decode_and_store_arg (fmt argument store: unit DFAS.push_back[std::string_view])'],
    trusted=['memcpy (CBMC built-in)'], min_obligations=5)
UNITS += [stringref]

# ------------------------------------------------------------------------------------------ the variadic wrappers: size pass + encode pass over the per-thread size cache
PASS_RULES = [(r'>>\.\.\.>\)', '>>>)', '?'),                                   # pack of ONE argument: the expansion of the trait list is the list itself
              (r'\(\(total_sum\s*\+=\s*Codec<remove_cvref_t<Args>>::compute_encoded_size\(conditional_arg_size_cache,\s*args\)\),\s*\.\.\.\)\s*;', 'total_sum += CD_compute_encoded_size(cache_p, arg_p);', '!'),
              (r'\(Codec<remove_cvref_t<Args>>::encode\(buffer,\s*conditional_arg_size_cache,\s*conditional_arg_size_cache_index,\s*args\),\s*\.\.\.\)\s*;', 'CD_encode(buffer_p, cache_p, &conditional_arg_size_cache_index, arg_p);', '?'),
              (r'\bconditional_arg_size_cache\b(?!_)', '(*cache_p)', '?')]
PASS_PRE = CSTR_PRE + r'''
static inline void IV_clear(IV* v) { v->n = 0; }
'''
passes_funcs = funcs('using Arg = char const*;', 'char const*', 'char const*', strings=True) + [
    dict(src=dict(header=H, cls=None, name='compute_encoded_size_and_cache_string_lengths'), src_params=['conditional_arg_size_cache', 'args'], cfun='SIZE_PASS', sig='size_t SIZE_PASS(IV* cache_p, char const* const* arg_p)',
         constexpr_gxx='using Args = char const*;', methods={'clear': 'IV_clear'}, pre_rules=PASS_RULES),
    dict(src=dict(header=H, cls=None, name='encode'), src_params=['buffer', 'conditional_arg_size_cache', 'args'], cfun='ENCODE_PASS', sig='void ENCODE_PASS(unsigned char** buffer_p, IV* cache_p, char const* const* arg_p)',
         constexpr_gxx='using Args = char const*;', methods={'clear': 'IV_clear'}, pre_rules=[r if r[0] != PASS_RULES[1][0] else (r[0], r[1], '?') for r in PASS_RULES]),
    dict(cfun='lem_passes', text=r'''
void lem_passes(void)
__CPROVER_assigns()
__CPROVER_ensures(1 == 1)
{
  static unsigned char buf[BUFSZ];
  /* the per-thread size cache of a fresh thread (InlinedVector constructor: empty) */
  IV cache; cache.n = 0;
  static char s1[MAXLEN + 1]; static char s2[MAXLEN + 1]; size_t k1, k2; __CPROVER_assume(k1 <= MAXLEN && k2 <= MAXLEN); s1[k1] = 0; s2[k2] = 0;
  char const* a1 = s1; char const* a2 = s2;
  /* statement 1: its size pass always runs; when the queue refuses the reservation (dropping queue) log_statement returns before the encode pass */
  size_t const size1 = SIZE_PASS(&cache, &a1);
  bool dropped;
  if (!dropped) { unsigned char* w1 = buf; ENCODE_PASS(&w1, &cache, &a1); __CPROVER_assert((size_t)(w1 - buf) == size1, "C04: statement 1: bytes written == bytes reserved"); }
  /* statement 2 of the same thread */
  size_t const size2 = SIZE_PASS(&cache, &a2);
  __CPROVER_assert(size2 == safe_strnlen(a2) + 1, "C04: the space reserved for a statement is the encoded size of ITS arguments, whatever the thread logged (or was refused) before");
  unsigned char* w = buf;
  ENCODE_PASS(&w, &cache, &a2);
  __CPROVER_assert((size_t)(w - buf) == size2, "C04,C08: after a refused (dropped) or an accepted statement the next statement's encode pass writes exactly the bytes its size pass reserved: it is delivered intact");
  unsigned char* r = buf; char const* d = CD_decode_arg(&r);
  __CPROVER_assert(r == w && safe_strnlen(d) == safe_strnlen(a2) && memcmp(d, a2, safe_strnlen(a2) + 1) == 0, "C04,C08: the record decodes to the statement's own argument");
}
''')]
passes = dict(
    name='CD.passes[char const*]', primary='C04', props={'C04', 'C08'}, kind='L',
    desc='detail::compute_encoded_size_and_cache_string_lengths + detail::encode (the variadic wrappers, pack of one C string) over the per-thread size cache, as LoggerImpl::log_statement calls them for two statements in a row, the first possibly refused by a dropping queue after its size pass: the second is encoded with its own cached lengths',
    structs=[], prelude=BASE + PASS_PRE + 'typedef char const* Arg;\n', enforce='lem_passes', replace=[], funcs=passes_funcs, harness='  lem_passes();',
    cbmc=['--unwind', str(L + 3), '--unwinding-assertions'], bounded=dict(bound='C strings of length <= %d; histories of two statements (refused or accepted, then accepted)' % L, form='a'),
    dropped=['parameter pack instantiated with ONE argument (fold expressions over a pack of one = the expression itself); reference parameters as pointers'],
    trusted=['memcpy (CBMC built-in), memchr (executable model)'], assumes=['harness assumes: string terminators within the bound'], allow_assume=True, min_obligations=5)
UNITS += [passes]
