"""C04 — core/InlinedVector.h (SizeCacheVector = InlinedVector<uint32_t, 12>): the size pass and the encode pass see the same
lengths at the same indices; no heap allocation below the inline capacity."""
H = 'quill/core/InlinedVector.h'
STRUCT = dict(c='IV', header=H, cls='InlinedVector', typemap={'union Storage { value_type inline_buffer[N]; value_type* heap_buffer; }': 'IVStorage', 'Storage': 'IVStorage'})
PRELUDE = r'''
#define N 12
typedef uint32_t value_type;
typedef union IVStorage { value_type inline_buffer[N]; value_type* heap_buffer; } IVStorage;
@STRUCT:IV@
size_t g_allocs, g_k;
/* operator new[] never returns null (it throws std::bad_alloc before anything is modified: not modelled) */
static inline value_type* IV_NEW(size_t n) { g_allocs++; value_type* p = (value_type*)malloc(n * sizeof(value_type)); __CPROVER_assume(p != NULL); return p; }
#define OBJ_DELETE_ARR(p) free(p)
#define ELEM(s, i) ((s)->_capacity == N ? (s)->_storage.inline_buffer[i] : (s)->_storage.heap_buffer[i])
'''
RULES = [(r'auto\s*\*\s*new_data\s*=\s*new\s+value_type\[new_capacity\](?:\(\))?', 'value_type* new_data = IV_NEW(new_capacity)', '?'), (r'delete\[\]\s*([^;]+);', r'OBJ_DELETE_ARR(\1);', '?'),
         (r'throw\s*\(\s*QuillError\s*\{.*?\}\s*\)\s*;', 'throw(QuillError{"x"});', '?')]

push_inline = dict(
    name='IV.push_back[inline]', primary='C04', props={'C04'}, kind='L',
    desc='InlinedVector<uint32_t,12>::push_back below the inline capacity: appends, keeps every element, allocates nothing',
    structs=[STRUCT], prelude=PRELUDE, enforce='IV_push_back', replace=[],
    funcs=[dict(src=dict(header=H, cls='InlinedVector', name='push_back'), struct='IV', src_params=['value'], cfun='IV_push_back', sig='value_type IV_push_back(IV* self, value_type value)',
                ret_default='0', pre_rules=RULES,
                contract=r'''
__CPROVER_requires(__CPROVER_is_fresh(self, sizeof(*self)) && self->_capacity == N && self->_size < N && g_k < self->_size)
__CPROVER_assigns(self->_size, self->_storage, g_allocs, g_exc)
__CPROVER_ensures(RET == value && self->_size == OLD(self->_size) + 1 && self->_capacity == N && self->_storage.inline_buffer[OLD(self->_size)] == value) /*@ C04 "the cached length is appended at the next index and returned" */
__CPROVER_ensures(self->_storage.inline_buffer[g_k] == OLD(self->_storage.inline_buffer[g_k])) /*@ C04 "earlier cached lengths keep their value and index" */
__CPROVER_ensures(g_allocs == OLD(g_allocs) && g_exc == OLD(g_exc)) /*@ C04 "no heap allocation while the size cache is below its inline capacity" */
''')],
    harness='  IV* v; value_type x; IV_push_back(v, x);', cbmc=['--unwind', '2', '--unwinding-assertions'], snapshot=[('size', 'self->_size'), ('cap', 'self->_capacity'), ('k', 'g_k'), ('value', 'value')], replay=dict(template='iv.cpp', op='push_back'),
    dropped=['template instantiated at <uint32_t, 12> (SizeCacheVector)'], trusted=[], min_obligations=10,
    width_bounded='the two copy loops are unreachable under the precondition size < capacity: --unwind 2 with unwinding assertions is complete')

GROW_LOOP = r"""
__CPROVER_assigns(i, __CPROVER_object_whole(new_data))
__CPROVER_loop_invariant(i <= self->_size && (g_k < i ==> new_data[g_k] == OLD_ELEM))
__CPROVER_decreases(self->_size - i)
"""
GROW_PRELUDE = PRELUDE.replace('#define OBJ_DELETE_ARR(p) free(p)', r"""
value_type* g_deleted; size_t g_deletes;
#ifdef DELETE_GHOST
/* delete[] recorded in ghosts instead of executed: free() after a loop contract does not finish in CBMC 6.11 (600 s);
   the real free() is exercised by the bounded unit IV.push_back[grow24] */
void DELETE_STUB(value_type* p) __CPROVER_assigns(g_deleted, g_deletes) __CPROVER_ensures(g_deleted == p && g_deletes == OLD(g_deletes) + 1);
#define OBJ_DELETE_ARR(p) DELETE_STUB(p)
#else
#define OBJ_DELETE_ARR(p) do { g_deleted = (p); g_deletes++; free(p); } while (0)
#endif
""") + r"""
value_type g_old_elem;   /* the element at the ghost index before the call */
#define OLD_ELEM g_old_elem
"""
GROW_CONTRACT = r"""
#ifdef GROW_INLINE
__CPROVER_requires(__CPROVER_is_fresh(self, sizeof(*self)) && self->_capacity == N && self->_size == N && g_k < self->_size && g_exc == 0 && g_deletes == 0 && g_allocs < 1000 && g_old_elem == self->_storage.inline_buffer[g_k])
#else
__CPROVER_requires(__CPROVER_is_fresh(self, sizeof(*self)) && self->_capacity >= HEAP_MIN && self->_capacity <= HEAP_MAX && __CPROVER_is_fresh(self->_storage.heap_buffer, self->_capacity * sizeof(value_type)) && self->_size == self->_capacity && g_k < self->_size && g_exc == 0 && g_deletes == 0 && g_allocs < 1000 && g_old_elem == self->_storage.heap_buffer[g_k])
#endif
__CPROVER_assigns(self->_size, self->_capacity, self->_storage, g_allocs, g_exc, g_deleted, g_deletes)
#if !defined(GROW_INLINE) && !defined(DELETE_GHOST)
__CPROVER_frees(self->_storage.heap_buffer)
#endif
__CPROVER_ensures(RET == value && self->_size == OLD(self->_size) + 1 && self->_capacity > OLD(self->_capacity) && g_exc == 0 && g_allocs > OLD(g_allocs)) /*@ C04 "a full size cache grows and appends" */
__CPROVER_ensures(self->_storage.heap_buffer[OLD(self->_size)] == value) /*@ C04 "the new length is stored at the next index" */
__CPROVER_ensures(self->_storage.heap_buffer[g_k] == g_old_elem) /*@ C04 "growing keeps every cached length at its index" */
#ifdef GROW_INLINE
__CPROVER_ensures(g_deletes == 0)
#else
__CPROVER_ensures(g_deletes == 1 && g_deleted == OLD(self->_storage.heap_buffer))
#endif
"""
GROW_FUNC = dict(src=dict(header=H, cls='InlinedVector', name='push_back'), struct='IV', src_params=['value'], cfun='IV_push_back', sig='value_type IV_push_back(IV* self, value_type value)',
                 ret_default='0', pre_rules=RULES, contract=GROW_CONTRACT)
push_grow = dict(
    name='IV.push_back[grow]', primary='C04', props={'C04'}, kind='L',
    desc='InlinedVector<uint32_t,12>::push_back when full (inline -> heap, heap -> larger heap of any capacity): capacity doubles and every cached length is copied to the same index (loop contracts, ghost index)',
    structs=[STRUCT], prelude=GROW_PRELUDE, enforce='IV_push_back', replace=['DELETE_STUB'], loopcontracts=True,
    funcs=[dict(GROW_FUNC, loops={('all', r'size_t i = 0; i < (?:self->)?_size'): GROW_LOOP})],
    harness='  IV* v; value_type x; IV_push_back(v, x);', snapshot=[('size', 'self->_size'), ('cap', 'self->_capacity'), ('k', 'g_k'), ('value', 'value')], replay=dict(template='iv.cpp', op='push_back'),
    variants=[dict(name='inline', defs=['GROW_INLINE', 'DELETE_GHOST', 'HEAP_MIN=0', 'HEAP_MAX=0']), dict(name='heap', defs=['DELETE_GHOST', 'HEAP_MIN=13', 'HEAP_MAX=1024'])],
    dropped=['template instantiated at <uint32_t, 12>', 'delete[] recorded in ghosts (which pointer, how often) instead of executed'],
    trusted=['operator new[] = malloc assumed non-null (a failing new[] throws std::bad_alloc before anything is modified - not modelled)'],
    assumes=['heap capacity <= 1024 elements when growing heap -> heap (object size bound for the pointer obligations; the loop is closed by its contract, not unwound)'], min_obligations=10, timeout=600)
push_grow24 = dict(
    name='IV.push_back[grow24]', primary='C04', props={'C04'}, kind='L',
    desc='InlinedVector<uint32_t,12>::push_back, first heap -> heap growth (capacity 24) with the real free(): no use of the old buffer after delete[]',
    structs=[STRUCT], prelude=GROW_PRELUDE, enforce='IV_push_back', replace=[],
    funcs=[GROW_FUNC], harness='  IV* v; value_type x; IV_push_back(v, x);', cbmc=['--unwind', '26', '--unwinding-assertions'], snapshot=[('size', 'self->_size'), ('cap', 'self->_capacity'), ('k', 'g_k'), ('value', 'value')], replay=dict(template='iv.cpp', op='push_back'),
    variants=[dict(name='cap24', tier='thorough', defs=['HEAP_MIN=24', 'HEAP_MAX=24'])],
    bounded=dict(bound='capacity exactly 24 (the first heap buffer), loops unwound 26 times', form='a'),
    no_crosscheck=True,   # minisat needs > 15 min on this 6 GB unwinding (cadical: 64 s); the loop-contract unit IV.push_back[grow] is cross-checked
    dropped=['template instantiated at <uint32_t, 12>'], trusted=['operator new[] = malloc assumed non-null'], min_obligations=10, timeout=900)

index = dict(
    name='IV.index', primary='C04', props={'C04'}, kind='L',
    desc='InlinedVector<uint32_t,12>::operator[]: the element at the index, or an error beyond the size',
    structs=[STRUCT], prelude=PRELUDE, enforce='IV_index', replace=[],
    funcs=[dict(src=dict(header=H, cls='InlinedVector', name='operator[]'), struct='IV', src_params=['index'], cfun='IV_index', sig='value_type IV_index(IV* self, size_t index)',
                ret_default='0', pre_rules=RULES,
                contract=r'''
__CPROVER_requires(__CPROVER_is_fresh(self, sizeof(*self)) && g_exc == 0 && self->_size <= self->_capacity && (self->_capacity == N || (self->_capacity <= 4096 && __CPROVER_is_fresh(self->_storage.heap_buffer, self->_capacity * sizeof(value_type)))))
__CPROVER_assigns(g_exc)
__CPROVER_ensures(index < self->_size ==> (g_exc == 0 && RET == ELEM(self, index))) /*@ C04 "the encode pass reads back the length cached at that index" */
__CPROVER_ensures(index >= self->_size ==> g_exc == EXC_STD) /*@ C04 "reading beyond the cached lengths is an error, never garbage" */
''')],
    harness='  IV* v; size_t i; IV_index(v, i);', dropped=['template instantiated at <uint32_t, 12>', 'heap capacity <= 4096 elements for the pointer obligations'], trusted=[], min_obligations=10)

clear = dict(
    name='IV.clear', primary='C04', props={'C04'}, kind='L', desc='InlinedVector::clear: the cache is empty afterwards',
    structs=[STRUCT], prelude=PRELUDE, enforce='IV_clear', replace=[],
    funcs=[dict(src=dict(header=H, cls='InlinedVector', name='clear'), struct='IV', src_params=[], cfun='IV_clear', sig='void IV_clear(IV* self)',
                contract=r'''
__CPROVER_requires(__CPROVER_is_fresh(self, sizeof(*self)))
__CPROVER_assigns(self->_size)
__CPROVER_ensures(self->_size == 0 && self->_capacity == OLD(self->_capacity)) /*@ C04 "the size cache is emptied before the size pass of a statement with cached lengths" */
''')],
    harness='  IV* v; IV_clear(v);', dropped=[], trusted=[], min_obligations=3)
UNITS = [push_inline, push_grow, push_grow24, index, clear]
