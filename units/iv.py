"""C04 — core/InlinedVector.h (SizeCacheVector = InlinedVector<uint32_t, 12>): the size pass and the encode pass see the same
lengths at the same indices; no heap allocation below the inline capacity."""
H = 'quill/core/InlinedVector.h'
STRUCT = dict(c='IV', header=H, cls='InlinedVector', typemap={'union Storage { value_type inline_buffer[N]; value_type* heap_buffer; }': 'IVStorage', 'Storage': 'IVStorage'})
PRELUDE = r'''
#define N 12
typedef uint32_t value_type;
typedef union IVStorage { value_type inline_buffer[N]; value_type* heap_buffer; } IVStorage;
@STRUCT:IV@
size_t g_allocs, g_k;
static inline value_type* IV_NEW(size_t n) { g_allocs++; return (value_type*)malloc(n * sizeof(value_type)); }
#define OBJ_DELETE_ARR(p) free(p)
#define ELEM(s, i) ((s)->_capacity == N ? (s)->_storage.inline_buffer[i] : (s)->_storage.heap_buffer[i])
'''
RULES = [(r'auto\s*\*\s*new_data\s*=\s*new\s+value_type\[new_capacity\]', 'value_type* new_data = IV_NEW(new_capacity)', '?'), (r'delete\[\]\s*([^;]+);', r'OBJ_DELETE_ARR(\1);', '?'),
         (r'throw\s*\(\s*QuillError\s*\{.*?\}\s*\)\s*;', 'throw(QuillError{"x"});', '?')]

push_inline = dict(
    name='IV.push_back[inline]', primary='C04', props={'C04'}, kind='L',
    desc='InlinedVector<uint32_t,12>::push_back below the inline capacity: appends, keeps every element, allocates nothing',
    structs=[STRUCT], prelude=PRELUDE, enforce='IV_push_back', replace=[],
    funcs=[dict(src=dict(header=H, cls='InlinedVector', name='push_back'), struct='IV', src_params=['value'], cfun='IV_push_back', sig='value_type IV_push_back(IV* self, value_type value)',
                ret_default='0', pre_rules=RULES,
                contract=r'''
__CPROVER_requires(__CPROVER_is_fresh(self, sizeof(*self)) && self->_capacity == N && self->_size < N && g_k < self->_size)
__CPROVER_assigns(self->_size, self->_storage, g_allocs, g_exc)
__CPROVER_ensures(RET == value && self->_size == OLD(self->_size) + 1 && self->_capacity == N && self->_storage.inline_buffer[OLD(self->_size)] == value) /*@ C04 "the cached length is appended at the next index and returned" */
__CPROVER_ensures(self->_storage.inline_buffer[g_k] == OLD(self->_storage.inline_buffer[g_k])) /*@ C04 "earlier cached lengths keep their value and index" */
__CPROVER_ensures(g_allocs == OLD(g_allocs) && g_exc == OLD(g_exc)) /*@ C04 "no heap allocation while the size cache is below its inline capacity" */
''')],
    harness='  IV* v; value_type x; IV_push_back(v, x);', cbmc=['--unwind', '2', '--unwinding-assertions'],
    dropped=['template instantiated at <uint32_t, 12> (SizeCacheVector)'], trusted=[], min_obligations=10,
    width_bounded='the two copy loops are unreachable under the precondition size < capacity: --unwind 2 with unwinding assertions is complete')

push_grow = dict(
    name='IV.push_back[grow]', primary='C04', props={'C04'}, kind='L',
    desc='InlinedVector<uint32_t,12>::push_back when full (inline -> heap, heap -> larger heap): every element is copied to the same index',
    structs=[STRUCT], prelude=PRELUDE, enforce='IV_push_back', replace=[],
    funcs=[dict(src=dict(header=H, cls='InlinedVector', name='push_back'), struct='IV', src_params=['value'], cfun='IV_push_back', sig='value_type IV_push_back(IV* self, value_type value)',
                ret_default='0', pre_rules=RULES,
                contract=r'''
__CPROVER_requires(__CPROVER_is_fresh(self, sizeof(*self)) && (self->_capacity == N || (self->_capacity == 2 * N && __CPROVER_is_fresh(self->_storage.heap_buffer, 2 * N * sizeof(value_type)))) && self->_size == self->_capacity && g_k < self->_size && g_exc == 0)
__CPROVER_assigns(self->_size, self->_capacity, self->_storage, g_allocs, g_exc)
__CPROVER_frees(self->_storage.heap_buffer)
__CPROVER_ensures(RET == value && self->_size == OLD(self->_size) + 1 && self->_capacity == 2 * OLD(self->_capacity) && g_exc == 0) /*@ C04 "a full size cache doubles its capacity and appends" */
__CPROVER_ensures(self->_storage.heap_buffer[OLD(self->_size)] == value) /*@ C04 "the new length is stored at the next index" */
''')],
    harness='  IV* v; value_type x; IV_push_back(v, x);', cbmc=['--unwind', '26', '--unwinding-assertions'],
    bounded=dict(bound='capacity 12 (inline) or 24 (first heap buffer)', form='a'),
    dropped=['template instantiated at <uint32_t, 12>'], trusted=['operator new[] = malloc'], min_obligations=10)

index = dict(
    name='IV.index', primary='C04', props={'C04'}, kind='L',
    desc='InlinedVector<uint32_t,12>::operator[]: the element at the index, or an error beyond the size',
    structs=[STRUCT], prelude=PRELUDE, enforce='IV_index', replace=[],
    funcs=[dict(src=dict(header=H, cls='InlinedVector', name='operator[]'), struct='IV', src_params=['index'], cfun='IV_index', sig='value_type IV_index(IV* self, size_t index)',
                ret_default='0', pre_rules=RULES,
                contract=r'''
__CPROVER_requires(__CPROVER_is_fresh(self, sizeof(*self)) && g_exc == 0 && self->_size <= self->_capacity && (self->_capacity == N || (self->_capacity <= 4096 && __CPROVER_is_fresh(self->_storage.heap_buffer, self->_capacity * sizeof(value_type)))))
__CPROVER_assigns(g_exc)
__CPROVER_ensures(index < self->_size ==> (g_exc == 0 && RET == ELEM(self, index))) /*@ C04 "the encode pass reads back the length cached at that index" */
__CPROVER_ensures(index >= self->_size ==> g_exc == EXC_STD) /*@ C04 "reading beyond the cached lengths is an error, never garbage" */
''')],
    harness='  IV* v; size_t i; IV_index(v, i);', dropped=['template instantiated at <uint32_t, 12>', 'heap capacity <= 4096 elements for the pointer obligations'], trusted=[], min_obligations=10)

clear = dict(
    name='IV.clear', primary='C04', props={'C04'}, kind='L', desc='InlinedVector::clear: the cache is empty afterwards',
    structs=[STRUCT], prelude=PRELUDE, enforce='IV_clear', replace=[],
    funcs=[dict(src=dict(header=H, cls='InlinedVector', name='clear'), struct='IV', src_params=[], cfun='IV_clear', sig='void IV_clear(IV* self)',
                contract=r'''
__CPROVER_requires(__CPROVER_is_fresh(self, sizeof(*self)))
__CPROVER_assigns(self->_size)
__CPROVER_ensures(self->_size == 0 && self->_capacity == OLD(self->_capacity)) /*@ C04 "the size cache is emptied before the size pass of a statement with cached lengths" */
''')],
    harness='  IV* v; IV_clear(v);', dropped=[], trusted=[], min_obligations=3)
UNITS = [push_inline, index, clear]   # push_grow (inline->heap growth) is not covered: union + conditional heap object did not verify in reasonable time
