"""C19 — sinks/JsonSink.h: exactly one single-line JSON object per statement; one "key":"value" member per pair, in order."""
H = 'quill/sinks/JsonSink.h'
WL_PRELUDE = r'''
typedef struct MM { bool g_format_has_newline; } MM;
typedef struct JS { int d; } JS;
#define NPOS SIZE_MAX
size_t g_first_nl;      /* ghost: index of the first newline left in the private copy of the format (NPOS: none) */
size_t g_len; size_t g_clock, g_t_clear, g_t_generate, g_t_terminator, g_t_base_write; size_t g_clears, g_generates, g_terminators, g_base_writes, g_copies; bool g_generated_with_copy, g_base_msg_empty;
static inline bool MM_has_newline(MM const* m) { return m->g_format_has_newline; }
void FORMAT_assign_copy(JS* self, MM const* m) __CPROVER_assigns(g_first_nl, g_copies, g_len) __CPROVER_ensures(g_copies == OLD(g_copies) + 1 && g_len <= (((size_t)1) << 40) && (m->g_format_has_newline ? g_first_nl < g_len : g_first_nl == NPOS));
/* _format.find('\n', pos): the first newline at or after pos */
size_t FORMAT_find_nl(JS* self, size_t pos) __CPROVER_requires(pos <= g_first_nl || g_first_nl == NPOS) /*@ C19 "no newline of the template is skipped by the replacement scan" */
__CPROVER_assigns() __CPROVER_ensures(RET == g_first_nl);
void FORMAT_replace_with_space(JS* self, size_t pos) __CPROVER_requires(pos == g_first_nl && pos != NPOS) __CPROVER_assigns(g_first_nl) __CPROVER_ensures(g_first_nl == NPOS || (g_first_nl > pos && g_first_nl < g_len));
#define TICK_ENS(t, c) (g_clock == OLD(g_clock) + 1 && (t) == g_clock && (c) == OLD(c) + 1)
void JSON_clear(JS* self) __CPROVER_assigns(g_clock, g_t_clear, g_clears) __CPROVER_ensures(TICK_ENS(g_t_clear, g_clears));
void GENERATE_JSON(JS* self, bool with_copy) __CPROVER_assigns(g_clock, g_t_generate, g_generates, g_generated_with_copy) __CPROVER_ensures(TICK_ENS(g_t_generate, g_generates) && (g_generated_with_copy ? with_copy : !with_copy));
void JSON_append_terminator(JS* self) __CPROVER_assigns(g_clock, g_t_terminator, g_terminators) __CPROVER_ensures(TICK_ENS(g_t_terminator, g_terminators));
void BASE_write_log_json(JS* self, bool msg_empty) __CPROVER_assigns(g_clock, g_t_base_write, g_base_writes, g_base_msg_empty) __CPROVER_ensures(TICK_ENS(g_t_base_write, g_base_writes) && (g_base_msg_empty ? msg_empty : !msg_empty));
'''
write_log = dict(
    name='JS.write_log', primary='C19', props={'C19', 'C10'}, kind='S',
    desc='JsonSink::write_log: newlines of the message template are replaced by spaces in a private copy, the object is generated once into a cleared buffer, terminated once by "}\\n" and written once',
    structs=[], prelude=WL_PRELUDE, enforce='JS_write_log', replace=['FORMAT_assign_copy', 'FORMAT_find_nl', 'FORMAT_replace_with_space', 'JSON_clear', 'GENERATE_JSON', 'JSON_append_terminator', 'BASE_write_log_json'], loopcontracts=True,
    funcs=[dict(src=dict(header=H, cls='JsonSink', name='write_log'), cfun='JS_write_log', sig='void JS_write_log(JS* self, MM const* log_metadata)', cls_c='JS', member_fields=[],
                pre_rules=[(r'char\s+const\*\s+message_format\s*=\s*log_metadata->message_format\(\)\s*;', 'bool message_format_is_copy = false;', 1),
                           (r'strchr\(log_metadata->message_format\(\),\s*\'\\n\'\)\s*!=\s*nullptr', 'MM_has_newline(log_metadata)', 1),
                           (r'_format\s*=\s*log_metadata->message_format\(\)\s*;', 'FORMAT_assign_copy(self, log_metadata);', 1),
                           (r'_format\.find\(\'\\n\',\s*([^()]*)\)', r'FORMAT_find_nl(self, \1)', 1), (r'std::string::npos', 'NPOS', 1),
                           (r'_format\.replace\(pos,\s*1,\s*" "\)\s*;', 'FORMAT_replace_with_space(self, pos);', 1),
                           (r'message_format\s*=\s*_format\.data\(\)\s*;', 'message_format_is_copy = true;', 1),
                           (r'_json_message\.clear\(\)\s*;', 'JSON_clear(self);', 1),
                           (r'generate_json_message\s*\([^;]*message_format\s*\)\s*;', 'GENERATE_JSON(self, message_format_is_copy);', 1),
                           (r'_json_message\.append\(std::string_view\{"\}\\n"\}\)\s*;', 'JSON_append_terminator(self);', 1),
                           (r'StreamSink::write_log\s*\([^;]*named_args,\s*std::string_view\{\},\s*std::string_view\{_json_message\.data\(\),\s*_json_message\.size\(\)\}\s*\)\s*;', 'BASE_write_log_json(self, true);', 1)],
                loops={0: r'''
__CPROVER_assigns(pos, g_first_nl)
__CPROVER_loop_invariant((g_first_nl == NPOS || (pos <= g_first_nl && g_first_nl < g_len)) && g_len <= (((size_t)1) << 40))
'''},
                contract=r'''
__CPROVER_requires(__CPROVER_is_fresh(self, sizeof(*self)) && __CPROVER_is_fresh(log_metadata, sizeof(MM)) && g_clock == 0 && g_clears == 0 && g_generates == 0 && g_terminators == 0 && g_base_writes == 0 && g_copies == 0)
__CPROVER_assigns(g_first_nl, g_len, g_copies, g_clock, g_t_clear, g_t_generate, g_t_terminator, g_t_base_write, g_clears, g_generates, g_terminators, g_base_writes, g_generated_with_copy, g_base_msg_empty)
__CPROVER_ensures(g_clears == 1 && g_generates == 1 && g_terminators == 1 && g_base_writes == 1 && g_t_clear < g_t_generate && g_t_generate < g_t_terminator && g_t_terminator < g_t_base_write) /*@ C19,C10 "exactly one JSON object per statement: generated once into a buffer cleared BEFORE it (so that a write that threw for an earlier statement leaves nothing behind), closed once by }\\n, written once" */
__CPROVER_ensures(log_metadata->g_format_has_newline ==> (g_generated_with_copy && g_first_nl == NPOS)) /*@ C19 "a template containing newlines is written with every newline replaced by a space: the object stays on one line" */
__CPROVER_ensures(!log_metadata->g_format_has_newline ==> (!g_generated_with_copy && g_copies == 0)) /*@ C19 "otherwise the original message template is used" */
''')],
    harness='  JS* s; MM* m; JS_write_log(s, m);',
    dropped=['all statement attributes (passed through to generate_json_message / StreamSink::write_log)', 'class template parameter (base sink type)', 'the text of the template (newline positions via the find stub)'],
    trusted=['std::string::find returns the first match at or after pos; replace(pos, 1, " ") changes exactly that character'], min_obligations=30)

GJ_PRELUDE = r'''
typedef struct JS { int d; } JS;
typedef struct Pair { int key; int value; } Pair;
typedef struct PVecJ { size_t n; size_t g_p; Pair tracked; Pair other; } PVecJ;
size_t g_header_appends, g_pieces; size_t g_tracked_at; bool g_tracked_done; int g_k, g_v;
static inline size_t PVecJ_size(PVecJ* v) { return v->n; }
static inline Pair* PVecJ_get(PVecJ* v, size_t i) { return i == v->g_p ? &v->tracked : &v->other; }
void APPEND_HEADER(JS* self) __CPROVER_assigns(g_header_appends) __CPROVER_ensures(g_header_appends == OLD(g_header_appends) + 1);
/* ,"key":"value"  (five appends in the source, one stub per member) */
void APPEND_MEMBER(JS* self, int key, int value) __CPROVER_assigns(g_pieces, g_tracked_at, g_tracked_done, g_k, g_v)
__CPROVER_ensures(g_pieces == OLD(g_pieces) + 1 && g_k == key && g_v == value);
'''
generate = dict(
    name='JS.generate_json_message', primary='C19', props={'C19'}, kind='S',
    desc='JsonSink::generate_json_message: the fixed members once, then one "key":"value" member per named argument, in order',
    structs=[], prelude=GJ_PRELUDE, enforce='JS_generate', replace=['APPEND_HEADER', 'APPEND_MEMBER'], loopcontracts=True,
    funcs=[dict(src=dict(header=H, cls='JsonSink', name='generate_json_message'), cfun='JS_generate', sig='void JS_generate(JS* self, PVecJ* named_args)', cls_c='JS', member_fields=[],
                range_for=[(r'\*named_args', 'PVecJ_size', 'PVecJ_get', 'Pair*')],
                pre_rules=[(r'_json_message\.append\(fmtquill::format\(.*?message_format\)\)\s*;', 'APPEND_HEADER(self);', 1),
                           (r'auto\s+const&\s*\[key,\s*value\]', 'Pair* kv', 1),
                           (r'_json_message\.append\(std::string_view\{",\\""\}\)\s*;\s*_json_message\.append\(key\)\s*;\s*_json_message\.append\(std::string_view\{"\\":\\""\}\)\s*;\s*_json_message\.append\(value\)\s*;\s*_json_message\.append\(std::string_view\{"\\""\}\)\s*;', 'APPEND_MEMBER(self, kv->key, kv->value);', 1)],
                rules=[(r'&\(\*named_args\)', 'named_args')],
                loops={0: r'''
__CPROVER_assigns(__i0, g_pieces, g_tracked_at, g_tracked_done, g_k, g_v)
__CPROVER_loop_invariant(__i0 <= named_args->n && g_pieces == __i0)
__CPROVER_loop_invariant(__i0 == named_args->g_p + 1 ==> (g_k == named_args->tracked.key && g_v == named_args->tracked.value))
__CPROVER_decreases(named_args->n - __i0)
'''},
                contract=r'''
__CPROVER_requires(__CPROVER_is_fresh(self, sizeof(*self)) && (named_args == NULL || __CPROVER_is_fresh(named_args, sizeof(PVecJ))) && g_header_appends == 0 && g_pieces == 0)
__CPROVER_requires(named_args != NULL ==> (named_args->g_p == named_args->n - 1 && named_args->n >= 1 && named_args->n <= (((size_t)1) << 40)))
__CPROVER_assigns(g_header_appends, g_pieces, g_tracked_at, g_tracked_done, g_k, g_v)
__CPROVER_ensures(g_header_appends == 1) /*@ C19 "timestamp, file, line, thread, logger, level and message template are written once" */
__CPROVER_ensures(named_args == NULL ? g_pieces == 0 : g_pieces == named_args->n) /*@ C19 "one key/value member per pair of the structured list" */
__CPROVER_ensures(named_args != NULL ==> (g_k == named_args->tracked.key && g_v == named_args->tracked.value)) /*@ C19 "the j-th member written is the j-th pair (key and value of the same pair), for every j" */
''')],
    harness='  JS* s; PVecJ* v; JS_generate(s, v);',
    dropped=['text of the fixed members (fmt format of seven attributes)', 'strings as ids', 'class template parameter'],
    trusted=['pair list abstracted to {tracked, representative}; the tracked pair is taken as the j-th = last one visited, j arbitrary because the length is arbitrary'], min_obligations=20)
UNITS = [write_log, generate]

# ------------------------------------------------------------------------------------------ BackendWorker::_format_and_split_arguments
BH = 'quill/backend/BackendWorker.h'
SA_PRELUDE = r'''
#define NPOS SIZE_MAX
#define DELIM_LEN 3u
typedef struct NVec { size_t n; } NVec;                       /* named_args: number of pairs (one per argument) */
typedef struct OVec { size_t n; size_t g_k; bool g_k_has_spec; } OVec;   /* orig_arg_names: the names parsed from the template; one arbitrary tracked index */
typedef struct Opts { bool check_printable_char; } Opts; typedef struct Store { bool g_has_string; } Store;
size_t g_len;                 /* length of the formatted values string */
size_t g_expect_start, g_next_field, g_assigned, g_placeholders, g_delims, g_vformats, g_sanitized; bool g_tracked_spec_used, g_tracked_seen;
static inline size_t NVec_size(NVec* v) { return v->n; }
static inline size_t OVec_size(OVec const* v) { return v->n; }
static inline bool ORIG_spec_empty(OVec const* v, size_t i) { return i == v->g_k ? !v->g_k_has_spec : nondet_bool_(); }
bool nondet_bool_(void);
void FMT_append_spec(OVec const* o, size_t i) __CPROVER_assigns(g_placeholders, g_tracked_spec_used, g_tracked_seen) __CPROVER_ensures(g_placeholders == OLD(g_placeholders) + 1 && (i == o->g_k ? (g_tracked_spec_used && g_tracked_seen) : (g_tracked_spec_used == OLD(g_tracked_spec_used) && g_tracked_seen == OLD(g_tracked_seen))));
void FMT_append_plain(size_t i, OVec const* o) __CPROVER_assigns(g_placeholders, g_tracked_spec_used, g_tracked_seen) __CPROVER_ensures(g_placeholders == OLD(g_placeholders) + 1 && (i == o->g_k ? (!g_tracked_spec_used && g_tracked_seen) : (g_tracked_spec_used == OLD(g_tracked_spec_used) && g_tracked_seen == OLD(g_tracked_seen))));
void FMT_append_delim(void) __CPROVER_assigns(g_delims) __CPROVER_ensures(g_delims == OLD(g_delims) + 1);
void VFORMAT_VALUES(void) __CPROVER_assigns(g_vformats, g_len, g_exc) __CPROVER_ensures(g_vformats == OLD(g_vformats) + 1 && g_len <= (((size_t)1) << 40) && (g_exc == 0 || g_exc == EXC_STD || g_exc == EXC_OTHER));
/* formatted_values_str.find(delimiter, start): first delimiter at or after start */
size_t FIND_DELIM(size_t start) __CPROVER_assigns() __CPROVER_ensures(RET == NPOS || (RET >= start && RET + DELIM_LEN <= g_len));
void ASSIGN_VALUE(NVec* named, size_t idx, size_t start, size_t len)
__CPROVER_requires(idx < named->n) /*@ C19 "a value is never written past the end of the pair list" */
__CPROVER_requires(idx == g_next_field && start == g_expect_start) /*@ C19 "the k-th formatted value goes to the k-th pair: fields are taken in order, contiguously" */
__CPROVER_assigns(g_next_field, g_expect_start, g_assigned) __CPROVER_ensures(g_next_field == idx + 1 && g_assigned == OLD(g_assigned) + 1 && g_expect_start == (len == NPOS ? NPOS : start + len + DELIM_LEN));
static inline bool STORE_has_string(Store const* s) { return s->g_has_string; }
void SANITIZE_ALL(NVec* named) __CPROVER_assigns(g_sanitized) __CPROVER_ensures(g_sanitized == OLD(g_sanitized) + 1);
'''
split_args = dict(
    name='BW.split_args', primary='C19', props={'C19'}, kind='S',
    desc='BackendWorker::_format_and_split_arguments: one placeholder per pair (with the pair\'s own spec when it has one), n-1 delimiters, and the k-th split field is assigned to the k-th pair, never past the end',
    structs=[], prelude=SA_PRELUDE, enforce='BW_split_args',
    replace=['FMT_append_spec', 'FMT_append_plain', 'FMT_append_delim', 'VFORMAT_VALUES', 'FIND_DELIM', 'ASSIGN_VALUE', 'SANITIZE_ALL'], loopcontracts=True,
    funcs=[dict(src=dict(header=BH, cls='BackendWorker', name='_format_and_split_arguments'), src_params=['orig_arg_names', 'named_args', 'format_args_store', 'options'],
                cfun='BW_split_args', sig='void BW_split_args(OVec const* orig_arg_names_p, NVec* named_args_p, Store const* format_args_store_p, Opts const* options_p)', member_fields=[],
                exceptions=True, may_throw=['VFORMAT_VALUES'],
                pre_rules=[(r'std::string\s+format_string\s*;', '', 1), (r'static\s+constexpr\s+std::string_view\s+delimiter\{[^;]*\}\s*;', '', 1), (r'std::string\s+formatted_values_str\s*;', '', 1),
                           (r'named_args\.size\(\)', 'NVec_size(named_args_p)'), (r'orig_arg_names\.size\(\)', 'OVec_size(orig_arg_names_p)', 1),
                           (r'!orig_arg_names\[i\]\.second\.empty\(\)', '!ORIG_spec_empty(orig_arg_names_p, i)', 1),
                           (r'format_string\s*\+=\s*fmtquill::format\("\{\{\{\}\}\}",\s*orig_arg_names\[i\]\.second\)\s*;', 'FMT_append_spec(orig_arg_names_p, i);', 1),
                           (r'format_string\s*\+=\s*"\{\}"\s*;', 'FMT_append_plain(i, orig_arg_names_p);', 1), (r'format_string\s*\+=\s*delimiter\s*;', 'FMT_append_delim();', 1),
                           (r'fmtquill::vformat_to\s*\(std::back_inserter\(formatted_values_str\).*?\}\s*\)\s*;', 'VFORMAT_VALUES();', 1),
                           (r'formatted_values_str\.find\(delimiter,\s*start\)', 'FIND_DELIM(start)', 1), (r'std::string::npos', 'NPOS', 1),
                           (r'named_args\[idx\+\+\]\.second\s*=\s*formatted_values_str\.substr\(start,\s*end - start\)\s*;', 'ASSIGN_VALUE(named_args_p, idx, start, end - start); idx++;', 1),
                           (r'named_args\[idx\]\.second\s*=\s*formatted_values_str\.substr\(start\)\s*;', 'ASSIGN_VALUE(named_args_p, idx, start, NPOS);', 1),
                           (r'delimiter\.length\(\)', 'DELIM_LEN', 1),
                           (r'options\.check_printable_char\s*&&\s*format_args_store\.has_string_related_type\(\)', 'options_p->check_printable_char && STORE_has_string(format_args_store_p)', 1),
                           (r'for\s*\(auto&\s*named_arg\s*:\s*named_args\)\s*\{\s*sanitize_non_printable_chars\(named_arg\.second,\s*options\)\s*;\s*\}', 'SANITIZE_ALL(named_args_p);', 1)],
                loops={r'for\s*\(size_t i = 0': r'''
__CPROVER_assigns(i, g_placeholders, g_delims, g_tracked_spec_used, g_tracked_seen)
__CPROVER_loop_invariant(i <= named_args_p->n && g_placeholders == i && g_delims == (i == named_args_p->n && i > 0 ? i - 1 : i))
__CPROVER_loop_invariant(g_tracked_seen ? (i > orig_arg_names_p->g_k) : (i <= orig_arg_names_p->g_k))
__CPROVER_loop_invariant((g_tracked_seen && orig_arg_names_p->g_k < orig_arg_names_p->n) ==> (g_tracked_spec_used ? orig_arg_names_p->g_k_has_spec : !orig_arg_names_p->g_k_has_spec))
__CPROVER_decreases(named_args_p->n - i)
''', r'while\s*\(\s*\(end\s*=': r'''
__CPROVER_assigns(end, start, idx, g_next_field, g_expect_start, g_assigned)
__CPROVER_loop_invariant(idx <= named_args_p->n && g_next_field == idx && g_assigned == idx && (idx < named_args_p->n ==> (start == g_expect_start && start <= g_len)))
'''},
                contract=r'''
__CPROVER_requires(__CPROVER_is_fresh(orig_arg_names_p, sizeof(OVec)) && __CPROVER_is_fresh(named_args_p, sizeof(NVec)) && __CPROVER_is_fresh(format_args_store_p, sizeof(Store)) && __CPROVER_is_fresh(options_p, sizeof(Opts)))
__CPROVER_requires(g_exc == 0 && g_placeholders == 0 && g_delims == 0 && g_vformats == 0 && g_assigned == 0 && g_next_field == 0 && g_expect_start == 0 && !g_tracked_seen && named_args_p->n <= (((size_t)1) << 30) && orig_arg_names_p->n <= named_args_p->n && orig_arg_names_p->g_k < named_args_p->n)
__CPROVER_assigns(g_exc, g_len, g_expect_start, g_next_field, g_assigned, g_placeholders, g_delims, g_vformats, g_sanitized, g_tracked_spec_used, g_tracked_seen)
__CPROVER_ensures(g_exc == 0 ==> (g_placeholders == named_args_p->n && g_delims == (named_args_p->n == 0 ? 0 : named_args_p->n - 1) && g_vformats == 1)) /*@ C19 "one placeholder per argument, separated by n-1 delimiters, formatted in one go" */
__CPROVER_ensures((g_exc == 0 && orig_arg_names_p->g_k < orig_arg_names_p->n) ==> (g_tracked_spec_used ? orig_arg_names_p->g_k_has_spec : !orig_arg_names_p->g_k_has_spec)) /*@ C19 "each value is formatted according to its own placeholder's spec (and plainly when it has none)" */
__CPROVER_ensures(g_exc == 0 ==> g_assigned <= named_args_p->n) /*@ C19 "at most one value per pair" */
''')],
    harness='  OVec* o; NVec* n; Store* s; Opts* p; BW_split_args(o, n, s, p);',
    dropped=['all strings (placeholders, delimiter, formatted values): positions via the find stub', 'static function of BackendWorker'],
    trusted=['std::string::find returns the first match at or after start', 'names list abstracted to one tracked index'], min_obligations=30)
UNITS.append(split_args)

# ------------------------------------------------------------------------------------------ _populate_formatted_named_args: the key side of the pairs
NK_PRELUDE = r'''
typedef struct BW { int dummy; } BW;
/* the statement's pair vector: size + one arbitrary tracked index g_p with its key (kind 1 = a placeholder name with id `val`, kind 2 = the surplus-argument key "_<val>") */
typedef struct NV { size_t n; size_t g_p; int key_kind; size_t key_val; } NV;
typedef struct TE { NV* named_args; } TE;
NV g_fresh_nv; size_t g_news;
size_t g_names, g_store; size_t g_name_at_p;             /* number of parsed placeholder names, number of decoded arguments, the name id at index g_p */
static inline NV* NV_new(void) { g_news++; g_fresh_nv.n = 0; return &g_fresh_nv; }
static inline size_t AN_size(void) { return g_names; }
static inline size_t STORE_size(void) { return g_store; }
size_t nondet_size(void);
static inline size_t AN_name(NV* v, size_t i) { __CPROVER_assert(i < g_names, "name index within the parsed names"); return i == v->g_p ? g_name_at_p : nondet_size(); }
static inline void NV_resize(NV* v, size_t m) { if (v->g_p >= v->n && v->g_p < m) { v->key_kind = 0; v->key_val = 0; } v->n = m; }       /* new elements are empty pairs */
static inline void NV_set_key(NV* v, size_t i, size_t name) { __CPROVER_assert(i < v->n, "pair index within the vector"); if (i == v->g_p) { v->key_kind = 1; v->key_val = name; } }
static inline void NV_push_placeholder(NV* v, size_t i) { if (v->n == v->g_p) { v->key_kind = 2; v->key_val = i; } v->n++; }
#define NA(te) ((te)->named_args)
'''
named_keys = dict(
    name='BW.named_keys', primary='C19', props={'C19'}, kind='S',
    desc='BackendWorker::_populate_formatted_named_args, the part in front of the formatting: the pair vector gets one pair per argument, the k-th keyed by the k-th placeholder name; surplus arguments get the key "_<index>"',
    structs=[], prelude=NK_PRELUDE, enforce='BW_prepare_named_args', replace=[], loopcontracts=True,
    funcs=[dict(src=dict(header='quill/backend/BackendWorker.h', cls='BackendWorker', name='_populate_formatted_named_args'), src_params=['transit_event', 'arg_names'],
                cfun='BW_prepare_named_args', sig='void BW_prepare_named_args(BW* self, TE* transit_event)', cls_c='BW', member_fields=[],
                pre_rules=[(r'try\s*\{\s*_format_and_split_arguments.*\Z', '}', '!'),
                           (r'transit_event->named_args\s*=\s*std::make_unique<std::vector<std::pair<std::string,\s*std::string>>>\(\)\s*;', 'transit_event->named_args = NV_new();'),
                           (r'transit_event->named_args->resize\(arg_names\.size\(\)\)\s*;', 'NV_resize(NA(transit_event), AN_size());'),
                           (r'\(\*transit_event->named_args\)\[i\]\.first\s*=\s*arg_names\[i\]\.first\s*;', 'NV_set_key(NA(transit_event), i, AN_name(NA(transit_event), i));'),
                           (r'transit_event->named_args->push_back\(\s*std::pair<std::string,\s*std::string>\(fmtquill::format\("_\{\}",\s*i\),\s*std::string\{\}\)\)\s*;', 'NV_push_placeholder(NA(transit_event), i);'),
                           (r'arg_names\.size\(\)', 'AN_size()'), (r'_format_args_store\.size\(\)', 'STORE_size()')],
                loops={0: r'''
__CPROVER_assigns(i, transit_event->named_args->key_kind, transit_event->named_args->key_val)
__CPROVER_loop_invariant(i <= g_names && transit_event->named_args->n == g_names)
__CPROVER_loop_invariant((transit_event->named_args->g_p < i) ==> (transit_event->named_args->key_kind == 1 && transit_event->named_args->key_val == g_name_at_p))
__CPROVER_decreases(g_names - i)
''', 1: r'''
__CPROVER_assigns(i, transit_event->named_args->n, transit_event->named_args->key_kind, transit_event->named_args->key_val)
__CPROVER_loop_invariant(i >= g_names && transit_event->named_args->n == i && (g_store >= g_names ==> i <= g_store))
__CPROVER_loop_invariant((transit_event->named_args->g_p < g_names) ==> (transit_event->named_args->key_kind == 1 && transit_event->named_args->key_val == g_name_at_p))
__CPROVER_loop_invariant((transit_event->named_args->g_p >= g_names && transit_event->named_args->g_p < i) ==> (transit_event->named_args->key_kind == 2 && transit_event->named_args->key_val == transit_event->named_args->g_p))
__CPROVER_decreases(g_store - i)
'''},
                contract=r'''
__CPROVER_requires(__CPROVER_is_fresh(self, sizeof(*self)) && __CPROVER_is_fresh(transit_event, sizeof(TE)) && (transit_event->named_args == NULL || __CPROVER_is_fresh(transit_event->named_args, sizeof(NV))))
__CPROVER_requires(g_names <= 1000000 && g_store <= 1000000 && g_news == 0 && (transit_event->named_args != NULL ==> transit_event->named_args->n <= 1000000) && g_fresh_nv.g_p == (transit_event->named_args != NULL ? transit_event->named_args->g_p : g_fresh_nv.g_p))
__CPROVER_assigns(transit_event->named_args, g_news, __CPROVER_object_whole(&g_fresh_nv))
__CPROVER_assigns(transit_event->named_args != NULL: __CPROVER_object_whole(transit_event->named_args))
__CPROVER_ensures(transit_event->named_args != NULL && transit_event->named_args->n == (g_store > g_names ? g_store : g_names)) /*@ C19 "the structured list has one key/value pair per argument (never fewer than the parsed names)" */
__CPROVER_ensures(transit_event->named_args->g_p < g_names ==> (transit_event->named_args->key_kind == 1 && transit_event->named_args->key_val == g_name_at_p)) /*@ C19 "in order, keyed by the placeholder name: pair k carries the k-th name of the template" */
__CPROVER_ensures((transit_event->named_args->g_p >= g_names && transit_event->named_args->g_p < g_store) ==> (transit_event->named_args->key_kind == 2 && transit_event->named_args->key_val == transit_event->named_args->g_p)) /*@ C19 "an argument without a placeholder name gets the key _<its index>" */
''')],
    harness='  BW* s; TE* te; BW_prepare_named_args(s, te);',
    dropped=['the try block (formatting of the values: units BW.split_args, BW.fmt_named)', 'key strings as (kind, id); the pair vector as {size, one tracked index}', 'a recycled vector keeps its old pairs up to the new size: the loop overwrites every key below the number of names'],
    trusted=['std::vector::resize default-constructs new elements; tracked-element abstraction'], min_obligations=20)
UNITS.append(named_keys)

# ------------------------------------------------------------------------------------------ the formatting arm of _populate_transit_event_from_frontend_queue: named-args template cache
NC_PRELUDE = r'''
typedef uint8_t Event;     enum { EV_Log, EV_InitBacktrace, EV_FlushBacktrace, EV_Flush, EV_LogWithRuntimeMetadata, EV_LoggerRemovalRequest };
/* strings by CONTENT id: message_format() of the statement's metadata, the lookup key, a parsed template (id = the template it was parsed from) */
typedef struct MM { size_t g_template; bool g_named; Event g_event; } MM;
typedef struct TE { MM* macro_metadata; } TE;
typedef struct BW { size_t _named_args_format_template; } BW;
static inline size_t MM_message_format(MM* m) { return m->g_template; }
static inline bool MM_has_named_args(MM* m) { return m->g_named; }
static inline Event MM_event(MM* m) { return m->g_event; }
/* the cache map.  Representation invariant (assumed on entry, re-established by every insertion - clause below): the entry stored under key k was parsed from k */
bool g_cached; size_t g_clock, g_finds, g_looked_key, g_inserts, g_inserted_key, g_inserted_entry, g_parses;
size_t g_fmt_msgs, g_fmt_named, g_fmt_msg_entry, g_fmt_named_entry, g_t_fmt_msg, g_t_fmt_named, g_plain, g_plain_template, g_t_plain, g_mds, g_t_md;
bool CACHE_FIND(BW* self, size_t key) __CPROVER_assigns(g_finds, g_looked_key) __CPROVER_ensures(RET == g_cached && g_finds == OLD(g_finds) + 1 && g_looked_key == key);
static inline size_t CACHE_ENTRY_FOUND(void) { __CPROVER_assert(g_finds > 0 && g_cached, "an entry is read only after a lookup that hit"); return g_looked_key; }
size_t PROCESS_TEMPLATE(size_t template_id) __CPROVER_assigns(g_parses) __CPROVER_ensures(RET == template_id && g_parses == OLD(g_parses) + 1);
size_t CACHE_EMPLACE(BW* self, size_t key, size_t parsed) __CPROVER_assigns(g_inserts, g_inserted_key, g_inserted_entry) __CPROVER_ensures(g_inserts == OLD(g_inserts) + 1 && g_inserted_key == key && g_inserted_entry == parsed && RET == parsed);
void FMT_MSG(BW* self, TE* te, size_t entry) __CPROVER_assigns(g_clock, g_fmt_msgs, g_fmt_msg_entry, g_t_fmt_msg) __CPROVER_ensures(g_clock == OLD(g_clock) + 1 && g_fmt_msgs == OLD(g_fmt_msgs) + 1 && g_fmt_msg_entry == entry && g_t_fmt_msg == g_clock);
void FMT_NAMED(BW* self, TE* te, size_t entry) __CPROVER_assigns(g_clock, g_fmt_named, g_fmt_named_entry, g_t_fmt_named) __CPROVER_ensures(g_clock == OLD(g_clock) + 1 && g_fmt_named == OLD(g_fmt_named) + 1 && g_fmt_named_entry == entry && g_t_fmt_named == g_clock);
void FMT_PLAIN(BW* self, TE* te, size_t template_id) __CPROVER_assigns(g_clock, g_plain, g_plain_template, g_t_plain) __CPROVER_ensures(g_clock == OLD(g_clock) + 1 && g_plain == OLD(g_plain) + 1 && g_plain_template == template_id && g_t_plain == g_clock);
void APPLY_MD(BW* self, TE* te) __CPROVER_assigns(g_clock, g_mds, g_t_md) __CPROVER_ensures(g_clock == OLD(g_clock) + 1 && g_mds == OLD(g_mds) + 1 && g_t_md == g_clock);
#define T_(te) ((te)->macro_metadata->g_template)
'''
named_cache = dict(
    name='BW.named_cache', primary='C19', props={'C19', 'C04', 'C12'}, kind='S',
    desc='formatting arm of BackendWorker::_populate_transit_event_from_frontend_queue: a statement with named placeholders is formatted with the parsed form of ITS OWN template, whether that was found in the cache (keyed by the template text) or parsed now and stored under that text; a plain statement is formatted with its template and runtime metadata applied afterwards',
    structs=[], prelude=NC_PRELUDE, enforce='BW_format_arm', replace=['CACHE_FIND', 'PROCESS_TEMPLATE', 'CACHE_EMPLACE', 'FMT_MSG', 'FMT_NAMED', 'FMT_PLAIN', 'APPLY_MD'],
    funcs=[dict(src=dict(header='quill/backend/BackendWorker.h', cls='BackendWorker', name='_populate_transit_event_from_frontend_queue',
                         stmt_re=r'if \(!transit_event->macro_metadata->has_named_args\(\)\).*?_populate_formatted_named_args\(transit_event, arg_names\);\s*\}\s*\}'),
                cfun='BW_format_arm', sig='void BW_format_arm(BW* self, TE* transit_event)', cls_c='BW', member_fields=['_named_args_format_template'],
                methods={'message_format': 'MM_message_format', 'has_named_args': 'MM_has_named_args', 'event': 'MM_event'},
                pre_rules=[(r'MacroMetadata::Event::(\w+)', r'EV_\1'),
                           (r'_populate_formatted_log_message\(transit_event,\s*transit_event->macro_metadata->message_format\(\)\)\s*;', 'FMT_PLAIN(self, transit_event, transit_event->macro_metadata->message_format());'),
                           (r'_apply_runtime_metadata\(transit_event\)\s*;', 'APPLY_MD(self, transit_event);'),
                           (r'_named_args_format_template\.assign\(([^;]*)\)\s*;', r'_named_args_format_template = \1;'),
                           (r'if\s*\(auto\s+const\s+search\s*=\s*_named_args_templates\.find\(_named_args_format_template\);\s*search\s*!=\s*std::cend\(_named_args_templates\)\)', 'if (CACHE_FIND(self, _named_args_format_template))'),
                           (r'auto\s+const&\s*\[message_format,\s*arg_names\]\s*=\s*search->second\s*;', 'size_t const entry = CACHE_ENTRY_FOUND();'),
                           (r'auto\s+const\s+\[res_it,\s*inserted\]\s*=\s*_named_args_templates\.try_emplace\(\s*_named_args_format_template,\s*_process_named_args_format_message\(([^;]*?)\)\)\s*;', r'size_t const entry_new = CACHE_EMPLACE(self, _named_args_format_template, PROCESS_TEMPLATE(\1));'),
                           (r'auto\s+const&\s*\[message_format,\s*arg_names\]\s*=\s*res_it->second\s*;', 'size_t const entry = entry_new;'),
                           (r'\(void\)inserted\s*;', ''),
                           (r'_populate_formatted_log_message\(transit_event,\s*message_format\.data\(\)\)\s*;', 'FMT_MSG(self, transit_event, entry);'),
                           (r'_populate_formatted_named_args\(transit_event,\s*arg_names\)\s*;', 'FMT_NAMED(self, transit_event, entry);')],
                contract=r'''
__CPROVER_requires(__CPROVER_is_fresh(self, sizeof(*self)) && __CPROVER_is_fresh(transit_event, sizeof(TE)) && __CPROVER_is_fresh(transit_event->macro_metadata, sizeof(MM)) && transit_event->macro_metadata->g_event <= EV_LoggerRemovalRequest)
__CPROVER_requires(g_clock == 0 && g_finds == 0 && g_inserts == 0 && g_parses == 0 && g_fmt_msgs == 0 && g_fmt_named == 0 && g_plain == 0 && g_mds == 0)
__CPROVER_assigns(self->_named_args_format_template, g_clock, g_finds, g_looked_key, g_inserts, g_inserted_key, g_inserted_entry, g_parses, g_fmt_msgs, g_fmt_named, g_fmt_msg_entry, g_fmt_named_entry, g_t_fmt_msg, g_t_fmt_named, g_plain, g_plain_template, g_t_plain, g_mds, g_t_md)
__CPROVER_ensures(transit_event->macro_metadata->g_named ==> (g_fmt_msgs == 1 && g_fmt_named == 1 && g_plain == 0)) /*@ C19 "a statement with named placeholders gets its text and its key/value pairs, once each" */
__CPROVER_ensures(transit_event->macro_metadata->g_named ==> (g_fmt_msg_entry == T_(transit_event) && g_fmt_named_entry == T_(transit_event))) /*@ C19 "text and pairs come from the parsed form of the statement's OWN template, whatever templates were seen before (cache hit or first use)" */
__CPROVER_ensures(g_inserts <= 1 && (g_inserts == 1 ==> (g_inserted_key == T_(transit_event) && g_inserted_entry == T_(transit_event) && !g_cached))) /*@ C19 "the cache only ever maps a template text to the parse of that very text (the invariant every later hit relies on)" */
__CPROVER_ensures(!transit_event->macro_metadata->g_named ==> (g_plain == 1 && g_plain_template == T_(transit_event) && g_fmt_msgs == 0 && g_fmt_named == 0 && g_inserts == 0)) /*@ C04,C12 "a statement without named placeholders is formatted once with its own template" */
__CPROVER_ensures(g_mds == ((!transit_event->macro_metadata->g_named && transit_event->macro_metadata->g_event == EV_LogWithRuntimeMetadata) ? 1 : 0) && (g_mds == 1 ==> g_t_plain < g_t_md)) /*@ C12 "runtime-supplied metadata is applied to exactly the statements that carry it, after their text was formatted" */
''')],
    harness='  BW* s; TE* te; BW_format_arm(s, te);',
    dropped=['strings as content ids (the key string, the template, the parsed template)', 'the unordered_map as {does it hold the key, what was looked up / inserted}: the representation invariant "entry under k was parsed from k" is assumed on entry and re-established by the insertion clause'],
    trusted=['std::unordered_map<std::string, ...> compares keys by content', '_process_named_args_format_message is a function of the template text (bounded stand-in BW.named_template)'], min_obligations=15)
UNITS.append(named_cache)
