"""Composition lemmas over the stage CONTRACTS (no source text): one nondeterministically chosen step of the per-thread
pipeline through contract-only stubs keeps the counter invariant, i.e. "once each, in thread order" per context."""
PIPE = r'''
/* ghost counters of ONE arbitrary thread context c */
size_t g_committed;   /* records committed by the producer (log calls that returned true)            - LG.log_statement, BQ/UQ commit */
size_t g_finished;    /* records consumed from the queue by the backend                               - BW.read_decode */
size_t g_pushed;      /* events pushed to c's backend buffer                                          - BW.read_decode / BW.populate / TEB.push_back */
size_t g_popped;      /* events popped from c's backend buffer                                        - BW.process_lowest / TEB.pop_front */
size_t g_dispatched;  /* events dispatched to the sinks                                               - BW.process_lowest */
size_t g_last_index;  /* stream index (0 = first statement of the thread) of the last dispatched event */
bool nondet_bool(void);
/* stage 0 - producer: a log call commits exactly one record iff it returns true (LG.log_statement C08 clauses; blocking queue: always true) */
bool STAGE_log(void) __CPROVER_assigns(g_committed) __CPROVER_ensures(g_committed == OLD(g_committed) + (RET ? 1 : 0));
/* stage 1+2 - one read pass over c's queue: records consumed == events pushed (BW.read_decode C03 clauses), never beyond what is
   committed (C01: the consumer is only shown committed bytes), FIFO (C01/C02 stream equality): the records consumed are the NEXT ones */
void STAGE_read_pass(void) __CPROVER_assigns(g_finished, g_pushed)
__CPROVER_ensures(g_finished >= OLD(g_finished) && g_finished <= g_committed && g_finished - OLD(g_finished) == g_pushed - OLD(g_pushed));
/* stage 3+4 - one processing step that selected context c: the FRONT event of c's buffer (logical position 0 = stream index g_popped,
   TEB.front / TEB.pop_front / TEB.expand keep the order) is dispatched, then popped, on every path (BW.process_lowest C03 clauses) */
bool STAGE_process(void) __CPROVER_assigns(g_popped, g_dispatched, g_last_index)
__CPROVER_ensures(OLD(g_pushed) == OLD(g_popped) ? (!RET && g_popped == OLD(g_popped) && g_dispatched == OLD(g_dispatched) && g_last_index == OLD(g_last_index))
                                                   : (RET && g_last_index == OLD(g_popped) && g_popped == OLD(g_popped) + 1 && g_dispatched == OLD(g_dispatched) + 1));
/* reclaim: the context is handed to removal only if the thread exited, queue and buffer are empty (BW.cleanup_pred) */
bool STAGE_reclaim_allowed(void) __CPROVER_assigns() __CPROVER_ensures(RET ==> (g_finished == g_committed && g_pushed == g_popped));
#define PIPE_INV (g_dispatched == g_popped && g_popped <= g_pushed && g_pushed == g_finished && g_finished <= g_committed && g_committed < (((size_t)1) << 62))
'''
pipeline = dict(
    name='LEM.pipeline', primary='C03', props={'C03'}, kind='M',
    desc='composition lemma over the stage contracts of one thread context: any single step keeps dispatched == popped <= pushed == finished <= committed, every dispatch carries the next stream index, and a context may be reclaimed only when everything committed was dispatched',
    structs=[], prelude=PIPE, enforce='lem_pipeline_step', replace=['STAGE_log', 'STAGE_read_pass', 'STAGE_process', 'STAGE_reclaim_allowed'],
    funcs=[dict(cfun='lem_pipeline_step', text=r'''
void lem_pipeline_step(int which)
__CPROVER_requires(PIPE_INV && g_committed < (((size_t)1) << 61))
__CPROVER_assigns(g_committed, g_finished, g_pushed, g_popped, g_dispatched, g_last_index)
__CPROVER_ensures(PIPE_INV) /*@ C03 "the counter invariant of the per-thread pipeline is inductive over every stage contract: nothing is dispatched that was not committed, nothing is dispatched twice" */
__CPROVER_ensures(g_dispatched != OLD(g_dispatched) ==> (g_dispatched == OLD(g_dispatched) + 1 && g_last_index == OLD(g_dispatched))) /*@ C03 "the k-th statement dispatched for a thread is the k-th statement that thread committed (thread order, exactly once)" */
{
  if (which == 0) { (void)STAGE_log(); }
  else if (which == 1) { STAGE_read_pass(); }
  else if (which == 2) { (void)STAGE_process(); }
  else
  {
    if (STAGE_reclaim_allowed()) { __CPROVER_assert(g_dispatched == g_committed, "C03: a thread context is reclaimed only after every statement the thread committed was dispatched"); }
  }
}
''')],
    harness='  int w; lem_pipeline_step(w);',
    dropped=[], trusted=['the stage contracts restate the postconditions proved by LG.log_statement, BQ.*/UQ.* (FIFO byte stream), BW.read_decode, BW.populate, TEB.*, BW.process_lowest, BW.cleanup_pred; liveness (every step eventually happens) is not claimed'],
    min_obligations=3)
UNITS = [pipeline]
