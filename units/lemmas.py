"""Composition lemmas over the stage CONTRACTS (no source text): one nondeterministically chosen step of the per-thread
pipeline through contract-only stubs keeps the counter invariant, i.e. "once each, in thread order" per context."""
PIPE = r'''
/* ghost counters of ONE arbitrary thread context c */
size_t g_committed;   /* records committed by the producer (log calls that returned true)            - LG.log_statement, BQ/UQ commit */
size_t g_finished;    /* records consumed from the queue by the backend                               - BW.read_decode */
size_t g_pushed;      /* events pushed to c's backend buffer                                          - BW.read_decode / BW.populate / TEB.push_back */
size_t g_popped;      /* events popped from c's backend buffer                                        - BW.process_lowest / TEB.pop_front */
size_t g_dispatched;  /* events dispatched to the sinks                                               - BW.process_lowest */
size_t g_last_index;  /* stream index (0 = first statement of the thread) of the last dispatched event */
bool nondet_bool(void);
/* stage 0 - producer: a log call commits exactly one record iff it returns true (LG.log_statement C08 clauses; blocking queue: always true) */
bool STAGE_log(void) __CPROVER_assigns(g_committed) __CPROVER_ensures(g_committed == OLD(g_committed) + (RET ? 1 : 0));
/* stage 1+2 - one read pass over c's queue: records consumed == events pushed (BW.read_decode C03 clauses), never beyond what is
   committed (C01: the consumer is only shown committed bytes), FIFO (C01/C02 stream equality): the records consumed are the NEXT ones */
void STAGE_read_pass(void) __CPROVER_assigns(g_finished, g_pushed)
__CPROVER_ensures(g_finished >= OLD(g_finished) && g_finished <= g_committed && g_finished - OLD(g_finished) == g_pushed - OLD(g_pushed));
/* stage 3+4 - one processing step that selected context c: the FRONT event of c's buffer (logical position 0 = stream index g_popped,
   TEB.front / TEB.pop_front / TEB.expand keep the order) is dispatched, then popped, on every path (BW.process_lowest C03 clauses) */
bool STAGE_process(void) __CPROVER_assigns(g_popped, g_dispatched, g_last_index)
__CPROVER_ensures(OLD(g_pushed) == OLD(g_popped) ? (!RET && g_popped == OLD(g_popped) && g_dispatched == OLD(g_dispatched) && g_last_index == OLD(g_last_index))
                                                   : (RET && g_last_index == OLD(g_popped) && g_popped == OLD(g_popped) + 1 && g_dispatched == OLD(g_dispatched) + 1));
/* reclaim: the context is handed to removal only if the thread exited, queue and buffer are empty (BW.cleanup_pred) */
bool STAGE_reclaim_allowed(void) __CPROVER_assigns() __CPROVER_ensures(RET ==> (g_finished == g_committed && g_pushed == g_popped));
#define PIPE_INV (g_dispatched == g_popped && g_popped <= g_pushed && g_pushed == g_finished && g_finished <= g_committed && g_committed < (((size_t)1) << 62))
'''
pipeline = dict(
    name='LEM.pipeline', primary='C03', props={'C03'}, kind='M',
    desc='composition lemma over the stage contracts of one thread context: any single step keeps dispatched == popped <= pushed == finished <= committed, every dispatch carries the next stream index, and a context may be reclaimed only when everything committed was dispatched',
    structs=[], prelude=PIPE, enforce='lem_pipeline_step', replace=['STAGE_log', 'STAGE_read_pass', 'STAGE_process', 'STAGE_reclaim_allowed'],
    funcs=[dict(cfun='lem_pipeline_step', text=r'''
void lem_pipeline_step(int which)
__CPROVER_requires(PIPE_INV && g_committed < (((size_t)1) << 61))
__CPROVER_assigns(g_committed, g_finished, g_pushed, g_popped, g_dispatched, g_last_index)
__CPROVER_ensures(PIPE_INV) /*@ C03 "the counter invariant of the per-thread pipeline is inductive over every stage contract: nothing is dispatched that was not committed, nothing is dispatched twice" */
__CPROVER_ensures(g_dispatched != OLD(g_dispatched) ==> (g_dispatched == OLD(g_dispatched) + 1 && g_last_index == OLD(g_dispatched))) /*@ C03 "the k-th statement dispatched for a thread is the k-th statement that thread committed (thread order, exactly once)" */
{
  if (which == 0) { (void)STAGE_log(); }
  else if (which == 1) { STAGE_read_pass(); }
  else if (which == 2) { (void)STAGE_process(); }
  else
  {
    if (STAGE_reclaim_allowed()) { __CPROVER_assert(g_dispatched == g_committed, "C03: a thread context is reclaimed only after every statement the thread committed was dispatched"); }
  }
}
''')],
    harness='  int w; lem_pipeline_step(w);',
    dropped=[], trusted=['the stage contracts restate the postconditions proved by LG.log_statement, BQ.*/UQ.* (FIFO byte stream), BW.read_decode, BW.populate, TEB.*, BW.process_lowest, BW.cleanup_pred; liveness (every step eventually happens) is not claimed'],
    min_obligations=3)
UNITS = [pipeline]

# ------------------------------------------------------------------------------------------ C05: composition of the ordering mechanisms
ORDER = r'''
/* One processing step of a backend pass, one arbitrary OTHER statement s that is not yet written.  All instants and
   timestamps are readings of one monotone clock (ASSUMPTION, stated in the property: rdtsc conversion / system clock).
   Scalars of the step:                                                                                                   */
uint64_t g_Tnow;      /* instant at which the pass read ts_now (before it read any queue)                                   */
uint64_t g_G;         /* log_timestamp_ordering_grace_period                                                                */
uint64_t g_L;         /* admission limit of the pass                                                                        */
uint64_t g_tp;        /* timestamp of the event this step processes                                                         */
/* the thread j that owns s (j may be the thread of the processed event) */
bool g_buf_nonempty;  /* j's backend buffer is non-empty when the minimum is selected                                       */
uint64_t g_front;     /* timestamp at the front of j's buffer (if non-empty)                                                */
uint64_t g_Tread;     /* instant at which the pass finished reading j's queue                                               */
uint64_t g_Tchk;      /* instant of the last negative pending check before this step (batch loop), if there was one         */
bool g_checked;       /* this step was preceded by a negative pending check (every step of a batch loop but the first of a pass) */
/* the statement s of thread j */
uint64_t g_ts, g_es;  /* its timestamp and the instant its enqueue completed (commit_write)                                 */
enum { S_IN_BUFFER, S_IN_QUEUE, S_NOT_ENQUEUED } g_where;   /* where s is when the minimum is selected                       */
/* restated stage contracts */
#define A_LIMIT      (g_L + g_G == g_Tnow)                                   /* BW.populate_all: limit = ts_now - grace (same unit)            */
#define A_ADMISSION  (g_tp <= g_L && (g_buf_nonempty ==> g_front <= g_L))     /* BW.populate: only statements with ts <= limit are admitted; limits of earlier passes are smaller (monotone clock) */
#define B_SELECTION  (g_buf_nonempty ==> g_tp <= g_front)                     /* BW.process_lowest: processed event <= every other buffer front */
#define C_THREAD_ORDER (g_buf_nonempty ==> g_front <= g_ts)                   /* C01-C03 + TEB.*: buffer and queue keep thread order, per-thread clock monotone: everything of j not yet written is >= j's front */
#define C_IN_BUFFER  (g_where == S_IN_BUFFER ==> g_buf_nonempty)
#define D_READ_PASS  ((g_where == S_IN_QUEUE && !g_buf_nonempty && !g_checked) ==> (g_ts > g_L || g_es > g_Tread))  /* BW.read_decode/BW.populate: a record left in the queue of a thread whose buffer is empty was refused by the limit, or was not there when the queue was read (the hard limit leaves the buffer non-empty) */
#define D_ORDER      (g_Tread >= g_Tnow && g_Tchk >= g_Tnow)                  /* the queues are read, and pending checks made, after ts_now was taken */
#define E_BATCH      ((g_checked && g_where == S_IN_QUEUE && !g_buf_nonempty) ==> g_es > g_Tchk)   /* BW.batch + BW.has_pending: no step while some thread has an empty buffer and a non-empty queue */
#define F_FUTURE     (g_where == S_NOT_ENQUEUED ==> g_es > g_Tnow)            /* not enqueued yet when the minimum is selected, which is after ts_now was taken */
#define F_GRACE      (g_es <= g_ts + g_G)                                     /* the property's own premise: enqueued no later than the grace period after the timestamp was taken */
#define BOUNDS       ((g_where == S_IN_BUFFER || g_where == S_IN_QUEUE || g_where == S_NOT_ENQUEUED) && g_L < (1ULL << 62) && g_Tnow < (1ULL << 62) && g_G < (1ULL << 62) && g_ts < (1ULL << 62) && g_es < (1ULL << 62))
'''
order = dict(
    name='LEM.order', primary='C05', props={'C05'}, kind='M',
    desc='composition lemma for the global timestamp order: from the restated contracts of admission, min-selection, thread order, read pass, batch loop / pending check and the grace-period premise, the event processed by any step is not newer than any statement still unwritten (in a buffer, in a queue, or not yet enqueued)',
    structs=[], prelude=ORDER, enforce='lem_order_step', replace=[],
    funcs=[dict(cfun='lem_order_step', text=r'''
void lem_order_step(void)
__CPROVER_requires(BOUNDS && A_LIMIT && A_ADMISSION && B_SELECTION && C_THREAD_ORDER && C_IN_BUFFER && D_READ_PASS && D_ORDER && E_BATCH && F_FUTURE && F_GRACE)
__CPROVER_assigns()
__CPROVER_ensures(g_tp <= g_ts) /*@ C05 "the statement written by any processing step is not newer than any statement written later (composition of admission, selection, thread order, read pass, pending check and the grace-period premise)" */
{
}
''')],
    harness='  lem_order_step();',
    dropped=[], trusted=['the macros restate postconditions proved by BW.populate, BW.populate_all, BW.process_lowest, BW.read_decode, BW.batch, BW.has_pending, TEB.*, BQ/UQ (FIFO) - by hand, not mechanically the same text',
                         'one monotone clock for timestamps and instants (rdtsc conversion, system clock, user clocks are assumptions of the property)', 'per-thread timestamps are non-decreasing (clock read at the start of each log call on the calling thread)'],
    min_obligations=1)
UNITS.append(order)
