"""C08 / C09 / C04 / C05 / C06 / C16 — frontend: LoggerBase level check, LoggerImpl::log_statement skeleton (all four queue
types symbolic), header encoding, control requests that must never be dropped."""

LH = 'quill/Logger.h'
BH = 'quill/core/LoggerBase.h'
TH = 'quill/backend/TransitEvent.h'

ENUMS = r'''
typedef uint8_t LogLevel;  enum { LL_TraceL3, LL_TraceL2, LL_TraceL1, LL_Debug, LL_Info, LL_Notice, LL_Warning, LL_Error, LL_Critical, LL_Backtrace, LL_None, LL_Dynamic };
typedef uint8_t Event;     enum { EV_Log, EV_InitBacktrace, EV_FlushBacktrace, EV_Flush, EV_LogWithRuntimeMetadata, EV_LoggerRemovalRequest };
typedef int QueueType;     enum { QT_UnboundedBlocking, QT_UnboundedDropping, QT_BoundedBlocking, QT_BoundedDropping };
typedef uint8_t ClockSourceType; enum { CS_Tsc, CS_System, CS_User };
'''
ENUM_RULES = [(r'MacroMetadata::Event::(\w+)', r'EV_\1'), (r'LogLevel::(\w+)', r'LL_\1'), (r'QueueType::(\w+)', r'QT_\1'), (r'ClockSourceType::(\w+)', r'CS_\1')]

# ------------------------------------------------------------------------------------------ LoggerBase level check
LB_STRUCT = dict(c='LB', header=BH, cls='LoggerBase', only=['log_level', 'backtrace_flush_level', 'valid', 'clock_source'],
                 typemap={'LogLevel': 'LogLevel', 'ClockSourceType': 'ClockSourceType'})
LB_PRELUDE = ENUMS + r'''
@STRUCT:LB@
#define ATOMIC_LOAD_log_level(s, mo) ((s)->log_level)
#define ATOMIC_STORE_log_level(s, v, mo) ((s)->log_level = (v))
'''
get_level = dict(src=dict(header=BH, cls='LoggerBase', name='get_log_level'), struct='LB', src_params=[], cfun='LB_get_log_level', sig='LogLevel LB_get_log_level(LB* self)', member_fields=['log_level'], pre_rules=[])
should_log_rt = dict(
    name='LB.should_log[runtime]', primary='C16', props={'C16'}, kind='L',
    desc='LoggerBase::should_log_statement(LogLevel): a statement is accepted iff its level is at or above the logger level, over the whole enum',
    structs=[LB_STRUCT], prelude=LB_PRELUDE, enforce='LB_should_log_statement', replace=[],
    funcs=[get_level, dict(src=dict(header=BH, cls='LoggerBase', name='should_log_statement', nth=1, expect=2), struct='LB', src_params=['log_statement_level'],
                           cfun='LB_should_log_statement', sig='bool LB_should_log_statement(LB* self, LogLevel log_statement_level)', member_fields=['log_level'],
                           cls_c='LB', siblings=['get_log_level'],
                           contract=r'''
__CPROVER_requires(__CPROVER_is_fresh(self, sizeof(*self)) && self->log_level <= LL_Dynamic && log_statement_level <= LL_Dynamic)
__CPROVER_assigns()
__CPROVER_ensures(RET == (log_statement_level >= self->log_level)) /*@ C16 "a statement is enqueued iff its (run-time) level is at or above the logger's level at the moment of the call" */
''')],
    harness='  LB* l; LogLevel v; LB_should_log_statement(l, v);',
    dropped=['std::atomic<LogLevel> read as a plain field (sequentially consistent semantics)'], trusted=[], min_obligations=3)
should_log_ct = dict(
    name='LB.should_log[static]', primary='C16', props={'C16'}, kind='L',
    desc='LoggerBase::should_log_statement<level>(): same predicate for a compile-time level (template parameter symbolic)',
    structs=[LB_STRUCT], prelude=LB_PRELUDE + 'LogLevel log_statement_level;   /* template parameter, symbolic */\n', enforce='LB_should_log_statement_T', replace=[],
    funcs=[get_level, dict(src=dict(header=BH, cls='LoggerBase', name='should_log_statement', nth=0, expect=2), struct='LB', src_params=[],
                           cfun='LB_should_log_statement_T', sig='bool LB_should_log_statement_T(LB* self)', member_fields=['log_level'], cls_c='LB', siblings=['get_log_level'],
                           constexpr=lambda c: None, pre_rules=[(r'LogLevel::(\w+)', r'LL_\1', '?')],   # an `if constexpr` on the (symbolic) template parameter stays a symbolic `if`: one proof for every static level
                           contract=r'''
__CPROVER_requires(__CPROVER_is_fresh(self, sizeof(*self)) && self->log_level <= LL_Dynamic && log_statement_level <= LL_Dynamic)
__CPROVER_assigns()
__CPROVER_ensures(RET == (log_statement_level >= self->log_level)) /*@ C16 "a statement is enqueued iff its static level is at or above the logger's level at the moment of the call" */
''')],
    harness='  LB* l; LB_should_log_statement_T(l);',
    dropped=['std::atomic<LogLevel> read as a plain field'], trusted=[], min_obligations=3)

# ------------------------------------------------------------------------------------------ TransitEvent::log_level
TE_PRELUDE = ENUMS + r'''
typedef struct MacroMetadata { LogLevel g_level; } MacroMetadata;
typedef struct TE { MacroMetadata* macro_metadata; LogLevel dynamic_log_level; } TE;
static inline LogLevel MM_log_level(MacroMetadata* m) { return m->g_level; }
'''
te_level = dict(
    name='TE.log_level', primary='C16', props={'C16'}, kind='L',
    desc='TransitEvent::log_level: static statements report their metadata level, dynamic statements exactly the level they were given',
    structs=[], prelude=TE_PRELUDE, enforce='TE_log_level', replace=[],
    funcs=[dict(src=dict(header=TH, cls='TransitEvent', name='log_level'), src_params=[], cfun='TE_log_level', sig='LogLevel TE_log_level(TE* self)',
                member_fields=['macro_metadata', 'dynamic_log_level'], methods={'log_level': 'MM_log_level'}, pre_rules=ENUM_RULES[1:2],
                contract=r'''
__CPROVER_requires(__CPROVER_is_fresh(self, sizeof(*self)) && __CPROVER_is_fresh(self->macro_metadata, sizeof(MacroMetadata)))
__CPROVER_assigns()
__CPROVER_ensures(self->macro_metadata->g_level != LL_Dynamic ==> RET == self->macro_metadata->g_level) /*@ C16 "a static-level statement is reported with its own level whatever the reused event slot held" */
__CPROVER_ensures(self->macro_metadata->g_level == LL_Dynamic ==> RET == self->dynamic_log_level) /*@ C16 "a dynamic-level statement is reported with exactly the level it was given" */
''')],
    harness='  TE* t; TE_log_level(t);', dropped=[], trusted=[], min_obligations=3)

# ------------------------------------------------------------------------------------------ _encode_header
EH_PRELUDE = r'''
typedef struct MacroMetadata MacroMetadata; typedef struct LoggerBase LoggerBase; typedef void (*FormatArgsDecoder)(void);
'''
encode_header = dict(
    name='LG.encode_header', primary='C04', props={'C04'}, kind='L',
    desc='LoggerImpl::_encode_header: timestamp, metadata, logger and decoder pointers, in this order, 32 bytes',
    structs=[], prelude=EH_PRELUDE, enforce='LG__encode_header', replace=[],
    funcs=[dict(src=dict(header=LH, cls='LoggerImpl', name='_encode_header'), src_params=['write_buffer', 'timestamp', 'metadata', 'logger_ctx', 'decoder'],
                cfun='LG__encode_header', sig='unsigned char* LG__encode_header(unsigned char* write_buffer, uint64_t timestamp, MacroMetadata const* metadata, LoggerBase* logger_ctx, FormatArgsDecoder decoder)',
                member_fields=[],
                contract=r'''
__CPROVER_requires(__CPROVER_is_fresh(write_buffer, 32))
__CPROVER_assigns(__CPROVER_object_whole(write_buffer))
__CPROVER_ensures(RET == OLD(write_buffer) + 32) /*@ C04 "the header occupies exactly 8 + 3 pointer-sized bytes (what log_statement reserves for it)" */
__CPROVER_ensures(*(uint64_t*)OLD(write_buffer) == timestamp && *(uintptr_t*)(OLD(write_buffer) + 8) == (uintptr_t)metadata && *(uintptr_t*)(OLD(write_buffer) + 16) == (uintptr_t)logger_ctx && *(uintptr_t*)(OLD(write_buffer) + 24) == (uintptr_t)decoder) /*@ C04 "header fields are written in the order and at the offsets the backend reads them" */
''')],
    harness='  unsigned char* b; uint64_t ts; MacroMetadata* m; LoggerBase* l; FormatArgsDecoder d; LG__encode_header(b, ts, m, l, d);',
    dropped=['static member function of a class template (no template-dependent code inside)'], trusted=[], min_obligations=10)

# ------------------------------------------------------------------------------------------ log_statement
LS_PRELUDE = ENUMS + r'''
typedef uintptr_t addr_t;
typedef struct MacroMetadata { Event g_event; LogLevel g_level; } MacroMetadata;
typedef struct TCx { int dummy; } TCx;
typedef struct UserClock { int dummy; } UserClock;
typedef struct LG { ClockSourceType clock_source; UserClock* user_clock; bool valid; } LG;
TCx* thread_context;                       /* static thread_local member */
/* template parameters and FrontendOptions constants: symbolic, so one proof covers every instantiation */
bool immediate_flush, has_dynamic_log_level; QueueType QUEUE_TYPE; uint32_t RETRY_INTERVAL_NS;
#define VERIF_ASSERT(x) __CPROVER_assert(x, "assertion of the source (compiled out of the test build by NDEBUG)")
/* ghosts */
size_t g_clock, g_t_clock_read, g_t_first_prepare, g_clock_reads, g_prepare_calls, g_commits, g_fail_incr, g_flush_calls, g_sleeps;
uint64_t g_ts_value, g_hdr_ts; size_t g_size_pass, g_reserved, g_committed_size; bool g_granted, g_first_failed; addr_t g_buf; size_t g_encoded_args; MacroMetadata const* g_hdr_md; LG* g_hdr_logger;
static inline Event MM_event(MacroMetadata const* m) { return m->g_event; }
static inline LogLevel MM_log_level(MacroMetadata const* m) { return m->g_level; }
uint64_t CLOCK_READ(void) __CPROVER_assigns(g_clock, g_t_clock_read, g_clock_reads, g_ts_value)
__CPROVER_ensures(g_clock == OLD(g_clock) + 1 && g_t_clock_read == g_clock && g_clock_reads == OLD(g_clock_reads) + 1 && RET == g_ts_value);
TCx* GET_LOCAL_THREAD_CONTEXT(void) __CPROVER_assigns() __CPROVER_ensures(__CPROVER_is_fresh(RET, sizeof(TCx)));
/* size pass over the argument pack: any size below 2^32; the encode pass advances by exactly that (unit family CD.*) */
size_t SIZE_PASS(void) __CPROVER_assigns(g_size_pass) __CPROVER_ensures(RET == g_size_pass && g_size_pass <= (((size_t)1) << 32));
addr_t ENCODE_PASS(addr_t wb) __CPROVER_assigns(g_encoded_args) __CPROVER_ensures(RET == wb + g_size_pass && g_encoded_args == OLD(g_encoded_args) + 1);
addr_t LG__prepare_write_buffer(LG* self, size_t total_size)
__CPROVER_assigns(g_clock, g_t_first_prepare, g_prepare_calls, g_granted, g_first_failed, g_reserved, g_buf)
__CPROVER_ensures(g_clock == OLD(g_clock) + 1 && g_prepare_calls == (OLD(g_prepare_calls) < 2 ? OLD(g_prepare_calls) + 1 : 2))   /* saturating: 2 = more than once */
__CPROVER_ensures(OLD(g_prepare_calls) == 0 ? (g_t_first_prepare == g_clock && g_first_failed == (RET == 0)) : (g_t_first_prepare == OLD(g_t_first_prepare) && g_first_failed == OLD(g_first_failed)))
__CPROVER_ensures(g_granted == (RET != 0) && (RET != 0 ==> (g_reserved == total_size && g_buf == RET && RET >= 4096 && RET <= (((addr_t)1) << 47))));
addr_t LG__encode_header(addr_t wb, uint64_t ts, MacroMetadata const* md, LG* logger, int decoder)
__CPROVER_assigns(g_hdr_ts, g_hdr_md, g_hdr_logger) __CPROVER_ensures(RET == wb + 32 && g_hdr_ts == ts && g_hdr_md == md && g_hdr_logger == logger);
void TC_increment_failure_counter(TCx* tc) __CPROVER_assigns(g_fail_incr) __CPROVER_ensures(g_fail_incr == OLD(g_fail_incr) + 1);
void Q_finish_and_commit_write(size_t n)
__CPROVER_requires(g_granted && n == g_reserved) /*@ C08 "exactly the reserved bytes are committed, and only after a successful reservation" */
__CPROVER_assigns(g_commits, g_committed_size) __CPROVER_ensures(g_commits == OLD(g_commits) + 1 && g_committed_size == n);
void SLEEP_RETRY(void) __CPROVER_assigns(g_sleeps) __CPROVER_ensures(g_sleeps == OLD(g_sleeps) + 1);
void LG_flush_log(LG* self) __CPROVER_assigns(g_flush_calls) __CPROVER_ensures(g_flush_calls == OLD(g_flush_calls) + 1);
void MEMCPY_LEVEL(addr_t wb, LogLevel lvl) __CPROVER_assigns() __CPROVER_ensures(1);
#define ATOMIC_LOAD_valid(s, mo) ((s)->valid)
#define DROPPING(q) ((q) == QT_BoundedDropping || (q) == QT_UnboundedDropping)
size_t INITIAL_QUEUE_CAPACITY, UNBOUNDED_QUEUE_MAX_CAPACITY;   /* frontend options: any values */
'''

LS_RULES = ENUM_RULES + [
    (r'detail::compute_encoded_size_and_cache_string_lengths\s*\(\s*thread_context->get_conditional_arg_size_cache\(\)\s*,\s*fmt_args\.\.\.\s*\)', 'SIZE_PASS()', 1),
    (r'detail::encode\s*\(\s*write_buffer\s*,\s*thread_context->get_conditional_arg_size_cache\(\)\s*,\s*fmt_args\.\.\.\s*\)\s*;', 'write_buffer = ENCODE_PASS(write_buffer);', 1),
    (r'detail::decode_and_store_args<detail::remove_cvref_t<Args>\.\.\.>', '0', 1),
    (r'_encode_header\(write_buffer, current_timestamp, macro_metadata, this,', 'LG__encode_header(write_buffer, current_timestamp, macro_metadata, self,', 1),
    (r'detail::rdtsc\(\)', 'CLOCK_READ()', 1), (r'detail::get_timestamp_ns<std::chrono::system_clock>\(\)', 'CLOCK_READ()', 1), (r'user_clock->now\(\)', 'CLOCK_READ()', 1),
    (r'detail::get_local_thread_context<frontend_options_t>\(\)', 'GET_LOCAL_THREAD_CONTEXT()', 1),
    (r'frontend_options_t::queue_type', 'QUEUE_TYPE'), (r'frontend_options_t::blocking_queue_retry_interval_ns', 'RETRY_INTERVAL_NS'),
    # not used by the pinned log_statement: present so that a change which consults them is decided, not an extraction break (seed C09-H1)
    (r'\busing_unbounded_queue\b', '(QUEUE_TYPE == QT_UnboundedBlocking || QUEUE_TYPE == QT_UnboundedDropping)', '?'), (r'frontend_options_t::initial_queue_capacity', 'INITIAL_QUEUE_CAPACITY', '?'), (r'frontend_options_t::unbounded_queue_max_capacity', 'UNBOUNDED_QUEUE_MAX_CAPACITY', '?'),
    (r'std::this_thread::sleep_for\s*\(\s*std::chrono::nanoseconds\s*\{\s*RETRY_INTERVAL_NS\s*\}\s*\)\s*;', 'SLEEP_RETRY();', 1),
    (r'thread_context->get_spsc_queue<QUEUE_TYPE>\(\)\s*\.\s*finish_and_commit_write\(total_size\)', 'Q_finish_and_commit_write(total_size)', 1),
    (r'this->flush_log\(\)', 'LG_flush_log(self)', 1),
    (r'std::memcpy\(write_buffer, &dynamic_log_level, sizeof\(dynamic_log_level\)\)', 'MEMCPY_LEVEL(write_buffer, dynamic_log_level)', 1),
    (r'std::byte\s*(const\s*)?\*\s*(const\s*)?', 'addr_t '),
]

LS_CONTRACT = r'''
__CPROVER_requires(__CPROVER_is_fresh(self, sizeof(*self)) && __CPROVER_is_fresh(macro_metadata, sizeof(MacroMetadata)) && (thread_context == NULL || __CPROVER_is_fresh(thread_context, sizeof(TCx))))
__CPROVER_requires(QUEUE_TYPE >= QT_UnboundedBlocking && QUEUE_TYPE <= QT_BoundedDropping && self->clock_source <= CS_User && self->valid)
__CPROVER_requires(macro_metadata->g_event <= EV_LoggerRemovalRequest && macro_metadata->g_level <= LL_Dynamic && dynamic_log_level <= LL_Dynamic)
/* the calling convention of the log macros (the first three assertions of the source state it) */
__CPROVER_requires(has_dynamic_log_level == (macro_metadata->g_level == LL_Dynamic) && (has_dynamic_log_level ? dynamic_log_level != LL_None : dynamic_log_level == LL_None))
__CPROVER_requires(g_clock == 0 && g_clock_reads == 0 && g_prepare_calls == 0 && g_commits == 0 && g_fail_incr == 0 && g_flush_calls == 0 && g_encoded_args == 0 && !g_granted && g_t_first_prepare == 0 && g_t_clock_read == 0)
__CPROVER_assigns(thread_context, g_clock, g_t_clock_read, g_t_first_prepare, g_clock_reads, g_prepare_calls, g_commits, g_fail_incr, g_flush_calls, g_sleeps, g_ts_value, g_hdr_ts, g_hdr_md, g_hdr_logger, g_size_pass, g_reserved, g_committed_size, g_granted, g_first_failed, g_buf, g_encoded_args)
__CPROVER_ensures(RET == !(DROPPING(QUEUE_TYPE) && g_first_failed)) /*@ C08 "a log call returns false exactly when a dropping queue refused the (single) reservation, true otherwise" */
__CPROVER_ensures(!RET ==> (g_commits == 0 && g_prepare_calls == 1 && g_encoded_args == 0)) /*@ C08 "a discarded statement leaves nothing in the queue" */
__CPROVER_ensures(RET ==> (g_commits == 1 && g_encoded_args == 1 && g_committed_size == 8 + 3 * sizeof(uintptr_t) + g_size_pass + (has_dynamic_log_level ? 1 : 0))) /*@ C08 "a delivered statement is committed exactly once, complete: header, arguments and (if dynamic) its level" */
__CPROVER_ensures(g_fail_incr == ((g_first_failed && macro_metadata->g_event == EV_Log) ? 1 : 0)) /*@ C08 "the discard/blocking counter is incremented once per ordinary statement whose first reservation failed, never for control requests" */
__CPROVER_ensures(g_clock_reads == ((self->clock_source == CS_Tsc || self->clock_source == CS_System || self->user_clock != NULL) ? 1 : 0) && (g_clock_reads == 1 ==> g_t_clock_read < g_t_first_prepare)) /*@ C05 "the timestamp is read once, on the calling thread, before the first attempt to enqueue" */
__CPROVER_ensures((RET && g_clock_reads == 1) ==> g_hdr_ts == g_ts_value) /*@ C05 "the statement carries the clock value read at the start of the call" */
__CPROVER_ensures(RET ==> (g_hdr_md == macro_metadata && g_hdr_logger == self)) /*@ C04 "the header names this statement's metadata and this logger" */
__CPROVER_ensures(g_flush_calls == ((RET && immediate_flush) ? 1 : 0)) /*@ C06 "immediate flush is requested after the statement was committed" */
__CPROVER_ensures((!DROPPING(QUEUE_TYPE)) ==> RET) /*@ C09 "with a blocking queue the call returns only after a reservation succeeded (the retry loop is left only with a buffer)" */
'''
LS_LOOP = {0: r'''
__CPROVER_assigns(write_buffer, g_clock, g_t_first_prepare, g_prepare_calls, g_granted, g_first_failed, g_reserved, g_buf, g_sleeps)
__CPROVER_loop_invariant(g_prepare_calls >= 1 && g_first_failed && g_t_first_prepare == __CPROVER_loop_entry(g_t_first_prepare) && g_granted == (write_buffer != 0) && (write_buffer != 0 ==> (g_reserved == total_size && write_buffer >= 4096 && write_buffer <= (((addr_t)1) << 47))))
'''}

log_statement = dict(
    name='LG.log_statement', primary='C08', props={'C08', 'C09', 'C04', 'C05', 'C06', 'C16'}, kind='S',
    desc='LoggerImpl::log_statement control skeleton: queue type, has_dynamic_log_level, immediate_flush symbolic; the source\'s own debug assertions (size accounting) are obligations',
    structs=[], prelude=LS_PRELUDE, enforce='LG_log_statement',
    replace=['CLOCK_READ', 'GET_LOCAL_THREAD_CONTEXT', 'SIZE_PASS', 'ENCODE_PASS', 'LG__prepare_write_buffer', 'LG__encode_header', 'TC_increment_failure_counter', 'Q_finish_and_commit_write', 'SLEEP_RETRY', 'LG_flush_log', 'MEMCPY_LEVEL'],
    loopcontracts=True,
    funcs=[dict(src=dict(header=LH, cls='LoggerImpl', name='log_statement', ndebug=False), src_params=['dynamic_log_level', 'macro_metadata', 'fmt_args'],
                cfun='LG_log_statement', sig='bool LG_log_statement(LG* self, LogLevel dynamic_log_level, MacroMetadata const* macro_metadata)', ret_default='false',
                cls_c='LG', member_fields=['clock_source', 'user_clock', 'valid'], siblings=['_prepare_write_buffer'], atomics=['valid'],
                methods={'event': 'MM_event', 'log_level': 'MM_log_level', 'increment_failure_counter': 'TC_increment_failure_counter'},
                constexpr=lambda cond: None, pre_rules=LS_RULES, loops=LS_LOOP, contract=LS_CONTRACT)],
    harness='  LG* l; LogLevel d; MacroMetadata* m; LG_log_statement(l, d, m);',
    dropped=['the argument pack: size pass / encode pass / decoder pointer are three stubs ("encode advances by what the size pass returned" is the conclusion of the codec units)', 'byte addresses as integers',
             'thread_local storage of thread_context (a plain global here)'],
    trusted=['_prepare_write_buffer = prepare_write of the thread\'s queue (C01/C02 contracts): null or a grant of exactly the requested size', 'codec triple (units CD.*) for the argument pack'],
    min_obligations=50)

# ------------------------------------------------------------------------------------------ control requests are retried until accepted
CR_PRELUDE = ENUMS + r'''
typedef struct LG { LogLevel backtrace_flush_level; } LG;
typedef struct FlagObj { bool value; } FlagObj;
size_t g_attempts, g_accepted, g_sleeps, g_flag_loads; bool g_last_ok; uintptr_t g_arg; Event g_event_sent; bool g_flag_seen_true; FlagObj* g_flag;
bool LOG_STATEMENT(LG* self, Event ev, uintptr_t arg)
__CPROVER_assigns(g_attempts, g_accepted, g_last_ok, g_arg, g_event_sent)
__CPROVER_ensures(g_attempts == OLD(g_attempts) + 1 && g_last_ok == RET && g_arg == arg && g_event_sent == ev && g_accepted == OLD(g_accepted) + (RET ? 1 : 0));
void SLEEP(void) __CPROVER_assigns(g_sleeps) __CPROVER_ensures(1);
bool FLAG_LOAD(FlagObj* f) __CPROVER_assigns(g_flag_loads, g_flag_seen_true, g_flag) __CPROVER_ensures(g_flag_loads == 1 && g_flag_seen_true == RET && g_flag == f);   /* g_flag_loads: 1 = loaded at least once */
#define ATOMIC_STORE_backtrace_flush_level(s, v, mo) ((s)->backtrace_flush_level = (v))
'''
CR_COMMON_RULES = [(r'static\s+constexpr\s+MacroMetadata\s+macro_metadata\s*\{.*?MacroMetadata::Event::(\w+)\s*\}\s*;', r'Event const macro_metadata_event = EV_\1;', 1),
                   (r'std::this_thread::sleep_for\s*\([^;]*\)\s*;', 'SLEEP();'), ]


def ctl_unit(name, method, params, sig, ev, arg_rule, extra_rules, contract_extra, loops, harness, props, desc):
    return dict(
        name='LG.' + name, primary='C08', props=set(props), kind='S', desc=desc,
        structs=[], prelude=CR_PRELUDE, enforce='LG_' + method, replace=['LOG_STATEMENT', 'SLEEP', 'FLAG_LOAD'], loopcontracts=True,
        funcs=[dict(src=dict(header=LH, cls='LoggerImpl', name=method), src_params=params, cfun='LG_' + method, sig=sig, cls_c='LG', member_fields=['backtrace_flush_level'],
                    atomics=['backtrace_flush_level'], pre_rules=ENUM_RULES[1:2] + CR_COMMON_RULES + [arg_rule] + extra_rules, loops=loops,
                    contract=r'''
__CPROVER_requires(__CPROVER_is_fresh(self, sizeof(*self)) && g_attempts == 0 && g_accepted == 0 && g_flag_loads == 0)
__CPROVER_assigns(g_attempts, g_accepted, g_last_ok, g_arg, g_event_sent, g_sleeps, g_flag_loads, g_flag_seen_true, g_flag, self->backtrace_flush_level)
__CPROVER_ensures(g_accepted == 1 && g_last_ok && g_event_sent == %s) /*@ C08 "the control request is retried until the queue accepted it, and it is enqueued exactly once (never discarded)" */
''' % ev + contract_extra)],
        harness=harness,
        dropped=['the constexpr MacroMetadata of the request (only its event kind is kept)', 'sleep/yield between retries'],
        trusted=['log_statement returns true iff the request was enqueued (unit LG.log_statement)'], min_obligations=10)


RETRY_LOOP = r'''
__CPROVER_assigns(g_attempts, g_accepted, g_last_ok, g_arg, g_event_sent, g_sleeps)
__CPROVER_loop_invariant(g_accepted == 0 && (g_attempts > 0 ==> !g_last_ok))
'''
flush_log = ctl_unit(
    'flush_log', 'flush_log', ['sleep_duration_ns'], 'void LG_flush_log(LG* self, uint32_t sleep_duration_ns)', 'EV_Flush',
    (r'!\s*this->log_statement<false,\s*false>\s*\(\s*LL_None\s*,\s*&macro_metadata\s*,\s*reinterpret_cast<uintptr_t>\(backend_thread_flushed_ptr\)\s*\)', '!LOG_STATEMENT(self, macro_metadata_event, (uintptr_t)backend_thread_flushed_ptr)', 1),
    [(r'std::atomic<bool>\s+backend_thread_flushed\s*\{\s*false\s*\}\s*;', 'static FlagObj backend_thread_flushed; backend_thread_flushed.value = false;   /* static: the ghost comparison of addresses outlives the call */', 1),
     (r'std::atomic<bool>\s*\*\s*backend_thread_flushed_ptr', 'FlagObj* backend_thread_flushed_ptr', 1),
     (r'backend_thread_flushed\.load\(\)', 'FLAG_LOAD(&backend_thread_flushed)', 1), (r'std::this_thread::yield\(\)\s*;', 'SLEEP();')],
    r'''__CPROVER_ensures(g_flag_loads >= 1 && g_flag_seen_true && (uintptr_t)g_flag == g_arg) /*@ C06 "flush_log returns only after it observed the flag - the very flag whose address it sent - set by the backend" */
''',
    {r'while\s*\(\s*!LOG_STATEMENT': RETRY_LOOP.replace('g_sleeps)', 'g_sleeps, backend_thread_flushed)'), r'while\s*\(\s*!FLAG_LOAD': r'''
__CPROVER_assigns(g_flag_loads, g_flag_seen_true, g_flag, g_sleeps)
__CPROVER_loop_invariant(g_accepted == 1 && g_last_ok && (g_flag_loads > 0 ==> (!g_flag_seen_true && g_flag == &backend_thread_flushed)))
'''},
    '  LG* l; uint32_t d; LG_flush_log(l, d);', {'C08', 'C06'},
    'LoggerImpl::flush_log: the flush request is never discarded; the call returns only after the backend set the flag it was given')
init_backtrace = ctl_unit(
    'init_backtrace', 'init_backtrace', ['max_capacity', 'flush_level'], 'void LG_init_backtrace(LG* self, uint32_t max_capacity, LogLevel flush_level)', 'EV_InitBacktrace',
    (r'!\s*this->log_statement<false,\s*false>\s*\(\s*LL_None\s*,\s*&macro_metadata\s*,\s*max_capacity\s*\)', '!LOG_STATEMENT(self, macro_metadata_event, (uintptr_t)max_capacity)', 1), [],
    r'''__CPROVER_ensures(g_arg == max_capacity && self->backtrace_flush_level == flush_level) /*@ C18 "init_backtrace sends the capacity to the backend and records the flush level" */
''', {r'while\s*\(\s*!LOG_STATEMENT': RETRY_LOOP}, '  LG* l; uint32_t c; LogLevel f; LG_init_backtrace(l, c, f);', {'C08', 'C18'},
    'LoggerImpl::init_backtrace: request retried until accepted; flush level stored')
flush_backtrace = ctl_unit(
    'flush_backtrace', 'flush_backtrace', [], 'void LG_flush_backtrace(LG* self)', 'EV_FlushBacktrace',
    (r'!\s*this->log_statement<false,\s*false>\s*\(\s*LL_None\s*,\s*&macro_metadata\s*\)', '!LOG_STATEMENT(self, macro_metadata_event, 0)', 1), [],
    '', {r'while\s*\(\s*!LOG_STATEMENT': RETRY_LOOP}, '  LG* l; LG_flush_backtrace(l);', {'C08', 'C18'},
    'LoggerImpl::flush_backtrace: request retried until accepted')

UNITS = [should_log_rt, should_log_ct, te_level, encode_header, log_statement, flush_log, init_backtrace, flush_backtrace]

# ------------------------------------------------------------------------------------------ TransitEvent::copy_to / move assignment
TE_STRUCT = dict(c='TEf', header=TH, cls='TransitEvent',
                 typemap={'field:macro_metadata': 'void const*', 'field:logger_base': 'void*', 'field:flush_flag': 'void*', 'field:formatted_msg': 'FBuf*', 'field:named_args': 'NAvec*', 'std::unique_ptr<FormatBuffer>': 'FBuf*', 'std::unique_ptr<std::vector<std::pair<std::string, std::string>>>': 'NAvec*',
                          'std::atomic<bool>*': 'void*', 'LogLevel': 'LogLevel'})
TEF_PRELUDE = ENUMS + r'''
typedef struct FBuf { size_t g_content; size_t g_size; } FBuf;     /* the formatted message: content id + length (0 = empty) */
typedef struct NAvec { size_t g_content; } NAvec;                  /* the key / value pairs: content id */
@STRUCT:TEf@
NAvec g_new_na; size_t g_na_copies;
static inline size_t FB_size(FBuf* b) { return b->g_size; }
static inline void FB_reserve(FBuf* b, size_t n) { (void)b; (void)n; }
/* fmt::basic_memory_buffer::append(other): the text of `other` is added BEHIND what the buffer already holds */
static inline void FB_append(FBuf* b, FBuf* o) { if (b->g_size == 0) { b->g_content = o->g_content; b->g_size = o->g_size; } else { b->g_content = 0; b->g_size += o->g_size; } }
static inline NAvec* NA_copy(NAvec* src) { g_na_copies++; g_new_na.g_content = src->g_content; return &g_new_na; }
'''
te_copy = dict(
    name='TE.copy_to', primary='C18', props={'C18'}, kind='L',
    desc='TransitEvent::copy_to (how a backtrace statement is stored): the copy carries the same timestamp, metadata, logger, level and text, and its own copy of the key / value pairs',
    structs=[TE_STRUCT], prelude=TEF_PRELUDE, enforce='TE_copy_to', replace=[],
    funcs=[dict(src=dict(header=TH, cls='TransitEvent', name='copy_to'), src_params=['other'], cfun='TE_copy_to', sig='void TE_copy_to(TEf* self, TEf* other)', struct='TEf', cls_c='TE',
                methods={'reserve': 'FB_reserve', 'size': 'FB_size'},
                pre_rules=[(r'\bother\.', 'other->'), (r'other->formatted_msg->append\(\*formatted_msg\)\s*;', 'FB_append(other->formatted_msg, formatted_msg);'),
                           (r'std::make_unique<std::vector<std::pair<std::string,\s*std::string>>>\(\*named_args\)', 'NA_copy(named_args)')],
                contract=r'''
__CPROVER_requires(__CPROVER_is_fresh(self, sizeof(*self)) && __CPROVER_is_fresh(other, sizeof(*other)) && __CPROVER_is_fresh(self->formatted_msg, sizeof(FBuf)) && __CPROVER_is_fresh(other->formatted_msg, sizeof(FBuf)))
__CPROVER_requires((self->named_args == NULL || __CPROVER_is_fresh(self->named_args, sizeof(NAvec))) && other->named_args == NULL && other->formatted_msg->g_size == 0 && self->formatted_msg->g_content != 0 && g_na_copies == 0)
__CPROVER_assigns(__CPROVER_object_whole(other), __CPROVER_object_whole(other->formatted_msg), g_na_copies, __CPROVER_object_whole(&g_new_na))
__CPROVER_ensures(other->timestamp == self->timestamp && other->macro_metadata == self->macro_metadata && other->logger_base == self->logger_base && other->dynamic_log_level == self->dynamic_log_level) /*@ C18 "a stored backtrace statement keeps its timestamp, source metadata, logger and level (the flush flag is not demanded: a backtrace statement has none)" */
__CPROVER_ensures(other->formatted_msg->g_content == self->formatted_msg->g_content && other->formatted_msg->g_size == self->formatted_msg->g_size && other->formatted_msg != self->formatted_msg) /*@ C18 "it keeps its text, in a buffer of its own (the original slot is reused for the next statement)" */
__CPROVER_ensures(self->named_args == NULL ? other->named_args == NULL : (other->named_args != NULL && other->named_args != self->named_args && other->named_args->g_content == self->named_args->g_content && g_na_copies == 1)) /*@ C18,C19 "it keeps its key / value pairs, as a copy of its own" */
''')],
    harness='  TEf* a; TEf* b; TE_copy_to(a, b);',
    dropped=['texts and pair lists as content ids', 'fmt buffer reserve'], trusted=['the destination is a freshly constructed TransitEvent (empty buffer, no pairs), as at the one call site in _process_transit_event'], min_obligations=10)
te_move = dict(
    name='TE.move_assign', primary='C03', props={'C03', 'C18'}, kind='L',
    desc='TransitEvent move assignment (how TransitEventBuffer::_expand and BacktraceStorage move events): every field travels with the event',
    structs=[TE_STRUCT], prelude=TEF_PRELUDE, enforce='TE_move_assign', replace=[],
    funcs=[dict(src=dict(header=TH, cls='TransitEvent', name='operator='), src_params=['other'], cfun='TE_move_assign', sig='void TE_move_assign(TEf* self, TEf* other)', struct='TEf', cls_c='TE',
                pre_rules=[(r'\bother\.', 'other->'), (r'this\s*!=\s*&other', 'self != other'), (r'std::move\((other->\w+)\)', r'\1'), (r'return\s+\*this\s*;', 'return;')],
                contract=r'''
__CPROVER_requires(__CPROVER_is_fresh(self, sizeof(*self)) && __CPROVER_is_fresh(other, sizeof(*other)))
__CPROVER_assigns(__CPROVER_object_whole(self))
__CPROVER_ensures(self->timestamp == other->timestamp && self->macro_metadata == other->macro_metadata && self->logger_base == other->logger_base && self->formatted_msg == other->formatted_msg && self->named_args == other->named_args && self->flush_flag == other->flush_flag && self->dynamic_log_level == other->dynamic_log_level) /*@ C03,C18 "a moved event is the same statement: timestamp, metadata, logger, text, pairs, flush flag and level all travel with it" */
''')],
    harness='  TEf* a; TEf* b; TE_move_assign(a, b);',
    dropped=['unique_ptr move as pointer copy (the moved-from event is not read again)'], trusted=[], min_obligations=5)
UNITS += [te_copy, te_move]

# ------------------------------------------------------------------------------------------ LoggerImpl::_prepare_write_buffer
PW_PRELUDE = r'''
typedef struct Qx { int d; } Qx;
typedef struct TCx { Qx g_queue; } TCx;                /* the calling thread's context: its one queue (of the frontend's queue type) */
typedef struct LG { TCx* thread_context; } LG;
size_t g_prepares, g_prepare_arg; Qx* g_prepared_queue; unsigned char* g_grant;
static inline Qx* TC_get_spsc_queue(TCx* t) { return &t->g_queue; }
unsigned char* Q_prepare_write(Qx* q, size_t n) __CPROVER_assigns(g_prepares, g_prepare_arg, g_prepared_queue) __CPROVER_ensures(g_prepares == OLD(g_prepares) + 1 && g_prepare_arg == n && g_prepared_queue == q && RET == g_grant);
'''
prepare_wb = dict(
    name='LG.prepare_write_buffer', primary='C08', props={'C08', 'C03', 'C04'}, kind='S',
    desc='LoggerImpl::_prepare_write_buffer: one reservation of exactly the computed record size on the calling thread\'s own queue; its answer is handed back unchanged',
    structs=[], prelude=PW_PRELUDE, enforce='LG__prepare_write_buffer', replace=['Q_prepare_write'],
    funcs=[dict(src=dict(header=LH, cls='LoggerImpl', name='_prepare_write_buffer'), src_params=['total_size'], cfun='LG__prepare_write_buffer', sig='unsigned char* LG__prepare_write_buffer(LG* self, size_t total_size)', cls_c='LG',
                member_fields=['thread_context'], ret_default='NULL',
                pre_rules=[(r'thread_context->get_spsc_queue<frontend_options_t::queue_type>\(\)\s*\.prepare_write\(', 'Q_prepare_write(TC_get_spsc_queue(thread_context), ')],
                contract=r'''
__CPROVER_requires(__CPROVER_is_fresh(self, sizeof(*self)) && __CPROVER_is_fresh(self->thread_context, sizeof(TCx)) && g_prepares == 0)
__CPROVER_assigns(g_prepares, g_prepare_arg, g_prepared_queue)
__CPROVER_ensures(g_prepares == 1 && g_prepare_arg == total_size && g_prepared_queue == &self->thread_context->g_queue) /*@ C04,C08 "the space reserved for a statement is exactly its computed encoded size, on the calling thread's own queue, in one reservation" */
__CPROVER_ensures(RET == g_grant) /*@ C08 "the queue's answer (granted or refused) is what log_statement acts on" */
''')],
    harness='  LG* l; size_t n; LG__prepare_write_buffer(l, n);',
    dropped=['the queue union / template queue type as one queue object per thread context'], trusted=['the queues\' prepare_write by units BQ.prepare_write / UQ.prepare_write'], min_obligations=3)
UNITS += [prepare_wb]

# ------------------------------------------------------------------------------------------ LoggerBase::set_log_level
SL_PRELUDE = ENUMS + r'''
typedef struct LBs { LogLevel log_level; } LBs;
#define ATOMIC_STORE_log_level(s, v, mo) ((s)->log_level = (v))
'''
set_level = dict(
    name='LB.set_log_level', primary='C16', props={'C16'}, kind='L',
    desc='LoggerBase::set_log_level: the new threshold is stored exactly as given (the next level check on any thread uses it); the internal Backtrace level is refused and changes nothing',
    structs=[], prelude=SL_PRELUDE, enforce='LB_set_log_level', replace=[],
    funcs=[dict(src=dict(header=BH, cls='LoggerBase', name='set_log_level'), src_params=['new_log_level'], cfun='LB_set_log_level', sig='void LB_set_log_level(LBs* self, LogLevel new_log_level)', cls_c='LB',
                member_fields=['log_level'], atomics=['log_level'], exceptions=True, may_throw=[],
                pre_rules=[ENUM_RULES[1], (r'throw\s*\(?\s*QuillError\s*\{.*?\}\s*\)?\s*;', 'throw(QuillError{"x"});'), (r'__builtin_expect\((.*?),\s*[01]\)', r'(\1)', '?')],
                contract=r'''
__CPROVER_requires(__CPROVER_is_fresh(self, sizeof(*self)) && g_exc == 0 && new_log_level <= LL_Dynamic)
__CPROVER_assigns(self->log_level, g_exc)
__CPROVER_ensures(new_log_level != LL_Backtrace ==> (g_exc == 0 && self->log_level == new_log_level)) /*@ C16 "a level change takes effect as given: statements are enqueued iff at or above the logger's level at the moment of the call" */
__CPROVER_ensures(new_log_level == LL_Backtrace ==> (g_exc == EXC_STD && self->log_level == OLD(self->log_level))) /*@ C16 "the internal Backtrace level is refused and the threshold keeps its value" */
''')],
    harness='  LBs* l; LogLevel n; LB_set_log_level(l, n);', dropped=['std::atomic<LogLevel> store as a plain store (sequentially consistent view)'], trusted=[], min_obligations=4)
UNITS += [set_level]
