"""C16 — LogMacros.h: the four call macros.  Macro definitions vanish in preprocessor output, so each unit preprocesses ONE USE
of the macro with placeholder tokens through the real header; the expansion is the verified text."""
import re
H = 'quill/LogMacros.h'
PRELUDE = r'''
typedef uint8_t LogLevel; enum { LL_TraceL3, LL_TraceL2, LL_TraceL1, LL_Debug, LL_Info, LL_Notice, LL_Warning, LL_Error, LL_Critical, LL_Backtrace, LL_None, LL_Dynamic };
typedef uint8_t Event; enum { EV_Log, EV_InitBacktrace, EV_FlushBacktrace, EV_Flush, EV_LogWithRuntimeMetadata, EV_LoggerRemovalRequest };
typedef struct LGx { LogLevel log_level; } LGx;
typedef struct MM { LogLevel level; Event event; } MM;
LGx* LOGGER; LogLevel LEVEL;        /* placeholder tokens of the macro use: symbolic */
size_t g_arg_evals, g_log_calls, g_checks; LogLevel g_passed_dynamic_level, g_passed_md_level; Event g_passed_event; bool g_passed_dyn_flag; LGx* g_passed_logger; size_t g_evals_at_call;
#define LIKELY_(x) (x)
static inline bool SHOULD_LOG(LGx* l, LogLevel lvl) { g_checks++; return lvl >= l->log_level; }
int ARG1(void) __CPROVER_assigns(g_arg_evals) __CPROVER_ensures(g_arg_evals == OLD(g_arg_evals) + 1);
int ARG2(void) __CPROVER_assigns(g_arg_evals) __CPROVER_ensures(g_arg_evals == OLD(g_arg_evals) + 1);
bool LOG_STATEMENT(LGx* l, int flush, bool dyn, LogLevel dynamic_level, MM const* md, int a1, int a2)
__CPROVER_assigns(g_log_calls, g_passed_dynamic_level, g_passed_md_level, g_passed_event, g_passed_dyn_flag, g_passed_logger, g_evals_at_call)
__CPROVER_ensures(g_log_calls == OLD(g_log_calls) + 1 && g_passed_dynamic_level == dynamic_level && g_passed_md_level == md->level && g_passed_event == md->event && g_passed_dyn_flag == dyn && g_passed_logger == l && g_evals_at_call == g_arg_evals);
'''
RULES = [(r'LOGGER->template\s+should_log_statement<\s*(?:quill::)?(?:LogLevel::)?(\w+)\s*>\(\)', lambda m: 'SHOULD_LOG(LOGGER, %s)' % ('LEVEL' if m.group(1) == 'LEVEL' else 'LL_' + m.group(1)), '?'),
         (r'LOGGER->should_log_statement\(([\w:]+)\)', lambda m: 'SHOULD_LOG(LOGGER, %s)' % re.sub(r'^(?:quill::)?LogLevel::', 'LL_', m.group(1)), '?'),
         (r'static\s+constexpr\s+char\s+const\*\s+fmt_enriched\s*=[^;]*;', '', '?'),
         (r'static\s+constexpr\s+quill::MacroMetadata\s+macro_metadata\s*\{.*?,\s*(?:quill::LogLevel::)?(\w+)\s*,\s*quill::MacroMetadata::Event::(\w+)\s*\}\s*;',
          lambda m: 'MM const macro_metadata = { %s, EV_%s };' % ('LEVEL' if m.group(1) == 'LEVEL' else 'LL_' + m.group(1), m.group(2)), 1),
         (r'LOGGER->template\s+log_statement<\s*(\w+)\s*,\s*(true|false)\s*>\s*\(', r'LOG_STATEMENT(LOGGER, \1, \2, ', 1),
         (r'quill::LogLevel::(\w+)', r'LL_\1', '?'), (r',\s*FILE_,\s*LINE_,\s*FUNCTION_\)', ')', '?')]


def macro_unit(name, use, dynamic, md_level, event, desc):
    should = '(LEVEL >= LOGGER->log_level)' if md_level != 'LL_Backtrace' else '(LL_Backtrace >= LOGGER->log_level)'
    return dict(
        name='MAC.' + name, primary='C16', props={'C16'}, kind='S', desc=desc,
        structs=[], prelude=PRELUDE, enforce='VERIF_USE', replace=['ARG1', 'ARG2', 'LOG_STATEMENT'],
        funcs=[dict(src=dict(header=H, cls=None, name='VERIF_USE', line_re=r'define\s+%s\b' % use.split('(')[0],
                             pp_text='#include "quill/LogMacros.h"\nvoid VERIF_USE(void) { %s; }\n' % use),
                    src_params=None, cfun='VERIF_USE', sig='void VERIF_USE(void)', member_fields=[], pre_rules=RULES,
                    contract=r'''
__CPROVER_requires(__CPROVER_is_fresh(LOGGER, sizeof(LGx)) && LEVEL <= LL_Critical && LOGGER->log_level <= LL_None && g_arg_evals == 0 && g_log_calls == 0 && g_checks == 0)
__CPROVER_assigns(g_arg_evals, g_log_calls, g_checks, g_passed_dynamic_level, g_passed_md_level, g_passed_event, g_passed_dyn_flag, g_passed_logger, g_evals_at_call)
__CPROVER_ensures(!%(should)s ==> (g_arg_evals == 0 && g_log_calls == 0)) /*@ C16 "below the logger's level the statement is not enqueued and its arguments are not evaluated" */
__CPROVER_ensures(%(should)s ==> (g_log_calls == 1 && g_arg_evals == 2 && g_evals_at_call == 2 && g_passed_logger == LOGGER)) /*@ C16 "at or above the logger's level the statement is enqueued exactly once, with every argument evaluated exactly once" */
__CPROVER_ensures(%(should)s ==> (g_passed_md_level == %(md)s && g_passed_event == %(ev)s && %(dyn)s)) /*@ C16 "the statement carries its level: static level in the metadata and no dynamic level, or metadata level Dynamic plus exactly the run-time level" */
__CPROVER_ensures(g_checks == 1) /*@ C16 "the level is checked once, at the moment of the call" */
''' % dict(should=should, md=md_level, ev=event, dyn=('(g_passed_dyn_flag && g_passed_dynamic_level == LEVEL)' if dynamic else '(!g_passed_dyn_flag && g_passed_dynamic_level == LL_None)')))],
        harness='  VERIF_USE();',
        dropped=['the constexpr MacroMetadata initialiser except level and event', '__FILE__/__LINE__/function name strings', 'template arguments of log_statement as ordinary arguments'],
        trusted=['should_log_statement = (level >= logger level) (units LB.should_log[*])', 'log_statement by its contract (unit LG.log_statement)'], min_obligations=10)


UNITS = [
    macro_unit('LOGGER_CALL', 'QUILL_LOGGER_CALL(LIKELY_, LOGGER, TAGS, LEVEL, FMT, ARG1(), ARG2())', False, 'LEVEL', 'EV_Log', 'QUILL_LOGGER_CALL (all static-level LOG_* macros expand to it)'),
    macro_unit('DYNAMIC_LOGGER_CALL', 'QUILL_DYNAMIC_LOGGER_CALL(LOGGER, TAGS, LEVEL, FMT, ARG1(), ARG2())', True, 'LL_Dynamic', 'EV_Log', 'QUILL_DYNAMIC_LOGGER_CALL (LOG_DYNAMIC and friends)'),
    macro_unit('BACKTRACE_LOGGER_CALL', 'QUILL_BACKTRACE_LOGGER_CALL(LOGGER, TAGS, FMT, ARG1(), ARG2())', False, 'LL_Backtrace', 'EV_Log', 'QUILL_BACKTRACE_LOGGER_CALL (LOG_BACKTRACE)'),
    macro_unit('LOG_RUNTIME_METADATA', 'QUILL_LOG_RUNTIME_METADATA(LOGGER, LEVEL, FILE_, LINE_, FUNCTION_, FMT, ARG1(), ARG2())', True, 'LL_Dynamic', 'EV_LogWithRuntimeMetadata', 'QUILL_LOG_RUNTIME_METADATA'),
]

# ------------------------------------------------------------------------------------------ the rate-limited call macros
LIM_PRELUDE = PRELUDE + r'''
/* thread_local state of the macro use as globals with symbolic pre-state */
uint64_t g_call_count, g_next_log_at, g_suppressed; int64_t g_next_log_time, g_now, g_min_interval; size_t N_OCC;
int64_t STEADY_NOW(void) __CPROVER_assigns() __CPROVER_ensures(RET == g_now);
int ARG_COUNT(uint64_t v) __CPROVER_assigns(g_arg_evals) __CPROVER_ensures(g_arg_evals == OLD(g_arg_evals) + 1);
#define SHOULD (LEVEL >= LOGGER->log_level)
'''
LIM_RULES = RULES + [(r'thread_local\s+uint64_t\s+call_count\s*=\s*0\s*;', ''), (r'thread_local\s+uint64_t\s+next_log_at\s*=\s*0\s*;', ''), (r'\bcall_count\b', 'g_call_count'), (r'\bnext_log_at\b', 'g_next_log_at'),
                     (r'thread_local\s+std::chrono::time_point<std::chrono::steady_clock>\s+next_log_time\s*;', ''), (r'thread_local\s+uint64_t\s+suppressed_log_count\s*\{0\}\s*;', ''),
                     (r'auto\s+const\s+now\s*=\s*std::chrono::steady_clock::now\(\)\s*;', 'int64_t const now = STEADY_NOW();'), (r'\bnext_log_time\b', 'g_next_log_time'), (r'\bsuppressed_log_count\b', 'g_suppressed'),
                     (r'\bMIN_INTERVAL\b', 'g_min_interval'), (r',\s*g_suppressed \+ 1\)', ', ARG_COUNT(g_suppressed + 1))')]
every_n = dict(
    name='MAC.LOGGER_CALL_LIMIT_EVERY_N', primary='C16', props={'C16'}, kind='S',
    desc='QUILL_LOGGER_CALL_LIMIT_EVERY_N (LOG_*_LIMIT_EVERY_N): below the level nothing happens; otherwise the statement is enqueued exactly on every N-th passing call (the first included) and its arguments are evaluated only then',
    structs=[], prelude=LIM_PRELUDE, enforce='VERIF_USE', replace=['ARG1', 'ARG2', 'LOG_STATEMENT'],
    funcs=[dict(src=dict(header=H, cls=None, name='VERIF_USE', line_re=r'define\s+QUILL_LOGGER_CALL_LIMIT_EVERY_N\b',
                         pp_text='#include "quill/LogMacros.h"\nvoid VERIF_USE(void) { QUILL_LOGGER_CALL_LIMIT_EVERY_N(N_OCC, LIKELY_, LOGGER, TAGS, LEVEL, FMT, ARG1(), ARG2()); }\n'),
                src_params=None, cfun='VERIF_USE', sig='void VERIF_USE(void)', member_fields=[], pre_rules=LIM_RULES,
                contract=r'''
__CPROVER_requires(__CPROVER_is_fresh(LOGGER, sizeof(LGx)) && LEVEL <= LL_Critical && LOGGER->log_level <= LL_None && g_arg_evals == 0 && g_log_calls == 0 && g_checks == 0 && g_call_count < (1ULL << 62) && g_next_log_at < (1ULL << 62) && N_OCC < (1ULL << 32))
__CPROVER_assigns(g_arg_evals, g_log_calls, g_checks, g_passed_dynamic_level, g_passed_md_level, g_passed_event, g_passed_dyn_flag, g_passed_logger, g_evals_at_call, g_call_count, g_next_log_at)
__CPROVER_ensures(!SHOULD ==> (g_arg_evals == 0 && g_log_calls == 0 && g_call_count == OLD(g_call_count) && g_next_log_at == OLD(g_next_log_at))) /*@ C16 "below the logger's level a rate-limited statement is not enqueued, not counted, and its arguments are not evaluated" */
__CPROVER_ensures((SHOULD && OLD(g_call_count) == OLD(g_next_log_at)) ==> (g_log_calls == 1 && g_arg_evals == 2 && g_evals_at_call == 2 && g_next_log_at == OLD(g_next_log_at) + N_OCC && g_passed_md_level == LEVEL)) /*@ C16 "on the calls it is due (the first, then every N-th) the statement is enqueued once with every argument evaluated once" */
__CPROVER_ensures((SHOULD && OLD(g_call_count) != OLD(g_next_log_at)) ==> (g_log_calls == 0 && g_arg_evals == 0 && g_next_log_at == OLD(g_next_log_at))) /*@ C16 "a suppressed call enqueues nothing and evaluates no argument" */
__CPROVER_ensures(SHOULD ==> g_call_count == OLD(g_call_count) + 1)
''')],
    harness='  VERIF_USE();',
    dropped=['thread_local counters as globals with symbolic pre-state', 'the constexpr MacroMetadata initialiser except level and event'], trusted=['should_log_statement / log_statement as in MAC.LOGGER_CALL'], min_obligations=10)
limit = dict(
    name='MAC.LOGGER_CALL_LIMIT', primary='C16', props={'C16'}, kind='S',
    desc='QUILL_LOGGER_CALL_LIMIT (LOG_*_LIMIT): below the level nothing happens; a passing call inside the minimum interval is only counted; outside it the statement is enqueued once with its arguments and the number of occurrences since the last one, and the interval restarts',
    structs=[], prelude=LIM_PRELUDE, enforce='VERIF_USE', replace=['ARG1', 'ARG2', 'ARG_COUNT', 'LOG_STATEMENT', 'STEADY_NOW'],
    funcs=[dict(src=dict(header=H, cls=None, name='VERIF_USE', line_re=r'define\s+QUILL_LOGGER_CALL_LIMIT\b',
                         pp_text='#include "quill/LogMacros.h"\nvoid VERIF_USE(void) { QUILL_LOGGER_CALL_LIMIT(MIN_INTERVAL, LIKELY_, LOGGER, TAGS, LEVEL, "plain", ARG1(), ARG2()); }\n'),
                src_params=None, cfun='VERIF_USE', sig='void VERIF_USE(void)', member_fields=[],
                constexpr=lambda cond: (False if '_contains_named_args' in cond else None),
                pre_rules=[(r'LOG_STATEMENT\(LOGGER, (\w+), (true|false), ', r'LOG_STATEMENT3(LOGGER, \1, \2, ', '?')] + LIM_RULES + [(r'LOG_STATEMENT\(LOGGER,', 'LOG_STATEMENT3(LOGGER,')],
                contract=r'''
__CPROVER_requires(__CPROVER_is_fresh(LOGGER, sizeof(LGx)) && LEVEL <= LL_Critical && LOGGER->log_level <= LL_None && g_arg_evals == 0 && g_log_calls == 0 && g_checks == 0 && g_suppressed < (1ULL << 62) && g_now >= 0 && g_now < (1LL << 61) && g_min_interval >= 0 && g_min_interval < (1LL << 61) && g_next_log_time >= 0 && g_next_log_time < (1LL << 62))
__CPROVER_assigns(g_arg_evals, g_log_calls, g_checks, g_passed_dynamic_level, g_passed_md_level, g_passed_event, g_passed_dyn_flag, g_passed_logger, g_evals_at_call, g_suppressed, g_next_log_time)
__CPROVER_ensures(!SHOULD ==> (g_arg_evals == 0 && g_log_calls == 0 && g_suppressed == OLD(g_suppressed) && g_next_log_time == OLD(g_next_log_time))) /*@ C16 "below the logger's level a rate-limited statement is not enqueued, not counted, and its arguments are not evaluated" */
__CPROVER_ensures((SHOULD && g_now < OLD(g_next_log_time)) ==> (g_log_calls == 0 && g_arg_evals == 0 && g_suppressed == OLD(g_suppressed) + 1 && g_next_log_time == OLD(g_next_log_time))) /*@ C16 "inside the minimum interval the call is only counted: nothing is enqueued, no argument is evaluated" */
__CPROVER_ensures((SHOULD && g_now >= OLD(g_next_log_time)) ==> (g_log_calls == 1 && g_arg_evals == 3 && g_evals_at_call == 3 && g_suppressed == 0 && g_next_log_time == g_now + g_min_interval && g_passed_md_level == LEVEL)) /*@ C16 "outside the interval the statement is enqueued once with its arguments and the occurrence count, and the interval restarts" */
''')],
    harness='  VERIF_USE();',
    dropped=['thread_local state as globals with symbolic pre-state', 'std::chrono::steady_clock time points as int64', 'the named-args arm of the macro (chosen at compile time from the format string: this use has a plain format)', 'the text appended to the format'],
    trusted=['should_log_statement / log_statement as in MAC.LOGGER_CALL'], min_obligations=10)
for u_ in (limit,):
    u_['prelude'] = u_['prelude'] + r'''
bool LOG_STATEMENT3(LGx* l, int flush, bool dyn, LogLevel dynamic_level, MM const* md, int a1, int a2, int a3)
__CPROVER_assigns(g_log_calls, g_passed_dynamic_level, g_passed_md_level, g_passed_event, g_passed_dyn_flag, g_passed_logger, g_evals_at_call)
__CPROVER_ensures(g_log_calls == OLD(g_log_calls) + 1 && g_passed_dynamic_level == dynamic_level && g_passed_md_level == md->level && g_passed_event == md->event && g_passed_dyn_flag == dyn && g_passed_logger == l && g_evals_at_call == g_arg_evals);
'''
    u_['replace'] = u_['replace'] + ['LOG_STATEMENT3']
UNITS += [every_n, limit]
