"""Bounded stand-ins of form (b): exhaustive native enumeration of the REAL C++ function (DESIGN §2.5).  Never counted as proved."""
sanitize = dict(
    name='BW.sanitize', primary='C04', props={'C04'}, kind='L', funcs=[], enforce=None,
    desc='BackendWorker::sanitize_non_printable_chars against its specification, exhaustively over short strings (output positions depend on a prefix sum of earlier escapes: no single ghost index carries it)',
    native=dict(cpp='sanitize.cpp', file='include/quill/backend/BackendWorker.h', function='BackendWorker::sanitize_non_printable_chars', defs_quick=['LEN=6'], defs_thorough=['LEN=7']),
    bounded=dict(bound='strings of length <= 6 (thorough: 7) over 7 byte values x 3 predicates', form='b'),
    dropped=[], trusted=['g++ / libstdc++ execute the real function'], min_obligations=1)
UNITS = [sanitize]
pattern = dict(
    name='PF.pattern', primary='C12', props={'C12'}, kind='L', funcs=[], enforce=None,
    desc='PatternFormatter constructor / _generate_fmt_format_string against the specification substitution, exhaustively over token sequences (std::string surgery over 16 attribute names is out of CBMC reach)',
    native=dict(cpp='pattern.cpp', file='include/quill/backend/PatternFormatter.h', function='PatternFormatter::_generate_fmt_format_string', defs_quick=['K=3'], defs_thorough=['K=4']),
    bounded=dict(bound='token sequences of length <= 3 (thorough: 4) over 29 tokens', form='b'),
    dropped=[], trusted=['g++ / libstdc++ / fmt execute the real constructor'], min_obligations=1, timeout=900)
named_template = dict(
    name='BW.named_template', primary='C19', props={'C19'}, kind='L', funcs=[], enforce=None,
    desc='BackendWorker::_process_named_args_format_message against a scanner written from fmt\'s grammar, exhaustively over short templates',
    native=dict(cpp='named_template.cpp', file='include/quill/backend/BackendWorker.h', function='BackendWorker::_process_named_args_format_message', defs_quick=['LEN=8'], defs_thorough=['LEN=9']),
    bounded=dict(bound='templates of length <= 8 (thorough: 9) over { } : a x 0 space', form='b'),
    dropped=[], trusted=['g++ / libstdc++ / fmt execute the real function'], min_obligations=1, timeout=900)
UNITS += [pattern, named_template]
macro_metadata = dict(
    name='MM.scans', primary='C12', props={'C12', 'C19'}, kind='L', funcs=[], enforce=None,
    desc='MacroMetadata::file_name / full_path / line / short_source_location and _contains_named_args against their specifications, exhaustively over short strings (sentinel scans: no single ghost index closes the loop invariant)',
    native=dict(cpp='macro_metadata.cpp', file='include/quill/core/MacroMetadata.h', function='MacroMetadata::{_calc_file_name_pos,_calc_colon_separator_pos,file_name,full_path,line,short_source_location,_contains_named_args}', defs_quick=['LEN=8'], defs_thorough=['LEN=10']),
    bounded=dict(bound='strings of length <= 8 (thorough: 10) over 5 / 7 symbols', form='b'),
    dropped=[], trusted=['g++ executes the real constexpr functions at run time'], min_obligations=1, timeout=900)
UNITS += [macro_metadata]
dispatch_lines = dict(
    name='BW.dispatch_lines', primary='C12', props={'C12'}, kind='L', funcs=[], enforce=None,
    desc='BackendWorker::_dispatch_transit_event_to_sinks + _process_multi_line_message through the real pipeline (ManualBackendWorker, recording sink) against the specification of the statement lines, exhaustively over short messages - independent of how the newline handling is written',
    native=dict(cpp='dispatch_lines.cpp', file='include/quill/backend/BackendWorker.h', function='BackendWorker::_dispatch_transit_event_to_sinks', defs_quick=['LEN=6'], defs_thorough=['LEN=8']),
    bounded=dict(bound='messages of length <= 6 (thorough: 8) over {a, b, newline} x 3 configurations', form='b'),
    dropped=[], trusted=['g++ / libstdc++ / fmt execute the real frontend and backend'], min_obligations=1, timeout=900)
UNITS += [dispatch_lines]
runtime_md = dict(
    name='BW.runtime_md', primary='C12', props={'C12'}, kind='L', funcs=[], enforce=None,
    desc='BackendWorker::_apply_runtime_metadata through the real pipeline (ManualBackendWorker, recording sink): runtime-supplied file / line / function render exactly as given, message restored, metadata created once and reused (std::string_view::find/substr and a map keyed by strings are out of CBMC reach)',
    native=dict(cpp='runtime_md.cpp', file='include/quill/backend/BackendWorker.h', function='BackendWorker::_apply_runtime_metadata', defs_quick=['LEN=3'], defs_thorough=['LEN=5']),
    bounded=dict(bound='4 files x 4 lines x 4 functions x messages of length <= 3 (thorough: 5) over 4 symbols x 2 uses', form='b'),
    dropped=[], trusted=['g++ / libstdc++ / fmt execute the real frontend and backend'], min_obligations=1, timeout=900)
UNITS += [runtime_md]
rotating_size = dict(
    name='RS.size_files', primary='C14', props={'C14'}, kind='L', funcs=[], enforce=None,
    desc='the real RotatingFileSink with size rotation on real files (write_log, _size_rotation, _rotate_files incl. the rename chain, names and deletion) against the property: whole statements, in order, nothing lost unless overwritten, within the size and count bounds',
    native=dict(cpp='rotating_size.cpp', file='include/quill/sinks/RotatingSink.h', function='RotatingSink::{write_log,_size_rotation,_rotate_files,_get_filename,_rename_file,_remove_file}', defs_quick=['LEN=5'], defs_thorough=['LEN=7']),
    bounded=dict(bound='2 file namings (with / without extension, dotted directory) x sequences of <= 5 (thorough: 7) statements over 3 sizes x 3 backup limits x overwrite on/off', form='b'),
    dropped=[], trusted=['g++ / libstdc++ / the file system execute the real sink'], min_obligations=1, timeout=1200)
UNITS += [rotating_size]
rotating_time = dict(
    name='RS.time_files', primary='C15', props={'C15'}, kind='L', funcs=[], enforce=None,
    desc='the real RotatingFileSink with time rotation (GMT) on real files against the property: two statements share a file exactly when no scheduled rotation point lies between them (first point from _calculate_initial_rotation_tp with the real libc, then every period, also after many skipped periods)',
    native=dict(cpp='rotating_time.cpp', file='include/quill/sinks/RotatingSink.h', function='RotatingSink::{RotatingSink,write_log,_time_rotation,_calculate_initial_rotation_tp,_calculate_rotation_tp,_rotate_files}', defs_quick=['LEN=4'], defs_thorough=['LEN=6']),
    bounded=dict(bound='2 naming schemes (Index, DateAndTime) x 4 start instants x 4 schedules x increasing sequences of <= 4 (thorough: 6) instants from an 8-point grid', form='b'),
    dropped=[], trusted=['g++ / libstdc++ / libc (gmtime_r, timegm) / the file system execute the real sink'], min_obligations=1, timeout=1200)
UNITS += [rotating_time]
timestamp = dict(
    name='TF.strftime', primary='C13', props={'C13'}, kind='L', funcs=[], enforce=None,
    desc='the real TimestampFormatter / StringFromTime (caches, pattern splitting, %r/%R/%T expansion, fractional digits) against strftime of the same instant, one formatter object per sequence of instants in any order - checks the tz AXIOM of the contract units against the real libc for five zones (offsets of 0, -4/-5 h, +5:30, +10:30/+11 with a 30 min DST step, +1/+2 h)',
    native=dict(cpp='timestamp.cpp', file='include/quill/backend/TimestampFormatter.h', function='TimestampFormatter::{TimestampFormatter,format_timestamp}, StringFromTime::{init,format_timestamp,_populate_pre_formatted_string_and_cached_indexes,_split_timestamp_format_once}', defs_quick=['LEN=2', 'TOK=2'], defs_thorough=['LEN=3', 'TOK=2']),
    bounded=dict(bound='(23 fixed patterns + every pattern of <= 2 tokens from 20) x {GMT, local} x 5 process time zones x sequences of <= 2 (thorough: 3) instants from a 24-point grid incl. two DST switches', form='b'),
    dropped=[], trusted=['g++ / libstdc++ / libc strftime and the tz database of the image as the reference (the property names strftime)', 'the reference for %s is the epoch seconds of the instant (glibc strftime re-reads a gmtime tm as local time)'], min_obligations=1, timeout=1200)
UNITS += [timestamp]
codec_std = dict(
    name='CD.std_codecs', primary='C04', props={'C04'}, kind='L', funcs=[], enforce=None,
    desc='the codecs of include/quill/std (vector, deque, list, forward_list, set, map, array, pair, tuple, optional, chrono, filesystem::path; arithmetic, string, C-string, nested elements) and the string arms, called directly: reserved == written == consumed, size cache consumed exactly, and the decoded argument formats to the text of the call-site argument (argument destroyed before decoding)',
    native=dict(cpp='codec_std.cpp', file='include/quill/std/*.h', function='Codec<...>::{compute_encoded_size,encode,decode_and_store_arg} of the std specialisations', defs_quick=['MAXN=4'], defs_thorough=['MAXN=40']),
    bounded=dict(bound='containers of every size 0..4 (thorough: 0..40, beyond the inline capacity of the size cache and its first two heap growths) over fixed element families; 7x7 string pairs', form='b'),
    dropped=[], trusted=['g++ / libstdc++ / fmt execute the real codecs; fmt formats both sides'], min_obligations=1, timeout=1200)
UNITS += [codec_std]
args_e2e = dict(
    name='FE.args_e2e', primary='C04', props={'C04'}, kind='L', funcs=[], enforce=None,
    desc='C04 end to end through the real frontend (LOG_INFO -> Codec<T> -> queue) and the real backend (decode_and_store_arg -> DynamicFormatArgStore -> vformat -> sanitize_non_printable_chars): the message a sink receives == the default sanitisation of fmt::format(template, args...) at the call site, for argument lists over char / arithmetic / bool / pointer / C string / char array / std::string / string_view / vector / array / pair / optional / tuple with values that include non-printable bytes; arguments overwritten or destroyed before the backend pass (the type-level decisions - which decoded types are string related, which are copied into the store - are outside every per-function contract)',
    native=dict(cpp='args_e2e.cpp', file='include/quill/core/DynamicFormatArgStore.h', function='LoggerImpl::log_statement, Codec<T>::{compute_encoded_size,encode,decode_and_store_arg}, DynamicFormatArgStore::push_back, BackendWorker::{_populate_formatted_log_message,sanitize_non_printable_chars}', defs_quick=['NVAL=6'], defs_thorough=['NVAL=10']),
    bounded=dict(bound='6 (thorough: 10) byte values x 20 argument lists + 6 fixed lists', form='b'),
    dropped=[], trusted=['g++ / libstdc++ / fmt execute the real frontend and backend; fmt formats the reference text'], min_obligations=1, timeout=600)
UNITS += [args_e2e]
rotating_restart = dict(
    name='RS.restart_files', primary='C14', props={'C14'}, kind='L', funcs=[], enforce=None,
    desc='the real RotatingFileSink across a restart (mode w, then mode a) for the naming schemes Index / Date / DateAndTime on real files, with unrelated files and the files of a second sink (r.debug.log) in the directory: whole statements in order as the naming scheme orders the files, nothing clobbered by the restart, foreign files untouched (_clean_and_recover_files, _rotate_files, _get_filename: directory scan and string surgery out of CBMC reach)',
    native=dict(cpp='rotating_restart.cpp', file='include/quill/sinks/RotatingSink.h', function='RotatingSink::{RotatingSink,_clean_and_recover_files,_is_rotated_file_of,write_log,_size_rotation,_rotate_files,_get_filename}', defs_quick=['LEN=3'], defs_thorough=['LEN=4']),
    bounded=dict(bound='3 naming schemes x 2 backup limits x overwrite on/off x pairs of sequences of 1..3 (thorough: 1..4) statements of 2 sizes; one restart within the same day', form='b'),
    dropped=[], trusted=['g++ / libstdc++ / the file system execute the real sink'], min_obligations=1, timeout=1200)
UNITS += [rotating_restart]
backtrace_history = dict(
    name='BT.history', primary='C18', props={'C18'}, kind='L', funcs=[], enforce=None,
    desc='backtrace logging through the real pipeline (LOG_BACKTRACE / LOG_INFO / LOG_ERROR, flush_backtrace, init_backtrace with two capacities, a second logger) against a reference model, for every history of bounded length - the integration of level check, flush level, storage and re-initialisation that the contract units BS.* / BW.process_event cover function by function',
    native=dict(cpp='backtrace_history.cpp', file='include/quill/backend/BackendWorker.h', function='BackendWorker::_process_transit_event (backtrace arms), BacktraceStorage::{store,process,set_capacity}, LoggerImpl::{init_backtrace,flush_backtrace}', defs_quick=['LEN=5'], defs_thorough=['LEN=6']),
    bounded=dict(bound='every history of <= 5 (thorough: 6) actions over 8 action kinds, two fresh loggers per history', form='b'),
    dropped=[], trusted=['g++ / libstdc++ / fmt execute the real frontend and backend'], min_obligations=1, timeout=1500)
UNITS += [backtrace_history]
def _dropping(series, extra):
    return dict(
        name='LG.dropping_history[%s]' % series, primary='C08', props={'C08', 'C09'}, kind='L', funcs=[], enforce=None,
        desc='a %s dropping queue through the real pipeline (LoggerImpl::log_statement called as the macros call it, ManualBackendWorker, error notifier), model-free bookkeeping over every history of statements of three sizes and backend polls: returned true <=> delivered (complete, once, in order); reported drops add up; a fitting statement on a drained queue is accepted' % series,
        native=dict(cpp='dropping_history.cpp', file='include/quill/Logger.h', function='LoggerImpl::log_statement, BoundedSPSCQueue / UnboundedSPSCQueue, BackendWorker::{_poll,_check_failure_counter}', defs_quick=['LEN=7'] + extra, defs_thorough=['LEN=8'] + extra),
        bounded=dict(bound='every history of <= 7 (thorough: 8) actions over 5 statement sizes and poll; queue capacity 1 KiB (unbounded: up to 2 KiB)', form='b'),
        dropped=[], trusted=['g++ / libstdc++ / fmt execute the real frontend and backend on ONE thread (no concurrency: the interleavings are units BQ.* / UQ.*)'], min_obligations=1, timeout=1500)
UNITS += [_dropping('bounded', []), _dropping('unbounded', ['SERIES_UNBOUNDED']), _dropping('bounded, C-string arguments', ['SERIES_CSTR'])]
dropping_exit_flush = dict(
    name='LG.dropping_exit_flush', primary='C08', props={'C08'}, kind='L', funcs=[], enforce=None,
    desc='bounded dropping queue, a thread that discards statements and exits, then a flush request from another thread processed before any idle pass of the backend (the flush path reclaims exited threads\' contexts): reported drops == discarded statements (found the genuine defect repaired by the fix: commit of session 4)',
    native=dict(cpp='dropping_exit_flush.cpp', file='include/quill/backend/BackendWorker.h', function='BackendWorker::{_process_lowest_timestamp_transit_event (flush arm),_check_failure_counter,_cleanup_invalidated_thread_contexts}, LoggerImpl::{log_statement,flush_log}', defs_quick=['KMAX=60'], defs_thorough=['KMAX=200']),
    bounded=dict(bound='K = 1 .. 60 (thorough: 200) statements in steps, one exiting thread, one flushing thread; one OS schedule per case (threads sequenced by join / flags)', form='b'),
    dropped=[], trusted=['g++ / libstdc++ / fmt execute the real frontend and backend'], min_obligations=1, timeout=600)
UNITS += [dropping_exit_flush]
sink_registry = dict(
    name='SM.registry_history', primary='C17', props={'C17'}, kind='L', funcs=[], enforce=None,
    desc='the real SinkManager through every history of create / release / clean-up actions over four names, every name looked up after every action: a lookup finds exactly the live sink of that name, a gone sink is not found, creation is idempotent (the sorted-registry invariant that _find_sink / _insert_sink / cleanup_unused_sinks share - seed C17-Q4 broke it with swap-and-pop)',
    native=dict(cpp='sink_registry.cpp', file='include/quill/core/SinkManager.h', function='SinkManager::{create_or_get_sink,get_sink,_find_sink,_insert_sink,cleanup_unused_sinks}', defs_quick=['LEN=5'], defs_thorough=['LEN=7']),
    bounded=dict(bound='every history of <= 5 (thorough: 7) actions over 9 action kinds (4 names)', form='b'),
    dropped=[], trusted=['g++ / libstdc++ execute the real SinkManager on one thread (the lock: units SP.lock / SP.unlock)'], min_obligations=1, timeout=900)
UNITS += [sink_registry]
exception_history = dict(
    name='BW.exception_history', primary='C10', props={'C10'}, kind='L', funcs=[], enforce=None,
    desc='formatting failures (user formatter throwing std::exception or an int, DeferredFormatCodec) and throwing sinks through the real pipeline with two sinks on one logger, for every history of bounded length: the other statements reach both sinks once and in order, a failing one is missing at most from the throwing sink and those after it or carries the explanatory text, every failure is reported once, the backend keeps running',
    native=dict(cpp='exception_history.cpp', file='include/quill/backend/BackendWorker.h', function='BackendWorker::{_populate_formatted_log_message,_process_lowest_timestamp_transit_event,_process_transit_event,_write_log_statement}', defs_quick=['LEN=6'], defs_thorough=['LEN=8']),
    bounded=dict(bound='every history of <= 6 (thorough: 8) statements over 5 kinds, two sinks', form='b'),
    dropped=[], trusted=['g++ / libstdc++ / fmt execute the real frontend and backend'], min_obligations=1, timeout=1500)
UNITS += [exception_history]
named_json = dict(
    name='BW.named_json', primary='C19', props={'C19'}, kind='L', funcs=[], enforce=None,
    desc='named placeholders through the real pipeline (LOG macros, ManualBackendWorker) into a recording sink (text message, structured pairs) and a real JsonFileSink: text = positional formatting, one pair per argument in order with its own spec, one single-line JSON object per statement with the original template and the pairs - first use and cached use of each template',
    native=dict(cpp='named_json.cpp', file='include/quill/backend/BackendWorker.h', function='BackendWorker::{_populate_formatted_named_args,_process_named_args_format_message,_format_and_split_arguments}, JsonSink::{write_log,generate_json_message}', defs_quick=[], defs_thorough=[]),
    bounded=dict(bound='8 templates x 27 value tuples x 2 orders x 2 passes + the 64 ordered pairs of templates back to back', form='b'),
    dropped=[], trusted=['g++ / libstdc++ / fmt execute the real frontend, backend and sink'], min_obligations=1, timeout=900)
UNITS += [named_json]
level_filter = dict(
    name='BW.level_filter', primary='C16', props={'C16'}, kind='L', funcs=[], enforce=None,
    desc='levels and filters through the real pipeline: static macros and LOG_DYNAMIC, a logger whose level changes between statements, three sinks (level filter; user filter added at run time; override pattern + level filter): a statement reaches a sink iff it passes logger level, sink level and sink filters, with the sink\'s own formatting and the effective level',
    native=dict(cpp='level_filter.cpp', file='include/quill/backend/BackendWorker.h', function='LoggerBase::should_log_statement, Sink::apply_all_filters, BackendWorker::_write_log_statement, the LOG_* / LOG_DYNAMIC macros', defs_quick=['LEN=2'], defs_thorough=['LEN=3']),
    bounded=dict(bound='4 x 3 x 3 configurations x sequences of 1..2 (thorough: 3) statements over 16 kinds', form='b'),
    dropped=[], trusted=['g++ / libstdc++ / fmt execute the real frontend and backend'], min_obligations=1, timeout=900)
UNITS += [level_filter]
exit_paths = dict(
    name='BE.exit_paths', primary='C07', props={'C07'}, kind='L', funcs=[], enforce=None,
    desc='the end of a process with the REAL backend thread, every case in a forked child whose file and wait status the parent inspects: Backend::stop, return from main (atexit), a second start/stop cycle, and the six handled signals raised on a thread that has logged - what the contract units list as assumptions (atexit ordering, what another process reads from the file, wait status)',
    native=dict(cpp='exit_paths.cpp', file='include/quill/Backend.h', function='Backend::{start,stop}, BackendManager::stop_backend_thread, BackendWorker::{run,stop,_exit}, detail::on_signal', defs_quick=['KMAX=4'], defs_thorough=['KMAX=16']),
    bounded=dict(bound='9 ways to end the process x 3 backend configurations x 2 thread configurations x K = 0..4 (thorough: 0..16) statements; one schedule per case (the OS decides the interleaving of the backend thread)', form='b'),
    dropped=[], trusted=['one OS schedule per case: this stand-in samples interleavings, the contract units BW.exit / BW.main_loop / SIG.on_signal carry the "for every point" part'], min_obligations=1, timeout=1500)
UNITS += [exit_paths]
flush_real = dict(
    name='LG.flush_real', primary='C06', props={'C06'}, kind='L', funcs=[], enforce=None,
    desc='flush_log() with the REAL backend thread (forked child per case, periodic flushing disabled): when it returns, everything the calling thread logged before is in the files - one logger, two loggers, a shared sink, sinks with a before_write hook, a logger removed before the flush',
    native=dict(cpp='flush_real.cpp', file='include/quill/Logger.h', function='LoggerImpl::flush_log, BackendWorker::{_process_transit_event (Flush arm),_flush_and_run_active_sinks}, StreamSink::{write_log,flush_sink}', defs_quick=['KMAX=4'], defs_thorough=['KMAX=12']),
    bounded=dict(bound='5 arrangements x backend sleeping / polling x K = 0..4 (thorough: 0..12) statements; one OS schedule per case', form='b'),
    dropped=[], trusted=['one OS schedule per case: the contract units LG.flush_log / BW.process_event / BW.flush_sinks / BW.collect_sinks / SS.* carry the "for every interleaving" part'], min_obligations=1, timeout=1500)
UNITS += [flush_real]
remove_real = dict(
    name='FE.remove_real', primary='C17', props={'C17'}, kind='L', funcs=[], enforce=None,
    desc='remove_logger_blocking and re-creation under the same name with the REAL backend thread (forked child per case): on return everything logged through the logger is in its file and the logger is gone, the name is reusable with another sink, a shared sink keeps working',
    native=dict(cpp='remove_real.cpp', file='include/quill/Frontend.h', function='Frontend::{remove_logger_blocking,create_or_get_logger,get_logger}, BackendWorker::_cleanup_invalidated_loggers, LoggerManager::cleanup_invalidated_loggers, SinkManager::cleanup_unused_sinks', defs_quick=['KMAX=4', 'CYCLES=3'], defs_thorough=['KMAX=10', 'CYCLES=6']),
    bounded=dict(bound='2 sink arrangements x backend sleeping / polling x K = 0..4 (thorough: 0..10) statements x 3 (thorough: 6) cycles; one OS schedule per case', form='b'),
    dropped=[], trusted=['one OS schedule per case: the contract units LM.* / SM.* / FE.remove_logger_blocking / BW.cleanup_loggers carry the "for every interleaving" part'], min_obligations=1, timeout=1500)
UNITS += [remove_real]
def _threads(series, extra):
    return dict(
        name='BE.threads_real[%s]' % series, primary='C03', props={'C03', 'C20', 'C01', 'C02'}, kind='L', funcs=[], enforce=None,
        desc='several real frontend threads (%s queue) with the REAL backend thread, forked child per case: every statement of every thread written exactly once, uncorrupted, in thread order - also when the thread exited before it was read - and the contexts of exited threads reclaimed afterwards (a SAMPLE of schedules: the for-every-interleaving argument is the contract units)' % series,
        native=dict(cpp='threads_real.cpp', file='include/quill/backend/BackendWorker.h', function='the whole frontend / backend pipeline under real concurrency', defs_quick=['NMAX=400'] + extra, defs_thorough=['NMAX=5000'] + extra),
        bounded=dict(bound='4 thread counts x 4 statement counts (up to 400; thorough: 5000) x backend sleeping / polling; one OS schedule per case', form='b'),
        dropped=[], trusted=['one OS schedule per case'], min_obligations=1, timeout=1500)
UNITS += [_threads('unbounded blocking', []), _threads('bounded blocking', ['SERIES_BOUNDED'])]
def _order(series, extra):
        return dict(
        name='BW.order_history[%s]' % series, primary='C05', props={'C05', 'C03'}, kind='L', funcs=[], enforce=None,
        desc='global timestamp order through the real pipeline with three real frontend threads that log ON COMMAND (the enumeration chooses the interleaving of log calls and backend passes), a user clock handing out scripted timestamps and ManualBackendWorker passes: whatever the backend writes is the smallest timestamp among everything enqueued and unwritten; per-thread order; exactly once',
        native=dict(cpp='order_history.cpp', file='include/quill/backend/BackendWorker.h', function='BackendWorker::{_poll,_populate_transit_events_from_frontend_queues,_process_lowest_timestamp_transit_event,has_pending_events_for_caching_when_transit_event_buffer_empty}', defs_quick=['LEN=5'] + extra, defs_thorough=['LEN=7'] + extra),
        bounded=dict(bound='5 timestamp scripts x every history of <= 5 (thorough: 7) actions over {3 threads log, one pass, full drain}', form='b'),
        dropped=[], trusted=['log calls and backend passes do not overlap in time (each action completes before the next starts): concurrent overlap is the contract units (BQ.*, UQ.*, LEM.order)'], min_obligations=1, timeout=1500)
UNITS += [_order('default limits', []), _order('soft = hard limit = 2', ['SMALL_LIMITS'])]
def _blocking(series, extra):
    return dict(
        name='LG.blocking_history[%s]' % series, primary='C09', props={'C09', 'C03'}, kind='L', funcs=[], enforce=None,
        desc='a %s blocking queue through the real pipeline: one real producer thread logs on command, backend passes run only while it is blocked; every history of statements of several sizes (one filling the queue but for 3 bytes): each call returns after a bounded number of passes, everything delivered once and in order' % series,
        native=dict(cpp='blocking_history.cpp', file='include/quill/Logger.h', function='LoggerImpl::log_statement (blocking retry loop), BoundedSPSCQueue::{prepare_write,commit_read}, UnboundedSPSCQueue::_handle_full_queue', defs_quick=['LEN=5'] + extra, defs_thorough=['LEN=7'] + extra),
        bounded=dict(bound='every history of <= 5 (thorough: 7) statements over 4 (unbounded: 5) sizes; queue capacity 1 KiB (unbounded: up to 2 KiB); the OS schedules the producer thread', form='b'),
        dropped=[], trusted=['one OS schedule per history for the producer thread; a call counts as stuck after 20 s of continuous backend passes (a healthy one needs microseconds)'], min_obligations=1, timeout=1500)
UNITS += [_blocking('bounded', []), _blocking('unbounded', ['SERIES_UNBOUNDED'])]
