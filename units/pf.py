"""C12 — backend/PatternFormatter.h: format() fills, for every attribute used in the pattern, that statement's value for that attribute
(into the slot _order_index[attribute], unit PF.set_arg_val), Message always; one vformat after all values are set."""
H = 'quill/backend/PatternFormatter.h'
ATTRS = ['Time', 'FileName', 'CallerFunction', 'LogLevel', 'LogLevelShortCode', 'LineNumber', 'Logger', 'FullPath', 'ThreadId', 'ThreadName', 'ProcessId', 'SourceLocation',
         'ShortSourceLocation', 'Message', 'Tags', 'NamedArgs']
PRELUDE = r'''
enum { ''' + ', '.join('A_%s' % a for a in ATTRS) + r''', A_NR };
/* value ids: the statement's value for each attribute.  The parameters of format() keep their names (as constants). */
enum { V_NONE, timestamp, thread_id, thread_name, process_id, logger, log_level_description, log_level_short_code, log_msg, V_TIME_TEXT, V_FILE_NAME, V_CALLER, V_LINE, V_FULL_PATH, V_SRC, V_SHORT_SRC, V_TAGS, V_EMPTY, V_NAMED_TEXT };
typedef struct MMv { bool g_has_tags; } MMv;
typedef struct Opts { bool g_pattern_empty; } Opts;
typedef struct PF { Opts _options; bool _is_set_in_pattern[A_NR]; } PF;
static inline int MM_file_name(MMv* m) { return V_FILE_NAME; }
static inline int MM_caller_function(MMv* m) { return V_CALLER; }
static inline int MM_line(MMv* m) { return V_LINE; }
static inline int MM_full_path(MMv* m) { return V_FULL_PATH; }
static inline int MM_source_location(MMv* m) { return V_SRC; }
static inline int MM_short_source_location(MMv* m) { return V_SHORT_SRC; }
static inline int MM_tags(MMv* m) { return m->g_has_tags ? V_TAGS : V_NONE; }
static inline int SV_OF(int v) { return v == V_NONE ? V_EMPTY : v; }
int g_a;                 /* ghost: ONE arbitrary attribute */
size_t g_set_count, g_clock, g_t_last_set, g_t_vformat, g_t_clear, g_vformats, g_clears, g_named_builds; int g_set_value;
void BUF_clear(PF* self) __CPROVER_assigns(g_clock, g_t_clear, g_clears) __CPROVER_ensures(g_clock == OLD(g_clock) + 1 && g_t_clear == g_clock && g_clears == OLD(g_clears) + 1);
int FORMAT_TIMESTAMP(PF* self, int ts) __CPROVER_assigns() __CPROVER_ensures(RET == (ts == timestamp ? V_TIME_TEXT : V_NONE));
void BUILD_NAMED_ARGS_TEXT(PF* self) __CPROVER_assigns(g_named_builds) __CPROVER_ensures(g_named_builds == OLD(g_named_builds) + 1);
/* _set_arg_val<A>(v): stores v in the slot of attribute A (unit PF.set_arg_val) */
void SET_ARG_VAL(PF* self, int attr, int value) __CPROVER_requires(attr >= 0 && attr < A_NR && value != V_NONE)
__CPROVER_assigns(g_set_count, g_set_value, g_clock, g_t_last_set)
__CPROVER_ensures(g_clock == OLD(g_clock) + 1 && g_t_last_set == g_clock && (attr == g_a ? (g_set_count == OLD(g_set_count) + 1 && g_set_value == value) : (g_set_count == OLD(g_set_count) && g_set_value == OLD(g_set_value))));
void VFORMAT(PF* self) __CPROVER_assigns(g_clock, g_t_vformat, g_vformats) __CPROVER_ensures(g_clock == OLD(g_clock) + 1 && g_t_vformat == g_clock && g_vformats == OLD(g_vformats) + 1);
#define EXPECT(a, m) ((a) == A_Time ? V_TIME_TEXT : (a) == A_FileName ? V_FILE_NAME : (a) == A_CallerFunction ? V_CALLER : (a) == A_LogLevel ? log_level_description : (a) == A_LogLevelShortCode ? log_level_short_code : \
  (a) == A_LineNumber ? V_LINE : (a) == A_Logger ? logger : (a) == A_FullPath ? V_FULL_PATH : (a) == A_ThreadId ? thread_id : (a) == A_ThreadName ? thread_name : (a) == A_ProcessId ? process_id : \
  (a) == A_SourceLocation ? V_SRC : (a) == A_ShortSourceLocation ? V_SHORT_SRC : (a) == A_Message ? log_msg : (a) == A_Tags ? ((m)->g_has_tags ? V_TAGS : V_EMPTY) : V_NAMED_TEXT)
'''
fmt = dict(
    name='PF.format', primary='C12', props={'C12'}, kind='S',
    desc='PatternFormatter::format: every attribute used in the pattern receives this statement\'s value for it (Message always), nothing else is touched, then the line is formatted once into a cleared buffer; an empty pattern yields an empty line',
    structs=[], prelude=PRELUDE, enforce='PF_format', replace=['BUF_clear', 'FORMAT_TIMESTAMP', 'BUILD_NAMED_ARGS_TEXT', 'SET_ARG_VAL', 'VFORMAT'],
    funcs=[dict(src=dict(header=H, cls='PatternFormatter', name='format'), cfun='PF_format', sig='void PF_format(PF* self, MMv* log_statement_metadata_p, bool has_named_args)', cls_c='PF',
                member_fields=['_options', '_is_set_in_pattern'],
                methods={'file_name': 'MM_file_name', 'caller_function': 'MM_caller_function', 'line': 'MM_line', 'full_path': 'MM_full_path', 'source_location': 'MM_source_location',
                         'short_source_location': 'MM_short_source_location', 'tags': 'MM_tags'},
                pre_rules=[(r'_options\.format_pattern\.empty\(\)', '_options.g_pattern_empty', 1), (r'return\s+std::string_view\{\}\s*;', 'return;', 1),
                           (r'return\s+std::string_view\{_formatted_log_message_buffer\.data\(\),\s*_formatted_log_message_buffer\.size\(\)\}\s*;', 'return;', 1),
                           (r'_formatted_log_message_buffer\.clear\(\)\s*;', 'BUF_clear(self);', 1),
                           (r'_timestamp_formatter\.format_timestamp\(std::chrono::nanoseconds\{(\w+)\}\)', r'FORMAT_TIMESTAMP(self, \1)', 1),
                           (r'_formatted_named_args_buffer\.clear\(\)\s*;.*?(?=_set_arg_val<Attribute::NamedArgs>)', 'BUILD_NAMED_ARGS_TEXT(self);\n', 1),
                           (r'std::string_view\{_formatted_named_args_buffer\.data\(\),\s*_formatted_named_args_buffer\.size\(\)\}', 'V_NAMED_TEXT', 1),
                           (r'std::string_view\{log_statement_metadata\.tags\(\)\}', 'SV_OF(log_statement_metadata.tags())', 1), (r'std::string_view\{\}', 'V_EMPTY', '?'),
                           (r'_set_arg_val<Attribute::(\w+)>\(', r'SET_ARG_VAL(self, A_\1, '), (r'Attribute::(\w+)', r'A_\1'),
                           (r'fmtquill::vformat_to\s*\(.*?\)\)\s*;', 'VFORMAT(self);', 1), (r'\blog_statement_metadata\b', '(*log_statement_metadata_p)')],
                contract=r'''
__CPROVER_requires(__CPROVER_is_fresh(self, sizeof(*self)) && __CPROVER_is_fresh(log_statement_metadata_p, sizeof(MMv)) && g_a >= 0 && g_a < A_NR && g_set_count == 0 && g_clock == 0 && g_vformats == 0 && g_clears == 0 && g_t_last_set == 0)
__CPROVER_assigns(g_set_count, g_set_value, g_clock, g_t_last_set, g_t_vformat, g_t_clear, g_vformats, g_clears, g_named_builds)
__CPROVER_ensures(self->_options.g_pattern_empty ==> (g_vformats == 0 && g_set_count == 0)) /*@ C12 "an empty pattern yields an empty line (nothing is formatted)" */
__CPROVER_ensures((!self->_options.g_pattern_empty && (self->_is_set_in_pattern[g_a] || g_a == A_Message)) ==> (g_set_count == 1 && g_set_value == EXPECT(g_a, log_statement_metadata_p))) /*@ C12 "every attribute used in the pattern is substituted by this statement's value for that attribute - the right one, exactly once (the message always)" */
__CPROVER_ensures((!self->_options.g_pattern_empty && !self->_is_set_in_pattern[g_a] && g_a != A_Message) ==> g_set_count == 0) /*@ C12 "attributes that are not in the pattern are not computed" */
__CPROVER_ensures(!self->_options.g_pattern_empty ==> (g_vformats == 1 && g_clears == 1 && g_t_clear < g_t_vformat && g_t_last_set < g_t_vformat)) /*@ C12 "the line is formatted once, into a cleared buffer, after all values were set" */
''')],
    harness='  PF* f; MMv* m; bool n; PF_format(f, m, n);',
    dropped=['the texts (each value is an id)', 'the loop that joins the named args into "k: v, k: v" (one stub)', 'fmt itself'],
    trusted=['_set_arg_val<A> stores into slot _order_index[A] (two-line template function, fmt internals)', 'TimestampFormatter::format_timestamp (units TF.*, SFT.*)', 'fmt vformat_to substitutes slot k for the k-th {} of the generated format string (PF.pattern stand-in fixes that string and the slot order)'],
    min_obligations=30)
UNITS = [fmt]

# ------------------------------------------------------------------------------------------ PatternFormatterOptions::operator== (decides whether two loggers share one formatter)
OH = 'quill/core/PatternFormatterOptions.h'
PFO_PRELUDE = r'''
typedef uint8_t Timezone; enum { TZ_LocalTime, TZ_GmtTime };
/* strings by content id */
typedef struct PFO { size_t format_pattern; size_t timestamp_pattern; Timezone timestamp_timezone; bool add_metadata_to_multi_line_logs; } PFO;
#define B(x) ((x) ? 1 : 0)
'''
pfo_equals = dict(
    name='PFO.equals', primary='C12', props={'C12', 'C16'}, kind='L',
    desc='PatternFormatterOptions::operator==: two option sets are equal exactly when pattern, timestamp pattern, time zone and the multi-line flag all agree (loggers with equal options share one PatternFormatter object)',
    structs=[], prelude=PFO_PRELUDE, enforce='PFO_equals', replace=[],
    funcs=[dict(src=dict(header=OH, cls='PatternFormatterOptions', name='operator=='), src_params=['other'], cfun='PFO_equals', sig='bool PFO_equals(PFO* self, PFO const* other)', cls_c='PFO',
                member_fields=['format_pattern', 'timestamp_pattern', 'timestamp_timezone', 'add_metadata_to_multi_line_logs'],
                pre_rules=[(r'\bother\.', 'other->')], rules=[(r'self->add_metadata_to_multi_line_logs == other->add_metadata_to_multi_line_logs', 'B(self->add_metadata_to_multi_line_logs) == B(other->add_metadata_to_multi_line_logs)', '?')],
                contract=r'''
__CPROVER_requires(__CPROVER_is_fresh(self, sizeof(*self)) && __CPROVER_is_fresh(other, sizeof(*other)))
__CPROVER_assigns()
__CPROVER_ensures(RET ==> (self->format_pattern == other->format_pattern && self->timestamp_pattern == other->timestamp_pattern && self->timestamp_timezone == other->timestamp_timezone && B(self->add_metadata_to_multi_line_logs) == B(other->add_metadata_to_multi_line_logs))) /*@ C12,C16 "a formatter is shared only between loggers whose pattern, timestamp pattern, time zone and multi-line setting are all the same: a statement is never rendered with another logger's pattern" */
/* the converse (equal options compare equal) is not demanded: a stricter comparison only means fewer shared formatter objects */
''')],
    harness='  PFO* a; PFO* b; PFO_equals(a, b);',
    snapshot=[('a_fp', 'self->format_pattern'), ('a_tp', 'self->timestamp_pattern'), ('a_tz', 'self->timestamp_timezone'), ('a_ml', 'B(self->add_metadata_to_multi_line_logs)'), ('b_fp', 'other->format_pattern'), ('b_tp', 'other->timestamp_pattern'), ('b_tz', 'other->timestamp_timezone'), ('b_ml', 'B(other->add_metadata_to_multi_line_logs)')],
    replay=dict(template='pfo.cpp', op='equals'), dropped=['std::string comparison as equality of content ids', 'bool fields normalised to 0/1 (a symbolic _Bool may hold any byte in CBMC)'], trusted=[], min_obligations=4)
UNITS.append(pfo_equals)

# ------------------------------------------------------------------------------------------ formatter look-up / creation in _dispatch_transit_event_to_sinks
BWH = 'quill/backend/BackendWorker.h'
FI_PRELUDE = r'''
typedef struct PFm { size_t g_options; } PFm;                   /* a PatternFormatter: the options (content id) it was built from */
typedef struct LB { PFm* pattern_formatter; size_t pattern_formatter_options; } LB;
typedef struct TE { LB* logger_base; } TE;
typedef struct BW { int dummy; } BW;
static inline size_t PF_get_options(PFm* f) { return f->g_options; }
PFm g_new_pf; size_t g_creates;
static inline PFm* PF_make_shared(size_t options) { g_creates++; g_new_pf.g_options = options; return &g_new_pf; }
'''
fi_lambda = dict(
    name='BW.formatter_share', primary='C12', props={'C12', 'C16'}, kind='S',
    desc='the look-up lambda of _dispatch_transit_event_to_sinks: a logger without a formatter adopts the formatter of another logger only if that formatter was built from options equal to its own',
    structs=[], prelude=FI_PRELUDE, enforce='BW_share_pred', replace=[],
    funcs=[dict(src=dict(header=BWH, cls='BackendWorker', name='_dispatch_transit_event_to_sinks', lambda_after=r'_logger_manager\.for_each_logger\(\s*\[&transit_event\]\(LoggerBase\*\s*logger\)'),
                cfun='BW_share_pred', sig='bool BW_share_pred(TE* transit_event_p, LB* logger)', member_fields=[], methods={'get_options': 'PF_get_options'},
                pre_rules=[(r'\btransit_event\.', 'transit_event_p->')],
                contract=r'''
__CPROVER_requires(__CPROVER_is_fresh(transit_event_p, sizeof(TE)) && __CPROVER_is_fresh(transit_event_p->logger_base, sizeof(LB)) && __CPROVER_is_fresh(logger, sizeof(LB)) && transit_event_p->logger_base->pattern_formatter == NULL)
__CPROVER_requires(logger->pattern_formatter == NULL || __CPROVER_is_fresh(logger->pattern_formatter, sizeof(PFm)))
__CPROVER_assigns(transit_event_p->logger_base->pattern_formatter)
__CPROVER_ensures(RET ==> (transit_event_p->logger_base->pattern_formatter == logger->pattern_formatter && logger->pattern_formatter != NULL && logger->pattern_formatter->g_options == transit_event_p->logger_base->pattern_formatter_options)) /*@ C12,C16 "a formatter adopted from another logger was built from options equal to this logger's own (unit PFO.equals says what equal means)" */
__CPROVER_ensures(!RET ==> (transit_event_p->logger_base->pattern_formatter == NULL || transit_event_p->logger_base->pattern_formatter->g_options == transit_event_p->logger_base->pattern_formatter_options)) /*@ C12 "no formatter is adopted from a logger with different options" */
''')],
    harness='  TE* te; LB* l; BW_share_pred(te, l);', dropped=['shared_ptr ownership', 'options compared by content id (operator==: unit PFO.equals)'], trusted=[], min_obligations=6)
UNITS.append(fi_lambda)

fi_init = dict(
    name='BW.formatter_init', primary='C12', props={'C12', 'C16'}, kind='S',
    desc='formatter set-up at the head of _dispatch_transit_event_to_sinks: a logger that has no formatter yet ends up with one built from its own options - adopted from a logger with equal options or created',
    structs=[], prelude=FI_PRELUDE + r'''
typedef struct BWf { int dummy; } BWf;
/* _logger_manager.for_each_logger(lambda): the look-up lambda (unit BW.formatter_share) applied to the registered loggers */
void FOR_EACH_SHARE(BWf* self, TE* te) __CPROVER_assigns(te->logger_base->pattern_formatter)
__CPROVER_ensures(te->logger_base->pattern_formatter == NULL || (__CPROVER_is_fresh(te->logger_base->pattern_formatter, sizeof(PFm)) && te->logger_base->pattern_formatter->g_options == te->logger_base->pattern_formatter_options));
''', enforce='BW_formatter_init', replace=['FOR_EACH_SHARE'],
    funcs=[dict(src=dict(header=BWH, cls='BackendWorker', name='_dispatch_transit_event_to_sinks',
                         stmt_re=r'if \([^{};]*!transit_event\.logger_base->pattern_formatter[^{};]*\)\s*\{.*?std::make_shared<PatternFormatter>\([^;]*\);\s*\}\s*\}'),
                cfun='BW_formatter_init', sig='void BW_formatter_init(BWf* self, TE* transit_event_p)', member_fields=[],
                pre_rules=[(r'_logger_manager\.for_each_logger\(\s*\[&transit_event\]\(LoggerBase\*\s*logger\)\s*\{.*?return false;\s*\}\s*\)\s*;', 'FOR_EACH_SHARE(self, transit_event_p);', '!'),
                           (r'std::make_shared<PatternFormatter>\(', 'PF_make_shared('), (r'\btransit_event\.', 'transit_event_p->'), (r'__builtin_expect\((.*?),\s*[01]\)', r'(\1)', '?')],
                contract=r'''
__CPROVER_requires(__CPROVER_is_fresh(self, sizeof(*self)) && __CPROVER_is_fresh(transit_event_p, sizeof(TE)) && __CPROVER_is_fresh(transit_event_p->logger_base, sizeof(LB)) && g_creates == 0)
__CPROVER_requires(transit_event_p->logger_base->pattern_formatter == NULL || (__CPROVER_is_fresh(transit_event_p->logger_base->pattern_formatter, sizeof(PFm)) && transit_event_p->logger_base->pattern_formatter->g_options == transit_event_p->logger_base->pattern_formatter_options))
__CPROVER_assigns(transit_event_p->logger_base->pattern_formatter, g_creates, __CPROVER_object_whole(&g_new_pf))
__CPROVER_ensures(transit_event_p->logger_base->pattern_formatter != NULL && transit_event_p->logger_base->pattern_formatter->g_options == transit_event_p->logger_base->pattern_formatter_options) /*@ C12,C16 "every statement is rendered by a formatter built from its own logger's pattern options" */
__CPROVER_ensures(OLD(transit_event_p->logger_base->pattern_formatter) != NULL ==> transit_event_p->logger_base->pattern_formatter == OLD(transit_event_p->logger_base->pattern_formatter)) /*@ C12 "a logger keeps the formatter it has" */
''')],
    harness='  BWf* s; TE* te; BW_formatter_init(s, te);', dropped=['shared_ptr ownership', 'options as content ids'], trusted=['LoggerManager::for_each_logger applies the lambda to registered loggers until it returns true (unit BW.formatter_share for the lambda)'], min_obligations=6)
UNITS.append(fi_init)

# ------------------------------------------------------------------------------------------ detail::log_level_to_string
LLH = 'quill/core/LogLevel.h'
LL_PRELUDE = r'''
typedef uint8_t LogLevel;
typedef size_t StrId;                               /* a description string by content id */
'''
ll_to_string = dict(
    name='LL.to_string', primary='C12', props={'C12', 'C16'}, kind='L',
    desc='detail::log_level_to_string: the level name / short code handed to the pattern is entry number <level> of the configured table; a level outside the table is an error, never a read past its end',
    structs=[], prelude=LL_PRELUDE, enforce='log_level_to_string', replace=[],
    funcs=[dict(src=dict(header=LLH, cls=None, name='log_level_to_string'), src_params=['log_level', 'log_levels_strings', 'log_levels_strings_size'], cfun='log_level_to_string',
                sig='StrId log_level_to_string(LogLevel log_level, StrId const* log_levels_strings, size_t log_levels_strings_size)', member_fields=[], ret_default='0', exceptions=True, may_throw=[],
                pre_rules=[(r'auto\s+const\s+log_lvl\s*=', 'uint32_t const log_lvl ='), (r'std::string\s+const\s+error_msg\s*=[^;]*;', ''), (r'throw\s*\(?\s*QuillError\s*\{.*?\}\s*\)?\s*;', 'throw(QuillError{"x"});'),
                           (r'__builtin_expect\((.*?),\s*[01]\)', r'(\1)', '?')],
                contract=r'''
__CPROVER_requires(log_levels_strings_size >= 1 && log_levels_strings_size <= 16 && __CPROVER_is_fresh(log_levels_strings, log_levels_strings_size * sizeof(StrId)) && g_exc == 0)
__CPROVER_assigns(g_exc)
__CPROVER_ensures(log_level < log_levels_strings_size ==> (g_exc == 0 && RET == log_levels_strings[log_level])) /*@ C12,C16 "the level name / short code of a statement is the table entry of its own level" */
__CPROVER_ensures(log_level >= log_levels_strings_size ==> g_exc == EXC_STD) /*@ C12 "a level outside the table is reported as an error (CBMC's bounds checks: the table is never read past its end)" */
''')],
    harness='  LogLevel l; StrId const* t; size_t n; log_level_to_string(l, t, n);', dropped=['std::string / string_view as content ids', 'text of the error message'], trusted=[], min_obligations=5)
UNITS.append(ll_to_string)

# ------------------------------------------------------------------------------------------ PatternFormatter::_set_pattern: names in enum order
import re as _re, os as _os
from vlib.extract import REPO as _REPO


def _attribute_enum():
    """the enumerators of PatternFormatter::Attribute, in the order of the source (read on every run)"""
    t = open(_os.path.join(_REPO, 'include', H)).read()
    m = _re.search(r'enum\s+Attribute\s*:\s*uint8_t\s*\{(.*?)\}', t, _re.S)
    names = [x.split('=')[0].strip() for x in _re.sub(r'//[^\n]*|/\*.*?\*/', '', m.group(1), flags=_re.S).split(',') if x.strip()] if m else []
    return [n for n in names if n != 'ATTR_NR_ITEMS']


_ENUM = _attribute_enum()
# SPEC (from the property's list of attributes): the pattern name of each attribute
_SPEC_NAME = {'Time': 'time', 'FileName': 'file_name', 'CallerFunction': 'caller_function', 'LogLevel': 'log_level', 'LogLevelShortCode': 'log_level_short_code', 'LineNumber': 'line_number',
              'Logger': 'logger', 'FullPath': 'full_path', 'ThreadId': 'thread_id', 'ThreadName': 'thread_name', 'ProcessId': 'process_id', 'SourceLocation': 'source_location',
              'ShortSourceLocation': 'short_source_location', 'Message': 'message', 'Tags': 'tags', 'NamedArgs': 'named_args'}
_NAMES = sorted(set(_SPEC_NAME.values()))
SP_PRELUDE = ('enum { ' + ', '.join('A_%s' % a for a in _ENUM) + ', A_NR };   /* PatternFormatter::Attribute as the source orders it */\n' +
              'enum { N_none, ' + ', '.join('N_%s' % n for n in _NAMES) + ' };   /* pattern names */\n' +
              '#define SPEC_NAME(a) (' + ' '.join('(a) == A_%s ? N_%s :' % (a, _SPEC_NAME.get(a, 'none')) for a in _ENUM) + ' N_none)\n' + r'''
typedef struct PFs { int dummy; } PFs;
int g_a; int g_name_at_a; size_t g_named_args, g_gens; size_t g_set_args_for_a; int g_set_name_for_a;
static inline void GEN_BEGIN(void) { g_gens++; }
static inline int ARG(int k, int name) { g_named_args++; if (k == g_a) g_name_at_a = name; return 0; }
static inline void SET_ARG(int attr, int name) { if (attr == g_a) { g_set_args_for_a++; g_set_name_for_a = name; } }
''')
_counter = [0]


def _arg_rule(m):
    k = _counter[0]
    _counter[0] += 1
    return 'ARG(%d, N_%s)' % (k, m.group(1))


def _reset_counter(m):
    _counter[0] = 0
    return 'GEN_BEGIN(); ('


set_pattern = dict(
    name='PF.set_pattern', primary='C12', props={'C12'}, kind='S',
    desc='PatternFormatter::_set_pattern: the named arguments handed to the pattern rewrite are the attribute names in the order of the Attribute enum (slot k of the rewritten pattern belongs to attribute k), and every attribute\'s slot is initialised once',
    structs=[], prelude=SP_PRELUDE, enforce='PF__set_pattern', replace=[],
    funcs=[dict(src=dict(header=H, cls='PatternFormatter', name='_set_pattern'), src_params=[], cfun='PF__set_pattern', sig='void PF__set_pattern(PFs* self)', cls_c='PF', member_fields=[],
                pre_rules=[(r'using\s+namespace\s+fmtquill::literals\s*;', ''),
                           (r'std::tie\(_fmt_format,\s*_order_index\)\s*=\s*_generate_fmt_format_string\(\s*_is_set_in_pattern,\s*_options\.format_pattern,', _reset_counter, '!'),
                           (r'"(\w+)"_a\s*=\s*""', _arg_rule),
                           (r'_set_arg<Attribute::(\w+)>\((?:std::string_view\()?"(\w+)"\)?\)\s*;', r'SET_ARG(A_\1, N_\2);')],
                contract=r'''
__CPROVER_requires(__CPROVER_is_fresh(self, sizeof(*self)) && g_a >= 0 && g_a < A_NR && g_named_args == 0 && g_gens == 0 && g_set_args_for_a == 0 && g_name_at_a == N_none)
__CPROVER_assigns(g_name_at_a, g_named_args, g_gens, g_set_args_for_a, g_set_name_for_a)
__CPROVER_ensures(g_gens == 1 && g_named_args == A_NR && g_name_at_a == SPEC_NAME(g_a)) /*@ C12 "the k-th name given to the pattern rewrite is the pattern name of attribute k: %(name) is substituted by that attribute's value, not a neighbour's" */
__CPROVER_ensures(g_set_args_for_a == 1) /*@ C12 "every attribute's slot is initialised once (the placeholder text put there is a dummy that format() overwrites: its content is not demanded)" */
''')],
    harness='  PFs* f; PF__set_pattern(f);',
    dropped=['fmt named-argument objects ("name"_a = ""): the name and its position in the argument list are kept', 'string_view / char const* flavour of the placeholder values'],
    trusted=['_generate_fmt_format_string maps the k-th named argument to slot k (bounded stand-in PF.pattern)', 'the pattern names of the sixteen attributes are taken from the property statement (table SPEC_NAME)'], min_obligations=5)
UNITS.append(set_pattern)
