"""C15 / C14 — sinks/RotatingSink.h: time rotation schedule, rotation period, size rotation decision, write_log order."""
H = 'quill/sinks/RotatingSink.h'
PRELUDE = r'''
typedef uint8_t RotationFrequency; enum { RF_Disabled, RF_Daily, RF_Hourly, RF_Minutely };
typedef struct Cfg { RotationFrequency freq; uint32_t interval; size_t max_file_size; uint32_t max_backup_files; bool overwrite; } Cfg;
typedef struct RS { uint64_t _next_rotation_time; uint64_t _open_file_timestamp; size_t _file_size; Cfg _config; bool g_is_null; } RS;
#define NS_MIN 60000000000LL
#define NS_HOUR 3600000000000LL
#define NS_DAY (24 * NS_HOUR)
static inline RotationFrequency CFG_rotation_frequency(Cfg const* c) { return c->freq; }
static inline uint32_t CFG_rotation_interval(Cfg const* c) { return c->interval; }
static inline size_t CFG_rotation_max_file_size(Cfg const* c) { return c->max_file_size; }
#define PERIOD(c) ((c)->freq == RF_Daily ? (uint64_t)NS_DAY : ((c)->freq == RF_Hourly ? (uint64_t)(c)->interval * (uint64_t)NS_HOUR : (uint64_t)(c)->interval * (uint64_t)NS_MIN))
size_t g_rotate_calls, g_base_writes, g_clock, g_t_rotate, g_t_write; uint64_t g_rotate_ts; bool g_rotation_refused; size_t g_written_size;
'''
CHRONO = [(r'std::chrono::nanoseconds\{std::chrono::minutes\{(.*?)\}\}\.count\(\)', r'((int64_t)(\1) * NS_MIN)', '?'),
          (r'std::chrono::nanoseconds\{std::chrono::hours\{(.*?)\}\}\.count\(\)', r'((int64_t)(\1) * NS_HOUR)', '?'),
          (r'RotatingFileSinkConfig::RotationFrequency::(\w+)', r'RF_\1', '?'),
          (r'throw\s*\(\s*QuillError\s*\{.*?\}\s*\)\s*;', 'throw(QuillError{"x"});', '?')]
CFG_METHODS = {'rotation_frequency': 'CFG_rotation_frequency', 'rotation_interval': 'CFG_rotation_interval', 'rotation_max_file_size': 'CFG_rotation_max_file_size'}

calc_tp_func = dict(src=dict(header=H, cls='RotatingSink', name='_calculate_rotation_tp'), src_params=['rotation_timestamp_ns', 'config'], cfun='RS_calc_tp',
                    sig='uint64_t RS_calc_tp(uint64_t rotation_timestamp_ns, Cfg const* config_p)', ret_default='0', member_fields=[], methods=CFG_METHODS,
                    pre_rules=CHRONO + [(r'\bconfig\b', '(*config_p)')])
CALC_CONTRACT = r'''
__CPROVER_requires(__CPROVER_is_fresh(config_p, sizeof(Cfg)) && config_p->freq <= RF_Minutely && config_p->interval >= 1 && config_p->interval <= 1024 && rotation_timestamp_ns < (1ULL << 62) && g_exc == 0)
__CPROVER_assigns(g_exc)
__CPROVER_ensures(config_p->freq != RF_Disabled ==> (g_exc == 0 && RET == rotation_timestamp_ns + PERIOD(config_p))) /*@ C15 "the rotation period is the configured one: interval minutes, interval hours, or 24 hours" */
__CPROVER_ensures(config_p->freq == RF_Disabled ==> g_exc == EXC_STD) /*@ C15 "an invalid frequency is an error" */
'''
calc_tp = dict(
    name='RS.calc_rotation_tp', primary='C15', props={'C15'}, kind='L', desc='RotatingSink::_calculate_rotation_tp: timestamp + configured period (std::chrono expressions as 64-bit nanoseconds)',
    structs=[], prelude=PRELUDE, enforce='RS_calc_tp', replace=[], funcs=[dict(calc_tp_func, contract=CALC_CONTRACT)],
    harness='  uint64_t t; Cfg* c; RS_calc_tp(t, c);', dropped=['std::chrono types as int64 nanoseconds', 'class template parameter (base sink type)'], trusted=[], min_obligations=5)

TR_PRELUDE = PRELUDE + r'''
void RS__rotate_files(RS* self, uint64_t ts) __CPROVER_assigns(g_rotate_calls, g_rotate_ts, g_clock, g_t_rotate, g_rotation_refused, self->_file_size, self->_open_file_timestamp)
__CPROVER_ensures(g_rotate_calls == OLD(g_rotate_calls) + 1 && g_rotate_ts == ts && g_clock == OLD(g_clock) + 1 && g_t_rotate == g_clock)
__CPROVER_ensures(g_rotation_refused ? (self->_file_size == OLD(self->_file_size) && self->_open_file_timestamp == OLD(self->_open_file_timestamp)) : (self->_file_size == 0 && self->_open_file_timestamp == ts));
uint64_t RS_calc_tp(uint64_t rotation_timestamp_ns, Cfg const* config_p)''' + CALC_CONTRACT.replace('/*@', '/*') + r''';
#define RS__calculate_rotation_tp(self, ts, cfg) RS_calc_tp(ts, &(cfg))
/* _calculate_initial_rotation_tp (unit RS.initial_tp): daily - the next occurrence of the configured HH:MM strictly after the instant */
size_t g_initial_calls; uint64_t g_initial_arg, g_initial_ret;
uint64_t RS_initial_tp_of(uint64_t ts, Cfg const* c)
__CPROVER_requires(c->freq == RF_Daily)
__CPROVER_assigns(g_initial_calls, g_initial_arg, g_initial_ret)
__CPROVER_ensures(RET > ts && RET - ts <= (uint64_t)NS_DAY + (uint64_t)NS_HOUR && g_initial_calls == OLD(g_initial_calls) + 1 && g_initial_arg == ts && g_initial_ret == RET);
#define RS__calculate_initial_rotation_tp(self, ts, cfg) RS_initial_tp_of(ts, &(cfg))
'''
DAYS = ' || '.join('self->_next_rotation_time == OLD(self->_next_rotation_time) + %dULL * NS_DAY' % k for k in range(1, 9))
time_rotation = dict(
    name='RS.time_rotation', primary='C15', props={'C15'}, kind='L',
    desc='RotatingSink::_time_rotation: rotate before the write iff the statement is at or after the scheduled point; the next point is the scheduled point advanced by whole periods past the statement',
    structs=[], prelude=TR_PRELUDE, enforce='RS__time_rotation', replace=['RS__rotate_files', 'RS_calc_tp', 'RS_initial_tp_of'],
    funcs=[dict(src=dict(header=H, cls='RotatingSink', name='_time_rotation'), src_params=['record_timestamp_ns'], cfun='RS__time_rotation',
                sig='bool RS__time_rotation(RS* self, uint64_t record_timestamp_ns)', ret_default='false', cls_c='RS', member_fields=['_next_rotation_time', '_config'],
                siblings=['_rotate_files', '_calculate_rotation_tp', '_calculate_initial_rotation_tp'], exceptions=True, may_throw=['RS_calc_tp', 'RS__calculate_rotation_tp'], methods=CFG_METHODS, pre_rules=CHRONO,
                contract=r'''
__CPROVER_requires(__CPROVER_is_fresh(self, sizeof(*self)) && self->_config.freq != RF_Disabled && self->_config.freq <= RF_Minutely && self->_config.interval >= 1 && self->_config.interval <= INTERVAL_MAX && g_exc == 0)
__CPROVER_requires(record_timestamp_ns < (1ULL << 62) && self->_next_rotation_time < (1ULL << 62))
__CPROVER_requires(record_timestamp_ns < self->_next_rotation_time || record_timestamp_ns - self->_next_rotation_time < GAP_PERIODS * PERIOD(&self->_config))
__CPROVER_requires(g_initial_calls == 0)
__CPROVER_assigns(self->_next_rotation_time, self->_file_size, self->_open_file_timestamp, g_rotate_calls, g_rotate_ts, g_clock, g_t_rotate, g_rotation_refused, g_exc, g_initial_calls, g_initial_arg, g_initial_ret)
__CPROVER_ensures(record_timestamp_ns >= OLD(self->_next_rotation_time) ==> (RET && g_exc == 0 && g_rotate_calls == OLD(g_rotate_calls) + 1 && g_rotate_ts == record_timestamp_ns && self->_next_rotation_time > record_timestamp_ns)) /*@ C15 "a statement at or after the scheduled rotation point rotates the file before it is written, and the next point lies after it" */
__CPROVER_ensures(record_timestamp_ns < OLD(self->_next_rotation_time) ==> (!RET && g_rotate_calls == OLD(g_rotate_calls) && self->_next_rotation_time == OLD(self->_next_rotation_time))) /*@ C15 "statements with no rotation point between them share a file (no time rotation before the point)" */
__CPROVER_ensures(RET ==> self->_next_rotation_time - record_timestamp_ns <= PERIOD(&self->_config) + (self->_config.freq == RF_Daily ? (uint64_t)NS_HOUR : 0)) /*@ C15 "the next rotation point is at most one period after the statement (a calendar day can have 25 hours)" */
__CPROVER_ensures((RET && self->_config.freq == RF_Daily) ==> (g_initial_calls == 1 && g_initial_arg == record_timestamp_ns && self->_next_rotation_time == g_initial_ret)) /*@ C15 "daily at HH:MM: the next rotation point is the next occurrence of HH:MM in the sink's time zone after the statement, found by calendar arithmetic (it neither drifts with the statements nor moves at a daylight saving switch)" */
''')],
    harness='  RS* s; uint64_t t; RS__time_rotation(s, t);',
    variants=[dict(name='main', defs=['INTERVAL_MAX=16', 'GAP_PERIODS=8ULL']), dict(name='wide', tier='thorough', defs=['INTERVAL_MAX=64', 'GAP_PERIODS=8ULL'])],
    dropped=['class template parameter (base sink type)'], trusted=['_rotate_files by contract (rotated or refused)'],
    assumes=['gap between the statement and the scheduled point < 8 periods, interval <= 16 (thorough: 64) (64-bit division by a symbolic period is at the edge of SAT reach; same arithmetic beyond)'],
    min_obligations=10, timeout=600)

size_rotation = dict(
    name='RS.size_rotation', primary='C14', props={'C14'}, kind='L', desc='RotatingSink::_size_rotation: rotate before the write exactly when the statement would push the file over the limit',
    structs=[], prelude=TR_PRELUDE, enforce='RS__size_rotation', replace=['RS__rotate_files'],
    funcs=[dict(src=dict(header=H, cls='RotatingSink', name='_size_rotation'), src_params=['log_msg_size', 'record_timestamp_ns'], cfun='RS__size_rotation',
                sig='void RS__size_rotation(RS* self, size_t log_msg_size, uint64_t record_timestamp_ns)', cls_c='RS', member_fields=['_file_size', '_config'], siblings=['_rotate_files'],
                methods=CFG_METHODS,
                contract=r'''
__CPROVER_requires(__CPROVER_is_fresh(self, sizeof(*self)) && self->_file_size <= (((size_t)1) << 62) && log_msg_size <= (((size_t)1) << 40))
__CPROVER_assigns(self->_file_size, self->_open_file_timestamp, g_rotate_calls, g_rotate_ts, g_clock, g_t_rotate, g_rotation_refused)
__CPROVER_ensures(g_rotate_calls == OLD(g_rotate_calls) + ((OLD(self->_file_size) + log_msg_size > self->_config.max_file_size) ? 1 : 0)) /*@ C14 "a rotation is attempted exactly when appending the statement would exceed the size limit" */
__CPROVER_ensures((self->_file_size + log_msg_size <= self->_config.max_file_size) || g_rotation_refused || (self->_file_size == 0 && log_msg_size > self->_config.max_file_size)) /*@ C14 "after the decision the statement fits the file, unless the statement alone exceeds the limit or the rotation was refused" */
''')],
    harness='  RS* s; size_t n; uint64_t t; RS__size_rotation(s, n, t);', dropped=['class template parameter'], trusted=['_rotate_files by contract (rotated or refused)'], min_obligations=10)

WL_PRELUDE = PRELUDE + r'''
bool g_time_rotated;
bool RS__time_rotation(RS* self, uint64_t ts) __CPROVER_assigns(g_clock, g_t_rotate, g_rotate_calls, g_time_rotated, self->_file_size) __CPROVER_ensures(g_time_rotated == RET && g_clock == OLD(g_clock) + 1 && (RET ? g_t_rotate == g_clock : g_t_rotate == OLD(g_t_rotate)) && self->_file_size <= OLD(self->_file_size));
void RS__size_rotation(RS* self, size_t n, uint64_t ts) __CPROVER_assigns(g_clock, g_t_rotate, g_rotate_calls, self->_file_size) __CPROVER_ensures(g_clock == OLD(g_clock) + 1 && g_t_rotate == g_clock && g_rotate_calls == OLD(g_rotate_calls) + 1 && self->_file_size <= OLD(self->_file_size));
void BASE_write_log(RS* self, size_t n) __CPROVER_assigns(g_base_writes, g_clock, g_t_write, g_written_size) __CPROVER_ensures(g_base_writes == OLD(g_base_writes) + 1 && g_clock == OLD(g_clock) + 1 && g_t_write == g_clock && g_written_size == n);
static inline bool RS_is_null(RS* self) { return self->g_is_null; }
'''
write_log = dict(
    name='RS.write_log', primary='C14', props={'C14', 'C15'}, kind='S',
    desc='RotatingSink::write_log: the statement is written whole, exactly once, after the rotation decisions; size rotation is skipped when time rotation happened; the file size accounts for the statement',
    structs=[], prelude=WL_PRELUDE, enforce='RS_write_log', replace=['RS__time_rotation', 'RS__size_rotation', 'BASE_write_log'],
    funcs=[dict(src=dict(header=H, cls='RotatingSink', name='write_log'), cfun='RS_write_log', sig='void RS_write_log(RS* self, uint64_t log_timestamp, size_t log_statement_size)',
                cls_c='RS', member_fields=['_file_size', '_config'], siblings=['_time_rotation', '_size_rotation'], methods=CFG_METHODS,
                pre_rules=CHRONO + [(r'base_type::write_log\s*\([^;]*\)\s*;', 'BASE_write_log(self, log_statement_size);'), (r'this->is_null\(\)', 'RS_is_null(self)', 1),
                                    (r'log_statement\.size\(\)', 'log_statement_size')],
                contract=r'''
__CPROVER_requires(__CPROVER_is_fresh(self, sizeof(*self)) && self->_config.freq <= RF_Minutely && self->_file_size <= (((size_t)1) << 62) && log_statement_size <= (((size_t)1) << 40) && g_base_writes == 0 && g_clock == 0 && g_t_rotate == 0 && g_rotate_calls == 0)
__CPROVER_assigns(self->_file_size, g_base_writes, g_clock, g_t_rotate, g_t_write, g_written_size, g_rotate_calls, g_time_rotated)
__CPROVER_ensures(g_base_writes == 1 && g_written_size == log_statement_size) /*@ C14 "every statement is written whole to exactly one file" */
__CPROVER_ensures(g_t_rotate < g_t_write) /*@ C15 "rotation (by time or size) happens before the statement is written, never after or in the middle" */
__CPROVER_ensures(!self->g_is_null ==> self->_file_size >= log_statement_size) /*@ C14 "the size of the open file accounts for the statement just written" */
''')],
    harness='  RS* s; uint64_t t; size_t n; RS_write_log(s, t, n);',
    dropped=['all statement attributes except timestamp and line size', 'class template parameter'], trusted=['base sink write_log writes the whole line once (FileSink/StreamSink)'], min_obligations=10)

UNITS = [calc_tp, time_rotation, size_rotation, write_log]

# ------------------------------------------------------------------------------------------ _rotate_files: count logic
RF_PRELUDE = PRELUDE + r'''
typedef struct DQ { size_t n; } DQ;
typedef struct RSF { DQ _created_files; Cfg _config; uint64_t _open_file_timestamp; size_t _file_size; long g_file_size_on_disk; } RSF;
size_t g_flushes, g_closes, g_opens, g_removed_files, g_renames, g_pop_backs, g_emplace_fronts, g_clock, g_t_close, g_t_open, g_t_remove, g_t_rename; bool g_removed_was_back;
static inline size_t DQ_size(DQ* d) { return d->n; }
static inline uint32_t CFG_max_backup_files(Cfg const* c) { return c->max_backup_files; }
static inline bool CFG_overwrite_rolled_files(Cfg const* c) { return c->overwrite; }
void BASE_flush_and_fsync(RSF* self) __CPROVER_assigns(g_flushes) __CPROVER_ensures(g_flushes == OLD(g_flushes) + 1);
static inline long GET_FILE_SIZE(RSF* self) { return self->g_file_size_on_disk; }
void CLOSE_FILE(RSF* self) __CPROVER_assigns(g_closes, g_clock, g_t_close) __CPROVER_ensures(g_closes == OLD(g_closes) + 1 && g_clock == OLD(g_clock) + 1 && g_t_close == g_clock);
/* naming + rename chain of the kept files (unit RS.rename_chain) */
void RENAME_CHAIN(RSF* self) __CPROVER_assigns(g_renames, g_clock, g_t_rename) __CPROVER_ensures(g_renames == OLD(g_renames) + 1 && g_clock == OLD(g_clock) + 1 && g_t_rename == g_clock);
void REMOVE_BACK_FILE(RSF* self) __CPROVER_requires(self->_created_files.n > 0) __CPROVER_assigns(g_removed_files, g_clock, g_t_remove) __CPROVER_ensures(g_removed_files == OLD(g_removed_files) + 1 && g_clock == OLD(g_clock) + 1 && g_t_remove == g_clock);
void DQ_pop_back(DQ* d) __CPROVER_requires(d->n > 0) __CPROVER_assigns(d->n, g_pop_backs) __CPROVER_ensures(d->n == OLD(d->n) - 1 && g_pop_backs == OLD(g_pop_backs) + 1);
void DQ_emplace_front_current(DQ* d) __CPROVER_assigns(d->n, g_emplace_fronts) __CPROVER_ensures(d->n == OLD(d->n) + 1 && g_emplace_fronts == OLD(g_emplace_fronts) + 1);
void OPEN_FILE_W(RSF* self) __CPROVER_requires(g_closes == 1) __CPROVER_assigns(g_opens, g_clock, g_t_open) __CPROVER_ensures(g_opens == OLD(g_opens) + 1 && g_clock == OLD(g_clock) + 1 && g_t_open == g_clock);
#define REFUSED(s, n0) (((n0) > (s)->_config.max_backup_files && !(s)->_config.overwrite) || (s)->g_file_size_on_disk <= 0)
'''
rotate_files = dict(
    name='RS.rotate_files', primary='C14', props={'C14'}, kind='S',
    desc='RotatingSink::_rotate_files, count logic: refused (nothing touched) when the backup limit is reached without overwrite permission or the file is empty; otherwise at most one file - the oldest - is deleted, only when overwriting is allowed, and the list never exceeds max_backup_files + 1',
    structs=[], prelude=RF_PRELUDE, enforce='RS__rotate_files',
    replace=['BASE_flush_and_fsync', 'CLOSE_FILE', 'RENAME_CHAIN', 'REMOVE_BACK_FILE', 'DQ_pop_back', 'DQ_emplace_front_current', 'OPEN_FILE_W'],
    funcs=[dict(src=dict(header=H, cls='RotatingSink', name='_rotate_files'), src_params=['record_timestamp_ns'], cfun='RS__rotate_files',
                sig='void RS__rotate_files(RSF* self, uint64_t record_timestamp_ns)', cls_c='RS', member_fields=['_created_files', '_config', '_open_file_timestamp', '_file_size'],
                methods={'size': 'DQ_size', 'max_backup_files': 'CFG_max_backup_files', 'overwrite_rolled_files': 'CFG_overwrite_rolled_files', 'pop_back': 'DQ_pop_back'},
                pre_rules=[(r'base_type::flush_sink\(\)\s*;\s*base_type::fsync_file\(true\)\s*;', 'BASE_flush_and_fsync(self);', 1),
                           (r'_get_file_size\(this->_filename\)', 'GET_FILE_SIZE(self)', 1), (r'this->close_file\(\)\s*;', 'CLOSE_FILE(self);', 1),
                           (r'std::string\s+datetime_suffix\s*;.*?(?=if\s*\(\s*_created_files\.size\(\)[^{};]*\)\s*\{\s*fs::path)', 'RENAME_CHAIN(self);\n', 1),
                           (r'fs::path\s+const\s+removed_file\s*=\s*_get_filename\s*\(.*?\)\s*;\s*_remove_file\(removed_file\)\s*;', 'REMOVE_BACK_FILE(self);', 1),
                           (r'_created_files\.emplace_front\(this->_filename,\s*0,\s*std::string\{\}\)\s*;', 'DQ_emplace_front_current(&_created_files);', 1),
                           (r'this->open_file\(this->_filename,\s*"w"\)\s*;', 'OPEN_FILE_W(self);', 1)],
                contract=r'''
__CPROVER_requires(__CPROVER_is_fresh(self, sizeof(*self)) && self->_created_files.n <= (size_t)self->_config.max_backup_files + 1 && g_closes == 0 && g_opens == 0 && g_removed_files == 0 && g_pop_backs == 0 && g_emplace_fronts == 0 && g_clock == 0 && g_renames == 0)
__CPROVER_assigns(self->_created_files.n, self->_open_file_timestamp, self->_file_size, g_flushes, g_closes, g_opens, g_removed_files, g_renames, g_pop_backs, g_emplace_fronts, g_clock, g_t_close, g_t_open, g_t_remove, g_t_rename)
#define N0 OLD(self->_created_files.n)
__CPROVER_ensures(REFUSED(self, N0) ==> (self->_created_files.n == N0 && g_closes == 0 && g_opens == 0 && g_removed_files == 0 && g_renames == 0 && self->_file_size == OLD(self->_file_size) && self->_open_file_timestamp == OLD(self->_open_file_timestamp))) /*@ C14 "when the backup limit is reached and overwriting is not allowed (or the file is empty) rotation stops: nothing is closed, renamed or deleted" */
__CPROVER_ensures(!REFUSED(self, N0) ==> (g_closes == 1 && g_opens == 1 && g_t_close < g_t_rename && g_t_rename < g_t_open && self->_file_size == 0 && self->_open_file_timestamp == record_timestamp_ns)) /*@ C14 "a rotation closes the file, renames the kept files and opens a fresh one; the new file starts empty and is named after the moment it was opened" */
__CPROVER_ensures(g_removed_files <= 1 && g_removed_files == g_pop_backs && (g_removed_files == 1 ==> (self->_config.overwrite && N0 > self->_config.max_backup_files && !REFUSED(self, N0)))) /*@ C14 "at most one file is deleted per rotation - the oldest - and only when overwriting is allowed and the limit is exceeded" */
__CPROVER_ensures(self->_created_files.n <= (size_t)self->_config.max_backup_files + 1) /*@ C14 "at most max_backup_files rotated files (plus the open one) are kept" */
__CPROVER_ensures(!REFUSED(self, N0) ==> g_emplace_fronts == 1) /*@ C14 "the newly opened file is recorded as the newest" */
''')],
    harness='  RSF* s; uint64_t t; RS__rotate_files(s, t);',
    dropped=['file names, date suffixes and the rename chain over the deque (one stub here; the chain itself: unit RS.rename_chain for the Index scheme, native stand-ins for the date schemes)', 'std::filesystem, flush/fsync internals'],
    trusted=['_get_file_size reports the size on disk after flush+fsync'], min_obligations=30)
UNITS.append(rotate_files)

# ------------------------------------------------------------------------------------------ _calculate_initial_rotation_tp
INIT_PRELUDE = r'''
#include <time.h>
typedef uint8_t RotationFrequency; enum { RF_Disabled, RF_Daily, RF_Hourly, RF_Minutely };
typedef uint8_t Timezone; enum { TZ_LocalTime, TZ_GmtTime };
typedef struct ICfg { RotationFrequency freq; Timezone tz; uint32_t daily_h, daily_m; } ICfg;
static inline RotationFrequency ICFG_rotation_frequency(ICfg const* c) { return c->freq; }
static inline Timezone ICFG_timezone(ICfg const* c) { return c->tz; }
/* ghosts: g_now = the start instant in whole seconds; g_day_base = the instant of 00:00:00 of the civil day that contains it
   in the sink's zone.  TRUSTED libc model (gmtime_r/localtime_r, timegm/mktime), AXIOM: the zone offset is constant from
   g_day_base for the following 48 hours, so breaking down and re-assembling are linear in hour/minute/second and an
   out-of-range field (tm_min == 60, tm_hour == 24) carries.  False on days with a DST switch (listed as assumption). */
time_t g_now, g_day_base; uint64_t g_ret_s, g_ret_ns;
/* seconds -> nanoseconds: the multiplication stays on the assumed side (SAT cannot prove equalities between 64-bit products) */
uint64_t SEC_TO_NS(uint64_t secs) __CPROVER_assigns(g_ret_s, g_ret_ns) __CPROVER_ensures(g_ret_s == secs && RET == secs * 1000000000ULL && g_ret_ns == RET);
time_t DIV_1E9(time_t x) __CPROVER_requires(x >= 0) __CPROVER_assigns(g_now)
__CPROVER_ensures(RET >= 0 && RET < (1LL << 33) && RET * 1000000000LL <= x && x - RET * 1000000000LL < 1000000000LL && g_now == RET);
uint32_t BD_second_of_day(time_t t) __CPROVER_assigns(g_day_base) __CPROVER_requires(t >= 0) __CPROVER_ensures(g_day_base >= -86400 && g_day_base <= t && t - g_day_base < 86400 && RET == (uint32_t)(t - g_day_base));
#define MDAY0 15   /* the day of the month of the start instant: any value, the model is linear in it */
static inline void LIBC_breakdown(time_t const* t, struct tm* d) { uint32_t sod = BD_second_of_day(*t); d->tm_mday = MDAY0; d->tm_isdst = 0; d->tm_hour = (int)(sod / 3600u); d->tm_min = (int)((sod % 3600u) / 60u); d->tm_sec = (int)(sod % 60u); }
static inline time_t LIBC_assemble(struct tm* d) { return g_day_base + (time_t)(d->tm_mday - MDAY0) * 86400 + (time_t)d->tm_hour * 3600 + (time_t)d->tm_min * 60 + (time_t)d->tm_sec; }
#define SOD_NOW ((uint32_t)(g_now - g_day_base))
#define DAILY_T(c) (g_day_base + (time_t)(c)->daily_h * 3600 + (time_t)(c)->daily_m * 60)
'''
initial_tp = dict(
    name='RS.initial_tp', primary='C15', props={'C15'}, kind='L',
    desc='RotatingSink::_calculate_initial_rotation_tp: the first rotation point is the next whole minute / whole hour / configured HH:MM strictly after the start instant (libc break-down and re-assembly by a trusted linear model)',
    structs=[], prelude=INIT_PRELUDE, enforce='RS_initial_tp', replace=['DIV_1E9', 'BD_second_of_day', 'SEC_TO_NS'],
    funcs=[dict(src=dict(header=H, cls='RotatingSink', name='_calculate_initial_rotation_tp'), src_params=['start_time_ns', 'config'], cfun='RS_initial_tp',
                sig='uint64_t RS_initial_tp(uint64_t start_time_ns, ICfg const* config_p)', ret_default='0', member_fields=[],
                methods={'rotation_frequency': 'ICFG_rotation_frequency', 'timezone': 'ICFG_timezone'},
                pre_rules=[(r'RotatingFileSinkConfig::RotationFrequency::(\w+)', r'RF_\1'), (r'Timezone::(\w+)', r'TZ_\1'),
                           (r'throw\s*\(\s*QuillError\s*\{.*?\}\s*\)\s*;', 'throw(QuillError{"x"});', '?'),
                           (r'static_cast<time_t>\(start_time_ns\)\s*/\s*1000000000\b', 'DIV_1E9((time_t)start_time_ns)', '!'),
                           (r'\btm\s+date\s*;', 'struct tm date;'),
                           (r'detail::(?:gmtime_rs|localtime_rs)\(&time_now,\s*&date\)', 'LIBC_breakdown(&time_now, &date)'),
                           (r'(?:detail::timegm|std::mktime)\(&date\)', 'LIBC_assemble(&date)'),
                           (r'static_cast<decltype\(date\.tm_hour\)>\(config\.daily_rotation_time\(\)\.first\.count\(\)\)', '((int)config_p->daily_h)'),
                           (r'static_cast<decltype\(date\.tm_min\)>\(config\.daily_rotation_time\(\)\.second\.count\(\)\)', '((int)config_p->daily_m)'),
                           (r'std::chrono::seconds\{std::chrono::hours\{24\}\}\.count\(\)', '((time_t)86400)'),
                           (r'std::chrono::nanoseconds\{std::chrono::seconds\{(\w+)\}\}\.count\(\)', r'SEC_TO_NS(\1)'),
                           (r'\bconfig\b', '(*config_p)')],
                exceptions=True,
                contract=r'''
__CPROVER_requires(__CPROVER_is_fresh(config_p, sizeof(ICfg)) && config_p->freq <= RF_Minutely && config_p->tz <= TZ_GmtTime && config_p->daily_h <= 23 && config_p->daily_m <= 59 && start_time_ns < (1ULL << 62) && g_exc == 0)
__CPROVER_assigns(g_exc, g_now, g_day_base, g_ret_s, g_ret_ns)
__CPROVER_ensures(config_p->freq == RF_Disabled ==> g_exc == EXC_STD) /*@ C15 "an invalid frequency is an error" */
__CPROVER_ensures(config_p->freq != RF_Disabled ==> g_exc == 0)
__CPROVER_ensures(config_p->freq == RF_Minutely ==> (g_ret_s == (uint64_t)(g_day_base + (time_t)(SOD_NOW / 60u + 1u) * 60) && RET == g_ret_ns)) /*@ C15 "minutely: the first rotation point is the next whole minute after the start instant (also from hh:59, carrying into the hour)" */
__CPROVER_ensures(config_p->freq == RF_Hourly ==> (g_ret_s == (uint64_t)(g_day_base + (time_t)(SOD_NOW / 3600u + 1u) * 3600) && RET == g_ret_ns)) /*@ C15 "hourly: the first rotation point is the next whole hour after the start instant (also from 23:mm, carrying into the day)" */
__CPROVER_ensures(config_p->freq == RF_Daily ==> (g_ret_s == (uint64_t)(DAILY_T(config_p) > g_now ? DAILY_T(config_p) : DAILY_T(config_p) + 86400) && RET == g_ret_ns)) /*@ C15 "daily: the first rotation point is the next occurrence of the configured HH:MM strictly after the start instant" */
''')],
    harness='  uint64_t t; ICfg* c; RS_initial_tp(t, c);',
    dropped=['std::chrono types as int64 seconds / nanoseconds', 'struct tm fields other than tm_mday/tm_hour/tm_min/tm_sec (month and year pass through libc unchanged; tm_isdst = -1 is what makes the real mktime right across a DST switch: covered by the native unit RS.time_files, not by this linear model)', 'class template parameter'],
    trusted=['libc gmtime_r/localtime_r/timegm/mktime by the linear model LIBC_breakdown/LIBC_assemble (AXIOM: constant zone offset over the 48 h after local midnight; not true on DST-switch days)',
             '64-bit division by 10^9 by its defining property (DIV_1E9)'],
    min_obligations=10)
UNITS.append(initial_tp)

# ------------------------------------------------------------------------------------------ the rename chain of _rotate_files (Index naming scheme)
RC_PRELUDE = r'''
typedef uint8_t NamingScheme; enum { NS_Index, NS_Date, NS_DateAndTime };
typedef struct CfgN { NamingScheme g_scheme; } CfgN;
/* one entry of _created_files: its index and its date suffix (content id, 0 = none); the base file name is the same for all */
typedef struct FI { uint32_t index; size_t date_time; } FI;
/* _created_files (newest first): one tracked entry at position g_p; every other entry is materialised from the representation invariant of
   the Index scheme - the entry at position j (from the front) is file number j without a date suffix */
typedef struct DQ { size_t n; size_t g_p; FI tracked; FI other; } DQ;
typedef struct RSN { DQ _created_files; CfgN _config; } RSN;
typedef struct Name { uint32_t index; size_t date_time; } Name;
static inline size_t DQ_size(DQ* d) { return d->n; }
static inline FI* DQ_rat(DQ* d, size_t ri) { __CPROVER_assert(ri < d->n, "reverse position within the list"); size_t pos = d->n - 1 - ri; if (pos == d->g_p) return &d->tracked; d->other.index = (uint32_t)pos; d->other.date_time = 0; return &d->other; }
static inline Name NAME(uint32_t index, size_t date_time) { Name n; n.index = index; n.date_time = date_time; return n; }
/* ghost file system, for ONE arbitrary name g_v of the sequence (file number g_v, no date): does a file of that name exist right now */
uint32_t g_v; bool g_occ; size_t g_renames; uint32_t g_tracked_src, g_tracked_dst; size_t g_tracked_renames; uint32_t g_tracked_old;
static inline void RENAME_FILE(Name src, Name dst)
{
  __CPROVER_assert(!(dst.index == g_v && dst.date_time == 0 && g_occ), "C14: a rename never lands on a file that still exists (no kept file is overwritten by the chain)");
  __CPROVER_assert(!(src.index == g_v && src.date_time == 0) || g_occ, "C14: only existing files are renamed");
  if (src.index == g_v && src.date_time == 0) g_occ = false;
  if (dst.index == g_v && dst.date_time == 0) g_occ = true;
  if (src.index == g_tracked_old && src.date_time == 0) { g_tracked_renames++; g_tracked_src = src.index; g_tracked_dst = dst.index; }
  g_renames++;
}
#define C_(s) (&(s)->_created_files)
'''
rename_chain = dict(
    name='RS.rename_chain', primary='C14', props={'C14'}, kind='S',
    desc='the rename loop of RotatingSink::_rotate_files for the Index naming scheme: walking the list from the oldest file to the newest, file number k becomes k + 1; no rename lands on a name that still exists, every file is renamed exactly once, so the kept files keep their contents and their order (larger index = older)',
    structs=[], prelude=RC_PRELUDE, enforce='RS_rename_chain', replace=[], loopcontracts=True,
    funcs=[dict(src=dict(header=H, cls='RotatingSink', name='_rotate_files',
                         stmt_re=r'for \(auto it = _created_files\.r?begin\(\); it != _created_files\.r?end\(\); \+\+it\)\s*\{.*?\}\s*(?=if \(_created_files\.size\(\) > _config\.max_backup_files\(\)\)\s*\{\s*fs::path const removed_file)'),
                cfun='RS_rename_chain', sig='void RS_rename_chain(RSN* self, size_t datetime_suffix)', cls_c='RS', member_fields=['_created_files', '_config'],
                pre_rules=[(r'for \(auto it = _created_files\.rbegin\(\); it != _created_files\.rend\(\); \+\+it\)\s*\{', 'for (size_t __ri = 0; __ri < DQ_size(&_created_files); ++__ri) { FI* it = DQ_rat(&_created_files, __ri);', '?'),
                           (r'for \(auto it = _created_files\.begin\(\); it != _created_files\.end\(\); \+\+it\)\s*\{', 'for (size_t __ri = 0; __ri < DQ_size(&_created_files); ++__ri) { FI* it = DQ_rat(&_created_files, DQ_size(&_created_files) - 1 - __ri);', '?'),   # newest first: decided by the assertions, not an extraction break
                           (r'fs::path\s+(existing_file|renamed_file)\s*;', r'Name \1;'),
                           (r'_get_filename\(it->base_filename,\s*([^,()]+),\s*([^,()]+)\)', r'NAME(\1, \2)'),
                           (r'_config\.rotation_naming_scheme\(\)\s*==\s*RotatingFileSinkConfig::RotationNamingScheme::(\w+)', r'(_config.g_scheme == NS_\1)'),
                           (r'it->date_time\.empty\(\)', '(it->date_time == 0)'), (r'_rename_file\(existing_file,\s*renamed_file\)\s*;', 'RENAME_FILE(existing_file, renamed_file);')],
                loops={0: r'''
__CPROVER_assigns(__ri, self->_created_files.tracked, self->_created_files.other, g_occ, g_renames, g_tracked_src, g_tracked_dst, g_tracked_renames)
__CPROVER_loop_invariant(__ri <= C_(self)->n && g_renames == __ri)
__CPROVER_loop_invariant(C_(self)->tracked.date_time == 0 && C_(self)->tracked.index == (uint32_t)(C_(self)->g_p + ((C_(self)->g_p + __ri >= C_(self)->n) ? 1 : 0)))
__CPROVER_loop_invariant((g_occ ? 1 : 0) == (((size_t)g_v + __ri < C_(self)->n || ((size_t)g_v + __ri > C_(self)->n && (size_t)g_v <= C_(self)->n)) ? 1 : 0))
__CPROVER_loop_invariant(g_tracked_renames == ((C_(self)->g_p + __ri >= C_(self)->n) ? 1 : 0) && (g_tracked_renames == 1 ==> (g_tracked_src == g_tracked_old && g_tracked_dst == g_tracked_old + 1)))
__CPROVER_decreases(C_(self)->n - __ri)
'''},
                contract=r'''
__CPROVER_requires(__CPROVER_is_fresh(self, sizeof(*self)) && self->_config.g_scheme == NS_Index && datetime_suffix == 0 && C_(self)->n >= 1 && C_(self)->n <= (1u << 30) && C_(self)->g_p < C_(self)->n)
__CPROVER_requires(C_(self)->tracked.index == (uint32_t)C_(self)->g_p && C_(self)->tracked.date_time == 0 && g_tracked_old == C_(self)->tracked.index)   /* representation invariant of the Index scheme, for the tracked entry */
__CPROVER_requires((g_occ ==> (size_t)g_v < C_(self)->n) && ((size_t)g_v < C_(self)->n ==> g_occ) && g_renames == 0 && g_tracked_renames == 0)   /* the files r.log, r.1.log ... r.(n-1).log exist, no others of the sequence */
__CPROVER_assigns(self->_created_files.tracked, self->_created_files.other, g_occ, g_renames, g_tracked_src, g_tracked_dst, g_tracked_renames)
__CPROVER_ensures(g_renames == C_(self)->n && g_tracked_renames == 1 && g_tracked_src == g_tracked_old && g_tracked_dst == g_tracked_old + 1) /*@ C14 "every kept file is renamed exactly once, file number k to k + 1 (larger index = older)" */
__CPROVER_ensures(C_(self)->tracked.index == (uint32_t)(C_(self)->g_p + 1) && C_(self)->tracked.date_time == 0) /*@ C14 "the list entry of each file follows its file: position j now names file number j + 1, so after the fresh file is put in front position j names file number j again" */
__CPROVER_ensures((g_occ ? 1 : 0) == (((size_t)g_v >= 1 && (size_t)g_v <= C_(self)->n) ? 1 : 0)) /*@ C14 "afterwards exactly the names 1 .. n exist: the current name is free for the fresh file and nothing was overwritten on the way" */
''')],
    harness='  RSN* s; size_t d; RS_rename_chain(s, d);',
    dropped=['file names as (file number, date suffix id); the file system as the existence of one arbitrary name of the sequence', 'the Date / DateAndTime branches are lowered but not exercised (precondition: Index scheme)'],
    trusted=['std::filesystem::rename moves a file to a free name', 'list abstracted to {one tracked entry, the others materialised from the Index-scheme invariant: position j holds file number j}'],
    assumes=['Index naming scheme only; the Date / DateAndTime chains are covered by the native stand-ins RS.size_files / RS.time_files / RS.restart_files'], min_obligations=20)
UNITS.append(rename_chain)
