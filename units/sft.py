"""C13 — backend/StringFromTime.h + TimestampFormatter.h: quill's own arithmetic and cache handling; libc / fmt / tz data trusted."""
H = 'quill/backend/StringFromTime.h'
TFH = 'quill/backend/TimestampFormatter.h'

STRUCT = dict(c='SFT', header=H, cls='StringFromTime',
              only=['_cached_indexes', '_next_recalculation_timestamp', '_cached_timestamp', '_cached_seconds', '_time_zone', '_is_cacheable'],
              typemap={'std::vector<std::pair<size_t, format_type>>': 'IdxVec', 'Timezone': 'Timezone', 'time_t': 'time_t'})
PRELUDE = r'''
#include <time.h>
typedef uint8_t Timezone; enum { TZ_LocalTime, TZ_GmtTime };
typedef struct IdxVec { bool g_nonempty; } IdxVec;          /* _cached_indexes: only whether the pattern has H/M/S-type fields */
@STRUCT:SFT@
/* ghosts.  The AXIOM about tz data (trusted): within one UTC quarter hour (local time) / one UTC half day (GMT) the
   zone offset is constant and no local midnight is crossed.  It is carried by an anchor set only by the repopulation
   stub: second-of-day(t) := g_anchor_sod + (t - g_anchor_ts) for anchor <= t < next recalculation point. */
time_t g_anchor_ts; uint32_t g_anchor_sod;
bool g_fallback, g_repopulated, g_patched; uint32_t g_put_H, g_put_M, g_put_S, g_put_I, g_put_l, g_put_k; time_t g_put_s; size_t g_clears;
#define SOD(t) ((uint64_t)g_anchor_sod + (uint64_t)((t) - g_anchor_ts))
#define CI(s) (g_anchor_sod < 86400 && g_anchor_ts <= (s)->_cached_timestamp && (s)->_cached_timestamp < (s)->_next_recalculation_timestamp && (uint64_t)(s)->_cached_seconds == SOD((s)->_cached_timestamp) && SOD((s)->_next_recalculation_timestamp) <= 86400 && (s)->_next_recalculation_timestamp - g_anchor_ts <= 43200)
static inline bool IDX_empty(IdxVec* v) { return !v->g_nonempty; }
void STUB_fallback(SFT* self, time_t ts) __CPROVER_assigns(g_fallback) __CPROVER_ensures(g_fallback);
void STUB_clear(SFT* self) __CPROVER_assigns(g_clears) __CPROVER_ensures(g_clears == OLD(g_clears) + 1);
/* _populate_pre_formatted_string_and_cached_indexes: strftime of every part for `ts`, caches ts and its second-of-day */
void SFT__populate_pre_formatted_string_and_cached_indexes(SFT* self, time_t ts)
__CPROVER_requires(__CPROVER_is_fresh(self, sizeof(*self)))
__CPROVER_assigns(self->_cached_timestamp, self->_cached_seconds, g_anchor_ts, g_anchor_sod, g_repopulated)
__CPROVER_ensures(self->_cached_timestamp == ts && g_anchor_ts == ts && g_anchor_sod < 86400 && self->_cached_seconds == g_anchor_sod && g_repopulated);
/* next recalculation points: arithmetic contract (units SFT.quarter / paper for noon-midnight) + the tz axiom */
time_t SFT__next_quarter_hour_timestamp(SFT* self, time_t ts) __CPROVER_assigns()
__CPROVER_ensures(RET > ts && RET - ts <= 900 && (ts == g_anchor_ts ==> (uint64_t)g_anchor_sod + (uint64_t)(RET - ts) <= 86400));
time_t SFT__next_noon_or_midnight_timestamp(SFT* self, time_t ts) __CPROVER_assigns()
__CPROVER_ensures(RET > ts && RET - ts <= 43200 && (ts == g_anchor_ts ==> (uint64_t)g_anchor_sod + (uint64_t)(RET - ts) <= 86400));
/* the digit patching loop (fmt format_to "{:02}" / "{:2}" / "{:10}" at the cached indexes): records what it is asked to write */
void STUB_patch(uint32_t H_, uint32_t M_, uint32_t S_, uint32_t I_, uint32_t l_, uint32_t k_, time_t s_)
__CPROVER_assigns(g_put_H, g_put_M, g_put_S, g_put_I, g_put_l, g_put_k, g_put_s, g_patched)
__CPROVER_ensures(g_put_H == H_ && g_put_M == M_ && g_put_S == S_ && g_put_I == I_ && g_put_l == l_ && g_put_k == k_ && g_put_s == s_ && g_patched);
'''
FMT = r'fmtquill::format_to\(&_pre_formatted_ts\[index\.first\],\s*"\{:\d+\}",\s*'
PATCH_RE = (r'for\s*\(auto const& index : _cached_indexes\)\s*\{\s*switch\s*\(index\.second\)\s*\{'
            r'\s*case format_type::H:\s*' + FMT + r'(.*?)\);\s*break;'
            r'\s*case format_type::M:\s*' + FMT + r'(.*?)\);\s*break;'
            r'\s*case format_type::S:\s*' + FMT + r'(.*?)\);\s*break;'
            r'\s*case format_type::I:\s*' + FMT + r'(.*?)\);\s*break;'
            r'\s*case format_type::l:\s*' + FMT + r'(.*?)\);\s*break;'
            r'\s*case format_type::k:\s*' + FMT + r'(.*?)\);\s*break;'
            r'\s*case format_type::s:\s*' + FMT + r'(.*?)\);\s*break;'
            r'\s*default:\s*abort\(\);\s*\}\s*\}')

format_timestamp = dict(
    name='SFT.format_timestamp', primary='C13', props={'C13'}, kind='S',
    desc='StringFromTime::format_timestamp: cache invariant, fallback for timestamps going backwards, and the H/M/S/12-hour values handed to the digit writer equal those of the second-of-day of the requested instant',
    structs=[STRUCT], prelude=PRELUDE, enforce='SFT_format_timestamp',
    replace=['STUB_fallback', 'STUB_clear', 'SFT__populate_pre_formatted_string_and_cached_indexes', 'SFT__next_quarter_hour_timestamp', 'SFT__next_noon_or_midnight_timestamp', 'STUB_patch'],
    funcs=[dict(src=dict(header=H, cls='StringFromTime', name='format_timestamp'), struct='SFT', src_params=['timestamp'], cfun='SFT_format_timestamp',
                sig='void SFT_format_timestamp(SFT* self, time_t timestamp)', cls_c='SFT',
                siblings=['_populate_pre_formatted_string_and_cached_indexes', '_next_quarter_hour_timestamp', '_next_noon_or_midnight_timestamp'],
                methods={'empty': 'IDX_empty'},
                pre_rules=[(r'Timezone::(\w+)', r'TZ_\1'),
                           (r'_fallback_formatted\s*=\s*_safe_strftime\([^;]*\)\.data\(\)\s*;', 'STUB_fallback(self, timestamp);', 1),
                           (r'return\s+_fallback_formatted\s*;', 'return;', 1), (r'return\s+_pre_formatted_ts\s*;', 'return;'),
                           (r'_pre_formatted_ts\.clear\(\)\s*;\s*_cached_indexes\.clear\(\)\s*;', 'STUB_clear(self);', 1),
                           (PATCH_RE, r'STUB_patch(\1, \2, \3, \4, \5, \6, \7);', 1)],
                contract=r'''
__CPROVER_requires(__CPROVER_is_fresh(self, sizeof(*self)) && self->_time_zone <= TZ_GmtTime && timestamp >= 0 && timestamp < (((time_t)1) << 40) && g_anchor_ts >= 0 && self->_next_recalculation_timestamp < (((time_t)1) << 40) && (self->_is_cacheable ==> CI(self)))
__CPROVER_requires(!g_patched && !g_fallback && !g_repopulated)
__CPROVER_assigns(self->_cached_timestamp, self->_cached_seconds, self->_next_recalculation_timestamp, g_anchor_ts, g_anchor_sod, g_fallback, g_repopulated, g_patched, g_put_H, g_put_M, g_put_S, g_put_I, g_put_l, g_put_k, g_put_s, g_clears)
__CPROVER_ensures(self->_is_cacheable ==> CI(self)) /*@ C13 "the cache invariant holds after every call (cached seconds = second-of-day of the cached instant, no midnight before the next recalculation point)" */
__CPROVER_ensures(!self->_is_cacheable ==> g_fallback) /*@ C13 "a pattern with a time-of-day conversion the cache does not rewrite (or an escaped percent sign) is always rendered by strftime directly" */
__CPROVER_ensures(g_fallback ==> (!g_patched && !g_repopulated && self->_cached_timestamp == OLD(self->_cached_timestamp) && self->_cached_seconds == OLD(self->_cached_seconds) && self->_next_recalculation_timestamp == OLD(self->_next_recalculation_timestamp) && g_anchor_ts == OLD(g_anchor_ts))) /*@ C13 "rendering by strftime directly leaves the cache untouched" */
__CPROVER_ensures(!g_fallback ==> (g_anchor_ts <= timestamp && timestamp < self->_next_recalculation_timestamp)) /*@ C13 "a result served from the cache is for an instant inside the cached period (a timestamp going backwards past it is never served from the cache)" */
__CPROVER_ensures((!g_fallback && (self->_cached_indexes.g_nonempty || g_repopulated)) ==> self->_cached_timestamp == timestamp) /*@ C13 "the cache describes the requested instant afterwards: a later timestamp never shows stale fields" */
__CPROVER_ensures(g_patched ==> (g_put_H == SOD(timestamp) / 3600 && g_put_M == (SOD(timestamp) % 3600) / 60 && g_put_S == SOD(timestamp) % 60 && g_put_k == g_put_H && g_put_s == timestamp)) /*@ C13 "rewritten hour / minute / second digits are those of the requested instant" */
__CPROVER_ensures(g_patched ==> (g_put_I == ((SOD(timestamp) / 3600) % 12 == 0 ? 12 : (SOD(timestamp) / 3600) % 12) && g_put_l == g_put_I)) /*@ C13 "the 12-hour value is 12 for hours 0 and 12, hour mod 12 otherwise" */
__CPROVER_ensures((!g_fallback && self->_cached_indexes.g_nonempty && timestamp != OLD(self->_cached_timestamp) && !g_repopulated) ==> g_patched) /*@ C13 "a different instant within the cached period always gets its digits rewritten" */
''')],
    harness='  SFT* s; time_t t; SFT_format_timestamp(s, t);',
    dropped=['the strings (_pre_formatted_ts etc.): only WHICH numbers are written where is kept; fmt width formatting trusted', 'std::string const& return value'],
    trusted=['libc strftime/localtime_r/gmtime_r and tz data; AXIOM: constant zone offset and no local midnight within one UTC quarter hour (local) / half day (GMT)',
             'fmt format_to("{:02}") writes the two-digit decimal of its argument'],
    min_obligations=30)

quarter = dict(
    name='SFT.quarter', primary='C13', props={'C13'}, kind='L',
    desc='StringFromTime::_next_quarter_hour_timestamp (+ _nearest_quarter_hour_timestamp): the next multiple of 900 s strictly after the timestamp',
    structs=[], prelude='#include <time.h>\n', enforce='SFT__next_quarter_hour_timestamp', replace=[],
    funcs=[dict(src=dict(header=H, cls='StringFromTime', name='_nearest_quarter_hour_timestamp'), src_params=['timestamp'], cfun='SFT__nearest_quarter_hour_timestamp',
                sig='time_t SFT__nearest_quarter_hour_timestamp(time_t timestamp)', member_fields=[]),
           dict(src=dict(header=H, cls='StringFromTime', name='_next_quarter_hour_timestamp'), src_params=['timestamp'], cfun='SFT__next_quarter_hour_timestamp',
                sig='time_t SFT__next_quarter_hour_timestamp(time_t timestamp)', member_fields=[],
                rules=[(r'_nearest_quarter_hour_timestamp\(', 'SFT__nearest_quarter_hour_timestamp(', 1)],
                contract=r'''
__CPROVER_requires(timestamp >= 0 && timestamp < (((time_t)1) << TSBITS))
__CPROVER_assigns()
__CPROVER_ensures(RET > timestamp && RET - timestamp <= 900 && RET % 900 == 0) /*@ C13 "local-time caches are recalculated at the next UTC quarter hour, strictly after the instant" */
''')],
    harness='  time_t t; SFT__next_quarter_hour_timestamp(t);', snapshot=[('t', 'timestamp')], replay=dict(template='pure.cpp', op='quarter'),
    variants=[dict(name='main', defs=['TSBITS=31']), dict(name='wide', tier='thorough', defs=['TSBITS=33'])],
    dropped=[], trusted=[], assumes=['timestamps below 2^31 s (quick; year 2038) / 2^33 s (thorough; year 2242): 64-bit division is at the edge of SAT reach'], min_obligations=3, timeout=600)

UNITS = [format_timestamp, quarter]

# ------------------------------------------------------------------------------------------ TimestampFormatter::format_timestamp
TF_PRELUDE = r'''
typedef uint8_t AdditionalSpecifier; enum { AS_None, AS_Qms, AS_Qus, AS_Qns };
typedef struct TF { AdditionalSpecifier _additional_format_specifier; bool _has_format_part_2; } TF;
size_t g_clock, g_t_clear, g_t_p1, g_t_zeros, g_t_frac, g_t_p2; int64_t g_p1_secs, g_p2_secs; uint32_t g_zero_width, g_frac_value; size_t g_p1_calls, g_p2_calls, g_frac_calls, g_zero_calls;
/* TRUSTED machine arithmetic: 64-bit division by 10^9 (no SAT back end finishes it); its defining property is assumed */
int64_t DIV_1E9(int64_t x) __CPROVER_requires(x >= 0) __CPROVER_assigns() __CPROVER_ensures(RET >= 0 && RET < (1LL << 33) && RET * 1000000000LL <= x && x - RET * 1000000000LL < 1000000000LL);
void DATE_clear(TF* self) __CPROVER_assigns(g_clock, g_t_clear) __CPROVER_ensures(g_clock == OLD(g_clock) + 1 && g_t_clear == g_clock);
void APPEND_PART1(TF* self, int64_t secs) __CPROVER_assigns(g_clock, g_t_p1, g_p1_secs, g_p1_calls) __CPROVER_ensures(g_clock == OLD(g_clock) + 1 && g_t_p1 == g_clock && g_p1_secs == secs && g_p1_calls == OLD(g_p1_calls) + 1);
void APPEND_PART2(TF* self, int64_t secs) __CPROVER_assigns(g_clock, g_t_p2, g_p2_secs, g_p2_calls) __CPROVER_ensures(g_clock == OLD(g_clock) + 1 && g_t_p2 == g_clock && g_p2_secs == secs && g_p2_calls == OLD(g_p2_calls) + 1);
void APPEND_ZEROS(TF* self, uint32_t width) __CPROVER_assigns(g_clock, g_t_zeros, g_zero_width, g_zero_calls) __CPROVER_ensures(g_clock == OLD(g_clock) + 1 && g_t_zeros == g_clock && g_zero_width == width && g_zero_calls == OLD(g_zero_calls) + 1);
#define POW10(w) ((w) == 3 ? 1000u : ((w) == 6 ? 1000000u : 1000000000u))
/* _write_fractional_seconds (unit TF.write_frac): right-aligns the decimal digits over the zeros just appended */
void TF__write_fractional_seconds(TF* self, uint32_t v)
__CPROVER_requires(g_t_zeros == g_clock) /*@ C13 "the fractional digits overwrite the zeros appended immediately before" */
__CPROVER_requires(v < POW10(g_zero_width)) /*@ C13 "the fraction has at most as many digits as the zero padding (milli < 10^3, micro < 10^6, nano < 10^9)" */
__CPROVER_assigns(g_clock, g_t_frac, g_frac_value, g_frac_calls) __CPROVER_ensures(g_clock == OLD(g_clock) + 1 && g_t_frac == g_clock && g_frac_value == v && g_frac_calls == OLD(g_frac_calls) + 1);
'''
tf_format = dict(
    name='TF.format_timestamp', primary='C13', props={'C13'}, kind='S',
    desc='TimestampFormatter::format_timestamp: strftime part 1, zero padded fraction (ns/10^6, ns/10^3 or ns in width 3/6/9), strftime part 2 - both parts for the same second',
    structs=[], prelude=TF_PRELUDE, enforce='TF_format_timestamp', replace=['DIV_1E9', 'DATE_clear', 'APPEND_PART1', 'APPEND_PART2', 'APPEND_ZEROS', 'TF__write_fractional_seconds'],
    funcs=[dict(src=dict(header=TFH, cls='TimestampFormatter', name='format_timestamp'), src_params=['time_since_epoch'], cfun='TF_format_timestamp',
                sig='void TF_format_timestamp(TF* self, int64_t time_since_epoch_ns)', cls_c='TF', member_fields=['_additional_format_specifier', '_has_format_part_2'],
                siblings=['_write_fractional_seconds'],
                pre_rules=[(r'AdditionalSpecifier::(\w+)', r'AS_\1'), (r'time_since_epoch\.count\(\)', 'time_since_epoch_ns', 1),
                           (r"timestamp_ns\s*/\s*1'000'000'000", 'DIV_1E9(timestamp_ns)', 1),
                           (r'_formatted_date\.clear\(\)\s*;', 'DATE_clear(self);', 1),
                           (r'_formatted_date\.append\(_strftime_part_1\.format_timestamp\(timestamp_secs\)\)\s*;', 'APPEND_PART1(self, timestamp_secs);', 1),
                           (r'_formatted_date\.append\(_strftime_part_2\.format_timestamp\(timestamp_secs\)\)\s*;', 'APPEND_PART2(self, timestamp_secs);', 1),
                           (r'static\s+constexpr\s+std::string_view\s+zeros\{"(0+)"\}\s*;\s*_formatted_date\.append\(zeros\)\s*;', lambda m: 'APPEND_ZEROS(self, %d);' % len(m.group(1)), 3),
                           (r'auto\s+const\s+extracted_ns\s*=', 'uint32_t const extracted_ns =', 1),
                           (r'return\s+std::string_view\{[^{}]*\}\s*;', 'return;', 1)],
                contract=r'''
__CPROVER_requires(__CPROVER_is_fresh(self, sizeof(*self)) && time_since_epoch_ns >= 0 && time_since_epoch_ns < (1LL << 62) && self->_additional_format_specifier <= AS_Qns && g_clock == 0 && g_p1_calls == 0 && g_p2_calls == 0 && g_frac_calls == 0 && g_zero_calls == 0)
__CPROVER_assigns(g_clock, g_t_clear, g_t_p1, g_t_zeros, g_t_frac, g_t_p2, g_p1_secs, g_p2_secs, g_zero_width, g_frac_value, g_p1_calls, g_p2_calls, g_frac_calls, g_zero_calls)
#define NS_IN_SEC_64 (time_since_epoch_ns - g_p1_secs * 1000000000LL)
#define NS_IN_SEC ((uint32_t)NS_IN_SEC_64)
__CPROVER_ensures(g_p1_calls == 1 && g_t_clear < g_t_p1 && g_p1_secs >= 0 && g_p1_secs < (1LL << 33) && g_p1_secs * 1000000000LL <= time_since_epoch_ns && NS_IN_SEC_64 < 1000000000LL) /*@ C13 "the strftime part is rendered for the second that contains the instant, into a cleared buffer" */
__CPROVER_ensures(self->_additional_format_specifier == AS_None ==> (g_frac_calls == 0 && g_zero_calls == 0)) /*@ C13 "no fractional digits without a fractional specifier" */
__CPROVER_ensures(self->_additional_format_specifier == AS_Qms ==> (g_frac_calls == 1 && g_zero_width == 3 && g_frac_value == NS_IN_SEC / 1000000u && g_t_p1 < g_t_zeros && g_t_zeros < g_t_frac)) /*@ C13 "%Qms is replaced by the zero-padded millisecond fraction" */
__CPROVER_ensures(self->_additional_format_specifier == AS_Qus ==> (g_frac_calls == 1 && g_zero_width == 6 && g_frac_value == NS_IN_SEC / 1000u && g_t_p1 < g_t_zeros && g_t_zeros < g_t_frac)) /*@ C13 "%Qus is replaced by the zero-padded microsecond fraction" */
__CPROVER_ensures(self->_additional_format_specifier == AS_Qns ==> (g_frac_calls == 1 && g_zero_width == 9 && g_frac_value == NS_IN_SEC && g_t_p1 < g_t_zeros && g_t_zeros < g_t_frac)) /*@ C13 "%Qns is replaced by the zero-padded nanosecond fraction" */
__CPROVER_ensures(g_p2_calls == (self->_has_format_part_2 ? 1 : 0) && (self->_has_format_part_2 ==> (g_p2_secs == g_p1_secs && g_t_p2 == g_clock))) /*@ C13 "the part after the fractional specifier is rendered last, for the same second" */
''')],
    harness='  TF* t; int64_t ns; TF_format_timestamp(t, ns);',
    dropped=['the text buffer (only the order and arguments of the appends are kept)', 'std::chrono::nanoseconds as int64'],
    trusted=['64-bit division by 10^9 (DIV_1E9 stub: its defining property is assumed; SAT does not finish the real division)', 'StringFromTime::format_timestamp (unit SFT.format_timestamp)', 'timestamps at or after the epoch'],
    min_obligations=20)
UNITS.append(tf_format)

# ------------------------------------------------------------------------------------------ TimestampFormatter constructor / StringFromTime::init
CT_PRELUDE = r'''
#define NPOS SIZE_MAX
typedef uint8_t AdditionalSpecifier; enum { AS_None, AS_Qms, AS_Qus, AS_Qns };
typedef uint8_t Timezone; enum { TZ_LocalTime, TZ_GmtTime };
typedef struct TFc { AdditionalSpecifier _additional_format_specifier; bool _has_format_part_2; Timezone _timestamp_timezone; } TFc;
size_t g_pos_qms, g_pos_qus, g_pos_qns, g_len;      /* where each specifier occurs in the pattern (NPOS: absent) */
size_t g_init1_calls, g_init2_calls, g_p1_begin, g_p1_len, g_p2_begin, g_p2_len;
static inline size_t FIND_SPEC(int which) { return which == AS_Qms ? g_pos_qms : (which == AS_Qus ? g_pos_qus : g_pos_qns); }
void INIT_PART1(TFc* self, size_t begin, size_t len) __CPROVER_assigns(g_init1_calls, g_p1_begin, g_p1_len, g_exc) __CPROVER_ensures(g_init1_calls == OLD(g_init1_calls) + 1 && g_p1_begin == begin && g_p1_len == len && (g_exc == 0 || g_exc == EXC_STD));
void INIT_PART2(TFc* self, size_t begin, size_t len) __CPROVER_assigns(g_init2_calls, g_p2_begin, g_p2_len, g_exc) __CPROVER_ensures(g_init2_calls == OLD(g_init2_calls) + 1 && g_p2_begin == begin && g_p2_len == len && (g_exc == 0 || g_exc == EXC_STD));
#define COUNT_SPECS ((g_pos_qms != NPOS ? 1 : 0) + (g_pos_qus != NPOS ? 1 : 0) + (g_pos_qns != NPOS ? 1 : 0))
#define THE_POS (g_pos_qms != NPOS ? g_pos_qms : (g_pos_qus != NPOS ? g_pos_qus : g_pos_qns))
#define THE_SPEC (g_pos_qms != NPOS ? AS_Qms : (g_pos_qus != NPOS ? AS_Qus : AS_Qns))
'''
tf_ctor = dict(
    name='TF.ctor', primary='C13', props={'C13'}, kind='S',
    desc='TimestampFormatter constructor: more than one fractional specifier is rejected; otherwise the pattern is split into the part before and the part after the (4-character) specifier',
    structs=[], prelude=CT_PRELUDE, enforce='TF_ctor', replace=['INIT_PART1', 'INIT_PART2'],
    funcs=[dict(src=dict(header=TFH, cls='TimestampFormatter', name='TimestampFormatter'), cfun='TF_ctor', sig='void TF_ctor(TFc* self)', cls_c='TF',
                member_fields=['_additional_format_specifier', '_has_format_part_2', '_timestamp_timezone'], exceptions=True, may_throw=['INIT_PART1', 'INIT_PART2'],
                pre_rules=[(r'AdditionalSpecifier::(\w+)', r'AS_\1'), (r'(?:_time_format\.find\(|_find_specifier\(_time_format,\s*)specifier_name\[(AS_\w+)\]\)', r'FIND_SPEC(\1)'), (r'std::string::npos', 'NPOS'),
                           (r'_strftime_part_1\.init\(_time_format,\s*_timestamp_timezone\)\s*;', 'INIT_PART1(self, 0, g_len);'),
                           (r'std::string\s+const\s+format_part_1\s*=\s*_time_format\.substr\(0,\s*specifier_begin\)\s*;\s*_strftime_part_1\.init\(format_part_1,\s*_timestamp_timezone\)\s*;', 'INIT_PART1(self, 0, specifier_begin);'),
                           (r'std::string\s+const\s+format_part_2\s*=\s*_time_format\.substr\(specifier_end,\s*_time_format\.length\(\) - specifier_end\)\s*;', 'size_t const format_part_2_len = g_len - specifier_end;'),
                           (r'!format_part_2\.empty\(\)', '(format_part_2_len != 0)'), (r'_strftime_part_2\.init\(format_part_2,\s*_timestamp_timezone\)\s*;', 'INIT_PART2(self, specifier_end, format_part_2_len);'),
                           (r'throw\s*\(\s*QuillError\s*\{.*?\}\s*\)\s*;', 'throw(QuillError{"x"});')],
                contract=r'''
__CPROVER_requires(__CPROVER_is_fresh(self, sizeof(*self)) && g_exc == 0 && g_init1_calls == 0 && g_init2_calls == 0 && self->_additional_format_specifier == AS_None && !self->_has_format_part_2 && g_len <= (((size_t)1) << 30))
__CPROVER_requires((g_pos_qms == NPOS || g_pos_qms + 4 <= g_len) && (g_pos_qus == NPOS || g_pos_qus + 4 <= g_len) && (g_pos_qns == NPOS || g_pos_qns + 4 <= g_len))
__CPROVER_assigns(self->_additional_format_specifier, self->_has_format_part_2, g_exc, g_init1_calls, g_init2_calls, g_p1_begin, g_p1_len, g_p2_begin, g_p2_len)
__CPROVER_ensures(COUNT_SPECS > 1 ==> g_exc == EXC_STD) /*@ C13 "using more than one fractional specifier is rejected" */
__CPROVER_ensures((COUNT_SPECS == 0 && g_exc == 0) ==> (g_init1_calls == 1 && g_p1_len == g_len && g_init2_calls == 0 && self->_additional_format_specifier == AS_None)) /*@ C13 "without a fractional specifier the whole pattern is one strftime part" */
__CPROVER_ensures((COUNT_SPECS == 1 && g_exc == 0) ==> (self->_additional_format_specifier == THE_SPEC && g_init1_calls == 1 && g_p1_begin == 0 && g_p1_len == THE_POS && g_init2_calls == ((THE_POS + 4 < g_len) ? 1 : 0) && (g_init2_calls == 1 ==> (g_p2_begin == THE_POS + 4 && g_p2_len == g_len - (THE_POS + 4) && self->_has_format_part_2)))) /*@ C13 "the pattern is split exactly around the fractional specifier: text before it, the specifier (4 characters), text after it" */
''')],
    harness='  TFc* t; TF_ctor(t);',
    dropped=['pattern text: positions of the three (unescaped) specifiers are symbolic (_find_specifier: std::string::find skipping escaped occurrences - string code, covered by the native unit TF.strftime only)', 'mem-initialiser list (moves the pattern string)', 'assert (NDEBUG)'],
    trusted=['std::string::find / substr', 'StringFromTime::init (rejects %X: unit SFT.init)'], min_obligations=20)
UNITS.append(tf_ctor)

IN_PRELUDE = r'''
typedef uint8_t Timezone; enum { TZ_LocalTime, TZ_GmtTime };
typedef struct SFTi { Timezone _time_zone; bool _is_cacheable; } SFTi;
bool g_has_X, g_can_cache;   /* answers of the two pattern scans (string code) */
static inline bool CAN_CACHE(SFTi* s) { return g_can_cache; }
 size_t g_replaces, g_populates, g_clock, g_t_last_replace, g_t_populate; int g_replaced[3];
static inline bool FORMAT_has_X(SFTi* s) { return g_has_X; }
void REPLACE_ALL(SFTi* self, int which) __CPROVER_requires(which >= 0 && which < 3) __CPROVER_assigns(g_replaces, g_clock, g_t_last_replace, __CPROVER_object_whole(g_replaced))
__CPROVER_ensures(g_replaces == OLD(g_replaces) + 1 && g_clock == OLD(g_clock) + 1 && g_t_last_replace == g_clock && g_replaced[0] == (which == 0 ? 1 : OLD(g_replaced[0])) && g_replaced[1] == (which == 1 ? 1 : OLD(g_replaced[1])) && g_replaced[2] == (which == 2 ? 1 : OLD(g_replaced[2])));
void SFT__populate_initial_parts(SFTi* self) __CPROVER_assigns(g_populates, g_clock, g_t_populate) __CPROVER_ensures(g_populates == OLD(g_populates) + 1 && g_clock == OLD(g_clock) + 1 && g_t_populate == g_clock);
'''
sft_init = dict(
    name='SFT.init', primary='C13', props={'C13'}, kind='S',
    desc='StringFromTime::init: %X is rejected; a pattern the cache cannot serve is left untouched and marked; otherwise %r, %R and %T are expanded before the pattern is split into parts',
    structs=[], prelude=IN_PRELUDE, enforce='SFT_init', replace=['REPLACE_ALL', 'SFT__populate_initial_parts'],
    funcs=[dict(src=dict(header=H, cls='StringFromTime', name='init'), src_params=['timestamp_format', 'timezone'], cfun='SFT_init', sig='void SFT_init(SFTi* self, Timezone timezone)', cls_c='SFT',
                member_fields=['_time_zone', '_is_cacheable'], siblings=['_populate_initial_parts'], exceptions=True, may_throw=[],
                pre_rules=[(r'_timestamp_format\s*=\s*std::move\(timestamp_format\)\s*;', ''), (r'_timestamp_format\.find\("%X"\)\s*!=\s*std::string::npos', 'FORMAT_has_X(self)'),
                           (r'throw\s*\(?\s*QuillError\s*\(.*?\)\s*\)?\s*;', 'throw(QuillError{"x"});'), (r'_can_cache_format\(_timestamp_format\)', 'CAN_CACHE(self)'),
                           (r'_replace_all\(_timestamp_format,\s*"%r",\s*"%I:%M:%S %p"\)', 'REPLACE_ALL(self, 0)'), (r'_replace_all\(_timestamp_format,\s*"%R",\s*"%H:%M"\)', 'REPLACE_ALL(self, 1)'),
                           (r'_replace_all\(_timestamp_format,\s*"%T",\s*"%H:%M:%S"\)', 'REPLACE_ALL(self, 2)'), (r'_populate_initial_parts\(_timestamp_format\)', '_populate_initial_parts()')],
                contract=r'''
__CPROVER_requires(__CPROVER_is_fresh(self, sizeof(*self)) && g_exc == 0 && g_replaces == 0 && g_populates == 0 && g_clock == 0 && g_replaced[0] == 0 && g_replaced[1] == 0 && g_replaced[2] == 0 && timezone <= TZ_GmtTime)
__CPROVER_assigns(self->_time_zone, self->_is_cacheable, g_exc, g_replaces, g_populates, g_clock, g_t_last_replace, g_t_populate, __CPROVER_object_whole(g_replaced))
__CPROVER_ensures(g_has_X ==> (g_exc == EXC_STD && g_populates == 0)) /*@ C13 "%X is rejected when the formatter is created" */
__CPROVER_ensures((!g_has_X && !g_can_cache) ==> (g_exc == 0 && !self->_is_cacheable && g_replaces == 0 && g_populates == 0 && self->_time_zone == timezone)) /*@ C13 "a pattern the cache cannot serve is kept exactly as the user wrote it (no expansion, no splitting) and marked for strftime" */
__CPROVER_ensures((!g_has_X && g_can_cache) ==> (g_exc == 0 && self->_is_cacheable && g_replaced[0] == 1 && g_replaced[1] == 1 && g_replaced[2] == 1 && g_replaces == 3 && g_populates == 1 && g_t_last_replace < g_t_populate && self->_time_zone == timezone)) /*@ C13 "%r, %R and %T are expanded to their H/M/S forms (so that the cached fields cover them) before the pattern is split; the time zone is recorded" */
''')],
    harness='  SFTi* s; Timezone z; SFT_init(s, z);',
    dropped=['the pattern string (presence of %X and the answer of _can_cache_format as booleans: string scans, covered by the native unit TF.strftime); _replace_all and _populate_initial_parts / _split_timestamp_format_once (string and std::map code: NOT covered)'], trusted=[], min_obligations=10)
UNITS.append(sft_init)

# ------------------------------------------------------------------------------------------ _next_noon_or_midnight_timestamp
NM_PRELUDE = r'''
#include <time.h>
/* TRUSTED libc model for UTC (exact: POSIX days have 86400 s): gmtime_r breaks t down relative to the start of its UTC day,
   timegm re-assembles linearly.  g_day_base = the instant of 00:00:00 UTC of the day containing t. */
time_t g_day_base;
uint32_t BD_second_of_day(time_t t) __CPROVER_requires(t >= 0) __CPROVER_assigns(g_day_base)
__CPROVER_ensures(g_day_base >= 0 && g_day_base <= t && t - g_day_base < 86400 && RET == (uint32_t)(t - g_day_base));
static inline void LIBC_breakdown(time_t const* t, struct tm* d) { uint32_t sod = BD_second_of_day(*t); d->tm_hour = (int)(sod / 3600u); d->tm_min = (int)((sod % 3600u) / 60u); d->tm_sec = (int)(sod % 60u); }
static inline time_t LIBC_assemble(struct tm* d) { return g_day_base + (time_t)d->tm_hour * 3600 + (time_t)d->tm_min * 60 + (time_t)d->tm_sec; }
'''
noon_midnight = dict(
    name='SFT.noon_midnight', primary='C13', props={'C13'}, kind='L',
    desc='StringFromTime::_next_noon_or_midnight_timestamp: the next 12:00:00 or 00:00:00 UTC strictly after the instant (the recalculation point of GMT caches, where %p and the 12-hour fields change)',
    structs=[], prelude=NM_PRELUDE, enforce='SFT__next_noon_or_midnight_timestamp', replace=['BD_second_of_day'],
    funcs=[dict(src=dict(header=H, cls='StringFromTime', name='_next_noon_or_midnight_timestamp'), src_params=['timestamp'], cfun='SFT__next_noon_or_midnight_timestamp',
                sig='time_t SFT__next_noon_or_midnight_timestamp(time_t timestamp)', member_fields=[],
                pre_rules=[(r'\btm\s+time_info\s*;', 'struct tm time_info;'),
                           (r'(?:detail::)?gmtime_rs\(&timestamp,\s*&time_info\)', 'LIBC_breakdown(&timestamp, &time_info)'),
                           (r'std::chrono::system_clock::time_point\s+const\s+next_midnight\s*=\s*std::chrono::system_clock::from_time_t\((?:detail::)?timegm\(&time_info\)\)\s*;', 'time_t const next_midnight = LIBC_assemble(&time_info);'),
                           (r'std::chrono::duration_cast<std::chrono::seconds>\(next_midnight\.time_since_epoch\(\)\)\.count\(\)', 'next_midnight')],
                contract=r'''
__CPROVER_requires(timestamp >= 0 && timestamp < (((time_t)1) << 40))
__CPROVER_assigns(g_day_base)
__CPROVER_ensures(RET == g_day_base + ((timestamp - g_day_base) < 43200 ? 43200 : 86400)) /*@ C13 "GMT caches are recalculated at the next noon or midnight UTC: the first instant at which the date, %p or the 12-hour value can change" */
__CPROVER_ensures(RET > timestamp && RET - timestamp <= 43200) /*@ C13 "the recalculation point is strictly after the instant and at most half a day later (the contract SFT.format_timestamp relies on)" */
''')],
    harness='  time_t t; SFT__next_noon_or_midnight_timestamp(t);', snapshot=[('t', 'timestamp')], replay=dict(template='pure.cpp', op='noon_midnight'),
    dropped=['std::chrono::system_clock::from_time_t / duration_cast<seconds> round trip as identity on seconds', 'struct tm date fields (pass through libc unchanged)'],
    trusted=['libc gmtime_r / timegm by the linear UTC model LIBC_breakdown / LIBC_assemble (exact for POSIX time)'], min_obligations=5)
UNITS.append(noon_midnight)

# ------------------------------------------------------------------------------------------ TimestampFormatter::_write_fractional_seconds
WF_PRELUDE = r'''
#define DATE_CAP 24
typedef struct TFw { char g_date[DATE_CAP]; size_t g_date_n; } TFw;     /* _formatted_date: characters + size */
typedef struct FInt { char b[10]; unsigned n; } FInt;                   /* fmtquill::format_int: decimal digits of the value, no leading zeros */
#define P10(k) ((k) == 0 ? 1u : (k) == 1 ? 10u : (k) == 2 ? 100u : (k) == 3 ? 1000u : (k) == 4 ? 10000u : (k) == 5 ? 100000u : (k) == 6 ? 1000000u : (k) == 7 ? 10000000u : (k) == 8 ? 100000000u : 1000000000u)
#define NDIG(v) ((v) < 10u ? 1u : (v) < 100u ? 2u : (v) < 1000u ? 3u : (v) < 10000u ? 4u : (v) < 100000u ? 5u : (v) < 1000000u ? 6u : (v) < 10000000u ? 7u : (v) < 100000000u ? 8u : (v) < 1000000000u ? 9u : 10u)
/* SPEC (trusted text): the zero-padded decimal representation of the value handed to format_int; g_dig[k] = digit k counted from the right.
   The digits are computed ONCE, here: CBMC encodes x / c as a relation (q * c + r == x), so a second copy of the same division in the
   postcondition makes SAT prove the uniqueness of quotients (no answer in 200 s); with the digits named once the unit takes seconds. */
unsigned char g_dig[10];
#define SPEC_DIGIT(v, k, n) ((k) < (n) ? (unsigned char)(((v) / P10(k)) % 10u) : (unsigned char)0)
/* TRUSTED executable model of fmtquill::format_int(uint32_t): data() / size() denote the minimal decimal representation */
static inline FInt FORMAT_INT(uint32_t v) { FInt r; r.n = NDIG(v);
  g_dig[0] = SPEC_DIGIT(v, 0, r.n); g_dig[1] = SPEC_DIGIT(v, 1, r.n); g_dig[2] = SPEC_DIGIT(v, 2, r.n); g_dig[3] = SPEC_DIGIT(v, 3, r.n); g_dig[4] = SPEC_DIGIT(v, 4, r.n);
  g_dig[5] = SPEC_DIGIT(v, 5, r.n); g_dig[6] = SPEC_DIGIT(v, 6, r.n); g_dig[7] = SPEC_DIGIT(v, 7, r.n); g_dig[8] = SPEC_DIGIT(v, 8, r.n); g_dig[9] = SPEC_DIGIT(v, 9, r.n);
  for (unsigned i = 0; i < r.n; i++) { r.b[i] = (char)('0' + g_dig[r.n - 1u - i]); }
  return r; }
static inline size_t FI_size(FInt const* f) { return f->n; }
static inline char const* FI_data(FInt const* f) { return f->b; }
static inline size_t DATE_size(TFw* s) { return s->g_date_n; }
static inline char* DATE_at(TFw* s, size_t i) { __CPROVER_assert(i < s->g_date_n, "the fraction starts inside the rendered text"); return &s->g_date[i]; }
/* libc memcpy as a byte loop (the copy is at most 10 digits long) */
static inline void MEMCPY_BYTES(char* d, char const* s, size_t n) { for (size_t i = 0; i < n; i++) { d[i] = s[i]; } }
#define memcpy(d, s, n) MEMCPY_BYTES(d, s, n)
unsigned g_w; size_t g_j; char SNAP_j;       /* width of the zero field; one arbitrary byte in front of the field */
#define FIELD(s, k) ((s)->g_date[(s)->g_date_n - 1 - (k)])                 /* character k of the field, counted from the right */
#define ZERO(s, k) ((k) < g_w ==> FIELD(s, k) == '0')
#define DG(s, k) ((k) < g_w ==> FIELD(s, k) == (char)('0' + g_dig[k]))
'''
tf_write_frac = dict(
    name='TF.write_frac', primary='C13', props={'C13'}, kind='L',
    desc='TimestampFormatter::_write_fractional_seconds: the decimal digits are right-aligned over the zero field, so the field reads as the zero-padded fraction; nothing in front of the field changes',
    structs=[], prelude=WF_PRELUDE, enforce='TF__write_fractional_seconds', replace=[],
    funcs=[dict(src=dict(header=TFH, cls='TimestampFormatter', name='_write_fractional_seconds'), src_params=['extracted_fractional_seconds'], cfun='TF__write_fractional_seconds',
                sig='void TF__write_fractional_seconds(TFw* self, uint32_t extracted_fractional_seconds)', cls_c='TF', member_fields=[],
                pre_rules=[(r'fmtquill::format_int\s+const\s+(\w+)\{extracted_fractional_seconds\}\s*;', r'FInt const \1 = FORMAT_INT(extracted_fractional_seconds);', '!'),
                           (r'&_formatted_date\[([^\[\]]*)\]', r'DATE_at(self, \1)'), (r'_formatted_date\.size\(\)', 'DATE_size(self)'),
                           (r'\b(extracted_\w+_string)\.size\(\)', r'FI_size(&\1)'), (r'\b(extracted_\w+_string)\.data\(\)', r'FI_data(&\1)')],
                contract=r'''
__CPROVER_requires(__CPROVER_is_fresh(self, sizeof(*self)) && self->g_date_n >= 1 && self->g_date_n <= DATE_CAP)
__CPROVER_requires((g_w == 3 || g_w == 6 || g_w == 9) && self->g_date_n >= g_w && extracted_fractional_seconds < P10(g_w))
__CPROVER_requires(ZERO(self, 0) && ZERO(self, 1) && ZERO(self, 2) && ZERO(self, 3) && ZERO(self, 4) && ZERO(self, 5) && ZERO(self, 6) && ZERO(self, 7) && ZERO(self, 8))
__CPROVER_requires(g_j < self->g_date_n - g_w && SNAP_j == self->g_date[g_j])
__CPROVER_assigns(__CPROVER_object_whole(self), __CPROVER_object_whole(g_dig))
__CPROVER_ensures(DG(self, 0) && DG(self, 1) && DG(self, 2) && DG(self, 3) && DG(self, 4) && DG(self, 5) && DG(self, 6) && DG(self, 7) && DG(self, 8)) /*@ C13 "%Qms / %Qus / %Qns is replaced by the exact zero-padded fraction: character k of the field of width 3 / 6 / 9 (from the right) is decimal digit k of the value, zero beyond its digits" */
__CPROVER_ensures(self->g_date[g_j] == SNAP_j && self->g_date_n == OLD(self->g_date_n)) /*@ C13 "writing the fraction changes nothing in front of the zero field and not the length (the strftime part stays as rendered)" */
''')],
    harness='  TFw* t; uint32_t v; TF__write_fractional_seconds(t, v);',
    cbmc=['--unwind', '11', '--unwinding-assertions'],
    dropped=['std::string _formatted_date as data pointer + size (the last at most 24 characters of the rendered text: the function touches the last 9 at most)'],
    trusted=['fmtquill::format_int by an executable model (minimal decimal representation, digits defined by SPEC_DIGIT)', 'memcpy as a byte loop'],
    assumes=['the zero field of width 3 / 6 / 9 was appended immediately before and the value has at most that many digits: both are preconditions the caller is checked against in unit TF.format_timestamp'],
    snapshot=[('v', 'extracted_fractional_seconds'), ('w', 'g_w')], replay=dict(template='tf_frac.cpp', op='write_frac'),
    min_obligations=6)
UNITS.append(tf_write_frac)
