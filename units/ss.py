"""C06 — sinks/StreamSink.h, sinks/FileSink.h: the per-sink end of "written and flushed": a completely written statement
is remembered as unflushed (_write_occurred) until flush_sink hands the stream to the OS (fflush, optionally fsync)."""
SH = 'quill/sinks/StreamSink.h'
FH = 'quill/sinks/FileSink.h'
STRUCT = dict(c='SS', header=SH, cls='StreamSink', only=['_file', '_write_occurred'], typemap={'FILE*': 'FILE*'},
              ghost='bool g_has_before_write;')
PRELUDE = r'''
#include <stdio.h>
@STRUCT:SS@
/* ghosts: g_unflushed = some COMPLETELY written statement sits in the stdio buffer; what the last fwrite was asked to write */
bool g_unflushed; size_t g_fwrites, g_last_count, g_user_len, g_fflushes, g_fsyncs, g_clock, g_t_fflush, g_t_fsync;
/* the representation invariant the flush path relies on: nothing complete is unflushed unless the sink remembers a write */
#define DIRTY_INV(s) (g_unflushed ==> ((s)->_write_occurred && (s)->_file != NULL))
/* libc fwrite: may write fewer items than asked (then quill throws); a complete write leaves the statement in the stdio buffer */
size_t FWRITE(size_t size, size_t count, FILE* stream)
__CPROVER_requires(stream != NULL) /*@ C06 "nothing is written to a closed stream" */
__CPROVER_assigns(g_unflushed, g_fwrites, g_last_count)
__CPROVER_ensures(RET <= count && g_fwrites == OLD(g_fwrites) + 1 && g_last_count == count * size && (RET == count ? g_unflushed : (g_unflushed == OLD(g_unflushed))));
/* the user's before_write hook returns an arbitrary string: its length */
size_t USER_BEFORE_WRITE(SS* self, size_t n) __CPROVER_assigns(g_user_len) __CPROVER_ensures(g_user_len == RET);
void FFLUSH(FILE* f) __CPROVER_requires(f != NULL) __CPROVER_assigns(g_unflushed, g_fflushes, g_clock, g_t_fflush)
__CPROVER_ensures(!g_unflushed && g_fflushes == OLD(g_fflushes) + 1 && g_clock == OLD(g_clock) + 1 && g_t_fflush == g_clock);
'''
RULES = [(r'std::fwrite\(ptr,\s*size,\s*count,\s*stream\)', 'FWRITE(size, count, stream)'),
         (r'throw\s*\(\s*QuillError\s*\{.*?\}\s*\)\s*;', 'throw(QuillError{"x"});', '?'),
         (r'\bfflush\(_file\)', 'FFLUSH(_file)')]
safe_fwrite_f = dict(src=dict(header=SH, cls='StreamSink', name='safe_fwrite'), src_params=['ptr', 'size', 'count', 'stream'], cfun='SS_safe_fwrite',
                     sig='void SS_safe_fwrite(void const* ptr, size_t size, size_t count, FILE* stream)', member_fields=[], pre_rules=RULES, exceptions=True)
flush_f = dict(src=dict(header=SH, cls='StreamSink', name='flush'), src_params=[], cfun='SS_flush', sig='void SS_flush(SS* self)', struct='SS', cls_c='SS', pre_rules=RULES)

write_log = dict(
    name='SS.write_log', primary='C06', props={'C06', 'C10'}, kind='L',
    desc='StreamSink::write_log: the whole statement (or the whole user-transformed statement) goes to fwrite once; a complete write is remembered as unflushed; a short write is an error',
    structs=[STRUCT], prelude=PRELUDE, enforce='SS_write_log', replace=['FWRITE', 'USER_BEFORE_WRITE'],
    funcs=[safe_fwrite_f,
           dict(src=dict(header=SH, cls='StreamSink', name='write_log'), cfun='SS_write_log', sig='void SS_write_log(SS* self, size_t log_statement_n)', struct='SS', cls_c='SS',
                siblings=['safe_fwrite'], exceptions=True, may_throw=['SS_safe_fwrite'],
                pre_rules=[(r'_file_event_notifier\.before_write\b(?!\()', 'self->g_has_before_write'),
                           (r'std::string\s+const\s+user_log_statement\s*=\s*_file_event_notifier\.before_write\(log_statement\)\s*;', 'size_t const user_log_statement_n = USER_BEFORE_WRITE(self, log_statement_n);'),
                           (r'safe_fwrite\(user_log_statement\.data\(\),\s*sizeof\(char\),\s*user_log_statement\.size\(\),\s*_file\)', 'SS_safe_fwrite(NULL, sizeof(char), user_log_statement_n, _file)'),
                           (r'safe_fwrite\(log_statement\.data\(\),\s*sizeof\(char\),\s*log_statement\.size\(\),\s*_file\)', 'SS_safe_fwrite(NULL, sizeof(char), log_statement_n, _file)')],
                contract=r'''
__CPROVER_requires(__CPROVER_is_fresh(self, sizeof(*self)) && g_exc == 0 && DIRTY_INV(self) && g_fwrites == 0)
__CPROVER_assigns(self->_write_occurred, g_unflushed, g_fwrites, g_last_count, g_user_len, g_exc)
__CPROVER_ensures(DIRTY_INV(self)) /*@ C06 "a completely written statement is remembered as unflushed (_write_occurred) until the next flush" */
__CPROVER_ensures(self->_file != NULL ==> (g_fwrites == 1 && g_last_count == (self->g_has_before_write ? g_user_len : log_statement_n))) /*@ C06 "the whole statement - or the whole statement returned by the before_write hook - is handed to fwrite exactly once" */
__CPROVER_ensures(self->_file == NULL ==> (g_fwrites == 0 && g_exc == 0))
__CPROVER_ensures((self->_file != NULL && g_exc == 0) ==> (g_unflushed && self->_write_occurred)) /*@ C06 "a write that did not fail leaves the sink dirty, so the next flush_sink really flushes" */
__CPROVER_ensures(g_exc == 0 || g_exc == EXC_STD) /*@ C10 "a short write is reported as a QuillError (std::exception), which the backend contains" */
''')],
    harness='  SS* s; size_t n; SS_write_log(s, n);',
    dropped=['statement bytes (only the length handed to fwrite)', 'the unused attribute parameters of write_log', 'std::string returned by the before_write hook as its length'],
    trusted=['libc fwrite by contract: writes at most count items; a complete write leaves the data in the stdio buffer'], min_obligations=10)

flush_sink = dict(
    name='SS.flush_sink', primary='C06', props={'C06'}, kind='L',
    desc='StreamSink::flush_sink / flush: after flush_sink no completely written statement is left in the stdio buffer',
    structs=[STRUCT], prelude=PRELUDE, enforce='SS_flush_sink', replace=['FFLUSH'],
    funcs=[flush_f,
           dict(src=dict(header=SH, cls='StreamSink', name='flush_sink'), src_params=[], cfun='SS_flush_sink', sig='void SS_flush_sink(SS* self)', struct='SS', cls_c='SS', siblings=['flush'],
                contract=r'''
__CPROVER_requires(__CPROVER_is_fresh(self, sizeof(*self)) && DIRTY_INV(self) && g_clock < 1000 && g_fflushes < 1000)
__CPROVER_assigns(self->_write_occurred, g_unflushed, g_fflushes, g_clock, g_t_fflush)
__CPROVER_ensures(!g_unflushed) /*@ C06 "after flush_sink every completely written statement has been handed to the OS" */
__CPROVER_ensures(DIRTY_INV(self) && (self->_file != NULL ==> !self->_write_occurred) && g_clock >= OLD(g_clock) && g_clock < 2000)
__CPROVER_ensures((OLD(self->_write_occurred) && self->_file != NULL) ==> (g_fflushes > OLD(g_fflushes) && g_t_fflush == g_clock && g_clock > OLD(g_clock))) /*@ C06 "when something was written since the last flush the stream is flushed (and that is the last thing flush_sink does to the stream)" */
''')],
    harness='  SS* s; SS_flush_sink(s);', dropped=[], trusted=['libc fflush hands the stdio buffer to the OS'], min_obligations=10)

FS_PRELUDE = PRELUDE + r'''
typedef struct FS { SS base; bool g_fsync_enabled; bool g_file_exists; } FS;
size_t g_reopens;
/* StreamSink::flush_sink by its contract (unit SS.flush_sink) */
void SS_flush_sink(SS* self)
__CPROVER_requires(DIRTY_INV(self))
__CPROVER_assigns(self->_write_occurred, g_unflushed, g_fflushes, g_clock, g_t_fflush)
__CPROVER_ensures(!g_unflushed && (self->_file != NULL ==> !self->_write_occurred) && g_clock >= OLD(g_clock) && g_clock < 2000 && ((OLD(self->_write_occurred) && self->_file != NULL) ==> (g_fflushes > OLD(g_fflushes) && g_t_fflush == g_clock && g_clock > OLD(g_clock))));   /* = the ensures of unit SS.flush_sink */
void FS_fsync_file(FS* self) __CPROVER_assigns(g_fsyncs, g_clock, g_t_fsync) __CPROVER_ensures(g_fsyncs == OLD(g_fsyncs) + 1 && g_clock == OLD(g_clock) + 1 && g_t_fsync == g_clock);
void FS_reopen(FS* self) __CPROVER_assigns(g_reopens, self->base._file) __CPROVER_ensures(g_reopens == OLD(g_reopens) + 1);
'''
fs_flush_sink = dict(
    name='FS.flush_sink', primary='C06', props={'C06'}, kind='L',
    desc='FileSink::flush_sink: flush the stream, then fsync when enabled (after the fflush), reopen a deleted file only after both',
    structs=[], prelude=FS_PRELUDE.replace('@STRUCT:SS@', 'typedef struct SS { FILE* _file; bool _write_occurred; bool g_has_before_write; } SS;'), enforce='FS_flush_sink', replace=['SS_flush_sink', 'FS_fsync_file', 'FS_reopen'],
    funcs=[dict(src=dict(header=FH, cls='FileSink', name='flush_sink'), src_params=[], cfun='FS_flush_sink', sig='void FS_flush_sink(FS* self)', cls_c='FS', member_fields=[],
                pre_rules=[(r'\b_write_occurred\b', 'self->base._write_occurred'), (r'(?<![\w.>])_file\b', 'self->base._file'),
                           (r'StreamSink::flush_sink\(\)', 'SS_flush_sink(&self->base)'), (r'_config\.fsync_enabled\(\)', 'self->g_fsync_enabled'),
                           (r'\bfsync_file\(\)', 'FS_fsync_file(self)'), (r'fs::exists\(_filename\)', 'self->g_file_exists'),
                           (r'close_file\(\)\s*;\s*(?://[^\n]*\n\s*)*open_file\(_filename,\s*"w"\)\s*;', 'FS_reopen(self);')],
                contract=r'''
__CPROVER_requires(__CPROVER_is_fresh(self, sizeof(*self)) && DIRTY_INV(&self->base) && g_clock < 1000 && g_fflushes < 1000 && g_fsyncs == 0 && g_reopens == 0)
__CPROVER_assigns(self->base._write_occurred, self->base._file, g_unflushed, g_fflushes, g_clock, g_t_fflush, g_fsyncs, g_t_fsync, g_reopens)
__CPROVER_ensures(!g_unflushed) /*@ C06 "after flush_sink every completely written statement has been handed to the OS" */
__CPROVER_ensures((OLD(self->base._write_occurred) && OLD(self->base._file) != NULL && self->g_fsync_enabled) ==> (g_fsyncs == 1 && g_t_fflush < g_t_fsync)) /*@ C06 "with fsync enabled the file is synced after the stream was flushed" */
__CPROVER_ensures(g_reopens <= 1 && (g_reopens == 1 ==> (!self->g_file_exists && g_fflushes > OLD(g_fflushes)))) /*@ C06 "a deleted file is reopened only after what was written has been flushed" */
''')],
    harness='  FS* s; FS_flush_sink(s);',
    dropped=['std::filesystem::exists as a ghost answer', 'close_file + open_file as one reopen stub'], trusted=['StreamSink::flush_sink by the contract unit SS.flush_sink proves (restated)', 'fsync_file by unit FS.fsync_file'], min_obligations=10)
UNITS = [write_log, flush_sink, fs_flush_sink]

# ------------------------------------------------------------------------------------------ FileSink::fsync_file
FY_PRELUDE = r'''
typedef struct FSy { int64_t _last_fsync_timestamp; int64_t g_min_interval; } FSy;   /* steady_clock time points / durations as int64 nanoseconds */
int64_t g_now; size_t g_fsyncs, g_now_reads;
int64_t STEADY_NOW(void) __CPROVER_assigns(g_now_reads) __CPROVER_ensures(RET == g_now && g_now_reads == OLD(g_now_reads) + 1);
void OS_FSYNC(FSy* self) __CPROVER_assigns(g_fsyncs) __CPROVER_ensures(g_fsyncs == OLD(g_fsyncs) + 1);
'''
fsync_file = dict(
    name='FS.fsync_file', primary='C06', props={'C06'}, kind='L',
    desc='FileSink::fsync_file: a forced sync always reaches the OS; an unforced one is skipped only inside the configured minimum interval since the last sync, and a sync that happens restarts the interval',
    structs=[], prelude=FY_PRELUDE, enforce='FS_fsync_file', replace=['STEADY_NOW', 'OS_FSYNC'],
    funcs=[dict(src=dict(header=FH, cls='FileSink', name='fsync_file'), src_params=['force_fsync'], cfun='FS_fsync_file', sig='void FS_fsync_file(FSy* self, bool force_fsync)', cls_c='FS', member_fields=['_last_fsync_timestamp'],
                pre_rules=[(r'auto\s+const\s+now\s*=\s*std::chrono::steady_clock::now\(\)\s*;', 'int64_t const now = STEADY_NOW();'), (r'_config\.minimum_fsync_interval\(\)', 'self->g_min_interval'),
                           (r'::fsync\(fileno\(_file\)\)\s*;', 'OS_FSYNC(self);')],
                contract=r'''
__CPROVER_requires(__CPROVER_is_fresh(self, sizeof(*self)) && g_fsyncs == 0 && g_now >= 0 && g_now < (1LL << 62) && self->_last_fsync_timestamp >= 0 && self->_last_fsync_timestamp <= g_now && self->g_min_interval >= 0 && self->g_min_interval < (1LL << 62))
__CPROVER_assigns(self->_last_fsync_timestamp, g_fsyncs, g_now_reads)
__CPROVER_ensures(force_fsync ==> (g_fsyncs == 1 && self->_last_fsync_timestamp == OLD(self->_last_fsync_timestamp))) /*@ C06 "a forced sync (before a rotation) always reaches the OS" */
__CPROVER_ensures((!force_fsync && !(g_now - OLD(self->_last_fsync_timestamp) < self->g_min_interval)) ==> g_fsyncs == 1) /*@ C06 "an unforced sync is skipped only inside the configured minimum interval since the last one (never with the default interval 0)" */
__CPROVER_ensures((!force_fsync && g_fsyncs == 1) ==> self->_last_fsync_timestamp == g_now) /*@ C06 "a sync that happens restarts the interval" */
__CPROVER_ensures((!force_fsync && g_fsyncs == 0) ==> self->_last_fsync_timestamp == OLD(self->_last_fsync_timestamp))
''')],
    harness='  FSy* s; bool f; FS_fsync_file(s, f);',
    dropped=['std::chrono::steady_clock time points and durations as int64 nanoseconds', 'the _WIN32 arm (not compiled here)'], trusted=['::fsync / fileno'], min_obligations=8)
UNITS.append(fsync_file)
