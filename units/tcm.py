"""C20 (and C03/C08 pieces) — core/ThreadContextManager.h: invalid-context counter, registry removal, failure counter,
ScopedThreadContext destructor."""

H = 'quill/core/ThreadContextManager.h'

TCM_STRUCT = dict(c='TCM', header=H, cls='ThreadContextManager',
                  typemap={'std::vector<std::shared_ptr<ThreadContext>>': 'PVec', 'Spinlock': 'Spinlock'})

PRELUDE = r'''
typedef struct ThreadContext ThreadContext;
typedef struct Spinlock { int dummy; } Spinlock;
/* registry of shared_ptr<ThreadContext>: size + one tracked slot (the context being removed sits at g_p) */
typedef struct PVec { size_t n; size_t g_p; ThreadContext* tracked; } PVec;
@STRUCT:TCM@
/* ghost: the mathematical number of exited (invalidated) and not yet reclaimed contexts.  Bounded by the most
   threads a process can have had alive (PID_MAX_LIMIT = 2^22), not by the width of the counter field. */
uint64_t g_invalid_registered;
#define MAX_THREADS (((uint64_t)1) << 22)
/* the field holds the ghost count truncated to ITS OWN declared width (the width comes from the source) */
#define CNT_INV(s) ((s)->_invalid_thread_context_count == (__typeof__((s)->_invalid_thread_context_count))g_invalid_registered)
/* atomic read-modify-write on the counter: executable stubs at the field's declared width + ghost update */
static inline void cnt_fetch_add(TCM* s, uint64_t v, int mo) { (void)mo; s->_invalid_thread_context_count += v; g_invalid_registered += v; }
static inline void cnt_fetch_sub(TCM* s, uint64_t v, int mo) { (void)mo; s->_invalid_thread_context_count -= v; g_invalid_registered -= v; }
#define ATOMIC_FETCH_ADD__invalid_thread_context_count(s, v, mo) cnt_fetch_add(s, v, mo)
#define ATOMIC_FETCH_SUB__invalid_thread_context_count(s, v, mo) cnt_fetch_sub(s, v, mo)
#define ATOMIC_LOAD__invalid_thread_context_count(s, mo) ((s)->_invalid_thread_context_count)
'''

DROPPED = ['shared_ptr ownership of ThreadContext (pointer identity only)', 'Spinlock / LockGuard (RAII unlock is C++ semantics; mutual exclusion is unit SP.lock)', 'asserts (NDEBUG)']
TRUSTED = ['sequentially consistent interleaving semantics for the counter (DESIGN §2.3, last paragraph)', 'a process never has more than 2^22 exited-and-unreclaimed threads (PID_MAX_LIMIT)']

add_invalid = dict(
    name='TCM.add_invalid', primary='C20', props={'C20'}, kind='L',
    desc='ThreadContextManager::add_invalid_thread_context: the counter field tracks the number of exited contexts',
    structs=[TCM_STRUCT], prelude=PRELUDE, enforce='TCM_add_invalid_thread_context', replace=[],
    funcs=[dict(src=dict(header=H, cls='ThreadContextManager', name='add_invalid_thread_context'), struct='TCM', src_params=[],
                cfun='TCM_add_invalid_thread_context', sig='void TCM_add_invalid_thread_context(TCM* self)',
                contract=r'''
__CPROVER_requires(__CPROVER_is_fresh(self, sizeof(*self)) && CNT_INV(self) && g_invalid_registered < MAX_THREADS)
__CPROVER_assigns(self->_invalid_thread_context_count, g_invalid_registered)
__CPROVER_ensures(g_invalid_registered == OLD(g_invalid_registered) + 1) /*@ C20 "an exiting thread is counted exactly once" */
__CPROVER_ensures(CNT_INV(self)) /*@ C20 "counter field follows the number of exited, unreclaimed contexts" */
''')],
    harness='  TCM* m; TCM_add_invalid_thread_context(m);',
    dropped=DROPPED, trusted=TRUSTED, min_obligations=5,
    snapshot=[('count', 'g_invalid_registered')], replay=dict(template='tcm.cpp', op='add_invalid'),
)

has_invalid = dict(
    name='TCM.has_invalid', primary='C20', props={'C20'}, kind='L',
    desc='ThreadContextManager::has_invalid_thread_context: true exactly when some exited context is still registered, for every count a process can reach',
    structs=[TCM_STRUCT], prelude=PRELUDE, enforce='TCM_has_invalid_thread_context', replace=[],
    funcs=[dict(src=dict(header=H, cls='ThreadContextManager', name='has_invalid_thread_context'), struct='TCM', src_params=[],
                cfun='TCM_has_invalid_thread_context', sig='bool TCM_has_invalid_thread_context(TCM* self)',
                contract=r'''
__CPROVER_requires(__CPROVER_is_fresh(self, sizeof(*self)) && CNT_INV(self) && g_invalid_registered <= MAX_THREADS)
__CPROVER_assigns()
__CPROVER_ensures(RET == (g_invalid_registered != 0)) /*@ C20 "the backend learns that exited contexts await reclamation whenever there are any (hundreds of thread exits between two idle periods included)" */
''')],
    harness='  TCM* m; TCM_has_invalid_thread_context(m);',
    dropped=DROPPED, trusted=TRUSTED, min_obligations=3,
    snapshot=[('count', 'g_invalid_registered')], replay=dict(template='tcm.cpp', op='has_invalid'),
)

REMOVE_PRELUDE = PRELUDE + r'''
bool g_locked; size_t g_last_i; ThreadContext* g_last_p; size_t g_erased; ThreadContext* g_erased_p;
void LOCK_GUARD(Spinlock* l) __CPROVER_assigns(g_locked) __CPROVER_ensures(g_locked);
size_t PVec_size(PVec* v) __CPROVER_requires(g_locked) __CPROVER_assigns() __CPROVER_ensures(RET == v->n);
ThreadContext* nondet_tc(void);
/* it->get(): the tracked slot returns the tracked pointer, any other slot an arbitrary pointer; remembers the last read */
ThreadContext* PVec_get(PVec* v, size_t i)
__CPROVER_requires(g_locked && i < v->n)
__CPROVER_assigns(g_last_i, g_last_p)
__CPROVER_ensures(g_last_i == i && g_last_p == RET)
__CPROVER_ensures(i == v->g_p ==> RET == v->tracked);
/* erase(it): only an element that was just read may be erased (its value is then known) */
void PVec_erase(PVec* v, size_t i)
__CPROVER_requires(g_locked && i < v->n && i == g_last_i)
__CPROVER_assigns(v->n, g_erased, g_erased_p, g_invalid_registered)
__CPROVER_ensures(v->n == OLD(v->n) - 1 && g_erased == OLD(g_erased) + 1 && g_erased_p == g_last_p)
__CPROVER_ensures(g_invalid_registered == OLD(g_invalid_registered) - 1);    /* the EVENT: one exited context leaves the registry - the ghost count follows the event, not the way the field is updated */
/* in this unit the counter operations touch the field only (the ghost moves with the erase above), and a plain store is defined too,
   so that 'decrement' rewritten as 'reset' (seed C20-G5) is decided by the clause below instead of ending in 'undefined function' */
static inline void cnt_field_sub(TCM* s, uint64_t v, int mo) { (void)mo; s->_invalid_thread_context_count -= v; }
static inline void cnt_field_store(TCM* s, uint64_t v, int mo) { (void)mo; s->_invalid_thread_context_count = v; }
#undef ATOMIC_FETCH_SUB__invalid_thread_context_count
#define ATOMIC_FETCH_SUB__invalid_thread_context_count(s, v, mo) cnt_field_sub(s, v, mo)
#define ATOMIC_STORE__invalid_thread_context_count(s, v, mo) cnt_field_store(s, v, mo)
'''

remove_ctx = dict(
    name='TCM.remove', primary='C20', props={'C20', 'C03'}, kind='L',
    desc='ThreadContextManager::remove_shared_invalidated_thread_context: erases exactly the given context, under the lock, and decrements the counter once',
    structs=[TCM_STRUCT], prelude=REMOVE_PRELUDE, enforce='TCM_remove', replace=['LOCK_GUARD', 'PVec_size', 'PVec_get', 'PVec_erase'], loopcontracts=True,
    funcs=[dict(src=dict(header=H, cls='ThreadContextManager', name='remove_shared_invalidated_thread_context'), struct='TCM', src_params=['thread_context'],
                cfun='TCM_remove', sig='void TCM_remove(TCM* self, ThreadContext* thread_context)',
                pre_rules=[(r'LockGuard\s+const\s+lock\s*\{\s*_spinlock\s*\}\s*;', 'LOCK_GUARD(&_spinlock);', 1),
                           (r'auto\s+thread_context_it\s*=\s*_thread_contexts\.end\(\)\s*;', 'size_t thread_context_it = PVec_size(&_thread_contexts);', 1),
                           (r'for\s*\(\s*auto\s+it\s*=\s*_thread_contexts\.begin\(\)\s*;\s*it\s*!=\s*_thread_contexts\.end\(\)\s*;\s*\+\+it\s*\)', 'for (size_t it = 0; it != PVec_size(&_thread_contexts); ++it)', 1),
                           (r'it->get\(\)', 'PVec_get(&_thread_contexts, it)', 1),
                           (r'_thread_contexts\.erase\(thread_context_it\)', 'PVec_erase(&_thread_contexts, thread_context_it)', 1)],
                loops={0: r'''
__CPROVER_assigns(it, thread_context_it, g_last_i, g_last_p)
__CPROVER_loop_invariant(it <= self->_thread_contexts.g_p && thread_context_it == self->_thread_contexts.n && g_locked)
__CPROVER_decreases(self->_thread_contexts.n - it)
'''},
                contract=r'''
__CPROVER_requires(__CPROVER_is_fresh(self, sizeof(*self)) && CNT_INV(self) && g_invalid_registered >= 1 && g_invalid_registered <= MAX_THREADS)
/* the context to remove is registered (at the arbitrary tracked slot) and has been counted as invalid */
__CPROVER_requires(self->_thread_contexts.g_p < self->_thread_contexts.n && self->_thread_contexts.tracked == thread_context && g_erased == 0 && !g_locked)
__CPROVER_assigns(self->_thread_contexts.n, self->_invalid_thread_context_count, g_invalid_registered, g_locked, g_last_i, g_last_p, g_erased, g_erased_p)
__CPROVER_ensures(g_erased == 1 && g_erased_p == thread_context) /*@ C20 "exactly the given context is erased from the registry, once" */
__CPROVER_ensures(self->_thread_contexts.n == OLD(self->_thread_contexts.n) - 1) /*@ C20 "the registry shrinks by one" */
__CPROVER_ensures(g_invalid_registered == OLD(g_invalid_registered) - 1 && CNT_INV(self)) /*@ C20 "the reclaimed context is un-counted exactly once" */
''')],
    harness='  TCM* m; ThreadContext* tc; TCM_remove(m, tc);',
    dropped=DROPPED, trusted=TRUSTED + ['std::vector iterator loop rendered as an index loop over the registry shim (unit rules)'], min_obligations=10,
)

# ------------------------------------------------------------------ ScopedThreadContext destructor
DTOR_PRELUDE = r'''
typedef struct ThreadContext ThreadContext;
typedef struct STC { ThreadContext* _thread_context; } STC;
size_t g_mark_invalid, g_add_invalid; ThreadContext* g_marked;
void TC_mark_invalid(ThreadContext* tc) __CPROVER_assigns(g_mark_invalid, g_marked) __CPROVER_ensures(g_mark_invalid == OLD(g_mark_invalid) + 1 && g_marked == tc);
void TCM_instance_add_invalid_thread_context(void) __CPROVER_assigns(g_add_invalid) __CPROVER_ensures(g_add_invalid == OLD(g_add_invalid) + 1);
'''
scoped_dtor = dict(
    name='TCM.scoped_dtor', primary='C20', props={'C20'}, kind='S',
    desc='ScopedThreadContext::~ScopedThreadContext: an exiting thread marks its own context invalid and announces it, each exactly once',
    structs=[], prelude=DTOR_PRELUDE, enforce='STC_dtor', replace=['TC_mark_invalid', 'TCM_instance_add_invalid_thread_context'],
    funcs=[dict(src=dict(header=H, cls='ScopedThreadContext', name='~ScopedThreadContext'), src_params=[],
                cfun='STC_dtor', sig='void STC_dtor(STC* self)', member_fields=['_thread_context'],
                methods={'mark_invalid': 'TC_mark_invalid'},
                pre_rules=[(r'ThreadContextManager::instance\(\)\s*\.\s*add_invalid_thread_context\(\)', 'TCM_instance_add_invalid_thread_context()', 1)],
                contract=r'''
__CPROVER_requires(__CPROVER_is_fresh(self, sizeof(*self)) && g_mark_invalid == 0 && g_add_invalid == 0)
__CPROVER_assigns(g_mark_invalid, g_add_invalid, g_marked)
__CPROVER_ensures(g_mark_invalid == 1 && g_marked == self->_thread_context) /*@ C20 "the exiting thread's own context is marked invalid once" */
__CPROVER_ensures(g_add_invalid == 1) /*@ C20 "and announced to the manager once" */
''')],
    harness='  STC* s; STC_dtor(s);',
    dropped=['shared_ptr release of the context'], trusted=[], min_obligations=3,
)

# ------------------------------------------------------------------ failure counter (C08)
TC_STRUCT = dict(c='TC', header=H, cls='ThreadContext', only=['_queue_type', '_valid', '_failure_counter'], typemap={'QueueType': 'QueueType'})
FC_PRELUDE = r'''
typedef uint8_t QueueType;
@STRUCT:TC@
/* ghosts: statements dropped so far (producer side), drops handed to the backend so far */
uint64_t g_dropped, g_reported;
#define FC_INV(s) (g_dropped == g_reported + (s)->_failure_counter)
#define FC_SMALL(s) ((s)->_failure_counter <= (((uint64_t)1) << 61) && g_reported <= (((uint64_t)1) << 61))   /* no 64-bit overflow of the ghost sums */
uint64_t nondet_u64(void);
/* rely step of the producer before every backend access: it may drop k more statements */
#define RELY_PRODUCER(s) do { uint64_t k = nondet_u64(); __CPROVER_assume(k <= 1000000); (s)->_failure_counter += k; g_dropped += k; } while (0)
static inline size_t fc_load(TC* s, int mo) { (void)mo; RELY_PRODUCER(s); return s->_failure_counter; }
static inline size_t fc_exchange(TC* s, size_t v, int mo) { (void)mo; RELY_PRODUCER(s); size_t o = s->_failure_counter; s->_failure_counter = v; g_reported += o; return o; }
static inline void fc_store(TC* s, size_t v, int mo) { (void)mo; RELY_PRODUCER(s); s->_failure_counter = v; }
static inline void fc_fetch_add(TC* s, size_t v, int mo) { (void)mo; s->_failure_counter += v; g_dropped += v; }
#define ATOMIC_LOAD__failure_counter(s, mo) fc_load(s, mo)
#define ATOMIC_EXCHANGE__failure_counter(s, v, mo) fc_exchange(s, v, mo)
#define ATOMIC_STORE__failure_counter(s, v, mo) fc_store(s, v, mo)
#define ATOMIC_FETCH_ADD__failure_counter(s, v, mo) fc_fetch_add(s, v, mo)
'''
get_reset = dict(
    name='TC.get_and_reset_failure_counter', primary='C08', props={'C08'}, kind='L',
    desc='ThreadContext::get_and_reset_failure_counter under interference of the producer between its two atomic accesses: no drop is lost or counted twice',
    structs=[TC_STRUCT], prelude=FC_PRELUDE, enforce='TC_get_and_reset_failure_counter', replace=[],
    funcs=[dict(src=dict(header=H, cls='ThreadContext', name='get_and_reset_failure_counter'), struct='TC', src_params=[],
                cfun='TC_get_and_reset_failure_counter', sig='size_t TC_get_and_reset_failure_counter(TC* self)',
                contract=r'''
__CPROVER_requires(__CPROVER_is_fresh(self, sizeof(*self)) && FC_INV(self) && FC_SMALL(self))
__CPROVER_assigns(self->_failure_counter, g_dropped, g_reported)
__CPROVER_ensures(FC_INV(self)) /*@ C08 "dropped == reported + pending, whatever the producer does between the backend's two accesses" */
__CPROVER_ensures(RET == g_reported - OLD(g_reported)) /*@ C08 "the value handed to the notifier is exactly what was taken out of the counter" */
''')],
    harness='  TC* t; TC_get_and_reset_failure_counter(t);',
    dropped=['alignas of the counter'], trusted=['sequentially consistent interleavings for the failure counter (DESIGN §2.3)'],
    assumes=['rely step bounded to 10^6 drops between two backend accesses (keeps the ghost sums below 2^63; not a restriction of the code)'],
    min_obligations=5,
)
incr = dict(
    name='TC.increment_failure_counter', primary='C08', props={'C08'}, kind='L',
    desc='ThreadContext::increment_failure_counter: one drop is one increment',
    structs=[TC_STRUCT], prelude=FC_PRELUDE, enforce='TC_increment_failure_counter', replace=[],
    funcs=[dict(src=dict(header=H, cls='ThreadContext', name='increment_failure_counter'), struct='TC', src_params=[],
                cfun='TC_increment_failure_counter', sig='void TC_increment_failure_counter(TC* self)',
                contract=r'''
__CPROVER_requires(__CPROVER_is_fresh(self, sizeof(*self)) && FC_INV(self) && FC_SMALL(self))
__CPROVER_assigns(self->_failure_counter, g_dropped)
__CPROVER_ensures(FC_INV(self) && g_dropped == OLD(g_dropped) + 1) /*@ C08 "a discarded statement is counted exactly once" */
''')],
    harness='  TC* t; TC_increment_failure_counter(t);',
    dropped=['alignas of the counter'], trusted=['sequentially consistent interleavings for the failure counter (DESIGN §2.3)'], min_obligations=3,
)

UNITS = [add_invalid, has_invalid, remove_ctx, scoped_dtor, get_reset, incr]

# ------------------------------------------------------------------ registration hand-off (C03): Owicki-Gries with rely steps inside the shared-access stubs
OG = r'''
/* ghost state of the hand-off for ONE arbitrary new context c*  (sequentially consistent interleavings, DESIGN §2.3 last paragraph) */
bool g_in_list;        /* c* is in the manager's registry */
bool g_flag;           /* _new_thread_context_flag */
bool g_in_cache;       /* c* is in the backend's cache of active contexts */
bool g_flag_stored;    /* the registering thread has stored the flag (its last step) */
bool g_cleared, g_reloaded;   /* backend: has cleared the flag / has reloaded, within the current update */
#define PENDING (g_in_list && !g_flag_stored)
#define RELOADING (g_cleared && !g_reloaded)
#define OG_INV (!(g_in_list && !PENDING && !g_flag && !RELOADING) || g_in_cache)
bool nondet_bool(void);
'''
REG_PRELUDE = OG + r'''
typedef struct TCMr { int d; } TCMr; typedef struct TCptr { int d; } TCptr;
bool g_locked;
/* rely: the backend may clear the flag and/or reload at any time, keeping OG_INV (proved for its own steps by unit BW.update_cache) */
#define RELY_BACKEND() do { if (nondet_bool()) { g_flag = nondet_bool() ? g_flag : false; g_in_cache = nondet_bool(); g_cleared = nondet_bool(); g_reloaded = nondet_bool(); __CPROVER_assume(OG_INV); } } while (0)
static inline void SPIN_lock(TCMr* s) { RELY_BACKEND(); g_locked = true; }
static inline void SPIN_unlock(TCMr* s) { g_locked = false; }
static inline void LIST_push_back(TCMr* s, TCptr const* tc) { __CPROVER_assert(g_locked, "C03: the registry is modified under the lock"); g_in_list = true; __CPROVER_assert(OG_INV, "C03: hand-off invariant after the registry push"); }
static inline void FLAG_store(TCMr* s, bool v, int mo) { RELY_BACKEND(); g_flag = v; g_flag_stored = true; __CPROVER_assert(OG_INV, "C03: hand-off invariant after the flag store: a registered context is never left out of the backend's cache with the flag down"); }
#define ATOMIC_STORE__new_thread_context_flag(s, v, mo) FLAG_store(s, v, mo)
'''
register = dict(
    name='TCM.register', primary='C03', props={'C03'}, kind='S',
    desc='ThreadContextManager::register_thread_context under interference of the backend: push under the lock, THEN raise the flag - the hand-off invariant holds after every shared access',
    structs=[], prelude=REG_PRELUDE, enforce='TCM_register_thread_context', replace=[],
    funcs=[dict(src=dict(header=H, cls='ThreadContextManager', name='register_thread_context'), src_params=['thread_context'], cfun='TCM_register_thread_context',
                sig='void TCM_register_thread_context(TCMr* self, TCptr const* thread_context)', cls_c='TCM', member_fields=[], atomics=['_new_thread_context_flag'],
                pre_rules=[(r'_spinlock\.lock\(\)', 'SPIN_lock(self)', '?'), (r'_spinlock\.unlock\(\)', 'SPIN_unlock(self)', '?'), (r'_thread_contexts\.push_back\(thread_context\)', 'LIST_push_back(self, thread_context)', 1)],
                contract=r'''
__CPROVER_requires(__CPROVER_is_fresh(self, sizeof(*self)) && !g_in_list && !g_flag_stored && !g_locked && OG_INV)
__CPROVER_assigns(g_in_list, g_flag, g_in_cache, g_flag_stored, g_cleared, g_reloaded, g_locked)
__CPROVER_ensures(g_in_list && g_flag_stored && OG_INV) /*@ C03 "after registration the new thread's context is in the registry and either already in the backend's cache or announced by the flag" */
''')],
    harness='  TCMr* m; TCptr* t; TCM_register_thread_context(m, t);',
    dropped=['shared_ptr copy', 'Spinlock internals (unit SP.lock)'], trusted=['sequentially consistent interleavings; the backend\'s steps keep the invariant (unit BW.update_cache)'],
    assumes=['__CPROVER_assume inside the rely macro: the other thread leaves the hand-off invariant intact (that is what its own unit proves)'], allow_assume=True, min_obligations=5)

UPD_PRELUDE = OG + r'''
typedef struct TCMu { int d; } TCMu; typedef struct BWu { TCMu* _thread_context_manager_p; } BWu;
/* rely: a registering thread may push c* and/or raise the flag at any time, in ITS proved order (push, then flag), keeping OG_INV */
#define RELY_REGISTRAR() do { if (nondet_bool()) { if (!g_in_list) { g_in_list = nondet_bool(); } if (g_in_list && !g_flag_stored && nondet_bool()) { g_flag = true; g_flag_stored = true; } __CPROVER_assume(OG_INV); } } while (0)
static inline bool FLAG_load(TCMu* s, int mo) { RELY_REGISTRAR(); return g_flag; }
static inline void FLAG_store(TCMu* s, bool v, int mo) { RELY_REGISTRAR(); g_flag = v; if (!v) { g_cleared = true; } __CPROVER_assert(OG_INV, "C03: hand-off invariant after the backend cleared the flag"); }
#define ATOMIC_LOAD__new_thread_context_flag(s, mo) FLAG_load(s, mo)
#define ATOMIC_STORE__new_thread_context_flag(s, v, mo) FLAG_store(s, v, mo)
size_t g_cache_clears;
static inline void CACHE_clear(BWu* s) { g_cache_clears++; }
/* for_each_thread_context (takes the registry lock): the cache becomes a snapshot of the registry */
static inline void RELOAD_UNDER_LOCK(BWu* s) { RELY_REGISTRAR(); g_in_cache = g_in_list; g_reloaded = true; __CPROVER_assert(OG_INV, "C03: hand-off invariant after the reload"); }
'''
update_cache = dict(
    name='BW.update_cache', primary='C03', props={'C03'}, kind='S',
    desc='ThreadContextManager::new_thread_context_flag + BackendWorker::_update_active_thread_contexts_cache under interference of registering threads: clear the flag, THEN reload - a context registered at any moment ends up in the cache or leaves the flag raised',
    structs=[], prelude=UPD_PRELUDE, enforce='BW__update_active_thread_contexts_cache', replace=[],
    funcs=[dict(src=dict(header=H, cls='ThreadContextManager', name='new_thread_context_flag'), src_params=[], cfun='TCM_new_thread_context_flag', sig='bool TCM_new_thread_context_flag(TCMu* self)',
                member_fields=[], atomics=['_new_thread_context_flag']),
           dict(src=dict(header='quill/backend/BackendWorker.h', cls='BackendWorker', name='_update_active_thread_contexts_cache'), src_params=[], cfun='BW__update_active_thread_contexts_cache',
                sig='void BW__update_active_thread_contexts_cache(BWu* self)', cls_c='BW', member_fields=[],
                pre_rules=[(r'_thread_context_manager\.new_thread_context_flag\(\)', 'TCM_new_thread_context_flag(self->_thread_context_manager_p)', 1),
                           (r'_active_thread_contexts_cache\.clear\(\)', 'CACHE_clear(self)', '?'),
                           (r'_thread_context_manager\.for_each_thread_context\s*\(\s*\[this\]\(ThreadContext\* thread_context\).*?\}\s*\)\s*;', 'RELOAD_UNDER_LOCK(self);', '?')],
                contract=r'''
__CPROVER_requires(__CPROVER_is_fresh(self, sizeof(*self)) && __CPROVER_is_fresh(self->_thread_context_manager_p, sizeof(TCMu)) && !g_cleared && !g_reloaded && OG_INV && (g_flag_stored ==> g_in_list))
__CPROVER_assigns(g_in_list, g_flag, g_in_cache, g_flag_stored, g_cleared, g_reloaded, g_cache_clears)
__CPROVER_ensures(OG_INV && !RELOADING) /*@ C03 "after the update a registered thread's context is in the backend's cache unless its flag is (still or again) raised: no thread is ever left unread" */
''')],
    harness='  BWu* b; BW__update_active_thread_contexts_cache(b);',
    dropped=['the lazy TransitEventBuffer creation and the cache push_back inside the for_each lambda (the cache becomes a snapshot of the registry)', '__builtin_expect'],
    trusted=['sequentially consistent interleavings; the registering thread\'s steps keep the invariant and come in its proved order (unit TCM.register)'],
    assumes=['__CPROVER_assume inside the rely macro: the other thread leaves the hand-off invariant intact'], allow_assume=True, min_obligations=5)
UNITS += [register, update_cache]

# ------------------------------------------------------------------------------------------ ThreadContext constructor / destructor
TCQ_PRELUDE = r'''
typedef uint8_t QueueType; enum { QT_UnboundedBlocking, QT_UnboundedDropping, QT_BoundedBlocking, QT_BoundedDropping };
typedef int HugePagesPolicy;
typedef struct TCq { QueueType _queue_type; bool g_has_unbounded, g_has_bounded; } TCq;   /* the union holds at most one live queue: two ghost flags */
size_t g_uq_ctor, g_bq_ctor, g_uq_dtor, g_bq_dtor, g_cap, g_max; HugePagesPolicy g_policy;
static inline bool TC_has_unbounded_queue_type(TCq* t) { return t->_queue_type == QT_UnboundedBlocking || t->_queue_type == QT_UnboundedDropping; }
static inline bool TC_has_bounded_queue_type(TCq* t) { return t->_queue_type == QT_BoundedBlocking || t->_queue_type == QT_BoundedDropping; }
void UQ_CONSTRUCT(TCq* self, size_t cap, size_t max, HugePagesPolicy p)
__CPROVER_requires(!self->g_has_unbounded && !self->g_has_bounded)
__CPROVER_assigns(self->g_has_unbounded, g_uq_ctor, g_cap, g_max, g_policy) __CPROVER_ensures(self->g_has_unbounded && g_uq_ctor == OLD(g_uq_ctor) + 1 && g_cap == cap && g_max == max && g_policy == p);
void BQ_CONSTRUCT(TCq* self, size_t cap, HugePagesPolicy p)
__CPROVER_requires(!self->g_has_unbounded && !self->g_has_bounded)
__CPROVER_assigns(self->g_has_bounded, g_bq_ctor, g_cap, g_policy) __CPROVER_ensures(self->g_has_bounded && g_bq_ctor == OLD(g_bq_ctor) + 1 && g_cap == cap && g_policy == p);
void UQ_DESTROY(TCq* self)
__CPROVER_requires(self->g_has_unbounded) /*@ C20 "the destructor of the unbounded queue runs only on a live unbounded queue (the union member that was constructed)" */
__CPROVER_assigns(self->g_has_unbounded, g_uq_dtor) __CPROVER_ensures(!self->g_has_unbounded && g_uq_dtor == OLD(g_uq_dtor) + 1);
void BQ_DESTROY(TCq* self)
__CPROVER_requires(self->g_has_bounded) /*@ C20 "the destructor of the bounded queue runs only on a live bounded queue" */
__CPROVER_assigns(self->g_has_bounded, g_bq_dtor) __CPROVER_ensures(!self->g_has_bounded && g_bq_dtor == OLD(g_bq_dtor) + 1);
#define LIVE_MATCHES_TYPE(t) (((t)->g_has_unbounded ? 1 : 0) == (TC_has_unbounded_queue_type(t) ? 1 : 0) && ((t)->g_has_bounded ? 1 : 0) == (TC_has_bounded_queue_type(t) ? 1 : 0))
'''
TCQ_METHODS = {'has_unbounded_queue_type': 'TC_has_unbounded_queue_type', 'has_bounded_queue_type': 'TC_has_bounded_queue_type'}
tc_ctor = dict(
    name='TC.ctor', primary='C03', props={'C03', 'C01', 'C02'}, kind='L',
    desc='ThreadContext constructor: exactly the queue named by the queue type is constructed in the union, with the configured capacities',
    structs=[], prelude=TCQ_PRELUDE, enforce='TC_ctor', replace=['UQ_CONSTRUCT', 'BQ_CONSTRUCT'],
    funcs=[dict(src=dict(header=H, cls='ThreadContext', name='ThreadContext', nth=0), cfun='TC_ctor',
                sig='void TC_ctor(TCq* self, QueueType queue_type, size_t initial_queue_capacity, size_t unbounded_queue_max_capacity, HugePagesPolicy huge_pages_policy)', cls_c='TC',
                member_fields=['_queue_type'], siblings=['has_unbounded_queue_type', 'has_bounded_queue_type'],
                pre_rules=[(r'^\s*\{', '{ self->_queue_type = queue_type;', '!'),
                           (r'new\s*\(&_spsc_queue_union\.unbounded_spsc_queue\)\s*UnboundedSPSCQueue\{([^{}]*)\}\s*;', r'UQ_CONSTRUCT(self, \1);'),
                           (r'new\s*\(&_spsc_queue_union\.bounded_spsc_queue\)\s*BoundedSPSCQueue\{([^{}]*)\}\s*;', r'BQ_CONSTRUCT(self, \1);')],
                contract=r'''
__CPROVER_requires(__CPROVER_is_fresh(self, sizeof(*self)) && queue_type <= QT_BoundedDropping && !self->g_has_unbounded && !self->g_has_bounded && g_uq_ctor == 0 && g_bq_ctor == 0)
__CPROVER_assigns(self->_queue_type, self->g_has_unbounded, self->g_has_bounded, g_uq_ctor, g_bq_ctor, g_cap, g_max, g_policy)
__CPROVER_ensures(self->_queue_type == queue_type && LIVE_MATCHES_TYPE(self) && g_uq_ctor + g_bq_ctor == 1) /*@ C03 "a thread context owns exactly one queue and it is of the configured kind" */
__CPROVER_ensures(g_cap == initial_queue_capacity && g_policy == huge_pages_policy && (self->g_has_unbounded ==> g_max == unbounded_queue_max_capacity)) /*@ C01,C02 "the queue is created with the configured initial capacity, maximum capacity and huge page policy" */
''')],
    harness='  TCq* t; QueueType q; size_t a, b; HugePagesPolicy h; TC_ctor(t, q, a, b, h);',
    dropped=['the mem-initialiser _queue_type(queue_type) is re-stated by a rule (first statement of the body)', 'placement new into the union as a constructor stub + liveness flag'], trusted=['queue constructors: units BQ.ctor / UQ.ctor'], min_obligations=8)
tc_dtor = dict(
    name='TC.dtor', primary='C20', props={'C20'}, kind='L',
    desc='ThreadContext destructor: destroys the union member that is alive - the one the queue type names - exactly once',
    structs=[], prelude=TCQ_PRELUDE, enforce='TC_dtor', replace=['UQ_DESTROY', 'BQ_DESTROY'],
    funcs=[dict(src=dict(header=H, cls='ThreadContext', name='~ThreadContext'), cfun='TC_dtor', sig='void TC_dtor(TCq* self)', cls_c='TC', member_fields=['_queue_type'], siblings=['has_unbounded_queue_type', 'has_bounded_queue_type'],
                pre_rules=[(r'_spsc_queue_union\.unbounded_spsc_queue\.~UnboundedSPSCQueue\(\)\s*;', 'UQ_DESTROY(self);'), (r'_spsc_queue_union\.bounded_spsc_queue\.~BoundedSPSCQueue\(\)\s*;', 'BQ_DESTROY(self);')],
                contract=r'''
__CPROVER_requires(__CPROVER_is_fresh(self, sizeof(*self)) && self->_queue_type <= QT_BoundedDropping && LIVE_MATCHES_TYPE(self) && g_uq_dtor == 0 && g_bq_dtor == 0)
__CPROVER_assigns(self->g_has_unbounded, self->g_has_bounded, g_uq_dtor, g_bq_dtor)
__CPROVER_ensures(!self->g_has_unbounded && !self->g_has_bounded && g_uq_dtor + g_bq_dtor == 1) /*@ C20 "reclaiming a thread context releases its queue (all buffers) exactly once" */
''')],
    harness='  TCq* t; TC_dtor(t);',
    dropped=['explicit destructor calls on union members as destructor stubs + liveness flag'], trusted=['queue destructors (node list walk / buffer release) are not covered'], min_obligations=8)
UNITS += [tc_ctor, tc_dtor]

# ------------------------------------------------------------------ ScopedThreadContext constructor
SCT_PRELUDE = r'''
typedef uint8_t QueueType; typedef uint8_t HugePagesPolicy;
typedef struct ThreadContext { QueueType g_qt; size_t g_initial, g_max; HugePagesPolicy g_hp; } ThreadContext;
typedef struct STC { ThreadContext* _thread_context; } STC;
ThreadContext g_new_tc; size_t g_makes, g_registers; ThreadContext* g_registered;
/* std::make_shared<ThreadContext>(...): the ThreadContext constructor (unit TC.ctor) with these arguments */
static inline ThreadContext* TC_make_shared(QueueType qt, size_t initial, size_t max, HugePagesPolicy hp) { g_makes++; g_new_tc.g_qt = qt; g_new_tc.g_initial = initial; g_new_tc.g_max = max; g_new_tc.g_hp = hp; return &g_new_tc; }
void TCM_register(ThreadContext* tc) __CPROVER_requires(tc != NULL) __CPROVER_assigns(g_registers, g_registered) __CPROVER_ensures(g_registers == OLD(g_registers) + 1 && g_registered == tc);
'''
scoped_ctor = dict(
    name='TCM.scoped_ctor', primary='C03', props={'C03', 'C20'}, kind='S',
    desc='ScopedThreadContext constructor (a thread\'s first log call): one ThreadContext is created with the frontend\'s queue type and capacities (in that order) and that very context is registered with the manager once',
    structs=[], prelude=SCT_PRELUDE, enforce='STC_ctor', replace=['TCM_register'],
    funcs=[dict(src=dict(header=H, cls='ScopedThreadContext', name='ScopedThreadContext', nth=0, part='ctor'), src_params=['queue_type', 'initial_queue_capacity', 'unbounded_queue_max_capacity', 'huge_pages_policy'],
                cfun='STC_ctor', sig='void STC_ctor(STC* self, QueueType queue_type, size_t initial_queue_capacity, size_t unbounded_queue_max_capacity, HugePagesPolicy huge_pages_policy)', cls_c='STC',
                member_fields=['_thread_context'],
                rules=[(r'std::make_shared<ThreadContext>\(', 'TC_make_shared('), (r'ThreadContextManager::instance\(\)\s*\.\s*register_thread_context\(', 'TCM_register(')],
                contract=r'''
__CPROVER_requires(__CPROVER_is_fresh(self, sizeof(*self)) && g_makes == 0 && g_registers == 0)
__CPROVER_assigns(self->_thread_context, g_makes, g_registers, g_registered, __CPROVER_object_whole(&g_new_tc))
__CPROVER_ensures(g_makes == 1 && self->_thread_context == &g_new_tc && g_new_tc.g_qt == queue_type && g_new_tc.g_initial == initial_queue_capacity && g_new_tc.g_max == unbounded_queue_max_capacity && g_new_tc.g_hp == huge_pages_policy) /*@ C03 "a thread's context is built with the configured queue type, initial capacity and maximum capacity - each in its own place" */
__CPROVER_ensures(g_registers == 1 && g_registered == self->_thread_context) /*@ C03,C20 "the context the thread will log through is the one the backend learns about, registered exactly once" */
''')],
    harness='  STC* s; QueueType q; size_t a; size_t b; HugePagesPolicy h; STC_ctor(s, q, a, b, h);',
    dropped=['shared_ptr as a raw pointer', 'the debug-only once-per-thread assertion (NDEBUG)'], trusted=['ThreadContext constructor by unit TC.ctor; register_thread_context by unit TCM.register'], min_obligations=5)
UNITS += [scoped_ctor]

GL_PRELUDE = r'''
typedef uint8_t QueueType; typedef uint8_t HugePagesPolicy;
typedef struct ThreadContext { int d; } ThreadContext;
QueueType OPT_queue_type; size_t OPT_initial_queue_capacity, OPT_unbounded_queue_max_capacity; HugePagesPolicy OPT_huge_pages_policy;   /* the members of TFrontendOptions */
ThreadContext g_tc_of_thread; size_t g_inits; QueueType g_i_qt; size_t g_i_initial, g_i_max; HugePagesPolicy g_i_hp;
/* initialisation of the thread_local ScopedThreadContext (once per thread; constructor: unit TCM.scoped_ctor) */
static inline void STC_INIT(QueueType qt, size_t initial, size_t max, HugePagesPolicy hp) { g_inits++; g_i_qt = qt; g_i_initial = initial; g_i_max = max; g_i_hp = hp; }
static inline ThreadContext* STC_GET(void) { return &g_tc_of_thread; }
'''
get_local = dict(
    name='TCM.get_local', primary='C03', props={'C03'}, kind='S',
    desc='detail::get_local_thread_context<TFrontendOptions>: the calling thread\'s context is created from the frontend options - queue type, initial capacity, maximum capacity, huge pages, each in its own place - and handed back',
    structs=[], prelude=GL_PRELUDE, enforce='get_local_thread_context', replace=[],
    funcs=[dict(src=dict(header=H, cls=None, name='get_local_thread_context'), src_params=[], cfun='get_local_thread_context', sig='ThreadContext* get_local_thread_context(void)', member_fields=[], ret_default='NULL',
                pre_rules=[(r'thread_local\s+ScopedThreadContext\s+scoped_thread_context\{\s*(.*?)\}\s*;', r'STC_INIT(\1);', '!'), (r'TFrontendOptions::(\w+)', r'OPT_\1'),
                           (r'scoped_thread_context\.get_thread_context\(\)', 'STC_GET()')],
                contract=r'''
__CPROVER_requires(g_inits == 0)
__CPROVER_assigns(g_inits, g_i_qt, g_i_initial, g_i_max, g_i_hp)
__CPROVER_ensures(g_inits == 1 && g_i_qt == OPT_queue_type && g_i_initial == OPT_initial_queue_capacity && g_i_max == OPT_unbounded_queue_max_capacity && g_i_hp == OPT_huge_pages_policy) /*@ C03 "the thread's queue is built from the frontend options: type, initial capacity and maximum capacity each in its own place" */
__CPROVER_ensures(RET == &g_tc_of_thread) /*@ C03 "the caller logs through its own thread's context" */
''')],
    harness='  get_local_thread_context();', dropped=['thread_local storage duration: the initialisation runs on a thread\'s first call only (C++ semantics, not modelled: the unit is that first call)'], trusted=[], min_obligations=3)
UNITS += [get_local]
