"""C03 / C20 — backend/TransitEventBuffer.h against an abstract sequence view: logical element k lives at physical slot
(_reader_pos + k) & _mask; one arbitrary logical position g_k is tracked (array-free shim), so every statement about
"the tracked element" holds for every element and every capacity."""

H = 'quill/backend/TransitEventBuffer.h'

STRUCT = dict(c='TEB', header=H, cls='TransitEventBuffer', typemap={'std::unique_ptr<TransitEvent[]>': 'Arr*'})

PRELUDE = r'''
typedef struct TE { uint64_t id; } TE;          /* TransitEvent = opaque id (timestamp, message, ... dropped) */
/* std::unique_ptr<TransitEvent[]> shim: allocation size + one tracked physical slot */
typedef struct Arr { size_t cap; size_t g_p; TE tracked; TE scratch; } Arr;
TE nondet_TE(void);
static inline TE* Arr_at(Arr* a, size_t i) { __CPROVER_assert(i < a->cap, "array index within allocation"); if (i == a->g_p) return &a->tracked; a->scratch = nondet_TE(); return &a->scratch; }
static inline TE* ArrP_at(Arr** pp, size_t i) { return Arr_at(*pp, i); }
size_t g_k;   /* ghost: one arbitrary logical position */
size_t g_allocs;
/* std::make_unique<TransitEvent[]>(n): a fresh array of n elements; it tracks physical slot g_k */
Arr* Arr_make(size_t n)
__CPROVER_assigns(g_allocs)
__CPROVER_ensures(__CPROVER_is_fresh(RET, sizeof(Arr)) && RET->cap == n && RET->g_p == g_k && g_allocs == OLD(g_allocs) + 1);
@STRUCT:TEB@
#define POW2(x) ((x) != 0 && (((x) & ((x) - 1)) == 0))
#define SIZE(s) ((size_t)((s)->_writer_pos - (s)->_reader_pos))
#define RI(s) (POW2((s)->_capacity) && (s)->_mask == (s)->_capacity - 1 && (s)->_storage->cap == (s)->_capacity && SIZE(s) <= (s)->_capacity && (s)->_capacity <= (((size_t)1) << 61) && POW2((s)->_initial_capacity) && (s)->_initial_capacity <= (s)->_capacity)
/* the tracked physical slot holds the element at logical position k */
#define AT(s, k) ((s)->_storage->g_p == (((s)->_reader_pos + (k)) & (s)->_mask))
#ifdef REPLAY_FRIENDLY
#define RF_(s) ((s)->_capacity <= 256)                /* replay-friendly counterexamples: a buffer the native replay can materialise */
#else
#define RF_(s) 1
#endif
#define FRESHB(s) (__CPROVER_is_fresh(s, sizeof(*s)) && __CPROVER_is_fresh((s)->_storage, sizeof(Arr)) && RF_(s))
'''

SIBS = ['size', 'empty', '_expand', 'capacity']
SUBS = {'_storage': 'ArrP_at', 'new_storage': 'ArrP_at'}
COMMON_RULES = []
MK = (r'std::make_unique<TransitEvent\[\]>\(', 'Arr_make(')
DROPPED = ['TransitEvent payload (opaque id)', 'unique_ptr ownership: the old array is released by C++ semantics (not modelled)', 'move constructor/assignment of the buffer (not used by the backend paths)']
TRUSTED = ['std::unique_ptr<TransitEvent[]> modelled by the tracked-slot array shim; std::move of a TransitEvent = copy of its id']

SIGS = {
    'size': 'size_t TEB_size(TEB* self)', 'empty': 'bool TEB_empty(TEB* self)', 'capacity': 'size_t TEB_capacity(TEB* self)',
    '_expand': 'void TEB__expand(TEB* self)', 'front': 'TE* TEB_front(TEB* self)', 'pop_front': 'void TEB_pop_front(TEB* self)',
    'back': 'TE* TEB_back(TEB* self)', 'push_back': 'void TEB_push_back(TEB* self)', 'request_shrink': 'void TEB_request_shrink(TEB* self)',
    'try_shrink': 'void TEB_try_shrink(TEB* self)',
}
CON = {
    'size': r'''
__CPROVER_requires(__CPROVER_is_fresh(self, sizeof(*self)))
__CPROVER_assigns()
__CPROVER_ensures(RET == SIZE(self)) /*@ C03 "size() is the number of buffered events" */
''',
    'empty': r'''
__CPROVER_requires(__CPROVER_is_fresh(self, sizeof(*self)))
__CPROVER_assigns()
__CPROVER_ensures(RET == (SIZE(self) == 0)) /*@ C03 "empty() is true exactly when nothing is buffered" */
''',
    'capacity': r'''
__CPROVER_requires(__CPROVER_is_fresh(self, sizeof(*self)))
__CPROVER_assigns()
__CPROVER_ensures(RET == self->_capacity) /*@ C03 "capacity() reports the capacity" */
''',
    '_expand': r'''
__CPROVER_requires(FRESHB(self) && RI(self) && SIZE(self) == self->_capacity && self->_capacity <= (((size_t)1) << 60))
__CPROVER_requires(g_k < SIZE(self) && AT(self, g_k))
__CPROVER_assigns(self->_storage, self->_capacity, self->_mask, self->_writer_pos, self->_reader_pos, self->_storage->scratch, g_allocs)
__CPROVER_ensures(__CPROVER_is_fresh(self->_storage, sizeof(Arr)))
__CPROVER_ensures(RI(self) && self->_capacity == 2 * OLD(self->_capacity) && SIZE(self) == OLD(SIZE(self))) /*@ C03 "growing the backend buffer doubles the capacity and keeps the number of events" */
__CPROVER_ensures(AT(self, g_k) && self->_storage->tracked.id == OLD(self->_storage->tracked.id)) /*@ C03 "growing keeps every event at its logical position (order preserved)" */
''',
    'front': r'''
__CPROVER_requires(FRESHB(self) && RI(self))
__CPROVER_assigns(self->_storage->scratch)
__CPROVER_ensures((RET == NULL) == (SIZE(self) == 0)) /*@ C03 "front() is null exactly when the buffer is empty" */
__CPROVER_ensures((SIZE(self) > 0 && AT(self, 0)) ==> RET == &self->_storage->tracked) /*@ C03 "front() is the oldest buffered event (logical position 0)" */
''',
    'pop_front': r'''
__CPROVER_requires(FRESHB(self) && RI(self) && SIZE(self) > 0)
__CPROVER_assigns(self->_reader_pos)
__CPROVER_ensures(RI(self) && SIZE(self) == OLD(SIZE(self)) - 1) /*@ C03 "pop_front removes exactly one event" */
__CPROVER_ensures((g_k >= 1 && g_k <= SIZE(self) && self->_storage->g_p == ((OLD(self->_reader_pos) + g_k) & self->_mask)) ==> AT(self, g_k - 1)) /*@ C03 "pop_front removes the oldest: every other event moves down by one position" */
''',
    'back': r'''
__CPROVER_requires(FRESHB(self) && RI(self) && self->_capacity <= (((size_t)1) << 60))
__CPROVER_requires(SIZE(self) > 0 ==> (g_k < SIZE(self) && AT(self, g_k)))
__CPROVER_assigns(self->_storage, self->_capacity, self->_mask, self->_writer_pos, self->_reader_pos, self->_storage->scratch, g_allocs)
__CPROVER_ensures(RI(self) && SIZE(self) == OLD(SIZE(self)) && SIZE(self) < self->_capacity) /*@ C03 "back() leaves room for one more event and keeps the number of events" */
__CPROVER_ensures(SIZE(self) > 0 ==> (AT(self, g_k) && self->_storage->tracked.id == OLD(self->_storage->tracked.id) && RET != &self->_storage->tracked)) /*@ C03 "back() never hands out a slot that holds a buffered event; buffered events keep content and position" */
__CPROVER_ensures(OLD(SIZE(self)) < OLD(self->_capacity) ==> g_allocs == OLD(g_allocs)) /*@ C03 "no reallocation unless the buffer is full" */
''',
    'push_back': r'''
__CPROVER_requires(FRESHB(self) && RI(self) && SIZE(self) < self->_capacity)
__CPROVER_assigns(self->_writer_pos)
__CPROVER_ensures(RI(self) && SIZE(self) == OLD(SIZE(self)) + 1) /*@ C03 "push_back commits exactly one event" */
__CPROVER_ensures(((self->_storage->g_p == (OLD(self->_writer_pos) & self->_mask))) ==> AT(self, SIZE(self) - 1)) /*@ C03 "the committed event is the slot handed out by back(), at the newest logical position" */
__CPROVER_ensures(self->_reader_pos == OLD(self->_reader_pos)) /*@ C03 "older events keep their logical positions" */
''',
    'request_shrink': r'''
__CPROVER_requires(__CPROVER_is_fresh(self, sizeof(*self)))
__CPROVER_assigns(self->_shrink_requested)
__CPROVER_ensures(self->_shrink_requested) /*@ C20 "a shrink request is remembered" */
''',
    'try_shrink': r'''
__CPROVER_requires(FRESHB(self) && RI(self))
__CPROVER_assigns(self->_storage, self->_capacity, self->_mask, self->_writer_pos, self->_reader_pos, self->_shrink_requested, g_allocs)
__CPROVER_ensures(RI(self) && SIZE(self) == OLD(SIZE(self))) /*@ C20 "shrinking never changes the number of buffered events" */
__CPROVER_ensures(OLD(SIZE(self)) > 0 ==> (self->_storage == OLD(self->_storage) && self->_reader_pos == OLD(self->_reader_pos) && self->_writer_pos == OLD(self->_writer_pos) && self->_capacity == OLD(self->_capacity) && self->_shrink_requested == OLD(self->_shrink_requested))) /*@ C20 "only an empty backend buffer is shrunk: buffered events are never lost or reordered" */
__CPROVER_ensures((OLD(SIZE(self)) == 0 && OLD(self->_shrink_requested)) ==> (self->_capacity == self->_initial_capacity && !self->_shrink_requested)) /*@ C20 "a requested shrink of an empty buffer takes effect" */
__CPROVER_ensures(!OLD(self->_shrink_requested) ==> (self->_storage == OLD(self->_storage) && self->_capacity == OLD(self->_capacity))) /*@ C20 "no shrink without a request" */
''',
}
CALLEES = {'back': ['TEB_size', 'TEB__expand'], '_expand': ['TEB_size', 'Arr_make'], 'try_shrink': ['TEB_empty', 'Arr_make']}
LOOPS = {'_expand': {0: r'''
__CPROVER_assigns(i, new_storage->tracked, new_storage->scratch, self->_storage->scratch)
__CPROVER_loop_invariant(i <= current_size && (i > g_k ==> new_storage->tracked.id == self->_storage->tracked.id))
__CPROVER_decreases(current_size - i)
'''}}
RULES = {
    '_expand': [MK, (r'auto\s+new_storage\s*=', 'Arr* new_storage =', 1), (r'std::move\(([^()]*(?:\([^()]*\)[^()]*)*)\)', r'\1')],
    'try_shrink': [MK],
}


def decl(m):
    import re
    return SIGS[m] + re.sub(r'/\*@.*?\*/', '', CON[m]) + ';\n'


def unit(m, props):
    cal = CALLEES.get(m, [])
    decls = ''.join(decl(c[4:]) for c in cal if c.startswith('TEB_'))
    return dict(
        name='TEB.' + m.lstrip('_'), primary='C03', props=set(props), kind='L',
        desc='TransitEventBuffer::%s against the sequence view' % m,
        structs=[STRUCT], prelude=PRELUDE + decls, enforce=SIGS[m].split('(')[0].split()[-1], replace=cal, loopcontracts=m in LOOPS,
        funcs=[dict(src=dict(header=H, cls='TransitEventBuffer', name=m), struct='TEB', src_params=[], cfun=SIGS[m].split('(')[0].split()[-1].lstrip('*'),
                    sig=SIGS[m], cls_c='TEB', siblings=SIBS, subscripts=SUBS, pre_rules=RULES.get(m, []), loops=LOOPS.get(m, {}), contract=CON[m])],
        harness='  TEB* b; %s(b);' % SIGS[m].split('(')[0].split()[-1].lstrip('*'),
        **(dict(snapshot=[('cap', 'self->_capacity'), ('rpos', 'self->_reader_pos'), ('wpos', 'self->_writer_pos'), ('shrink', 'self->_shrink_requested ? 1 : 0'), ('init', 'self->_initial_capacity')],
                replay=dict(template='teb.cpp', op=m.lstrip('_'), friendly='REPLAY_FRIENDLY')) if m in ('_expand', 'back', 'push_back', 'pop_front', 'front', 'try_shrink') else {}),
        dropped=DROPPED, trusted=TRUSTED, min_obligations=5)


ctor = dict(
    name='TEB.ctor', primary='C03', props={'C03'}, kind='L',
    desc='TransitEventBuffer constructor: power-of-two capacity, empty view',
    structs=[STRUCT], prelude=PRELUDE + r'''
size_t next_power_of_two(size_t n) __CPROVER_assigns() __CPROVER_ensures(POW2(RET)) __CPROVER_ensures(n <= (((size_t)1) << 63) ==> (RET >= n && (RET == 1 || RET / 2 < n)));
''', enforce='TEB_ctor', replace=['next_power_of_two', 'Arr_make'],
    funcs=[dict(src=dict(header=H, cls='TransitEventBuffer', name='TransitEventBuffer', nth=0, part='ctor'), struct='TEB', src_params=['initial_capacity'],
                cfun='TEB_ctor', sig='void TEB_ctor(TEB* self, size_t initial_capacity)', cls_c='TEB', siblings=[], pre_rules=[],
                rules=[(r'std::make_unique<TransitEvent\[\]>\(', 'Arr_make(', 1)],
                contract=r'''
__CPROVER_requires(__CPROVER_is_fresh(self, sizeof(*self)) && initial_capacity <= (((size_t)1) << 60))
__CPROVER_assigns(__CPROVER_object_whole(self), g_allocs)
__CPROVER_ensures(RI(self) && SIZE(self) == 0 && self->_capacity >= initial_capacity && !self->_shrink_requested) /*@ C03 "a new backend buffer is empty, its capacity a power of two not below the configured initial capacity" */
''')],
    harness='  TEB* b; size_t c; TEB_ctor(b, c);',
    dropped=DROPPED, trusted=TRUSTED + ['next_power_of_two by its contract (unit MU.npow2)'], min_obligations=5)

UNITS = [unit('front', {'C03'}), unit('pop_front', {'C03'}), unit('back', {'C03'}), unit('push_back', {'C03'}), unit('size', {'C03'}),
         unit('empty', {'C03'}), unit('capacity', {'C03'}), unit('_expand', {'C03'}), unit('request_shrink', {'C03', 'C20'}),
         unit('try_shrink', {'C03', 'C20'}), ctor]
