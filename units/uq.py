"""C02 (and C09/C20 pieces) — core/UnboundedSPSCQueue.h.  Bounded-queue methods are replaced by their C01 contracts in
the *opaque* form (DESIGN §3 C02): INV is folded into a ghost boolean plus the facts the callers need; the unit family
BQ.refine.* proves, per method, that the full C01 contract implies the opaque one with g_inv := INV."""
import re
from units import bq as BQM

H = 'quill/core/UnboundedSPSCQueue.h'
BH = BQM.H

BQ_STRUCT = dict(BQM.STRUCT, ghost=BQM.STRUCT['ghost'] + ' bool g_inv;')

OPAQUE = r'''
typedef size_t integer_type;
typedef int HugePagesPolicy;
@STRUCT:BQ@
#define D(a, b) ((integer_type)((a) - (b)))
#define POW2(x) ((x) != 0 && (((x) & ((x) - 1)) == 0))
#ifndef GINV
#define GINV(q) ((q)->g_inv)          /* opaque: the full invariant of units/bq.py, revealed only in the BQ units */
#endif
#define INV(q) (GINV(q) && POW2((q)->_capacity) && ((q)->g_prod_gone ==> (q)->_atomic_writer_pos == (q)->_writer_pos) && \
  D((q)->g_cons_lb, (q)->_reader_pos) <= D((q)->_atomic_writer_pos, (q)->_reader_pos) && \
  D((q)->_writer_pos_cache, (q)->_reader_pos) <= D((q)->g_cons_lb, (q)->_reader_pos) && \
  D((q)->_atomic_writer_pos, (q)->_reader_pos) <= D((q)->_writer_pos, (q)->_reader_pos))
#define FRESHQ(q) (__CPROVER_is_fresh(q, sizeof(BQ)))
#define CONS_FIELDS(q) (q)->_atomic_reader_pos, (q)->_reader_pos, (q)->_writer_pos_cache, (q)->g_cons_hb, (q)->g_pub_AR, (q)->g_cons_lb
#define PROD_FIELDS(q) (q)->_atomic_writer_pos, (q)->_writer_pos, (q)->_reader_pos_cache, (q)->g_prod_hb, (q)->g_pub_AW
#define PROD_UNCHANGED(q) ((q)->_atomic_writer_pos == OLD((q)->_atomic_writer_pos) && (q)->_writer_pos == OLD((q)->_writer_pos))
#define GRANTED(q, n) ((n) <= (q)->_capacity - D((q)->_writer_pos, (q)->g_prod_hb))
'''

# opaque contracts of the bounded-queue methods (what UQ/BackendWorker/Logger callers may assume)
OSIG = dict(BQM.SIG, huge_pages_policy='HugePagesPolicy BQ_huge_pages_policy(BQ* self)')
OCON = {
    'prepare_write': r'''
__CPROVER_requires(FRESHQ(self) && INV(self) && !self->g_prod_gone)
__CPROVER_assigns(self->_reader_pos_cache, self->g_prod_hb, CONS_FIELDS(self))
__CPROVER_ensures(INV(self))
__CPROVER_ensures(RET != NULL ==> (n <= self->_capacity && GRANTED(self, n)))
__CPROVER_ensures((n <= self->_capacity && self->_writer_pos == OLD(self->_reader_pos_cache)) ==> RET != NULL)
''',
    'finish_write': r'''
__CPROVER_requires(FRESHQ(self) && INV(self) && !self->g_prod_gone && GRANTED(self, n))
__CPROVER_assigns(self->_writer_pos)
__CPROVER_ensures(INV(self) && self->_writer_pos == OLD(self->_writer_pos) + n)
''',
    'commit_write': r'''
__CPROVER_requires(FRESHQ(self) && INV(self) && !self->g_prod_gone)
__CPROVER_assigns(self->_atomic_writer_pos, self->g_pub_AW)
__CPROVER_ensures(INV(self) && self->_atomic_writer_pos == self->_writer_pos)
''',
    'finish_and_commit_write': r'''
__CPROVER_requires(FRESHQ(self) && INV(self) && !self->g_prod_gone && GRANTED(self, n))
__CPROVER_assigns(self->_writer_pos, self->_atomic_writer_pos, self->g_pub_AW)
__CPROVER_ensures(INV(self) && self->_writer_pos == OLD(self->_writer_pos) + n && self->_atomic_writer_pos == self->_writer_pos)
''',
    'prepare_read': r'''
__CPROVER_requires(FRESHQ(self) && INV(self))
__CPROVER_assigns(self->_writer_pos_cache, self->g_cons_hb, self->g_cons_lb, PROD_FIELDS(self))
__CPROVER_ensures(INV(self))
__CPROVER_ensures(self->g_prod_gone ==> PROD_UNCHANGED(self))
__CPROVER_ensures((RET == NULL) == (self->_writer_pos_cache == self->_reader_pos))
__CPROVER_ensures(D(self->g_cons_lb, self->_reader_pos) >= D(OLD(self->g_cons_lb), self->_reader_pos))
__CPROVER_ensures(RET == NULL ==> self->_reader_pos == OLD(self->g_cons_lb))
__CPROVER_ensures(D(self->_writer_pos_cache, self->_reader_pos) >= D(OLD(self->_writer_pos_cache), self->_reader_pos) && D(self->_writer_pos_cache, self->_reader_pos) <= self->_capacity)
''',
    'empty': r'''
__CPROVER_requires(FRESHQ(self) && INV(self))
__CPROVER_assigns(self->_writer_pos_cache, self->g_cons_hb, self->g_cons_lb, PROD_FIELDS(self))
__CPROVER_ensures(INV(self))
__CPROVER_ensures(self->g_prod_gone ==> PROD_UNCHANGED(self))
__CPROVER_ensures(RET == (self->_writer_pos_cache == self->_reader_pos))
__CPROVER_ensures(D(self->g_cons_lb, self->_reader_pos) >= D(OLD(self->g_cons_lb), self->_reader_pos))
__CPROVER_ensures(RET ==> self->_reader_pos == OLD(self->g_cons_lb))
''',
    'finish_read': r'''
__CPROVER_requires(FRESHQ(self) && INV(self) && n <= D(self->_writer_pos_cache, self->_reader_pos))
__CPROVER_assigns(self->_reader_pos)
__CPROVER_ensures(INV(self) && self->_reader_pos == OLD(self->_reader_pos) + n)
''',
    'commit_read': r'''
__CPROVER_requires(FRESHQ(self) && INV(self))
__CPROVER_assigns(self->_atomic_reader_pos, self->g_pub_AR)
__CPROVER_ensures(INV(self))
__CPROVER_ensures(self->_reader_pos == self->_writer_pos_cache ==> self->_atomic_reader_pos == self->_reader_pos)
''',
    'capacity': r'''
__CPROVER_requires(FRESHQ(self))
__CPROVER_assigns()
__CPROVER_ensures(RET == self->_capacity)
''',
    'huge_pages_policy': r'''
__CPROVER_requires(FRESHQ(self))
__CPROVER_assigns()
__CPROVER_ensures(RET == self->_huge_pages_policy)
''',
}


def odecl(m):
    return OSIG[m] + OCON[m] + ';\n'


def odecls(ms):
    return ''.join(odecl(m) for m in ms)


# ---------------------------------------------------------------------------------- refinement: full C01 contract => opaque contract
def refine_unit(m):
    full_inv = re.search(r'#define INV\(q\) \((.*?)\n\n|#define INV\(q\)(.*?)(?=\n#define FRESHQ)', BQM.PRELUDE, re.S)
    inv_text = re.search(r'#define INV\(q\)(.*?)\n#define FRESHQ', BQM.PRELUDE, re.S).group(1)
    params = BQM.PARAMS.get(m, [])
    fullsig = BQM.SIG[m].replace('BQ_' + m, 'BQF_' + m)
    fullcon = BQM.CONTRACT[m].replace('INV(', 'INV_FULL(')
    fullcon = re.sub(r'#ifdef REPLAY_FRIENDLY.*?#endif\n', '', fullcon, flags=re.S)
    fullcon = re.sub(r'#ifdef QUIESCENT.*?#endif\n', '', fullcon, flags=re.S)
    fullcon = re.sub(r'/\*@.*?\*/', '', fullcon)
    # the opaque contract does not speak about the storage block: drop the is_fresh(storage) requirement by providing it in the wrapper's requires
    need_storage = '_storage' in fullcon
    prelude = ('#define GINV(q) INV_FULL(q)\n' + OPAQUE + '#define B(q) ((q)->g_prod_hb)\n#define MAXCAP (((size_t)1) << 40)\n#define INV_FULL(q)' + inv_text + '\n' + fullsig + fullcon + ';\n')
    call = 'BQF_%s(self%s)' % (m, ''.join(', ' + p for p in params))
    ret = '' if BQM.SIG[m].startswith('void') else 'return '
    extra_req = '__CPROVER_requires(self->_capacity <= MAXCAP && __CPROVER_is_fresh(self->_storage, 2 * self->_capacity))\n' if need_storage else ''
    ocon = OCON[m].strip().split('\n')
    ocon = [ocon[0], extra_req.strip()] + ocon[1:] if extra_req else ocon
    ocon_marked = []
    for l in ocon:
        if l.startswith('__CPROVER_ensures'):
            l += ' /*@ C02 "opaque contract of BQ::%s follows from its full C01 contract with g_inv := INV" */' % m
        ocon_marked.append(l)
    text = '%s\n%s\n{\n  %s%s;\n}\n' % (OSIG[m], '\n'.join(ocon_marked), ret, call)
    return dict(
        name='BQ.refine.' + m, primary='C02', props={'C02'}, kind='M',
        desc='refinement lemma: the opaque contract of BoundedSPSCQueue::%s used by the callers is implied by the full contract proved in unit BQ.%s' % (m, m),
        structs=[BQ_STRUCT], prelude=prelude, enforce='BQ_' + m, replace=['BQF_' + m],
        funcs=[dict(cfun='BQ_' + m, text=text)],
        harness='  BQ* q;%s BQ_%s(q%s);' % (''.join(' integer_type %s;' % p for p in params), m, ''.join(', ' + p for p in params)),
        dropped=[], trusted=[], min_obligations=3,
    )


REFINES = [refine_unit(m) for m in ['prepare_write', 'finish_write', 'commit_write', 'finish_and_commit_write', 'prepare_read', 'empty', 'finish_read', 'commit_read']]

# ---------------------------------------------------------------------------------- the unbounded queue proper
NODE_STRUCT = dict(c='Node', header=H, cls='Node', typemap={'Node*': 'struct Node*', 'BoundedSPSCQueue': 'BQ'}, ghost='bool g_published, g_retired_seen;')
UQ_STRUCT = dict(c='UQ', header=H, cls='UnboundedSPSCQueue', typemap={'Node*': 'Node*'})
RR_STRUCT = dict(c='ReadResult', header=H, cls='ReadResult', typemap={})

UQ_COMMON = OPAQUE + r'''
struct Node;
@STRUCT:Node@
@STRUCT:UQ@
@STRUCT:ReadResult@
size_t g_alloc_count, g_alloc_cap;
#define BIG (((size_t)1) << 61)
'''

PRODUCER = UQ_COMMON + r'''
/* producer's view of its current node: not yet published, invariant holds */
#define INV_P(u) ((u)->_producer->next == NULL && !(u)->_producer->g_published && !(u)->_producer->bounded_queue.g_prod_gone && INV(&(u)->_producer->bounded_queue) && (u)->_producer->bounded_queue._capacity <= BIG)
/* new Node{capacity, policy}: fresh node whose queue satisfies the constructor postcondition (unit BQ.ctor) */
Node* Node_new(size_t capacity, HugePagesPolicy p)
__CPROVER_requires(capacity <= (((size_t)1) << 62))
__CPROVER_assigns(g_alloc_count, g_alloc_cap)
__CPROVER_ensures(__CPROVER_is_fresh(RET, sizeof(Node)))
__CPROVER_ensures(RET->next == NULL && !RET->g_published && !RET->g_retired_seen && !RET->bounded_queue.g_prod_gone)
__CPROVER_ensures(INV(&RET->bounded_queue) && RET->bounded_queue._capacity >= capacity && (POW2(capacity) ==> RET->bounded_queue._capacity == capacity) && (RET->bounded_queue._capacity == 1 || RET->bounded_queue._capacity / 2 < capacity))
__CPROVER_ensures(RET->bounded_queue._writer_pos == 0 && RET->bounded_queue._atomic_writer_pos == 0 && RET->bounded_queue._reader_pos_cache == 0 && RET->bounded_queue._atomic_reader_pos == 0 && RET->bounded_queue.g_prod_hb == 0 && RET->bounded_queue._huge_pages_policy == p)
__CPROVER_ensures(g_alloc_count == OLD(g_alloc_count) + 1 && g_alloc_cap == RET->bounded_queue._capacity);
/* release store of `next`: requires everything committed before the switch; afterwards the consumer may delete the
   old node at any moment (interference: the node is in the frees clause), so any later access by the producer is a
   pointer-check failure */
void store_next_prod(Node* old, Node* nw, int mo)
__CPROVER_requires(__CPROVER_is_fresh(old, sizeof(Node)))
__CPROVER_requires(old->bounded_queue._atomic_writer_pos == old->bounded_queue._writer_pos) /*@ C02 "everything written to the old buffer is committed before the next buffer is published" */
__CPROVER_requires(IS_REL(mo)) /*@ C02 "the next buffer is published with release order" */
__CPROVER_requires(!old->g_published && nw != NULL) /*@ C02 "a buffer is published once" */
__CPROVER_assigns(old->next, old->g_published) __CPROVER_frees(old)
__CPROVER_ensures(1);
#define ATOMIC_STORE_next(node, v, mo) store_next_prod(node, v, mo)
'''

CONSUMER = UQ_COMMON + r'''
#define NODE_OK(n) (INV(&(n)->bounded_queue) && (n)->g_published == (n)->bounded_queue.g_prod_gone && ((n)->g_published == ((n)->next != NULL)) && ((n)->g_retired_seen ==> ((n)->g_published && (n)->bounded_queue.g_cons_lb == (n)->bounded_queue._atomic_writer_pos)))
/* acquire load of `next` by the consumer: rely step (the producer may have published since), then the load */
Node* load_next_cons(Node* n, int mo)
__CPROVER_requires(__CPROVER_is_fresh(n, sizeof(Node)) && NODE_OK(n))
__CPROVER_assigns(n->next, n->g_published, n->g_retired_seen, n->bounded_queue.g_prod_gone, n->bounded_queue.g_cons_lb, PROD_FIELDS(&n->bounded_queue))
__CPROVER_ensures(NODE_OK(n))
__CPROVER_ensures(OLD(n->g_published) ==> (n->next == OLD(n->next) && PROD_UNCHANGED(&n->bounded_queue)))
#ifdef SC_LOADS
__CPROVER_ensures(RET == n->next)            /* sequentially consistent interleaving semantics (properties other than C01/C02, DESIGN §2.3) */
#else
__CPROVER_ensures(RET == NULL || RET == n->next)      /* a stale NULL is a legal value of the load */
#endif
__CPROVER_ensures((RET != NULL && IS_ACQ(mo)) ==> n->g_retired_seen)
__CPROVER_ensures(!(RET != NULL && IS_ACQ(mo)) ==> (n->g_retired_seen == OLD(n->g_retired_seen) && (n->g_retired_seen || n->bounded_queue.g_cons_lb == OLD(n->bounded_queue.g_cons_lb))))
__CPROVER_ensures(RET != NULL ==> (__CPROVER_is_fresh(RET, sizeof(Node)) && NODE_OK(RET) && !RET->g_retired_seen));
#define ATOMIC_LOAD_next(n, mo) load_next_cons(n, mo)
#define OBJ_DELETE(p) do { __CPROVER_assert((p)->g_retired_seen && (p)->bounded_queue._reader_pos == (p)->bounded_queue._atomic_writer_pos && (p)->bounded_queue._atomic_writer_pos == (p)->bounded_queue._writer_pos, "C02: a buffer is deleted only after the producer left it for good and everything in it was read"); free(p); } while (0)
static inline ReadResult ReadResult_make(unsigned char* p) { ReadResult r; r.read_pos = p; r.previous_capacity = 0; r.new_capacity = 0; r.allocation = false; return r; }
'''

METHODS = {m: 'BQ_' + m for m in OCON}
UQ_SIBS = ['_handle_full_queue', '_read_next_queue', 'finish_write', 'commit_write', 'prepare_read', 'prepare_write']
DROPPED = ['alignas of _producer/_consumer', 'text of the QuillError message (std::to_string concatenation)', 'attributes, asserts (NDEBUG)']
TRUSTED = ['bounded-queue methods assumed by their C01 contracts in opaque form (proved: units BQ.* and BQ.refine.*)',
           'Node constructor = BoundedSPSCQueue constructor postcondition (unit BQ.ctor) with next == nullptr',
           'C++11 release/acquire on Node::next modelled by the view stubs (publish requires all writes committed; acquire load transfers them)',
           'configuration precondition: next_power_of_two(initial capacity) <= max capacity']

THROW_RULE = [(r'throw\s*\(\s*QuillError\s*\{.*?\}\s*\)\s*;', 'throw(QuillError{"x"});', 1)]

HF_CONTRACT = r'''
__CPROVER_requires(__CPROVER_is_fresh(self, sizeof(UQ)) && __CPROVER_is_fresh(self->_producer, sizeof(Node)) && INV_P(self))
__CPROVER_requires(nbytes <= (((size_t)1) << 62) && g_exc == 0 && self->_max_capacity <= BIG)
#ifdef REPLAY_FRIENDLY
__CPROVER_requires(self->_producer->bounded_queue._capacity <= 4096 && self->_producer->bounded_queue._capacity >= 64 && self->_max_capacity <= 65536 && nbytes <= 100000)
#endif
__CPROVER_assigns(self->_producer, g_exc, g_alloc_count, g_alloc_cap, self->_producer->next, self->_producer->g_published, self->_producer->bounded_queue._atomic_writer_pos, self->_producer->bounded_queue.g_pub_AW)
__CPROVER_frees(self->_producer)
__CPROVER_ensures(nbytes > self->_max_capacity ==> (g_exc == EXC_STD && g_alloc_count == OLD(g_alloc_count) && self->_producer == OLD(self->_producer))) /*@ C02 "a record larger than the maximum capacity is rejected with an error and nothing is allocated" */
__CPROVER_ensures(g_alloc_count != OLD(g_alloc_count) ==> (g_alloc_count == OLD(g_alloc_count) + 1 && g_alloc_cap <= self->_max_capacity && g_alloc_cap >= nbytes)) /*@ C02 "the queue never allocates beyond the configured maximum capacity; at most one buffer per call, large enough for the record" */
__CPROVER_ensures((g_exc == 0 && RET == NULL) ==> (g_alloc_count == OLD(g_alloc_count) && self->_producer == OLD(self->_producer))) /*@ C02 "when growing would exceed the maximum the reservation fails and nothing changes (caller blocks or drops)" */
__CPROVER_ensures(RET != NULL ==> (g_exc == 0 && self->_producer != OLD(self->_producer) && INV_P(self) && nbytes <= self->_producer->bounded_queue._capacity && GRANTED(&self->_producer->bounded_queue, nbytes))) /*@ C02 "after growing, the producer works on the new buffer and the record is granted there" */
__CPROVER_ensures(nbytes <= self->_max_capacity ==> g_exc == 0) /*@ C02 "only a record larger than the maximum capacity is rejected with an error" */
__CPROVER_ensures(g_exc == 0 || g_exc == EXC_STD)
'''
HF_C09 = r'''
__CPROVER_ensures((POW2(self->_max_capacity) && OLD(self->_producer->bounded_queue._capacity) <= self->_max_capacity && nbytes <= self->_max_capacity && nbytes > OLD(self->_producer->bounded_queue._capacity)) ==> RET != NULL) /*@ C09 "a record that fits the maximum capacity (a power of two) but not the current buffer gets a larger buffer: it is granted, not refused" */
__CPROVER_ensures((!POW2(self->_max_capacity) && OLD(self->_producer->bounded_queue._capacity) <= self->_max_capacity && nbytes <= self->_max_capacity && nbytes > OLD(self->_producer->bounded_queue._capacity)) ==> RET != NULL) /*@ C09 "same, maximum capacity not a power of two" K=nonpow2max */
'''
HF_LOOP = {0: r'''
__CPROVER_assigns(capacity)
__CPROVER_loop_invariant(POW2(capacity) && capacity >= __CPROVER_loop_entry(capacity) && capacity <= (((size_t)1) << 63) && (capacity == __CPROVER_loop_entry(capacity) || capacity / 2 < nbytes))
__CPROVER_decreases((((size_t)1) << 63) - capacity)
'''}


def hf_func(contract=True):
    d = dict(src=dict(header=H, cls='UnboundedSPSCQueue', name='_handle_full_queue'), struct='UQ', src_params=['nbytes'],
             cfun='UQ__handle_full_queue', sig='unsigned char* UQ__handle_full_queue(UQ* self, size_t nbytes)', ret_default='NULL',
             cls_c='UQ', siblings=UQ_SIBS, methods=METHODS, atomics=['next'], pre_rules=THROW_RULE, loops=HF_LOOP)
    if contract:
        d['contract'] = HF_CONTRACT + HF_C09
    return d


handle_full = dict(
    name='UQ.handle_full', primary='C02', props={'C02', 'C09'}, kind='L',
    desc='UnboundedSPSCQueue::_handle_full_queue: grow within the cap, reject above it, commit before publishing the next buffer, never touch the old buffer after publishing',
    structs=[BQ_STRUCT, NODE_STRUCT, UQ_STRUCT, RR_STRUCT], prelude=PRODUCER + odecls(['capacity', 'huge_pages_policy', 'commit_write', 'prepare_write']),
    enforce='UQ__handle_full_queue', replace=['BQ_capacity', 'BQ_huge_pages_policy', 'BQ_commit_write', 'BQ_prepare_write', 'Node_new', 'store_next_prod'], loopcontracts=True,
    funcs=[hf_func()],
    harness='  UQ* u; size_t n; UQ__handle_full_queue(u, n);',
    dropped=DROPPED, trusted=TRUSTED, min_obligations=50, known_ids=['nonpow2max'],
    snapshot=[('cap', 'self->_producer->bounded_queue._capacity'), ('max', 'self->_max_capacity'), ('n', 'nbytes')],
    replay=dict(template='uq.cpp', op='prepare_write', friendly='REPLAY_FRIENDLY'),
    assumes=['record size <= 2^62 and maximum capacity <= 2^61 (beyond 2^63 the doubling loop of the source does not terminate; no allocation of that size can succeed)'],
)

shrink = dict(
    name='UQ.shrink', primary='C02', props={'C02', 'C20'}, kind='L',
    desc='UnboundedSPSCQueue::shrink: no-op unless the request is at most half the capacity; otherwise one smaller buffer is published the same way as on growth',
    structs=[BQ_STRUCT, NODE_STRUCT, UQ_STRUCT, RR_STRUCT], prelude=PRODUCER + odecls(['capacity', 'huge_pages_policy']),
    enforce='UQ_shrink', replace=['BQ_capacity', 'BQ_huge_pages_policy', 'Node_new', 'store_next_prod'],
    funcs=[dict(src=dict(header=H, cls='UnboundedSPSCQueue', name='shrink'), struct='UQ', src_params=['capacity'],
                cfun='UQ_shrink', sig='void UQ_shrink(UQ* self, size_t capacity)', cls_c='UQ', siblings=UQ_SIBS, methods=METHODS, atomics=['next'],
                contract=r'''
__CPROVER_requires(__CPROVER_is_fresh(self, sizeof(UQ)) && __CPROVER_is_fresh(self->_producer, sizeof(Node)) && INV_P(self))
/* called by the owning thread between two log statements: everything it wrote is committed */
__CPROVER_requires(self->_producer->bounded_queue._atomic_writer_pos == self->_producer->bounded_queue._writer_pos)
__CPROVER_assigns(self->_producer, g_alloc_count, g_alloc_cap, self->_producer->next, self->_producer->g_published)
__CPROVER_frees(self->_producer)
__CPROVER_ensures(capacity > (OLD(self->_producer->bounded_queue._capacity) >> 1) ==> (self->_producer == OLD(self->_producer) && g_alloc_count == OLD(g_alloc_count))) /*@ C20 "a shrink request above half the current capacity changes nothing" */
__CPROVER_ensures((capacity >= 1 && capacity <= (OLD(self->_producer->bounded_queue._capacity) >> 1)) ==> (g_alloc_count == OLD(g_alloc_count) + 1 && self->_producer != OLD(self->_producer) && INV_P(self) && self->_producer->bounded_queue._capacity <= (OLD(self->_producer->bounded_queue._capacity) >> 1) && self->_producer->bounded_queue._capacity >= capacity)) /*@ C20 "a valid shrink request takes effect: the producer continues in a smaller buffer (capacity reported for the thread drops)" */
''')],
    harness='  UQ* u; size_t c; UQ_shrink(u, c);',
    dropped=DROPPED, trusted=TRUSTED, min_obligations=30,
)

prepare_write = dict(
    name='UQ.prepare_write', primary='C02', props={'C02', 'C09'}, kind='L',
    desc='UnboundedSPSCQueue::prepare_write (with the lowered body of _handle_full_queue in place, since DFCC cannot replace a callee whose contract frees): the bounded reservation first; allocation only on the full-queue path',
    structs=[BQ_STRUCT, NODE_STRUCT, UQ_STRUCT, RR_STRUCT],
    prelude=PRODUCER + odecls(['capacity', 'huge_pages_policy', 'commit_write', 'prepare_write']),
    enforce='UQ_prepare_write', replace=['BQ_capacity', 'BQ_huge_pages_policy', 'BQ_commit_write', 'BQ_prepare_write', 'Node_new', 'store_next_prod'], loopcontracts=True,
    funcs=[hf_func(contract=False), dict(src=dict(header=H, cls='UnboundedSPSCQueue', name='prepare_write'), struct='UQ', src_params=['nbytes'],
                cfun='UQ_prepare_write', sig='unsigned char* UQ_prepare_write(UQ* self, size_t nbytes)', ret_default='NULL', cls_c='UQ', siblings=UQ_SIBS, methods=METHODS,
                contract=r'''
__CPROVER_requires(__CPROVER_is_fresh(self, sizeof(UQ)) && __CPROVER_is_fresh(self->_producer, sizeof(Node)) && INV_P(self))
__CPROVER_requires(nbytes <= (((size_t)1) << 62) && g_exc == 0 && self->_max_capacity <= BIG)
__CPROVER_assigns(self->_producer, g_exc, g_alloc_count, g_alloc_cap, self->_producer->next, self->_producer->g_published, self->_producer->bounded_queue._atomic_writer_pos, self->_producer->bounded_queue.g_pub_AW, self->_producer->bounded_queue._reader_pos_cache, self->_producer->bounded_queue.g_prod_hb, CONS_FIELDS(&self->_producer->bounded_queue))
__CPROVER_frees(self->_producer)
__CPROVER_ensures(self->_producer == OLD(self->_producer) ==> g_alloc_count == OLD(g_alloc_count)) /*@ C02 "no allocation unless the queue switches buffers" */
__CPROVER_ensures(g_alloc_count != OLD(g_alloc_count) ==> (g_alloc_count == OLD(g_alloc_count) + 1 && g_alloc_cap <= self->_max_capacity)) /*@ C02 "never allocates beyond the configured maximum capacity" */
__CPROVER_ensures(RET != NULL ==> (g_exc == 0 && INV_P(self) && nbytes <= self->_producer->bounded_queue._capacity && GRANTED(&self->_producer->bounded_queue, nbytes))) /*@ C02 "a granted record lies in the producer's current buffer" */
__CPROVER_ensures(nbytes > self->_max_capacity && nbytes > OLD(self->_producer->bounded_queue._capacity) ==> g_exc == EXC_STD) /*@ C02 "a record larger than the maximum capacity is rejected with an error" */
__CPROVER_ensures((POW2(self->_max_capacity) && OLD(self->_producer->bounded_queue._capacity) <= self->_max_capacity && nbytes <= self->_max_capacity && OLD(self->_producer->bounded_queue._writer_pos) == OLD(self->_producer->bounded_queue._reader_pos_cache)) ==> RET != NULL) /*@ C09 "empty queue (as the producer already knows): a record up to the maximum capacity is granted, growing if needed" */
''')],
    harness='  UQ* u; size_t n; UQ_prepare_write(u, n);',
    dropped=DROPPED, trusted=TRUSTED, min_obligations=30,
)

RN_FUNC = dict(src=dict(header=H, cls='UnboundedSPSCQueue', name='_read_next_queue'), struct='UQ', src_params=['next_node'],
               cfun='UQ__read_next_queue', sig='ReadResult UQ__read_next_queue(UQ* self, Node* next_node)', cls_c='UQ', siblings=UQ_SIBS, methods=METHODS, atomics=['next'],
               pre_rules=[(r'ReadResult\s+read_result\s*\{(.*?)\}\s*;', r'ReadResult read_result = ReadResult_make(\1);', 1),
                          (r'auto\s+const\s+previous_capacity', 'size_t const previous_capacity', 1)])

RN_ASSIGNS = '''self->_consumer, self->_consumer->bounded_queue._writer_pos_cache, self->_consumer->bounded_queue.g_cons_hb, self->_consumer->bounded_queue.g_cons_lb, self->_consumer->bounded_queue._atomic_reader_pos, self->_consumer->bounded_queue.g_pub_AR, PROD_FIELDS(&self->_consumer->bounded_queue)'''

read_next = dict(
    name='UQ.read_next', primary='C02', props={'C02'}, kind='L',
    desc='UnboundedSPSCQueue::_read_next_queue: the old buffer is re-checked, finished and only then deleted; the consumer moves to the next buffer',
    structs=[BQ_STRUCT, NODE_STRUCT, UQ_STRUCT, RR_STRUCT], prelude=CONSUMER + odecls(['prepare_read', 'commit_read', 'capacity']),
    enforce='UQ__read_next_queue', replace=['BQ_prepare_read', 'BQ_commit_read', 'BQ_capacity'],
    funcs=[dict(RN_FUNC, contract=r'''
__CPROVER_requires(__CPROVER_is_fresh(self, sizeof(UQ)) && __CPROVER_is_fresh(self->_consumer, sizeof(Node)) && __CPROVER_is_fresh(next_node, sizeof(Node)))
__CPROVER_requires(NODE_OK(self->_consumer) && NODE_OK(next_node) && self->_consumer->g_retired_seen && self->_consumer->next == next_node && !next_node->g_retired_seen)
__CPROVER_assigns(''' + RN_ASSIGNS + r''', next_node->bounded_queue._writer_pos_cache, next_node->bounded_queue.g_cons_hb, next_node->bounded_queue.g_cons_lb, PROD_FIELDS(&next_node->bounded_queue))
__CPROVER_frees(self->_consumer)
__CPROVER_ensures(RET.allocation ==> (self->_consumer == next_node && __CPROVER_was_freed(OLD(self->_consumer)) && NODE_OK(self->_consumer) && RET.previous_capacity == OLD(self->_consumer->bounded_queue._capacity) && RET.new_capacity == self->_consumer->bounded_queue._capacity)) /*@ C02 "switching buffers: the old one is freed, the consumer continues in the next one and reports both capacities" */
__CPROVER_ensures(!RET.allocation ==> (self->_consumer == OLD(self->_consumer) && RET.read_pos != NULL && NODE_OK(self->_consumer))) /*@ C02 "if the re-check finds data the old buffer is read first and nothing is freed" */
''')],
    harness='  UQ* u; Node* n; UQ__read_next_queue(u, n);',
    dropped=DROPPED, trusted=TRUSTED, min_obligations=50,
)

prepare_read = dict(
    name='UQ.prepare_read', primary='C02', props={'C02'}, kind='L',
    desc='UnboundedSPSCQueue::prepare_read with the lowered body of _read_next_queue in place: acquire load of next, drain assertion before delete',
    structs=[BQ_STRUCT, NODE_STRUCT, UQ_STRUCT, RR_STRUCT], prelude=CONSUMER + odecls(['prepare_read', 'commit_read', 'capacity']),
    enforce='UQ_prepare_read', replace=['BQ_prepare_read', 'BQ_commit_read', 'BQ_capacity', 'load_next_cons'],
    funcs=[RN_FUNC,
           dict(src=dict(header=H, cls='UnboundedSPSCQueue', name='prepare_read'), struct='UQ', src_params=[],
                cfun='UQ_prepare_read', sig='ReadResult UQ_prepare_read(UQ* self)', cls_c='UQ', siblings=UQ_SIBS, methods=METHODS, atomics=['next'],
                pre_rules=[(r'ReadResult\s+read_result\s*\{(.*?)\}\s*;', r'ReadResult read_result = ReadResult_make(\1);', 1)],
                contract=r'''
__CPROVER_requires(__CPROVER_is_fresh(self, sizeof(UQ)) && __CPROVER_is_fresh(self->_consumer, sizeof(Node)) && NODE_OK(self->_consumer))
__CPROVER_assigns(self->_consumer, self->_consumer->next, self->_consumer->g_published, self->_consumer->g_retired_seen, self->_consumer->bounded_queue.g_prod_gone, self->_consumer->bounded_queue._writer_pos_cache, self->_consumer->bounded_queue.g_cons_hb, self->_consumer->bounded_queue.g_cons_lb, self->_consumer->bounded_queue._atomic_reader_pos, self->_consumer->bounded_queue.g_pub_AR, PROD_FIELDS(&self->_consumer->bounded_queue))
__CPROVER_frees(self->_consumer)
__CPROVER_ensures(NODE_OK(self->_consumer)) /*@ C02 "the consumer's current buffer is valid after every read attempt" */
__CPROVER_ensures(!RET.allocation ==> self->_consumer == OLD(self->_consumer)) /*@ C02 "the consumer changes buffer only when it reports an allocation" */
__CPROVER_ensures(RET.allocation ==> __CPROVER_was_freed(OLD(self->_consumer))) /*@ C02 "a retired buffer is freed exactly when the consumer leaves it" */
__CPROVER_ensures((RET.read_pos == NULL) ==> (self->_consumer->bounded_queue._writer_pos_cache == self->_consumer->bounded_queue._reader_pos)) /*@ C02 "null means the consumer sees nothing unread in its current buffer" */
''')],
    harness='  UQ* u; UQ_prepare_read(u);',
    dropped=DROPPED, trusted=TRUSTED, min_obligations=50,
)

empty = dict(
    name='UQ.empty', primary='C02', props={'C02', 'C20', 'C07', 'C17', 'C03'}, kind='L',
    desc='UnboundedSPSCQueue::empty: true only if the current buffer is empty and no next buffer is known',
    structs=[BQ_STRUCT, NODE_STRUCT, UQ_STRUCT, RR_STRUCT], prelude=CONSUMER + odecls(['empty']),
    enforce='UQ_empty', replace=['BQ_empty', 'load_next_cons'],
    funcs=[dict(src=dict(header=H, cls='UnboundedSPSCQueue', name='empty'), struct='UQ', src_params=[],
                cfun='UQ_empty', sig='bool UQ_empty(UQ* self)', cls_c='UQ', siblings=UQ_SIBS, methods=METHODS, atomics=['next'],
                contract=r'''
__CPROVER_requires(__CPROVER_is_fresh(self, sizeof(UQ)) && __CPROVER_is_fresh(self->_consumer, sizeof(Node)) && NODE_OK(self->_consumer))
__CPROVER_assigns(self->_consumer->next, self->_consumer->g_published, self->_consumer->g_retired_seen, self->_consumer->bounded_queue.g_prod_gone, self->_consumer->bounded_queue._writer_pos_cache, self->_consumer->bounded_queue.g_cons_hb, self->_consumer->bounded_queue.g_cons_lb, PROD_FIELDS(&self->_consumer->bounded_queue))
__CPROVER_ensures(NODE_OK(self->_consumer))
__CPROVER_ensures(RET ==> (self->_consumer->bounded_queue._writer_pos_cache == self->_consumer->bounded_queue._reader_pos)) /*@ C02 "empty() is true only if the consumer sees nothing unread in its current buffer" */
#ifdef SC_LOADS
__CPROVER_ensures((RET && OLD(self->_consumer->g_published)) ==> false) /*@ C20,C07,C17,C03 "a queue whose producer already moved to another buffer is never reported empty (the context is not reclaimed, the exit drain does not stop, a removed logger is not destroyed with records pending in the next buffer)" */
#endif
''')],
    harness='  UQ* u; UQ_empty(u);',
    variants=[dict(name='main'), dict(name='sc', defs=['SC_LOADS'])],
    dropped=DROPPED, trusted=TRUSTED, min_obligations=20,
)


def forward(m, side, sig, params, callee, contract, props=('C02',)):
    pre = PRODUCER if side == 'P' else CONSUMER
    return dict(
        name='UQ.' + m, primary='C02', props=set(props), kind='L',
        desc='UnboundedSPSCQueue::%s forwards to the %s buffer' % (m, 'producer' if side == 'P' else 'consumer'),
        structs=[BQ_STRUCT, NODE_STRUCT, UQ_STRUCT, RR_STRUCT], prelude=pre + odecls(callee), enforce='UQ_' + m, replace=['BQ_' + c for c in callee],
        funcs=[dict(src=dict(header=H, cls='UnboundedSPSCQueue', name=m), struct='UQ', src_params=params, cfun='UQ_' + m, sig=sig,
                    cls_c='UQ', siblings=[], methods=METHODS, contract=contract)],
        harness='  UQ* u; %s UQ_%s(u%s);' % (''.join('size_t %s; ' % p for p in params), m, ''.join(', ' + p for p in params)),
        dropped=DROPPED, trusted=TRUSTED, min_obligations=5)


PQ = '(&self->_producer->bounded_queue)'
CQ = '(&self->_consumer->bounded_queue)'
FW = [
    forward('finish_write', 'P', 'void UQ_finish_write(UQ* self, size_t nbytes)', ['nbytes'], ['finish_write'], r'''
__CPROVER_requires(__CPROVER_is_fresh(self, sizeof(UQ)) && __CPROVER_is_fresh(self->_producer, sizeof(Node)) && INV_P(self) && GRANTED(%s, nbytes))
__CPROVER_assigns(self->_producer->bounded_queue._writer_pos)
__CPROVER_ensures(INV_P(self) && self->_producer->bounded_queue._writer_pos == OLD(self->_producer->bounded_queue._writer_pos) + nbytes) /*@ C02 "finish_write acts on the producer's current buffer" */
''' % PQ),
    forward('commit_write', 'P', 'void UQ_commit_write(UQ* self)', [], ['commit_write'], r'''
__CPROVER_requires(__CPROVER_is_fresh(self, sizeof(UQ)) && __CPROVER_is_fresh(self->_producer, sizeof(Node)) && INV_P(self))
__CPROVER_assigns(self->_producer->bounded_queue._atomic_writer_pos, self->_producer->bounded_queue.g_pub_AW)
__CPROVER_ensures(INV_P(self) && self->_producer->bounded_queue._atomic_writer_pos == self->_producer->bounded_queue._writer_pos) /*@ C02 "commit_write acts on the producer's current buffer" */
'''),
    forward('finish_read', 'C', 'void UQ_finish_read(UQ* self, size_t nbytes)', ['nbytes'], ['finish_read'], r'''
__CPROVER_requires(__CPROVER_is_fresh(self, sizeof(UQ)) && __CPROVER_is_fresh(self->_consumer, sizeof(Node)) && NODE_OK(self->_consumer) && nbytes <= D(self->_consumer->bounded_queue._writer_pos_cache, self->_consumer->bounded_queue._reader_pos))
__CPROVER_assigns(self->_consumer->bounded_queue._reader_pos)
__CPROVER_ensures(self->_consumer->bounded_queue._reader_pos == OLD(self->_consumer->bounded_queue._reader_pos) + nbytes && INV(%s)) /*@ C02 "finish_read acts on the consumer's current buffer" */
''' % CQ),
    forward('commit_read', 'C', 'void UQ_commit_read(UQ* self)', [], ['commit_read'], r'''
__CPROVER_requires(__CPROVER_is_fresh(self, sizeof(UQ)) && __CPROVER_is_fresh(self->_consumer, sizeof(Node)) && NODE_OK(self->_consumer))
__CPROVER_assigns(self->_consumer->bounded_queue._atomic_reader_pos, self->_consumer->bounded_queue.g_pub_AR)
__CPROVER_ensures(INV(%s)) /*@ C02 "commit_read acts on the consumer's current buffer" */
__CPROVER_ensures(self->_consumer->bounded_queue._reader_pos == self->_consumer->bounded_queue._writer_pos_cache ==> self->_consumer->bounded_queue._atomic_reader_pos == self->_consumer->bounded_queue._reader_pos) /*@ C09 "drained buffer: position published" */
''' % CQ, props=('C02', 'C09')),
    forward('capacity', 'C', 'size_t UQ_capacity(UQ* self)', [], ['capacity'], r'''
__CPROVER_requires(__CPROVER_is_fresh(self, sizeof(UQ)) && __CPROVER_is_fresh(self->_consumer, sizeof(Node)))
__CPROVER_assigns()
__CPROVER_ensures(RET == self->_consumer->bounded_queue._capacity) /*@ C02 "capacity() reports the consumer's current buffer" */
'''),
    forward('producer_capacity', 'P', 'size_t UQ_producer_capacity(UQ* self)', [], ['capacity'], r'''
__CPROVER_requires(__CPROVER_is_fresh(self, sizeof(UQ)) && __CPROVER_is_fresh(self->_producer, sizeof(Node)))
__CPROVER_assigns()
__CPROVER_ensures(RET == self->_producer->bounded_queue._capacity) /*@ C20 "producer_capacity() reports the producer's current (possibly shrunk) buffer" */
''', props=('C02', 'C20')),
]

UNITS = REFINES + [handle_full, shrink, prepare_write, read_next, prepare_read, empty] + FW

# ---------------------------------------------------------------------------------- refinement: opaque BQ consumer contracts => the abstract queue view of the BackendWorker skeletons
# (units/bw_read.py: g_avail = bytes visible to the consumer, g_base = address of the reader position)
QV = OPAQUE + r'''
#define G_AVAIL(q) D((q)->_writer_pos_cache, (q)->_reader_pos)
'''


def qview_unit(m, sig, body, contract, callee):
    return dict(
        name='Q.refine.' + m, primary='C03', props={'C03'}, kind='M',
        desc='refinement lemma: the abstract frontend-queue contract used by the BackendWorker read loop (visible bytes / reader address) for %s follows from the bounded queue\'s consumer contract with g_avail := writer_pos_cache - reader_pos' % m,
        structs=[BQ_STRUCT], prelude=QV + odecl(callee), enforce='QV_' + m, replace=['BQ_' + callee],
        funcs=[dict(cfun='QV_' + m, text=sig + '\n' + contract + '\n' + body)],
        harness='  BQ* q; size_t n; %s;' % ('QV_%s(q, n)' % m if 'size_t n' in sig else 'QV_%s(q)' % m),
        dropped=[], trusted=['the reader ADDRESS part (ret == storage + (reader_pos & mask)) is the C01 clause of BQ.prepare_read itself'], min_obligations=3)


QVIEW = [
    qview_unit('prepare_read', 'unsigned char* QV_prepare_read(BQ* self)', '{ return BQ_prepare_read(self); }', r'''
__CPROVER_requires(FRESHQ(self) && INV(self) && G_AVAIL(self) <= self->_capacity)
__CPROVER_assigns(self->_writer_pos_cache, self->g_cons_hb, self->g_cons_lb, PROD_FIELDS(self))
__CPROVER_ensures(INV(self) && G_AVAIL(self) >= OLD(G_AVAIL(self)) && G_AVAIL(self) <= self->_capacity) /*@ C03 "abstract queue view: looking again never hides visible bytes; at most one capacity is visible" */
__CPROVER_ensures((RET == NULL) == (G_AVAIL(self) == 0)) /*@ C03 "abstract queue view: null exactly when nothing is visible" */
''', 'prepare_read'),
    qview_unit('finish_read', 'void QV_finish_read(BQ* self, size_t n)', '{ BQ_finish_read(self, n); }', r'''
__CPROVER_requires(FRESHQ(self) && INV(self) && n > 0 && n <= G_AVAIL(self))
__CPROVER_assigns(self->_reader_pos)
__CPROVER_ensures(INV(self) && G_AVAIL(self) == OLD(G_AVAIL(self)) - n && self->_reader_pos == OLD(self->_reader_pos) + n) /*@ C03 "abstract queue view: finishing n bytes removes exactly n visible bytes and advances the reader position by n" */
''', 'finish_read'),
]
UNITS += QVIEW

# ---------------------------------------------------------------------------------- constructor
uq_ctor = dict(
    name='UQ.ctor', primary='C02', props={'C02'}, kind='L',
    desc='UnboundedSPSCQueue constructor: one buffer of the requested capacity, producer and consumer on it, the maximum capacity recorded',
    structs=[BQ_STRUCT, NODE_STRUCT, UQ_STRUCT, RR_STRUCT], prelude=PRODUCER + r'''
/* not called by the pinned constructor: present (by the contract unit MU.npow2 proves) so that a constructor that rounds one of its arguments is decided (seed C02-G1) */
size_t next_power_of_two(size_t n) __CPROVER_assigns() __CPROVER_ensures(POW2(RET)) __CPROVER_ensures(n <= (((size_t)1) << 63) ==> (RET >= n && (RET == 1 || RET / 2 < n)));
''', enforce='UQ_ctor', replace=['Node_new', 'next_power_of_two'],
    funcs=[dict(src=dict(header=H, cls='UnboundedSPSCQueue', name='UnboundedSPSCQueue', part='ctor'), struct='UQ',
                src_params=['initial_bounded_queue_capacity', 'max_capacity', 'huge_pages_policy'], cfun='UQ_ctor',
                sig='void UQ_ctor(UQ* self, size_t initial_bounded_queue_capacity, size_t max_capacity, HugePagesPolicy huge_pages_policy)', cls_c='UQ', siblings=[],
                contract=r'''
__CPROVER_requires(__CPROVER_is_fresh(self, sizeof(UQ)) && initial_bounded_queue_capacity <= (((size_t)1) << 61) && g_alloc_count == 0)
__CPROVER_assigns(__CPROVER_object_whole(self), g_alloc_count, g_alloc_cap)
__CPROVER_ensures(self->_max_capacity == max_capacity && self->_consumer == self->_producer && g_alloc_count == 1) /*@ C02 "a new queue has exactly one buffer, shared by producer and consumer, and remembers the configured maximum capacity" */
__CPROVER_ensures(INV_P(self) && self->_producer->bounded_queue._capacity >= initial_bounded_queue_capacity && self->_producer->bounded_queue._writer_pos == 0 && self->_producer->bounded_queue._atomic_writer_pos == 0) /*@ C02 "the first buffer is empty, not smaller than the requested initial capacity, and satisfies the bounded-queue invariant" */
''')],
    harness='  UQ* u; size_t a, b; HugePagesPolicy h; UQ_ctor(u, a, b, h);',
    dropped=DROPPED, trusted=['Node constructor = BoundedSPSCQueue constructor postcondition (unit BQ.ctor) with next == nullptr'], min_obligations=10)
UNITS.append(uq_ctor)

# ---------------------------------------------------------------------------------- destructor (bounded: chains of <= 3 buffers)
DT_PRELUDE = UQ_COMMON + r'''
size_t g_node_deletes;
#define OBJ_DELETE(p) do { g_node_deletes++; free((void*)(p)); } while (0)
'''
uq_dtor = dict(
    name='UQ.dtor', primary='C20', props={'C20', 'C02'}, kind='L',
    desc='UnboundedSPSCQueue destructor on real heap nodes: every buffer from the consumer\'s to the producer\'s is released exactly once, `next` is read before its node is deleted (no use after free), nothing else is touched',
    structs=[BQ_STRUCT, NODE_STRUCT, UQ_STRUCT, RR_STRUCT], prelude=DT_PRELUDE, enforce='lem_dtor', replace=[],
    funcs=[dict(src=dict(header=H, cls='UnboundedSPSCQueue', name='~UnboundedSPSCQueue'), struct='UQ', src_params=[], cfun='UQ_dtor', sig='void UQ_dtor(UQ* self)', cls_c='UQ', siblings=[],
                pre_rules=[(r'Node\s+const\s*\*\s*current_node', 'Node* current_node'), (r'auto\s+const\s+to_delete\s*=', 'Node* const to_delete =')]),
           dict(cfun='lem_dtor', text=r'''
void lem_dtor(void)
__CPROVER_assigns(g_node_deletes)
__CPROVER_ensures(1 == 1)
{
  size_t n; __CPROVER_assume(n >= 1 && n <= 3);
  Node* nodes[3]; for (size_t i = 0; i < 3; i++) nodes[i] = NULL;
  for (size_t i = 0; i < n; i++) { nodes[i] = (Node*)malloc(sizeof(Node)); __CPROVER_assume(nodes[i] != NULL); }
  for (size_t i = 0; i < n; i++) nodes[i]->next = (i + 1 < n) ? nodes[i + 1] : NULL;
  UQ q; q._consumer = nodes[0]; q._producer = nodes[n - 1]; q._max_capacity = 0;
  g_node_deletes = 0;
  UQ_dtor(&q);
  __CPROVER_assert(g_node_deletes == n, "C20: every buffer of the queue is released exactly once when the thread context is reclaimed");
}
''')],
    harness='  lem_dtor();', cbmc=['--unwind', '5', '--unwinding-assertions', '--memory-leak-check'],
    bounded=dict(bound='chains of 1..3 buffers (a consumer that lags by more than two buffer switches is not explored)', form='a'),
    dropped=DROPPED + ['Node destructor (releases the bounded queue storage: not modelled, the node is freed as a whole)'], trusted=['operator delete = free'],
    assumes=['harness assumes: chain length within the bound, malloc succeeds'], allow_assume=True, min_obligations=10, no_crosscheck=True)
UNITS.append(uq_dtor)

# the unbounded queue's units underlie C03 / C08 as a whole (same reason as in units/bq.py)
for u_ in UNITS:
    if u_['name'] in ('UQ.handle_full', 'UQ.prepare_write', 'UQ.read_next', 'UQ.prepare_read', 'UQ.empty', 'UQ.finish_write', 'UQ.commit_write', 'UQ.finish_read', 'UQ.commit_read'):
        u_['underlies'] = {'C03', 'C08', 'C06', 'C07', 'C20'}   # C20: 'shrinking loses nothing' is the consumer's switch between buffers (seed C20-B5)
