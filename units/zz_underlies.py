"""Cross-property attribution (loaded last): units whose whole contract underlies further properties.  The properties are not
independent - "flush_log returns only after earlier statements are written" (C06) and "stop loses nothing" (C07) are about the
same pipeline that C03 / C05 describe, and about the same sink flush that C06 describes.  A change to such a shared mechanism
must be reported under every property it breaks, not only under the one the unit was written for.  Obligations that isolate a
known finding stay with the properties they name (vlib/report.py)."""
import importlib, pkgutil, os
UNITS = []
UNDERLIES = {
    # the per-thread pipeline in the backend: read, decode, admit, select, process, write
    'BW.read_decode[bounded]': {'C06', 'C07'}, 'BW.read_decode[unbounded]': {'C06', 'C07'}, 'BW.read_unbounded': {'C06', 'C07'}, 'BW.populate': {'C06', 'C07'}, 'BW.populate_all': {'C06', 'C07'},
    'BW.process_lowest': {'C06', 'C07'}, 'BW.process_event': {'C07'}, 'BW.write_stmt': {'C06', 'C07', 'C12'},   # C12: which pattern a sink's line is formatted with (seed C12-E3 = C16-A5 seen from C12)
    'BW.poll': {'C07'},
    # the sink end of "written and flushed"
    'BW.flush_sinks': {'C07'}, 'BW.collect_sinks': {'C07'}, 'SS.write_log': {'C07'}, 'SS.flush_sink': {'C07'}, 'FS.flush_sink': {'C07'},
    # the record header: what the frontend writes is what the backend reads (a statement attributed to the wrong logger / metadata is not 'delivered once')
    'LG.encode_header': {'C03'}, 'BW.header_slice': {'C03'},
    # the pattern formatter hands the statement's timestamp to the timestamp formatter
    'PF.format': {'C13'},
    # the frontend end: what a completed log call has put into the queue
    'LG.log_statement': {'C03', 'C06', 'C07'},
    # ordering machinery: a flush request is ordered like any statement (C06: "every statement ... whose log call completed before"), and
    # the exit drain processes in the same order (C07).  Seed r6a-3: the batch loop ran past a partly read bounded queue and completed
    # another thread's flush early - BW.has_pending failed, the C06 check stayed green until this attribution existed.
    'BW.has_pending': {'C06', 'C07'}, 'BW.batch[_poll]': {'C06', 'C07'}, 'BW.batch[_exit]': {'C07'}, 'LEM.order': {'C06'},
    # emptiness answers feed the ordering decision (seed r6c-2: UnboundedSPSCQueue::empty() ignoring the next buffer reorders output)
    'BQ.empty': {'C05', 'C06'}, 'UQ.empty': {'C05', 'C06'},
    # nothing pending is discarded: the reclaim predicate, the context cache and the backend buffer underlie "flush returns only after
    # earlier statements are written" and "stop loses nothing ... including statements of threads that already exited" (seed r6d-1)
    'BW.cleanup_pred': {'C06', 'C07'}, 'BW.update_cache_lambda': {'C06', 'C07'}, 'BW.update_cache': {'C06', 'C07'}, 'TCM.register': {'C06', 'C07'}, 'TCM.remove': {'C06', 'C07'},
    'LEM.pipeline': {'C06', 'C07'}, 'BW.queues_empty': {'C06'},
    # a logger freed while statements logged through it are still pending loses them (seed C03-H5)
    'LM.cleanup': {'C03'}, 'BW.cleanup_loggers': {'C03'},
    'TEB.front': {'C06', 'C07'}, 'TEB.pop_front': {'C06', 'C07'}, 'TEB.back': {'C06', 'C07'}, 'TEB.push_back': {'C06', 'C07'}, 'TEB.expand': {'C06', 'C07'},
    'TEB.empty': {'C05', 'C06', 'C07'}, 'TEB.size': {'C05', 'C06', 'C07'}, 'TEB.try_shrink': {'C06', 'C07'},
}


def apply(units):
    names = {u['name']: u for u in units}
    for n, props in UNDERLIES.items():
        if n not in names:
            raise AssertionError('units/zz_underlies.py names a unit that does not exist: %s' % n)
        names[n]['underlies'] = set(names[n].get('underlies', ())) | set(props)
