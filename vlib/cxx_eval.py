"""Evaluate `if constexpr` conditions with g++ itself (DESIGN §2.1): a tiny program against the REAL headers prints
each condition for the unit's instantiation.  No hand-written trait evaluator."""
import os, subprocess, hashlib, json, threading
from .extract import REPO, ExtractError

_cache = {}
_lock = threading.Lock()   # units run in parallel threads and share conditions (same hash -> same files): one evaluation at a time


def evaluator(header, using_lines, scratch):
    if os.environ.get("VERIF_TEST_INTERNAL_ERROR"): raise PermissionError("simulated")
    """returns decide(cond) -> bool for lower.if_constexpr"""
    def decide(cond):
        key = (header, using_lines, cond)
        with _lock:
            return _decide_locked(key, header, using_lines, cond)

    def _decide_locked(key, header, using_lines, cond):
        if key in _cache:
            return _cache[key]
        d = os.path.join(scratch, 'cxx_eval')
        os.makedirs(d, exist_ok=True)
        h = hashlib.sha1(repr(key).encode()).hexdigest()[:12]
        src = os.path.join(d, h + '.cpp')
        exe = os.path.join(d, h)
        with open(src, 'w') as fh:
            fh.write('#include "%s"\n#include <cstdio>\n#include <string>\n#include <string_view>\nnamespace quill { namespace detail { %s\nstatic int verif_eval() { return (int)(%s); } } }\nint main() { std::printf("%%d\\n", quill::detail::verif_eval()); return 0; }\n' % (header, using_lines, cond))
        r = subprocess.run(['g++', '-std=gnu++17', '-DNDEBUG', '-I', os.path.join(REPO, 'include'), src, '-o', exe], capture_output=True, text=True)
        if r.returncode != 0:
            raise ExtractError('g++ could not evaluate the if-constexpr condition %r: %s' % (cond[:80], r.stderr[-400:]))
        out = subprocess.run([exe], capture_output=True, text=True).stdout.strip()
        if out not in ('0', '1'):
            raise ExtractError('unexpected output evaluating %r: %r' % (cond[:80], out))
        _cache[key] = (out == '1')
        return _cache[key]
    return decide
