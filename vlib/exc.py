"""Exception lowering (DESIGN §2.4) as ONE structured pass over the statement tree of a function body.

  throw X{..};                           (already lowered by lower.throws to  { g_exc = EXC_..; return d; } )
  try { S } catch (std::exception const& e) { H1 } catch (...) { H2 }
        ->  { S'  __catch_k: ; if (g_exc == EXC_STD) { g_exc = 0; H1' } else if (g_exc != 0) { g_exc = 0; H2' } if (g_exc) <leave>; }
        where S' = S with `if (g_exc) goto __catch_k;` after every statement that calls something that may throw.
        A handler that is absent in the source is absent in the lowering: an exception nobody catches stays in
        g_exc; after the construct the enclosing action (goto outer catch / return) fires.
  outside try: after each such statement `if (g_exc) return <default>;`
  conditions that call something that may throw:
        if (C) A else B        -> if (C) { CHECK A } else { CHECK B }
        while (C) B            -> while ((C) && !g_exc) B   CHECK
        do B while (C);        -> do B while ((C) && !g_exc);   CHECK
The pass never reorders statements or touches an operator of the source.
"""
import re
from .extract import match, skip_literal, ExtractError


def _skip_ws(s, i):
    n = len(s)
    while i < n and s[i].isspace():
        i += 1
    return i


def _kw(s, i, kw):
    return s.startswith(kw, i) and (i + len(kw) >= len(s) or not (s[i + len(kw)].isalnum() or s[i + len(kw)] == '_')) and (i == 0 or not (s[i - 1].isalnum() or s[i - 1] == '_'))


def parse_stmt(s, i):
    i = _skip_ws(s, i)
    if i >= len(s):
        return None, i
    if s[i] == '{':
        e = match(s, i, '{', '}')
        return ('block', parse_seq(s[i + 1:e])), e + 1
    if _kw(s, i, 'try'):
        j = _skip_ws(s, i + 3)
        if s[j] != '{':
            raise ExtractError('try without block')
        e = match(s, j, '{', '}')
        blk = ('block', parse_seq(s[j + 1:e]))
        k = e + 1
        handlers = []
        while True:
            k2 = _skip_ws(s, k)
            if not _kw(s, k2, 'catch'):
                break
            p = _skip_ws(s, k2 + 5)
            pe = match(s, p, '(', ')')
            decl = s[p + 1:pe].strip()
            b0 = _skip_ws(s, pe + 1)
            be = match(s, b0, '{', '}')
            handlers.append((decl, ('block', parse_seq(s[b0 + 1:be]))))
            k = be + 1
        if not handlers:
            raise ExtractError('try without catch')
        return ('try', blk, handlers), k
    if _kw(s, i, 'if'):
        p = _skip_ws(s, i + 2)
        if s.startswith('constexpr', p):
            raise ExtractError('if constexpr reached the exception pass')
        pe = match(s, p, '(', ')')
        cond = s[p + 1:pe]
        then, k = parse_stmt(s, pe + 1)
        k2 = _skip_ws(s, k)
        els = None
        if _kw(s, k2, 'else'):
            els, k = parse_stmt(s, k2 + 4)
        return ('if', cond, then, els), k
    if _kw(s, i, 'while'):
        p = _skip_ws(s, i + 5)
        pe = match(s, p, '(', ')')
        body, k = parse_stmt(s, pe + 1)
        return ('while', s[p + 1:pe], body), k
    if _kw(s, i, 'for'):
        p = _skip_ws(s, i + 3)
        pe = match(s, p, '(', ')')
        body, k = parse_stmt(s, pe + 1)
        return ('for', s[p + 1:pe], body), k
    if _kw(s, i, 'do'):
        body, k = parse_stmt(s, i + 2)
        k = _skip_ws(s, k)
        if not _kw(s, k, 'while'):
            raise ExtractError('do without while')
        p = _skip_ws(s, k + 5)
        pe = match(s, p, '(', ')')
        k = _skip_ws(s, pe + 1)
        if s[k] != ';':
            raise ExtractError('do-while without ;')
        return ('do', body, s[p + 1:pe]), k + 1
    # simple statement up to ';' at depth 0 (parens/braces/literals skipped)
    j = i
    n = len(s)
    while j < n:
        e = skip_literal(s, j)
        if e >= 0:
            j = e + 1
            continue
        c = s[j]
        if c == '(':
            j = match(s, j, '(', ')') + 1
            continue
        if c == '{':
            j = match(s, j, '{', '}') + 1
            continue
        if c == '[':
            j = match(s, j, '[', ']') + 1
            continue
        if c == ';':
            return ('simple', s[i:j + 1]), j + 1
        j += 1
    rest = s[i:].strip()
    if rest:
        raise ExtractError('statement without terminator: %r' % rest[:60])
    return None, n


def parse_seq(s):
    out = []
    i = 0
    while True:
        node, i = parse_stmt(s, i)
        if node is None:
            break
        out.append(node)
    return out


class Lowerer:
    def __init__(self, ret_default, may_throw, st):
        self.rd = ret_default
        self.may = may_throw
        self.st = st
        self.k = 0

    def throws(self, text):
        if 'g_exc = EXC_' in text:
            return False
        if self.may is None:
            return bool(re.search(r'[A-Za-z_]\w*\s*\(', re.sub(r'\b(if|while|for|switch|return|sizeof)\s*\(', '(', text)))
        return any(re.search(r'\b%s\s*\(' % re.escape(m), text) for m in self.may)

    def gen(self, node, action):
        t = node[0]
        if t == 'block':
            return '{' + ''.join(self.gen(x, action) for x in node[1]) + '}'
        if t == 'simple':
            txt = node[1]
            if txt.strip() == '__THROW__;':
                return ' ' + action
            if self.throws(txt) and not re.match(r'\s*return\b', txt):
                self.st['exc-check'] = self.st.get('exc-check', 0) + 1
                return '\n' + txt + ' if (g_exc) ' + action
            return '\n' + txt
        if t == 'if':
            _, cond, then, els = node
            if self.throws(cond):
                self.st['exc-check'] = self.st.get('exc-check', 0) + 1
                chk = ' if (g_exc) ' + action
                return '\nif (' + cond + ') {' + chk + self.gen(then, action) + '} else {' + chk + (self.gen(els, action) if els else '') + '}'
            return '\nif (' + cond + ') ' + self.gen(then, action) + ((' else ' + self.gen(els, action)) if els else '')
        if t == 'while':
            _, cond, body = node
            if self.throws(cond):
                self.st['exc-check'] = self.st.get('exc-check', 0) + 1
                return '\nwhile ((' + cond + ') && !g_exc) ' + self.gen(body, action) + ' if (g_exc) ' + action
            return '\nwhile (' + cond + ') ' + self.gen(body, action)
        if t == 'for':
            _, hdr, body = node
            return '\nfor (' + hdr + ') ' + self.gen(body, action)
        if t == 'do':
            _, body, cond = node
            if self.throws(cond):
                self.st['exc-check'] = self.st.get('exc-check', 0) + 1
                return '\ndo ' + self.gen(body, action) + ' while ((' + cond + ') && !g_exc); if (g_exc) ' + action
            return '\ndo ' + self.gen(body, action) + ' while (' + cond + ');'
        if t == 'try':
            _, blk, handlers = node
            self.k += 1
            k = self.k
            self.st['try'] = self.st.get('try', 0) + 1
            lab, end = '__catch_%d' % k, '__endtry_%d' % k
            # normal completion falls through the handler tests with g_exc == 0 (no jump over them: a forward goto to a label at the
            # end of a while body gives the loop a second back edge, which DFCC's loop-contract instrumentation mishandles)
            out = '\n{ ' + self.gen(blk, 'goto %s;' % lab) + ' %s: ;' % lab
            first = True
            for decl, hb in handlers:
                if decl == '...':
                    cond = 'g_exc != 0'
                    self.st['catch-all'] = self.st.get('catch-all', 0) + 1
                elif re.search(r'\bstd::exception\b|\bQuillError\b|Error\b', decl):
                    cond = 'g_exc == EXC_STD'
                    self.st['catch-std'] = self.st.get('catch-std', 0) + 1
                else:
                    raise ExtractError('unknown catch declaration %r' % decl)
                out += '\n%sif (%s) { g_exc = 0; %s }' % ('' if first else 'else ', cond, self.gen(hb, action))
                first = False
            # an exception no handler took stays in g_exc: leave through the enclosing action
            # the end label must not be the last instruction of an enclosing loop body (DFCC's loop-step cut would be jumped over)
            # (g_exc is 0 whenever the end label is reached: a real, semantically void instruction for the label to sit on)
            out += '\n if (g_exc) %s\n }' % action
            return out
        raise ExtractError('unknown node ' + t)


def lower_exceptions(body, ret_default, st, may_throw=None):
    b = body.strip()
    if not (b.startswith('{') and b.endswith('}')):
        raise ExtractError('function body is not a block')
    seq = parse_seq(b[1:-1])
    lw = Lowerer(ret_default, may_throw, st)
    action = 'return%s;' % ((' ' + ret_default) if ret_default else '')
    return '{' + ''.join(lw.gen(x, action) for x in seq) + '\n}'
