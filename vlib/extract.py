"""Extraction of the real quill source text.

  preprocess(): run the real preprocessor (g++ -E -P) over a header of /repo with the defines of the pinned
                test build, with every <system> header and quill's bundled fmt replaced by empty files, so the
                output is exactly what the compiler sees of quill's own code.
  cut_class / members / find_method / find_function: literal-aware cutting of a class body, its data-member
                declarations and one method body by name + brace matching.

Every failure here raises ExtractError -> the check exits 2 (undecided), never 1.
"""
import os, re, subprocess, hashlib

REPO = os.environ.get('VERIF_REPO', '/repo')
INC = os.path.join(REPO, 'include')


class ExtractError(Exception):
    pass


# ---------------------------------------------------------------- stub headers + preprocessing
import threading
_stub_cache = {}
_stub_lock = threading.Lock()
_pp_lock = threading.Lock()


def make_stub_dirs(scratch):
    """(re)create the stub include directories from the include lines of /repo's current tree"""
    with _stub_lock:      # units run in parallel threads: the stub directory must be complete before anyone preprocesses
        return _make_stub_dirs(scratch)


def _make_stub_dirs(scratch):
    if scratch in _stub_cache:
        return _stub_cache[scratch]
    sysd = os.path.join(scratch, 'stub_sys')
    ovr = os.path.join(scratch, 'stub_ovr')
    os.makedirs(sysd, exist_ok=True)
    os.makedirs(ovr, exist_ok=True)
    names = set()
    for root, _, files in os.walk(os.path.join(INC, 'quill')):
        for f in files:
            p = os.path.join(root, f)
            try:
                txt = open(p, errors='replace').read()
            except OSError:
                continue
            if '/bundled/' in p:
                rel = os.path.relpath(p, INC)
                q = os.path.join(ovr, rel)
                os.makedirs(os.path.dirname(q), exist_ok=True)
                open(q, 'w').write('')
                continue
            for m in re.finditer(r'#\s*include\s*<([^>]+)>', txt):
                names.add(m.group(1))
    for n in names:
        q = os.path.join(sysd, n)
        os.makedirs(os.path.dirname(q), exist_ok=True)
        with open(q, 'w') as fh:
            if n in ('cassert', 'assert.h'):
                fh.write('#ifdef NDEBUG\n#define assert(x) ((void)0)\n#else\n#define assert(x) VERIF_ASSERT(x)\n#endif\n')
    _stub_cache[scratch] = (sysd, ovr)
    return sysd, ovr


_pp_cache = {}


def preprocess(header, scratch, ndebug=True, defs=(), text=None):
    """header: path relative to /repo/include (or None with text=... for a synthetic translation unit)."""
    key = (header, scratch, ndebug, tuple(defs), text)
    if key in _pp_cache:
        return _pp_cache[key]
    sysd, ovr = make_stub_dirs(scratch)
    cmd = ['g++', '-E', '-P', '-std=gnu++17', '-nostdinc', '-I', ovr, '-isystem', sysd, '-I', INC]
    if ndebug:
        cmd.append('-DNDEBUG')
    for d in defs:
        cmd.append('-D' + d)
    if text is None:
        src = os.path.join(INC, header)
        if not os.path.exists(src):
            raise ExtractError('header %s does not exist' % header)
        cmd.append(src)
        r = subprocess.run(cmd, capture_output=True, text=True)
    else:
        cmd += ['-x', 'c++', '-']
        r = subprocess.run(cmd, input=text, capture_output=True, text=True)
    if r.returncode != 0:
        raise ExtractError('preprocessor failed on %s: %s' % (header, r.stderr[-800:]))
    _pp_cache[key] = r.stdout
    return r.stdout


def source_line(header, pattern):
    """first line number in the original header matching regex `pattern` (for the evidence only)"""
    try:
        for i, l in enumerate(open(os.path.join(INC, header), errors='replace'), 1):
            if re.search(pattern, l):
                return i
    except OSError:
        pass
    return 0


# ---------------------------------------------------------------- literal-aware scanning
def skip_literal(s, i):
    """if s[i] starts a string / char / raw-string literal return the index of its last char, else -1"""
    c = s[i]
    if c == '"':
        if i > 0 and s[i - 1] == 'R' and (i < 2 or not (s[i - 2].isalnum() or s[i - 2] == '_')):
            j = s.index('(', i)
            delim = s[i + 1:j]
            k = s.index(')' + delim + '"', j)
            return k + len(delim) + 1
        j = i + 1
        while s[j] != '"':
            if s[j] == '\\':
                j += 1
            j += 1
        return j
    if c == "'":
        if i > 0 and s[i - 1].isalnum() and i + 1 < len(s) and s[i + 1].isalnum() and i > 1 and s[i - 2:i].strip().isdigit():
            return -1  # digit separator 1'000
        if i > 0 and s[i - 1].isdigit() and i + 1 < len(s) and s[i + 1].isdigit():
            return -1
        j = i + 1
        while s[j] != "'":
            if s[j] == '\\':
                j += 1
            j += 1
        return j
    return -1


def match(s, i, o, c):
    """s[i] == o (or before it); return index of the matching c"""
    d = 0
    n = len(s)
    while i < n:
        e = skip_literal(s, i)
        if e >= 0:
            i = e + 1
            continue
        ch = s[i]
        if ch == o:
            d += 1
        elif ch == c:
            d -= 1
            if d == 0:
                return i
        i += 1
    raise ExtractError('unbalanced %s%s' % (o, c))


def match_angle(s, i):
    """s[i]=='<' of a template argument list; return index of matching '>' (handles nesting, parens)"""
    d = 0
    n = len(s)
    while i < n:
        ch = s[i]
        if ch == '(':
            i = match(s, i, '(', ')')
        elif ch == '<':
            d += 1
        elif ch == '>':
            d -= 1
            if d == 0:
                return i
        i += 1
    raise ExtractError('unbalanced <>')


def cut_class(src, name):
    m = re.search(r'\b(class|struct)\s+' + re.escape(name) + r'\b(?!\s*;)[^;{(]*\{', src)
    if not m:
        raise ExtractError('class %s not found' % name)
    return src[m.end():match(src, m.end() - 1, '{', '}')]


def cut_namespace_scope(src):
    return src


def chunks(body):
    """top-level declarations of a class body (or namespace scope): 'xxx;' or 'xxx {...}'"""
    out = []
    i = 0
    start = 0
    n = len(body)
    while i < n:
        e = skip_literal(body, i)
        if e >= 0:
            i = e + 1
            continue
        ch = body[i]
        if ch == '(':
            i = match(body, i, '(', ')')
        elif ch == '{':
            e = match(body, i, '{', '}')
            j = e + 1
            while j < n and body[j].isspace():
                j += 1
            head = body[start:i]
            if j < n and body[j] == ';':
                out.append(body[start:j + 1])
                start = j + 1
                i = j
            elif j < n and body[j] in ',{' and re.search(r'\)\s*(noexcept\s*)?:', head):  # ctor mem-initialiser x{..}, ... {
                i = e
            elif re.match(r'\s*(inline\s+)?namespace\b', head) or re.match(r'\s*extern\s+"C"', head):
                # descend into namespaces: treat the brace as transparent
                out.extend(chunks(body[i + 1:e]))
                start = e + 1
                i = e
            elif '(' not in head and re.search(r'\b(struct|class|union|enum)\b', head):
                # type definition, possibly with declarators after the closing brace:  union U { .. } member;
                j2 = body.find(';', e)
                if j2 < 0:
                    j2 = e
                out.append(body[start:j2 + 1])
                start = j2 + 1
                i = j2
            elif '(' in head:
                out.append(body[start:e + 1])
                start = e + 1
                i = e
            else:
                i = e
        elif ch == ';':
            out.append(body[start:i + 1])
            start = i + 1
        i += 1
    return [c.strip() for c in out if c.strip()]


def members(body):
    """data-member declarations of a class body: list of dict(type, name, atomic, init)"""
    F = []
    for c in chunks(body):
        c = re.sub(r'^((public|private|protected)\s*:\s*)+', '', c).strip()
        c = re.sub(r'alignas\s*\([^)]*\)', '', c).strip()
        mi = re.match(r'^(union|struct)\s+(\w+)\s*\{.*\}\s*(\w+)\s*;$', c, re.S)
        if mi:      # nested type defined together with a member of that type
            F.append(dict(type=mi.group(2), name=mi.group(3), atomic=False, init=None, const=False))
            continue
        if c.startswith(('using', 'friend', 'template', 'static', 'enum', 'struct', 'class', 'union', 'typedef')):
            continue
        if re.search(r'\boperator\b|=\s*(delete|default)\s*;', c):
            continue
        head = c.split('{')[0].split('=')[0]
        if '(' in head:
            continue
        c = re.sub(r'\bmutable\b', '', c)
        m = re.match(r'\s*(.+?)\s*\b(\w+)\s*(\{.*\}|=[^;]*)?\s*;\s*$', c, re.S)
        if not m:
            continue
        ty, nm, init = ' '.join(m.group(1).split()), m.group(2), m.group(3)
        atomic = False
        ma = re.match(r'std::atomic\s*<(.+)>$', ty)
        if ma:
            atomic = True
            ty = ma.group(1).strip()
        F.append(dict(type=re.sub(r'\bconst\b', '', ty).strip(), name=nm, atomic=atomic, init=init, const=bool(re.search(r'\bconst\b', ty))))
    return F


def _method_hits(body, name):
    hits = []
    for c in chunks(body):
        if '{' not in c:
            continue
        for m in re.finditer(r'(?<![\w~])' + re.escape(name) + r'\s*\(', c):
            if c[:m.start()].count('{') > 0:
                break
            pe = match(c, m.end() - 1, '(', ')')
            rest = c[pe + 1:]
            k = rest.find('{')
            q = rest[:k]
            qq = re.sub(r'\b(const|noexcept|override|final)\b|\s', '', q)
            qq = re.sub(r'__attribute__\(\(.*?\)\)', '', qq)
            qq = re.sub(r'->[\w:<>,\*&]+$', '', qq)
            if qq and not q.strip().startswith(':') and not re.match(r'(const|noexcept|\s)*:', q):
                break
            init = ''
            if ':' in q:
                # constructor: the body starts after the mem-initialiser list
                k2 = _ctor_body_start(rest)
                init = rest[rest.index(':') + 1:k2]
                hits.append(dict(ret=c[:m.start()], params=c[m.end():pe], quals=q, init=init, body=rest[k2:]))
            else:
                hits.append(dict(ret=c[:m.start()], params=c[m.end():pe], quals=q, init='', body=rest[k:]))
            break
    return hits


def _ctor_body_start(rest):
    """rest = ') : a(x), b{y}, c(z) { body }' -> index of the '{' that opens the body"""
    i = rest.index(':') + 1
    n = len(rest)
    while i < n:
        while rest[i].isspace():
            i += 1
        if rest[i] == '{':
            return i
        # an initialiser: name [<..>] ( ... ) or { ... }
        m = re.match(r'[\w:]+\s*(<[^(){}]*>)?\s*', rest[i:])
        if not m:
            raise ExtractError('cannot parse mem-initialiser list near %r' % rest[i:i + 40])
        i += m.end()
        if rest[i] == '(':
            i = match(rest, i, '(', ')') + 1
        elif rest[i] == '{':
            i = match(rest, i, '{', '}') + 1
        else:
            raise ExtractError('cannot parse mem-initialiser near %r' % rest[i:i + 40])
        while rest[i].isspace():
            i += 1
        if rest[i] == ',':
            i += 1
    raise ExtractError('constructor body not found')


def find_method(body, name, nth=0, expect=None):
    hits = _method_hits(body, name)
    if expect is not None and len(hits) != expect:
        raise ExtractError('method %s: expected %d overloads, found %d' % (name, expect, len(hits)))
    if len(hits) <= nth:
        raise ExtractError('method %s[%d] not found' % (name, nth))
    return hits[nth]


def find_function(src, name, nth=0):
    """free (possibly template) function at namespace scope of the preprocessed text"""
    hits = _method_hits(src, name)
    if len(hits) <= nth:
        raise ExtractError('function %s[%d] not found' % (name, nth))
    return hits[nth]


def param_names(params):
    """names of the parameters in a C++ parameter list (best effort: last identifier of each top-level item)"""
    out = []
    d = 0
    cur = ''
    for ch in params:
        if ch in '(<[{':
            d += 1
        elif ch in ')>]}':
            d -= 1
        if ch == ',' and d == 0:
            out.append(cur)
            cur = ''
        else:
            cur += ch
    if cur.strip():
        out.append(cur)
    names = []
    for p in out:
        p = p.split('=')[0]
        p = re.sub(r'__attribute__\s*\(\(.*?\)\)', '', p)
        p = re.sub(r'\[\[[^\]]*\]\]', '', p)
        ids = re.findall(r'[A-Za-z_]\w*', p)
        names.append(ids[-1] if ids else '')
    return names


def sha(text):
    return hashlib.sha256(text.encode()).hexdigest()[:16]
